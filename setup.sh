#!/bin/sh
# Build everything the checks need from files on disk only (offline).
set -e
cd "$(dirname "$0")"
export GOFLAGS=-mod=mod GOPROXY=off GOSUMDB=off GOTOOLCHAIN=local
cp /repo/go.sum harness/go.sum
(cd harness && go1.26.8 vet -tags verif . >/dev/null 2>&1 || true; go1.26.8 test -c -tags verif -o /dev/null .)
for f in specs/*/*.tla; do
  d=$(dirname "$f"); (cd "$d" && tla-sany "$(basename "$f")" >/dev/null 2>&1) || { echo "SANY failed: $f"; exit 1; }
done
echo setup ok
