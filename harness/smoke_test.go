package harness

import (
	"testing"

	"github.com/pion/ice/v4"
)

func TestSmoke(t *testing.T) {
	a, err := ice.NewAgentWithOptions()
	if err != nil {
		t.Fatal(err)
	}
	s := a.VerifSnapshot()
	t.Log(s.Role, s.Conn, s.OK)
	a.Close()
}
