// Package pure holds the differential drivers of the pure-function checks (C16, C17, C19):
// every driver reads the cases TLC wrote, computes the real value through pion/ice and writes ndjson.
package pure

import (
	"bufio"
	"encoding/json"
	"os"
	"runtime"
	"sync"
	"testing"

	"github.com/pion/logging"
)

func loadJob(t *testing.T, v any) {
	t.Helper()
	p := os.Getenv("VERIF_JOB")
	if p == "" {
		t.Skip("VERIF_JOB not set")
	}
	b, err := os.ReadFile(p) //nolint:gosec
	if err != nil {
		t.Fatal(err)
	}
	if err := json.Unmarshal(b, v); err != nil {
		t.Fatal(err)
	}
}

func readLines(t *testing.T, path string) [][]byte {
	t.Helper()
	f, err := os.Open(path) //nolint:gosec
	if err != nil {
		t.Fatal(err)
	}
	defer f.Close() //nolint:errcheck
	sc := bufio.NewScanner(f)
	sc.Buffer(make([]byte, 1<<20), 1<<28)
	var out [][]byte
	for sc.Scan() {
		if len(sc.Bytes()) > 0 {
			out = append(out, append([]byte(nil), sc.Bytes()...))
		}
	}
	if err := sc.Err(); err != nil {
		t.Fatal(err)
	}

	return out
}

// mapLines evaluates f on every line in parallel and writes the results in order.
func mapLines(t *testing.T, lines [][]byte, out string, f func(i int, line []byte) any) {
	t.Helper()
	res := make([][]byte, len(lines))
	var wg sync.WaitGroup
	sem := make(chan struct{}, runtime.GOMAXPROCS(0))
	for i := range lines {
		wg.Add(1)
		sem <- struct{}{}
		go func(i int) {
			defer func() { <-sem; wg.Done() }()
			b, err := json.Marshal(f(i, lines[i]))
			if err != nil {
				panic(err)
			}
			res[i] = b
		}(i)
	}
	wg.Wait()
	w, err := os.Create(out) //nolint:gosec
	if err != nil {
		t.Fatal(err)
	}
	bw := bufio.NewWriterSize(w, 1<<20)
	for _, b := range res {
		bw.Write(b)        //nolint:errcheck,gosec
		bw.WriteByte('\n') //nolint:errcheck,gosec
	}
	if err := bw.Flush(); err != nil {
		t.Fatal(err)
	}
	w.Close() //nolint:errcheck,gosec
}

func quietLogs() logging.LoggerFactory {
	lf := logging.NewDefaultLoggerFactory()
	lf.DefaultLogLevel = logging.LogLevelDisabled

	return lf
}
