package pure

import (
	"encoding/json"
	"fmt"
	"hash/crc32"
	"sync"
	"testing"

	"github.com/pion/ice/v4"
)

type prCombo struct {
	Typ   string `json:"typ"`
	Net   string `json:"net"`
	TT    string `json:"tt"`
	Proto string `json:"proto"`
	Comp  int    `json:"comp"`
}

func prAddr(net, addr string) string {
	if addr != "" {
		return addr
	}

	return "10.0.0.1"
}

// prCandidate builds a candidate through the public constructors only.
func prCandidate(x prCombo, addr string, port int, prio uint32) (ice.Candidate, error) {
	comp := uint16(x.Comp) //nolint:gosec
	var c ice.Candidate
	var err error
	switch x.Typ {
	case "host":
		c, err = ice.NewCandidateHost(&ice.CandidateHostConfig{Network: x.Net, Address: prAddr(x.Net, addr), Port: port, Component: comp,
			Priority: prio, TCPType: ice.NewTCPType(x.TT)})
	case "srflx":
		c, err = ice.NewCandidateServerReflexive(&ice.CandidateServerReflexiveConfig{Network: x.Net, Address: prAddr(x.Net, addr), Port: port,
			Component: comp, Priority: prio, RelAddr: "192.168.0.9", RelPort: 4000})
	case "prflx":
		c, err = ice.NewCandidatePeerReflexive(&ice.CandidatePeerReflexiveConfig{Network: x.Net, Address: prAddr(x.Net, addr), Port: port,
			Component: comp, Priority: prio, RelAddr: "192.168.0.9", RelPort: 4000})
	case "relay":
		c, err = ice.NewCandidateRelay(&ice.CandidateRelayConfig{Network: x.Net, Address: prAddr(x.Net, addr), Port: port, Component: comp,
			Priority: prio, RelAddr: "192.168.0.9", RelPort: 4000, RelayProtocol: x.Proto})
	default:
		return nil, fmt.Errorf("type %q", x.Typ) //nolint:err113
	}
	if err != nil {
		return nil, err
	}
	if x.TT != "" && x.Typ != "host" {
		if err = c.AddExtension(ice.CandidateExtension{Key: "tcptype", Value: x.TT}); err != nil {
			return nil, err
		}
	}

	return c, nil
}

func le(v uint64, n int) []int {
	out := make([]int, n)
	for i := range out {
		out[i] = int(v >> (8 * i) & 255) //nolint:gosec
	}

	return out
}

func fromLE(d []int) uint64 {
	var v uint64
	for i, x := range d {
		v |= uint64(x) << (8 * i) //nolint:gosec
	}

	return v
}

func TestPriority(t *testing.T) {
	var job struct{ Combos, Exp, Out string }
	loadJob(t, &job)
	var combos []prCombo
	for _, l := range readLines(t, job.Combos) {
		var x prCombo
		if err := json.Unmarshal(l, &x); err != nil {
			t.Fatal(err)
		}
		combos = append(combos, x)
	}
	lf := quietLogs()
	mapLines(t, readLines(t, job.Exp), job.Out, func(_ int, line []byte) any {
		var e struct {
			Off int `json:"off"`
		}
		if err := json.Unmarshal(line, &e); err != nil {
			panic(err)
		}
		ag, err := ice.NewAgentWithOptions(ice.WithLoggerFactory(lf), ice.WithMulticastDNSMode(ice.MulticastDNSModeDisabled),
			ice.WithTCPPriorityOffset(uint16(e.Off))) //nolint:gosec
		if err != nil {
			panic(err)
		}
		defer ag.Close() //nolint:errcheck
		vals := make([][]int, len(combos))
		for j, x := range combos {
			c, err := prCandidate(x, "", 5000, 0)
			if err != nil {
				panic(err)
			}
			if !ice.VerifAttachCandidate(ag, c) {
				panic("attach")
			}
			pc, ok := c.(interface {
				TypePreference() uint16
				LocalPreference() uint16
			})
			if !ok {
				panic("no preference getters")
			}
			vals[j] = append([]int{int(pc.TypePreference()), int(pc.LocalPreference())}, le(uint64(c.Priority()), 4)...)
		}

		return map[string]any{"off": e.Off, "vals": vals}
	})
}

func TestPairPriority(t *testing.T) {
	var job struct{ Pairs, Out string }
	loadJob(t, &job)
	mapLines(t, readLines(t, job.Pairs), job.Out, func(_ int, line []byte) any {
		var p struct {
			G []int `json:"g"`
			D []int `json:"d"`
		}
		if err := json.Unmarshal(line, &p); err != nil {
			panic(err)
		}
		mk := func(addr string, prio uint64) ice.Candidate {
			c, err := prCandidate(prCombo{Typ: "host", Net: "udp", Comp: 1}, addr, 5000, uint32(prio)) //nolint:gosec
			if err != nil {
				panic(err)
			}
			if uint64(c.Priority()) != prio {
				panic("priority override not taken")
			}

			return c
		}
		g, d := fromLE(p.G), fromLE(p.D)
		// agent A is controlling and owns the candidate with priority g; agent B is controlled and owns d
		a := ice.VerifPairPriority(mk("10.0.0.1", g), mk("10.0.0.2", d), true)
		b := ice.VerifPairPriority(mk("10.0.0.2", d), mk("10.0.0.1", g), false)

		return map[string]any{"a": le(a, 8), "b": le(b, 8)}
	})
}

func TestFoundation(t *testing.T) {
	var job struct{ Found, Out string }
	loadJob(t, &job)
	mapLines(t, readLines(t, job.Found), job.Out, func(_ int, line []byte) any {
		var f struct {
			Typ, Addr, Net, TT string
			Port, Comp         int
		}
		if err := json.Unmarshal(line, &f); err != nil {
			panic(err)
		}
		tt := f.TT // "" on tcp: a TCP candidate without a direction
		c, err := prCandidate(prCombo{Typ: f.Typ, Net: f.Net, TT: tt, Proto: "udp", Comp: f.Comp}, f.Addr, f.Port, 0)
		if err != nil {
			panic(err)
		}
		// what the foundation hashes according to its doc: type, address, network type; used only to excuse genuine CRC-32 collisions
		key := c.Type().String() + f.Addr + c.NetworkType().String()

		return map[string]any{"f": c.Foundation(), "crc": fmt.Sprintf("%d", crc32.ChecksumIEEE([]byte(key))), "nt": c.NetworkType().String()}
	})
}

// TestPriorityObj replays runs of PriorityObj on ONE real candidate object each: construct, then SetComponent / attach steps,
// reading TypePreference, LocalPreference, Priority and Component after the construction and after every step.
func TestPriorityObj(t *testing.T) {
	var job struct{ Runs, Out string }
	loadJob(t, &job)
	lf := quietLogs()
	var mu sync.Mutex
	agents := map[int]*ice.Agent{}
	defer func() {
		for _, ag := range agents {
			ag.Close() //nolint:errcheck,gosec
		}
	}()
	agentFor := func(off int) *ice.Agent {
		mu.Lock()
		defer mu.Unlock()
		if ag, ok := agents[off]; ok {
			return ag
		}
		ag, err := ice.NewAgentWithOptions(ice.WithLoggerFactory(lf), ice.WithMulticastDNSMode(ice.MulticastDNSModeDisabled),
			ice.WithTCPPriorityOffset(uint16(off))) //nolint:gosec
		if err != nil {
			panic(err)
		}
		agents[off] = ag

		return ag
	}
	mapLines(t, readLines(t, job.Runs), job.Out, func(_ int, line []byte) any {
		var r struct {
			Shape prCombo `json:"shape"`
			Ops   []struct {
				Op string `json:"op"`
				V  int    `json:"v"`
			} `json:"ops"`
		}
		if err := json.Unmarshal(line, &r); err != nil {
			panic(err)
		}
		r.Shape.Comp = 1
		c, err := prCandidate(r.Shape, "", 5000, 0)
		if err != nil {
			panic(err)
		}
		pc, ok := c.(interface {
			TypePreference() uint16
			LocalPreference() uint16
			SetComponent(uint16)
		})
		if !ok {
			panic("no preference getters")
		}
		read := func() []int {
			v := append([]int{int(pc.TypePreference()), int(pc.LocalPreference())}, le(uint64(c.Priority()), 4)...)

			return append(v, int(c.Component()))
		}
		reads := [][]int{read()}
		for _, o := range r.Ops {
			switch o.Op {
			case "comp":
				pc.SetComponent(uint16(o.V)) //nolint:gosec
			case "attach":
				if !ice.VerifAttachCandidate(agentFor(o.V), c) {
					panic("attach")
				}
			default:
				panic(o.Op)
			}
			reads = append(reads, read())
		}

		return map[string]any{"reads": reads}
	})
}
