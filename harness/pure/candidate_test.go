package pure

import (
	"encoding/json"
	"fmt"
	"strings"
	"testing"

	"github.com/pion/ice/v4"
)

type cdExt struct {
	K string `json:"k"`
	V string `json:"v"`
}

type cdRel struct {
	Addr string `json:"addr"`
	Port int    `json:"port"`
}

type cdCand struct {
	Typ     string  `json:"typ"`
	Net     string  `json:"net"`
	TCPType string  `json:"tcptype"`
	Addr    string  `json:"addr"`
	Port    int     `json:"port"`
	Comp    int     `json:"comp"`
	Rel     cdRel   `json:"rel"`
	Ext     []cdExt `json:"ext"`
}

var (
	cdReal = strings.NewReplacer("<eacute>", "é", "<euro>", "€", "<ff>", "\xff", "<nbsp>", "\u00a0", "<ht>", "\t", "<nel>", "\u0085")
	cdSym  = strings.NewReplacer("é", "<eacute>", "€", "<euro>", "\xff", "<ff>", "\u00a0", "<nbsp>", "\t", "<ht>", "\u0085", "<nel>")
)

// cdBuild constructs the candidate through the public constructors and AddExtension.
func cdBuild(x cdCand) (ice.Candidate, error) {
	comp := uint16(x.Comp) //nolint:gosec
	var c ice.Candidate
	var err error
	switch x.Typ {
	case "host":
		c, err = ice.NewCandidateHost(&ice.CandidateHostConfig{Network: x.Net, Address: x.Addr, Port: x.Port, Component: comp, TCPType: ice.NewTCPType(x.TCPType)})
	case "srflx":
		c, err = ice.NewCandidateServerReflexive(&ice.CandidateServerReflexiveConfig{Network: x.Net, Address: x.Addr, Port: x.Port, Component: comp,
			RelAddr: x.Rel.Addr, RelPort: x.Rel.Port})
	case "prflx":
		c, err = ice.NewCandidatePeerReflexive(&ice.CandidatePeerReflexiveConfig{Network: x.Net, Address: x.Addr, Port: x.Port, Component: comp,
			RelAddr: x.Rel.Addr, RelPort: x.Rel.Port})
	case "relay":
		c, err = ice.NewCandidateRelay(&ice.CandidateRelayConfig{Network: x.Net, Address: x.Addr, Port: x.Port, Component: comp,
			RelAddr: x.Rel.Addr, RelPort: x.Rel.Port})
	default:
		err = fmt.Errorf("type %q", x.Typ) //nolint:err113
	}
	if err != nil {
		return nil, err
	}
	// AddExtension replaces the value of a key that is already present; a list with a repeated key only comes into being by
	// parsing (the parser keeps every occurrence), so such a candidate is built from the text of the extension-less one.
	seen := map[string]bool{}
	for _, e := range x.Ext {
		if seen[e.K] {
			text := c.Marshal()
			for _, e2 := range x.Ext {
				text += " " + cdReal.Replace(e2.K) + " " + cdReal.Replace(e2.V)
			}

			return ice.UnmarshalCandidate(text)
		}
		seen[e.K] = true
	}
	for _, e := range x.Ext {
		if err = c.AddExtension(ice.CandidateExtension{Key: cdReal.Replace(e.K), Value: cdReal.Replace(e.V)}); err != nil {
			return nil, err
		}
	}

	return c, nil
}

// cdGetters is the abstract view of a real candidate (what the public getters say).
func cdGetters(c ice.Candidate) cdCand {
	g := cdCand{Typ: c.Type().String(), Net: c.NetworkType().NetworkShort(), TCPType: c.TCPType().String(), Addr: c.Address(), Port: c.Port(),
		Comp: int(c.Component()), Ext: []cdExt{}}
	if r := c.RelatedAddress(); r != nil {
		g.Rel = cdRel{Addr: r.Address, Port: r.Port}
	}
	for _, e := range c.Extensions() {
		if e.Key == "tcptype" {
			continue
		}
		g.Ext = append(g.Ext, cdExt{K: cdSym.Replace(e.Key), V: cdSym.Replace(e.Value)})
	}

	return g
}

type cdReal1 struct {
	Built     bool   `json:"built"`
	Msg       string `json:"msg"`
	Text      string `json:"text"`
	SelfEq    bool   `json:"selfEq"`
	SelfDeq   bool   `json:"selfDeq"`
	RtOK      bool   `json:"rtOK"`
	Rt        cdCand `json:"rt"`
	RtEq      bool   `json:"rtEq"`
	RtEqRev   bool   `json:"rtEqRev"`
	RtDeq     bool   `json:"rtDeq"`
	RtDeqRev  bool   `json:"rtDeqRev"`
	FoundSame bool   `json:"foundSame"`
	PrioSame  bool   `json:"prioSame"`
	Idem      bool   `json:"idem"`
	Panic     bool   `json:"panic"`
}

func TestCandidates(t *testing.T) {
	var job struct {
		Cands, Out, PairOut string
		Subset              []int // 0-based indices of the candidates whose ordered pairs are compared
	}
	loadJob(t, &job)
	lines := readLines(t, job.Cands)
	mapLines(t, lines, job.Out, func(_ int, line []byte) (res any) {
		var x cdCand
		if err := json.Unmarshal(line, &x); err != nil {
			panic(err)
		}
		r := cdReal1{Rt: cdCand{Ext: []cdExt{}}}
		defer func() {
			if p := recover(); p != nil {
				r.Panic, r.Msg = true, fmt.Sprint(p)
				res = r
			}
		}()
		c, err := cdBuild(x)
		if err != nil {
			r.Msg = err.Error()

			return r
		}
		r.Built, r.Text = true, cdSym.Replace(c.Marshal())
		r.SelfEq, r.SelfDeq = c.Equal(c), c.DeepEqual(c)
		rt, err := ice.UnmarshalCandidate(c.Marshal())
		if err != nil {
			r.Msg = cdSym.Replace(err.Error())

			return r
		}
		r.RtOK, r.Rt = true, cdGetters(rt)
		r.RtEq, r.RtEqRev, r.RtDeq, r.RtDeqRev = c.Equal(rt), rt.Equal(c), c.DeepEqual(rt), rt.DeepEqual(c)
		r.FoundSame, r.PrioSame = rt.Foundation() == c.Foundation(), rt.Priority() == c.Priority()
		r.Idem = rt.Marshal() == c.Marshal()

		return r
	})
	// equality relations on all ordered pairs of the chosen subset
	sub := make([]ice.Candidate, len(job.Subset))
	for i, idx := range job.Subset {
		var x cdCand
		if err := json.Unmarshal(lines[idx], &x); err != nil {
			t.Fatal(err)
		}
		c, err := cdBuild(x)
		if err != nil {
			t.Fatal(err)
		}
		sub[i] = c
	}
	rows := make([][]byte, len(sub))
	for i := range rows {
		rows[i] = []byte("{}")
	}
	mapLines(t, rows, job.PairOut, func(i int, _ []byte) any {
		eq, deq := make([]bool, len(sub)), make([]bool, len(sub))
		for j := range sub {
			eq[j], deq[j] = sub[i].Equal(sub[j]), sub[i].DeepEqual(sub[j])
		}

		return map[string]any{"idx": job.Subset[i] + 1, "eq": eq, "deq": deq}
	})
}

type cdLineReal struct {
	Accepted bool   `json:"accepted"`
	Panic    bool   `json:"panic"`
	Msg      string `json:"msg"`
	Got      cdCand `json:"got"`
	Port     string `json:"port"`
	Comp     string `json:"comp"`
	Prio     string `json:"prio"`
	Found    string `json:"foundation"`
	ReOK     bool   `json:"reOK"` // the accepted candidate's Marshal() parses again
	ReEq     bool   `json:"reEq"` // ... to a candidate Equal (both ways) to the accepted one
}

func TestCandidateLines(t *testing.T) {
	var job struct{ Lines, Out string }
	loadJob(t, &job)
	mapLines(t, readLines(t, job.Lines), job.Out, func(_ int, line []byte) (res any) {
		var l struct {
			Tokens []string `json:"tokens"`
		}
		if err := json.Unmarshal(line, &l); err != nil {
			panic(err)
		}
		r := cdLineReal{Got: cdCand{Ext: []cdExt{}}}
		defer func() {
			if p := recover(); p != nil {
				r.Panic, r.Msg = true, fmt.Sprint(p)
				res = r
			}
		}()
		// fields are separated by one space; an empty optional field (rel, ext) contributes nothing
		var parts []string
		for k, tok := range l.Tokens {
			if k >= 8 && tok == "" {
				continue
			}
			parts = append(parts, tok)
		}
		c, err := ice.UnmarshalCandidate(strings.Join(parts, " "))
		if err != nil {
			r.Msg = err.Error()

			return r
		}
		r.Accepted, r.Got, r.Prio, r.Found = true, cdGetters(c), fmt.Sprint(c.Priority()), c.Foundation()
		r.Port, r.Comp = fmt.Sprint(c.Port()), fmt.Sprint(c.Component())
		if c2, err := ice.UnmarshalCandidate(c.Marshal()); err == nil {
			r.ReOK, r.ReEq = true, c.Equal(c2) && c2.Equal(c)
		}

		return r
	})
}
