package pure

import (
	"encoding/json"
	"fmt"
	"testing"

	"github.com/pion/ice/v4"
	"github.com/pion/stun/v3"
)

type atReal struct {
	EncErr bool   `json:"encErr"`
	Bytes  []int  `json:"bytes"`
	DecErr bool   `json:"decErr"`
	Dec    any    `json:"dec"`  // digits (little endian) / list of digit lists / bytes
	Role   string `json:"role"` // ICE-CONTROLLING/CONTROLLED also decoded through AttrControl
	ViaOK  bool   `json:"viaOK"`
	IsSet  bool   `json:"isSet"`
	Panic  bool   `json:"panic"`
	Msg    string `json:"msg"`
}

var atTypes = map[string]stun.AttrType{"priority": stun.AttrPriority, "controlling": stun.AttrICEControlling, "controlled": stun.AttrICEControlled,
	"nomination": ice.DefaultNominationAttribute, "ack": stun.AttrDtlsInStunAck, "dtls": stun.AttrDtlsInStun, "usecandidate": stun.AttrUseCandidate}

func ints(b []byte) []int {
	out := make([]int, len(b))
	for i, x := range b {
		out[i] = int(x)
	}

	return out
}

func bytesOf(d []int) []byte {
	out := make([]byte, len(d))
	for i, x := range d {
		out[i] = byte(x) //nolint:gosec
	}

	return out
}

// atDecode runs the attribute's real decoder on m.
func atDecode(attr string, m *stun.Message, r *atReal) {
	var err error
	switch attr {
	case "priority":
		var p ice.PriorityAttr
		err = p.GetFrom(m)
		r.Dec = le(uint64(p), 4)
	case "controlling":
		var c ice.AttrControlling
		err = c.GetFrom(m)
		r.Dec = le(uint64(c), 8)
		var ac ice.AttrControl
		r.ViaOK = ac.GetFrom(m) == nil && ac.Role == ice.Controlling && ac.Tiebreaker == uint64(c)
	case "controlled":
		var c ice.AttrControlled
		err = c.GetFrom(m)
		r.Dec = le(uint64(c), 8)
		var ac ice.AttrControl
		r.ViaOK = ac.GetFrom(m) == nil && ac.Role == ice.Controlled && ac.Tiebreaker == uint64(c)
	case "nomination":
		var n ice.NominationAttribute
		err = n.GetFrom(m)
		r.Dec = le(uint64(n.Value), 4)
	case "ack":
		var a ice.DtlsInStunAckAttribute
		err = a.GetFrom(m)
		l := [][]int{}
		for _, v := range a {
			l = append(l, le(uint64(v), 4))
		}
		r.Dec = l
	case "dtls":
		var d ice.DtlsInStunAttribute
		err = d.GetFrom(m)
		r.Dec = ints(d)
	case "usecandidate":
		r.IsSet = ice.UseCandidate().IsSet(m)
		r.Dec = []int{}
	}
	if err != nil {
		r.DecErr, r.Msg, r.Dec = true, err.Error(), []int{}
	}
}

func TestAttrs(t *testing.T) {
	var job struct{ Enc, Dec, EncOut, DecOut string }
	loadJob(t, &job)
	guard := func(r *atReal, res *any) {
		if p := recover(); p != nil {
			r.Panic, r.Msg, r.Dec, r.Bytes = true, fmt.Sprint(p), []int{}, []int{}
			*res = *r
		}
	}
	mapLines(t, readLines(t, job.Enc), job.EncOut, func(_ int, line []byte) (res any) {
		var c struct {
			Attr string          `json:"attr"`
			Val  json.RawMessage `json:"val"`
		}
		if err := json.Unmarshal(line, &c); err != nil {
			panic(err)
		}
		r := atReal{Bytes: []int{}, Dec: []int{}}
		defer guard(&r, &res)
		m := new(stun.Message)
		var setter stun.Setter
		var digits []int
		var list [][]int
		if c.Attr == "ack" {
			_ = json.Unmarshal(c.Val, &list)
		} else {
			_ = json.Unmarshal(c.Val, &digits)
		}
		switch c.Attr {
		case "priority":
			setter = ice.PriorityAttr(uint32(fromLE(digits))) //nolint:gosec
		case "controlling":
			setter = ice.AttrControlling(fromLE(digits))
		case "controlled":
			setter = ice.AttrControlled(fromLE(digits))
		case "nomination":
			setter = ice.Nomination(uint32(fromLE(digits))) //nolint:gosec
		case "ack":
			a := ice.DtlsInStunAckAttribute{}
			for _, d := range list {
				a = append(a, uint32(fromLE(d))) //nolint:gosec
			}
			setter = a
		case "dtls":
			setter = ice.DtlsInStunAttribute(bytesOf(digits))
		case "usecandidate":
			setter = ice.UseCandidate()
			r.IsSet = ice.UseCandidate().IsSet(m) // must be false before
			if r.IsSet {
				r.Msg = "set before AddTo"

				return r
			}
		}
		if err := setter.AddTo(m); err != nil {
			r.EncErr, r.Msg = true, err.Error()

			return r
		}
		raw, err := m.Get(atTypes[c.Attr])
		if err != nil {
			r.EncErr, r.Msg = true, "attribute missing after AddTo"

			return r
		}
		r.Bytes = ints(raw)
		// decode what a peer would receive: serialise and parse the whole message
		m.WriteHeader()
		m2 := new(stun.Message)
		if err := stun.Decode(m.Raw, m2); err != nil {
			r.DecErr, r.Msg = true, err.Error()

			return r
		}
		atDecode(c.Attr, m2, &r)

		return r
	})
	mapLines(t, readLines(t, job.Dec), job.DecOut, func(_ int, line []byte) (res any) {
		var c struct {
			Attr  string `json:"attr"`
			Bytes []int  `json:"bytes"`
		}
		if err := json.Unmarshal(line, &c); err != nil {
			panic(err)
		}
		r := atReal{Bytes: []int{}, Dec: []int{}}
		defer guard(&r, &res)
		m := new(stun.Message)
		m.Add(atTypes[c.Attr], bytesOf(c.Bytes))
		atDecode(c.Attr, m, &r)

		return r
	})
}
