package pure

import (
	"encoding/json"
	"net/netip"
	"strconv"
	"strings"
	"testing"

	"github.com/pion/ice/v4"
)

type rwRule struct {
	Ext   []string `json:"ext"`
	Local string   `json:"local"`
	Iface string   `json:"iface"`
	Cidr  string   `json:"cidr"`
	Typ   string   `json:"typ"`
	Mode  string   `json:"mode"`
	Nets  []string `json:"nets"`
}

type rwEntry struct {
	Ext   string `json:"ext"`
	Local string `json:"local"`
	Parts int    `json:"parts"`
}

type rwCase struct {
	Kind    string    `json:"kind"`
	Rules   []rwRule  `json:"rules"`
	Entries []rwEntry `json:"entries"`
	Typ     string    `json:"typ"`
}

type rwKey struct {
	Typ   string `json:"typ"`
	IP    string `json:"ip"`
	Iface string `json:"iface"`
	Form  string `json:"form"` // "alt": the same address spelled differently (IPv4-mapped; upper-case uncompressed IPv6)
}

// rwSpell is the text the lookup is made with; rwCanon brings an address the code returned back to the model's spelling.
func rwSpell(k rwKey) string {
	if k.Form != "alt" {
		return k.IP
	}
	a, err := netip.ParseAddr(k.IP)
	if err != nil {
		return k.IP
	}
	if a.Is4() {
		return "::ffff:" + k.IP
	}
	b := a.As16()
	parts := make([]string, 8)
	for i := range parts {
		parts[i] = strings.ToUpper(strconv.FormatUint(uint64(b[2*i])<<8|uint64(b[2*i+1]), 16))
	}

	return strings.Join(parts, ":")
}

func rwCanon(ss []string) []string {
	out := make([]string, len(ss))
	for i, s := range ss {
		out[i] = s
		if a, err := netip.ParseAddr(s); err == nil {
			out[i] = a.Unmap().String()
		}
	}

	return out
}

type rwRes struct {
	Ext     []string `json:"ext"`
	Mode    string   `json:"mode"`
	Matched bool     `json:"matched"`
}

type rwApply struct {
	Keep  bool     `json:"keep"`
	Addrs []string `json:"addrs"`
}

type rwOut struct {
	Res   rwRes   `json:"res"`
	Apply rwApply `json:"apply"` // only through an agent, for host and relay keys
	Lerr  bool    `json:"lerr"`
}

type rwSide struct {
	Ran bool `json:"ran"`
	Err bool `json:"err"`
	// Installed: the public option refused the rules, they were compiled into a plain agent by applyAddressRewriteMapping instead
	Installed bool    `json:"installed"`
	Msg       string  `json:"msg"`
	Out       []rwOut `json:"out"`
}

type rwReal struct {
	Direct rwSide `json:"direct"` // newAddressRewriteMapper on the rules as given
	Agent  rwSide `json:"agent"`  // NewAgentWithOptions(WithAddressRewriteRules) resp. NewAgent(NAT1To1IPs)
}

var (
	rwTypes = map[string]ice.CandidateType{"": ice.CandidateTypeUnspecified, "host": ice.CandidateTypeHost, "srflx": ice.CandidateTypeServerReflexive,
		"relay": ice.CandidateTypeRelay, "prflx": ice.CandidateTypePeerReflexive}
	rwNets = map[string]ice.NetworkType{"udp4": ice.NetworkTypeUDP4, "udp6": ice.NetworkTypeUDP6, "tcp4": ice.NetworkTypeTCP4, "tcp6": ice.NetworkTypeTCP6}
)

const rwRelayAddr = "198.51.100.77"

func rwModeName(m ice.AddressRewriteMode) string {
	switch m {
	case ice.AddressRewriteReplace:
		return "replace"
	case ice.AddressRewriteAppend:
		return "append"
	default:
		return "none"
	}
}

func rwRules(in []rwRule) []ice.AddressRewriteRule {
	out := make([]ice.AddressRewriteRule, 0, len(in))
	for _, r := range in {
		rule := ice.AddressRewriteRule{External: r.Ext, Local: r.Local, Iface: r.Iface, CIDR: r.Cidr, AsCandidateType: rwTypes[r.Typ]}
		switch r.Mode {
		case "replace":
			rule.Mode = ice.AddressRewriteReplace
		case "append":
			rule.Mode = ice.AddressRewriteAppend
		}
		for _, n := range r.Nets {
			rule.Networks = append(rule.Networks, rwNets[n])
		}
		out = append(out, rule)
	}

	return out
}

func rwLookups(m *ice.VerifRewriteMapper, ag *ice.Agent, keys []rwKey) []rwOut {
	outs := make([]rwOut, len(keys))
	for j, k := range keys {
		ip := rwSpell(k)
		ips, matched, mode, err := m.VerifFindExternalIPs(rwTypes[k.Typ], ip, k.Iface)
		outs[j] = rwOut{Res: rwRes{Ext: rwCanon(ips), Mode: rwModeName(mode), Matched: matched}, Lerr: err != nil, Apply: rwApply{Addrs: []string{}}}
		if ag == nil {
			continue
		}
		switch k.Typ {
		case "host":
			addrs, keep := ice.VerifApplyHostRewrite(ag, ip, k.Iface)
			outs[j].Apply = rwApply{Keep: keep, Addrs: rwCanon(addrs)}
		case "relay":
			addrs, keep := ice.VerifResolveRelayAddresses(ag, rwRelayAddr, ip, k.Iface)
			outs[j].Apply = rwApply{Keep: keep, Addrs: rwCanon(addrs)}
		}
	}

	return outs
}

func TestRewrite(t *testing.T) {
	var job struct{ Cases, Keys, Out string }
	loadJob(t, &job)
	var keys []rwKey
	for _, l := range readLines(t, job.Keys) {
		var k rwKey
		if err := json.Unmarshal(l, &k); err != nil {
			t.Fatal(err)
		}
		keys = append(keys, k)
	}
	lf := quietLogs()
	mapLines(t, readLines(t, job.Cases), job.Out, func(_ int, line []byte) any {
		var c rwCase
		if err := json.Unmarshal(line, &c); err != nil {
			panic(err)
		}
		real := rwReal{Direct: rwSide{Out: []rwOut{}}, Agent: rwSide{Out: []rwOut{}}}
		var ag *ice.Agent
		var err error
		if c.Kind == "rules" {
			rules := rwRules(c.Rules)
			real.Direct.Ran = true
			if m, derr := ice.VerifNewRewriteMapper(rules); derr != nil {
				real.Direct.Err, real.Direct.Msg = true, derr.Error()
			} else {
				real.Direct.Out = rwLookups(m, nil, keys)
			}
			ag, err = ice.NewAgentWithOptions(ice.WithLoggerFactory(lf), ice.WithMulticastDNSMode(ice.MulticastDNSModeDisabled),
				ice.WithAddressRewriteRules(rules...))
		} else {
			ips := []string{}
			for _, e := range c.Entries {
				switch e.Parts {
				case 1:
					ips = append(ips, e.Ext)
				case 2:
					ips = append(ips, e.Ext+"/"+e.Local)
				default:
					ips = append(ips, e.Ext+"/"+e.Local+strings.Repeat("/"+e.Local, e.Parts-2))
				}
			}
			ag, err = ice.NewAgent(&ice.AgentConfig{NAT1To1IPs: ips, NAT1To1IPCandidateType: rwTypes[c.Typ], //nolint:staticcheck
				MulticastDNSMode: ice.MulticastDNSModeDisabled, LoggerFactory: lf})
		}
		real.Agent.Ran = true
		if err != nil {
			real.Agent.Err, real.Agent.Msg = true, err.Error()
			if c.Kind == "rules" && !real.Direct.Err {
				if ag, err = ice.NewAgentWithOptions(ice.WithLoggerFactory(lf), ice.WithMulticastDNSMode(ice.MulticastDNSModeDisabled)); err != nil {
					panic(err)
				}
				if ice.VerifInstallRewriteRules(ag, rwRules(c.Rules)) == nil {
					real.Agent.Installed = true
					real.Agent.Out = rwLookups(ice.VerifAgentRewriteMapper(ag), ag, keys)
				}
				ag.Close() //nolint:errcheck,gosec
			}
		} else {
			real.Agent.Out = rwLookups(ice.VerifAgentRewriteMapper(ag), ag, keys)
			ag.Close() //nolint:errcheck,gosec
		}

		return real
	})
}
