// Package harness drives the real pion/ice code through behaviours chosen by the
// TLA+ specifications under /verif/specs and records what the code did as
// ndjson traces that TLC validates (trace specs) and judges (monitor specs).
package harness

import (
	"io"
	"net"
	"net/netip"
	"os"
	"runtime"
	"sync"
	"time"
)

// ---------- simulated datagram network with NAT and per-socket faults.
//
// Everything blocks on channels created inside the synctest bubble, so
// synctest.Wait() returns exactly when both agents are quiescent.

type gram struct {
	data     []byte
	from, to string // wire addresses "ip:port"
}

type world struct {
	mu     sync.Mutex
	flight []gram
	conns  map[string]*simConn // by local address (latest socket bound there)
	all    []*simConn
	nat    map[string]string // local -> public
	rev    map[string]string // public -> local
	block  map[string]bool   // local address -> WriteTo blocks until the conn is closed
	opened int
	closed int
}

func newWorld() *world {
	return &world{conns: map[string]*simConn{}, nat: map[string]string{}, rev: map[string]string{}, block: map[string]bool{}}
}

type simConn struct {
	w      *world
	laddr  *net.UDPAddr
	in     chan gram
	closed chan struct{}
	once   sync.Once
	ufrag  string
}

func udp(s string) *net.UDPAddr { a, _ := net.ResolveUDPAddr("udp4", s); return a }

func (c *simConn) ReadFrom(b []byte) (int, net.Addr, error) {
	select {
	case d := <-c.in:
		return copy(b, d.data), udp(d.from), nil
	case <-c.closed:
		return 0, nil, io.EOF
	}
}

func (c *simConn) WriteTo(b []byte, a net.Addr) (int, error) {
	c.w.mu.Lock()
	blk := c.w.block[c.laddr.String()]
	c.w.mu.Unlock()
	if blk {
		<-c.closed

		return 0, io.ErrClosedPipe
	}
	select {
	case <-c.closed:
		return 0, io.ErrClosedPipe
	default:
	}
	c.w.mu.Lock()
	src := c.laddr.String()
	if p, ok := c.w.nat[src]; ok {
		src = p
	}
	c.w.flight = append(c.w.flight, gram{append([]byte{}, b...), src, a.String()})
	c.w.mu.Unlock()

	return len(b), nil
}

func (c *simConn) Close() error {
	c.once.Do(func() {
		close(c.closed)
		c.w.mu.Lock()
		c.w.closed++
		c.w.mu.Unlock()
	})

	return nil
}
func (c *simConn) LocalAddr() net.Addr              { return c.laddr }
func (c *simConn) SetDeadline(time.Time) error      { return nil }
func (c *simConn) SetReadDeadline(time.Time) error  { return nil }
func (c *simConn) SetWriteDeadline(time.Time) error { return nil }
func (c *simConn) isClosed() bool {
	select {
	case <-c.closed:
		return true
	default:
		return false
	}
}

// muxSock is one socket of the world for a REAL ice.UDPMuxDefault to sit on: it offers the netip.AddrPort calls (as a
// *net.UDPConn does, so the mux takes its AddrPort paths), and a blocked write returns when the write deadline is armed
// (that is how the mux aborts writes) or the socket is closed.
type muxSock struct {
	*simConn
	dmu   sync.Mutex
	armed chan struct{} // closed while a write deadline is set
}

func newMuxSock(w *world, addr string) *muxSock {
	c := &simConn{w: w, laddr: udp(addr), in: make(chan gram, 1024), closed: make(chan struct{})}
	w.mu.Lock()
	w.conns[c.laddr.String()] = c
	w.all = append(w.all, c)
	w.opened++
	w.mu.Unlock()

	return &muxSock{simConn: c, armed: make(chan struct{})}
}

func (c *muxSock) SetWriteDeadline(t time.Time) error {
	c.dmu.Lock()
	defer c.dmu.Unlock()
	select {
	case <-c.armed: // armed now
		if t.IsZero() {
			c.armed = make(chan struct{})
		}
	default:
		if !t.IsZero() {
			close(c.armed)
		}
	}

	return nil
}

func (c *muxSock) SetDeadline(t time.Time) error { return c.SetWriteDeadline(t) }

func (c *muxSock) WriteTo(b []byte, a net.Addr) (int, error) {
	c.dmu.Lock()
	armed := c.armed
	c.dmu.Unlock()
	select {
	case <-armed:
		return 0, os.ErrDeadlineExceeded
	default:
	}
	c.w.mu.Lock()
	blk := c.w.block[c.laddr.String()]
	c.w.mu.Unlock()
	if blk {
		select {
		case <-armed:
			return 0, os.ErrDeadlineExceeded
		case <-c.closed:
			return 0, io.ErrClosedPipe
		}
	}

	return c.simConn.WriteTo(b, a)
}

func (c *muxSock) WriteToAddrPort(b []byte, a netip.AddrPort) (int, error) {
	return c.WriteTo(b, net.UDPAddrFromAddrPort(a))
}

func (c *muxSock) ReadFromAddrPort(b []byte) (int, netip.AddrPort, error) {
	n, a, err := c.simConn.ReadFrom(b)
	if err != nil {
		return n, netip.AddrPort{}, err
	}
	ua, _ := a.(*net.UDPAddr)

	return n, netip.AddrPortFrom(ua.AddrPort().Addr().Unmap(), ua.AddrPort().Port()), nil
}

// simMux implements ice.UDPMux against the world (public API only).
type simMux struct {
	w     *world
	addrs []string
}

func (m *simMux) Close() error { return nil }
func (m *simMux) GetConn(ufrag string, addr net.Addr) (net.PacketConn, error) {
	ua, _ := addr.(*net.UDPAddr)
	c := &simConn{w: m.w, laddr: ua, in: make(chan gram, 1024), closed: make(chan struct{}), ufrag: ufrag}
	m.w.mu.Lock()
	m.w.conns[ua.String()] = c
	m.w.all = append(m.w.all, c)
	m.w.opened++
	m.w.mu.Unlock()

	return c, nil
}

// RemoveConnByUfrag takes a moment (no virtual time, only the processor): the agent calls it while it releases a failed or
// restarted session, and whatever the agent has already handed to other goroutines by then gets the chance to run.
func (m *simMux) RemoveConnByUfrag(string) {
	for i := 0; i < 200; i++ {
		runtime.Gosched()
	}
}
func (m *simMux) GetListenAddresses() []net.Addr {
	r := []net.Addr{}
	for _, a := range m.addrs {
		r = append(r, udp(a))
	}

	return r
}

// deliver hands a datagram to the socket currently bound at its (de-NATed) destination.
func (w *world) deliver(g gram) bool {
	to := g.to
	if l, ok := w.rev[to]; ok {
		to = l
	}
	w.mu.Lock()
	c := w.conns[to]
	w.mu.Unlock()
	if c == nil || c.isClosed() {
		return false
	}
	c.in <- g

	return true
}

func (w *world) take() []gram {
	w.mu.Lock()
	f := w.flight
	w.flight = nil
	w.mu.Unlock()

	return f
}

// symbolic <-> concrete addresses shared by drivers and specifications.
var symAddr = map[string]string{ //nolint:gochecknoglobals
	"a1": "10.0.0.1:5000", "a2": "10.0.0.3:5000", "b1": "10.0.0.2:5000", "b2": "10.0.0.4:5000",
	"n1": "10.9.9.1:6000", "n2": "10.9.9.2:6000", "x9": "10.6.6.6:666",
}

var addrSym = func() map[string]string { //nolint:gochecknoglobals
	m := map[string]string{}
	for k, v := range symAddr {
		m[v] = k
	}

	return m
}()

func sym(concrete string) string {
	if s, ok := addrSym[concrete]; ok {
		return s
	}

	return "?" + concrete
}
