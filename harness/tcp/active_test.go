package tcp

import (
	"context"
	"encoding/json"
	"net"
	"net/netip"
	"os"
	"sync"
	"testing"
	"time"

	"github.com/pion/ice/v4"
)

// activeIn is one case for activeTCPConn over real loopback sockets (real time, outside any bubble: a goroutine
// blocked in the network poller is not durably blocked). The passive side is this driver.
type activeIn struct {
	ID      int    `json:"id"`
	Pk      []int  `json:"pk"`     // packets framed by the driver and sent to the active connection
	Writes  []int  `json:"writes"` // sizes of the successive socket writes (a short pause between them)
	Trunc   int    `json:"trunc"`
	Reply   []int  `json:"reply"` // packets written with activeTCPConn.WriteTo
	Rchunks []int  `json:"rchunks"`
	Tag     string `json:"tag"`
}

func readUntil(c net.Conn, want int, d time.Duration) []byte {
	var got []byte
	b := make([]byte, 1<<17)
	deadline := time.Now().Add(d)
	for len(got) < want {
		_ = c.SetReadDeadline(deadline)
		n, err := c.Read(b)
		got = append(got, b[:n]...)
		if err != nil {
			break
		}
	}

	return got
}

func runActive(c activeIn) (in *caseOut, out *caseOut, skip string) {
	ln, err := net.Listen("tcp4", "127.0.0.1:0")
	if err != nil {
		return nil, nil, "listen: " + err.Error()
	}
	defer ln.Close()
	ctx, cancel := context.WithCancel(context.Background())
	defer cancel()
	ap := netip.MustParseAddrPort(ln.Addr().String())
	ac := ice.VerifNewActiveTCPConn(ctx, "127.0.0.1:0", ap, quietLogger())
	defer ac.Close()
	_ = ln.(*net.TCPListener).SetDeadline(time.Now().Add(3 * time.Second))
	sock, err := ln.Accept()
	if err != nil {
		return nil, nil, "accept: " + err.Error()
	}
	defer sock.Close()
	if tc, ok := sock.(*net.TCPConn); ok {
		_ = tc.SetNoDelay(true)
	}

	// outbound first (the connection is certainly intact): WriteTo -> bytes on the socket
	if len(c.Reply) > 0 {
		o := caseOut{ID: c.ID, Kind: "activew", Tag: c.Tag, Pk: c.Reply, Cap: 65535, Wreal: true, Wmax: ice.VerifReceiveMTU, Raw: []int{}}
		var rpay [][]byte
		var wire []byte
		for i, n := range c.Reply {
			pl := payload(i+1, n)
			rpay = append(rpay, pl)
			rec := wrRec{S: len(wire), Hdr: -1}
			ret, err := ac.WriteTo(pl, nil)
			rec.OK, rec.Ret = err == nil, ret
			wait := 2 * time.Second
			if n > ice.VerifReceiveMTU || !rec.OK {
				wait = 150 * time.Millisecond // nothing is expected
			}
			got := readUntil(sock, n+2, wait)
			rec.Wrote = len(got)
			if len(got) >= 2 {
				rec.Hdr = int(got[0])<<8 | int(got[1])
				rec.Blen = len(got) - 2
				rec.Same = string(got[2:]) == string(pl)
			}
			wire = append(wire, got...)
			o.Wr = append(o.Wr, rec)
			o.Caps = append(o.Caps, 65535)
		}
		sc := &scriptConn{chunks: c.Rchunks, total: len(wire), stream: wire}
		for _, w := range o.Wr {
			if w.Wrote > 0 {
				sc.starts = append(sc.starts, w.S)
			} else {
				sc.starts = append(sc.starts, 1<<40)
			}
		}
		o.Slen = len(wire)
		o.Out, o.Res, _ = readAll(sc, 65535, rpay, len(c.Reply)+len(wire)/2+8, func(map[string]any) {})
		o.Rd = sc.reads
		if o.Rd == nil {
			o.Rd = []rdRec{}
		}
		out = &o
	}

	if len(c.Pk) > 0 {
		r := caseOut{ID: c.ID, Kind: "active", Tag: c.Tag, Pk: c.Pk, Cap: ice.VerifReceiveMTU, Trunc: c.Trunc, Raw: []int{}, Rd: []rdRec{}, Out: []outRec{}}
		var payloads [][]byte
		var stream []byte
		expect := 0
		stop := false
		for i, n := range c.Pk {
			pl := payload(i+1, n)
			payloads = append(payloads, pl)
			r.Caps = append(r.Caps, ice.VerifReceiveMTU)
			r.Wr = append(r.Wr, wrRec{OK: true, Ret: n, Hdr: n, Blen: n, Same: true, Wrote: n + 2, S: len(stream)})
			stream = append(stream, frame(pl)...)
			if n > ice.VerifReceiveMTU {
				stop = true
			}
			if !stop {
				expect++
			}
		}
		cut := min(c.Trunc, len(stream))
		stream = stream[:len(stream)-cut]
		r.Slen = len(stream)
		if cut > 0 && expect == len(c.Pk) {
			expect--
		}
		var mu sync.Mutex
		res := ""
		done := make(chan struct{})
		go func() {
			defer close(done)
			buf := make([]byte, 70000)
			for {
				n, _, err := ac.ReadFrom(buf)
				mu.Lock()
				if err != nil {
					res = classify(err)
					mu.Unlock()

					return
				}
				r.Out = append(r.Out, outRec{N: n, At: -2, M: matches(buf[:n], payloads)})
				mu.Unlock()
			}
		}()
		off := 0
		for _, w := range c.Writes {
			if off >= len(stream) {
				break
			}
			w = min(max(w, 1), len(stream)-off)
			if _, err := sock.Write(stream[off : off+w]); err != nil {
				break
			}
			off += w
			time.Sleep(300 * time.Microsecond)
		}
		if off < len(stream) {
			_, _ = sock.Write(stream[off:])
		}
		// wait for what a correct reader delivers, then a little longer for anything it should not deliver
		deadline := time.Now().Add(2 * time.Second)
		for time.Now().Before(deadline) {
			mu.Lock()
			n := len(r.Out)
			mu.Unlock()
			if n >= expect {
				break
			}
			time.Sleep(time.Millisecond)
		}
		time.Sleep(30 * time.Millisecond)
		_ = sock.Close()
		time.Sleep(20 * time.Millisecond)
		mu.Lock()
		surfaced := res
		mu.Unlock()
		_ = ac.Close()
		select {
		case <-done:
		case <-time.After(2 * time.Second):
			r.Note = "ReadFrom did not return after Close"
		}
		mu.Lock()
		r.Res = "closed"
		if surfaced != "" {
			r.Res = surfaced
		} else {
			r.Note += " no error surfaced to ReadFrom before Close"
		}
		mu.Unlock()
		in = &r
	}

	return in, out, ""
}

// TestActive drives activeTCPConn (read loop, write loop) against a passive peer played by the driver.
func TestActive(t *testing.T) {
	var j job
	loadJob(t, &j)
	f, err := os.ReadFile(j.Cases)
	if err != nil {
		t.Fatal(err)
	}
	var cases []activeIn
	if err := json.Unmarshal(f, &cases); err != nil {
		t.Fatal(err)
	}
	out := newNDJSON(t, j.Out)
	skipped := 0
	var why string
	for _, c := range cases {
		in, o, skip := runActive(c)
		if skip != "" {
			skipped++
			why = skip

			continue
		}
		if in != nil {
			out.put(*in)
		}
		if o != nil {
			out.put(*o)
		}
	}
	out.close()
	st, _ := json.Marshal(map[string]any{"cases": len(cases), "skipped": skipped, "why": why})
	if err := os.WriteFile(j.Stats, st, 0o644); err != nil {
		t.Fatal(err)
	}
}
