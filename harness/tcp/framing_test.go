// Package tcp drives the ICE-TCP framing code (C14) and the TCP mux (C15) of pion/ice
// through behaviours chosen by TLC and records what the real code did as ndjson.
// Nothing here decides a property: the records are judged by specs/tcp/*Mon.tla in TLC.
package tcp

import (
	"bufio"
	"bytes"
	"encoding/json"
	"errors"
	"fmt"
	"io"
	"net"
	"os"
	"testing"
	"time"

	"github.com/pion/ice/v4"
)

// ---------------------------------------------------------------- records

// wrRec is what one call of the writer put on the wire.
type wrRec struct {
	OK    bool `json:"ok"`    // the writer returned no error
	Ret   int  `json:"ret"`   // its return value
	Hdr   int  `json:"hdr"`   // value of the two header bytes (-1: fewer than two bytes written)
	Blen  int  `json:"blen"`  // bytes that follow the header
	Same  bool `json:"same"`  // those bytes equal the packet
	Wrote int  `json:"wrote"` // bytes put on the wire by this call
	S     int  `json:"s"`     // stream offset at which this call started writing
}

// rdRec is one conn.Read of the reader.
type rdRec struct {
	P int `json:"p"` // stream offset before the read
	A int `json:"a"` // bytes asked for
	G int `json:"g"` // bytes given (0: end of stream)
	F int `json:"f"` // frame (1-based) whose bytes contain offset p, 0 beyond the wire
}

// outRec is one packet the reader returned.
type outRec struct {
	N  int   `json:"n"`
	At int   `json:"at"` // stream offset at which these bytes sit on the wire, -1 if they do not, -2 if unknown
	M  []int `json:"m"`  // written packets with exactly this content
}

type caseIn struct {
	ID     int    `json:"id"`
	Kind   string `json:"kind"`
	Pk     []int  `json:"pk"`
	Cap    int    `json:"cap"`
	Trunc  int    `json:"trunc"`
	Chunks []int  `json:"chunks"`
	Raw    []int  `json:"raw,omitempty"`
	Tag    string `json:"tag,omitempty"`
}

type caseOut struct {
	ID    int      `json:"id"`
	Kind  string   `json:"kind"`
	Tag   string   `json:"tag"`
	Pk    []int    `json:"pk"`
	Caps  []int    `json:"caps"`
	Cap   int      `json:"cap"`
	Trunc int      `json:"trunc"`
	Slen  int      `json:"slen"`
	Wreal bool     `json:"wreal"` // wr records come from the real writer
	Wmax  int      `json:"wmax"`  // longest packet the write path under test supports
	Wb    int      `json:"wb"`    // write buffer of the packet connection (0: none)
	Stall bool     `json:"stall"` // the peer did not read while the packets were written (a full write buffer may refuse packets)
	Abuf  string   `json:"abuf"`  // shape of the application's ReadFrom buffer (tcpPacketConn cases)
	Adrop []bool   `json:"adrop"` // per packet: longer than the application's buffer, so ReadFrom must refuse it (tcpPacketConn cases)
	Wr    []wrRec  `json:"wr"`
	Rd    []rdRec  `json:"rd"`
	Out   []outRec `json:"out"`
	Res   string   `json:"res"`
	Raw   []int    `json:"raw"`
	Note  string   `json:"note"`
}

// fill is Fill(i, j) of TcpFraming.tla with HB = 256.
func fill(i, j int) byte { return byte((i*37 + j*11) % 251) }

func payload(i, n int) []byte {
	b := make([]byte, n)
	for j := range b {
		b[j] = fill(i, j+1)
	}

	return b
}

// ---------------------------------------------------------------- fake conns

type fakeAddr string

func (a fakeAddr) Network() string { return "tcp" }
func (a fakeAddr) String() string  { return string(a) }

type connBase struct{}

func (connBase) LocalAddr() net.Addr              { return fakeAddr("10.0.0.1:1") }
func (connBase) RemoteAddr() net.Addr             { return fakeAddr("10.0.0.2:2") }
func (connBase) SetDeadline(time.Time) error      { return nil }
func (connBase) SetReadDeadline(time.Time) error  { return nil }
func (connBase) SetWriteDeadline(time.Time) error { return nil }
func (connBase) Close() error                     { return nil }

// captureConn records every Write.
type captureConn struct {
	connBase
	calls [][]byte
}

func (c *captureConn) Read([]byte) (int, error) { return 0, io.EOF }
func (c *captureConn) Write(b []byte) (int, error) {
	c.calls = append(c.calls, append([]byte(nil), b...))

	return len(b), nil
}

// scriptConn serves a byte stream in scripted chunks; it never blocks.
type scriptConn struct {
	connBase
	stream []byte
	pos    int
	chunks []int
	k      int
	starts []int // start offset of every frame on the wire
	total  int   // bytes on the wire before truncation
	reads  []rdRec
	stuck  bool
}

var errStuck = errors.New("scripted conn: too many reads")

func (c *scriptConn) frameOf(p int) int {
	if p >= c.total {
		return 0
	}
	f := 0
	for i, s := range c.starts {
		if s <= p {
			f = i + 1
		}
	}

	return f
}

func (c *scriptConn) Write(b []byte) (int, error) { return len(b), nil }
func (c *scriptConn) Read(p []byte) (int, error) {
	if len(c.reads) > 4*len(c.stream)+64 {
		c.stuck = true

		return 0, errStuck
	}
	rec := rdRec{P: c.pos, A: len(p), F: c.frameOf(c.pos)}
	if c.pos >= len(c.stream) {
		c.reads = append(c.reads, rec)

		return 0, io.EOF
	}
	want := len(p)
	if c.k < len(c.chunks) {
		if c.chunks[c.k] < want {
			want = c.chunks[c.k]
		}
		c.k++
	}
	if want > len(c.stream)-c.pos {
		want = len(c.stream) - c.pos
	}
	copy(p, c.stream[c.pos:c.pos+want])
	rec.G = want
	c.pos += want
	c.reads = append(c.reads, rec)

	return want, nil
}

// ---------------------------------------------------------------- the real writer and reader

// writeAll offers every packet to the real writeStreamingPacket and describes what reached the wire.
func writeAll(pk []int, write func(net.Conn, []byte) (int, error)) (wire []byte, recs []wrRec, payloads [][]byte) {
	for i, n := range pk {
		pl := payload(i+1, n)
		payloads = append(payloads, pl)
		cc := &captureConn{}
		rec := wrRec{S: len(wire), Hdr: -1}
		func() {
			defer func() {
				if r := recover(); r != nil {
					rec.OK = false
					rec.Ret = -1
				}
			}()
			ret, err := write(cc, pl)
			rec.OK, rec.Ret = err == nil, ret
		}()
		var all []byte
		for _, c := range cc.calls {
			all = append(all, c...)
		}
		rec.Wrote = len(all)
		if len(all) >= 2 {
			rec.Hdr = int(all[0])<<8 | int(all[1])
			rec.Blen = len(all) - 2
			rec.Same = bytes.Equal(all[2:], pl)
		}
		wire = append(wire, all...)
		recs = append(recs, rec)
	}

	return wire, recs, payloads
}

func matches(b []byte, payloads [][]byte) []int {
	m := []int{}
	for i, pl := range payloads {
		if len(pl) == len(b) && bytes.Equal(pl, b) {
			m = append(m, i+1)
		}
	}

	return m
}

func classify(err error) string {
	switch {
	case errors.Is(err, io.EOF):
		return "eof"
	case errors.Is(err, io.ErrShortBuffer):
		return "short"
	case errors.Is(err, errStuck):
		return "stuck"
	default:
		return "other"
	}
}

// readAll runs the real readStreamingPacket over the scripted conn until it fails.
func readAll(sc *scriptConn, capacity int, payloads [][]byte, limit int, ev func(map[string]any)) (outs []outRec, res string, note string) {
	buf := make([]byte, capacity)
	outs = []outRec{}
	for {
		var n int
		var err error
		before := len(sc.reads)
		panicked := func() (p bool) {
			defer func() {
				if r := recover(); r != nil {
					p = true
					note = fmt.Sprint(r)
				}
			}()
			n, err = ice.VerifReadStreamingPacket(sc, buf)

			return false
		}()
		for _, r := range sc.reads[before:] {
			ev(map[string]any{"ev": "R", "a": r.A, "g": r.G})
		}
		if panicked {
			return outs, "panic", note
		}
		if err != nil {
			res = classify(err)
			if res == "other" {
				note = err.Error()
			}
			ev(map[string]any{"ev": "Ret", "err": res, "k": len(outs), "n": 0, "at": 0})

			return outs, res, note
		}
		o := outRec{N: n, At: -1, M: []int{}}
		if n >= 0 && n <= len(buf) {
			got := buf[:n]
			o.M = matches(got, payloads)
			if sc.pos-n >= 0 && bytes.Equal(sc.stream[sc.pos-n:sc.pos], got) {
				o.At = sc.pos - n
			}
		}
		outs = append(outs, o)
		ev(map[string]any{"ev": "Ret", "err": "", "k": len(outs), "n": n, "at": o.At})
		if len(outs) > limit {
			return outs, "runaway", "more packets returned than written"
		}
	}
}

func runScript(c caseIn, ev func(map[string]any)) caseOut {
	out := caseOut{ID: c.ID, Kind: c.Kind, Tag: c.Tag, Pk: c.Pk, Cap: c.Cap, Trunc: c.Trunc, Wreal: true, Wmax: 65535, Raw: []int{}, Wr: []wrRec{}}
	if out.Pk == nil {
		out.Pk = []int{}
	}
	var wire []byte
	var payloads [][]byte
	if c.Kind == "garbage" {
		out.Wreal = false
		out.Raw = c.Raw
		for _, b := range c.Raw {
			wire = append(wire, byte(b))
		}
	} else {
		ev(map[string]any{"ev": "Reset", "case": c.ID, "pk": c.Pk, "cap": c.Cap, "trunc": c.Trunc})
		wire, out.Wr, payloads = writeAll(c.Pk, ice.VerifWriteStreamingPacket)
		for i, w := range out.Wr {
			ev(map[string]any{"ev": "W", "i": i + 1, "ok": w.OK, "hdr": w.Hdr, "blen": w.Blen})
		}
		ev(map[string]any{"ev": "WD"})
	}
	for range c.Pk {
		out.Caps = append(out.Caps, c.Cap)
	}
	if out.Caps == nil {
		out.Caps = []int{}
	}
	sc := &scriptConn{chunks: c.Chunks, total: len(wire)}
	for _, w := range out.Wr {
		if w.Wrote > 0 {
			sc.starts = append(sc.starts, w.S)
		} else {
			sc.starts = append(sc.starts, 1<<40) // nothing of this packet is on the wire
		}
	}
	cut := c.Trunc
	if cut > len(wire) {
		cut = len(wire)
	}
	sc.stream = wire[:len(wire)-cut]
	out.Slen = len(sc.stream)
	noev := func(map[string]any) {}
	if c.Kind == "garbage" {
		ev = noev
	}
	out.Out, out.Res, out.Note = readAll(sc, c.Cap, payloads, len(c.Pk)+len(wire)/2+8, ev)
	if sc.stuck {
		out.Res = "stuck"
	}
	out.Rd = sc.reads
	if out.Rd == nil {
		out.Rd = []rdRec{}
	}

	return out
}

// ---------------------------------------------------------------- job plumbing

type job struct {
	Cases  string `json:"cases"`
	Out    string `json:"out"`
	Events string `json:"events"`
	Stats  string `json:"stats"`
	Seed   int64  `json:"seed"`
}

func loadJob(t *testing.T, v any) {
	t.Helper()
	p := os.Getenv("VERIF_JOB")
	if p == "" {
		t.Skip("VERIF_JOB not set")
	}
	b, err := os.ReadFile(p)
	if err != nil {
		t.Fatal(err)
	}
	if err := json.Unmarshal(b, v); err != nil {
		t.Fatal(err)
	}
}

type ndjson struct {
	f *os.File
	w *bufio.Writer
	n int
}

func newNDJSON(t *testing.T, path string) *ndjson {
	t.Helper()
	f, err := os.Create(path)
	if err != nil {
		t.Fatal(err)
	}

	return &ndjson{f: f, w: bufio.NewWriterSize(f, 1<<20)}
}

func (o *ndjson) put(v any) {
	if c, ok := v.(caseOut); ok {
		for len(c.Adrop) < len(c.Pk) {
			c.Adrop = append(c.Adrop, false)
		}
		if c.Adrop == nil {
			c.Adrop = []bool{}
		}
		v = c
	}
	b, err := json.Marshal(v)
	if err != nil {
		panic(err)
	}
	_, _ = o.w.Write(b)
	_ = o.w.WriteByte('\n')
	o.n++
}

func (o *ndjson) close() { _ = o.w.Flush(); _ = o.f.Close() }

func readCases(t *testing.T, path string) []caseIn {
	t.Helper()
	f, err := os.Open(path)
	if err != nil {
		t.Fatal(err)
	}
	defer f.Close()
	var cs []caseIn
	sc := bufio.NewScanner(f)
	sc.Buffer(make([]byte, 1<<20), 1<<26)
	for sc.Scan() {
		if len(bytes.TrimSpace(sc.Bytes())) == 0 {
			continue
		}
		var c caseIn
		if err := json.Unmarshal(sc.Bytes(), &c); err != nil {
			t.Fatal(err)
		}
		cs = append(cs, c)
	}

	return cs
}

// TestFraming replays scripted chunkings (paths of the TcpFraming state graph, scaled, and seeded
// random chunkings of long streams) on the real writeStreamingPacket / readStreamingPacket.
func TestFraming(t *testing.T) {
	var j job
	loadJob(t, &j)
	cases := readCases(t, j.Cases)
	out := newNDJSON(t, j.Out)
	evs := newNDJSON(t, j.Events)
	reads := 0
	for _, c := range cases {
		r := runScript(c, func(m map[string]any) { evs.put(m) })
		reads += len(r.Rd)
		out.put(r)
	}
	out.close()
	evs.close()
	st, _ := json.Marshal(map[string]int{"cases": len(cases), "events": evs.n, "reads": reads})
	if err := os.WriteFile(j.Stats, st, 0o644); err != nil {
		t.Fatal(err)
	}
}
