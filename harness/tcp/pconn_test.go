package tcp

import (
	"encoding/json"
	"net"
	"os"
	"sync"
	"testing"
	"testing/synctest"

	"github.com/pion/ice/v4"
)

// pconnIn is one case for tcpPacketConn behind a real TCPMuxDefault: the client (this driver) sends a framed
// STUN Binding request and then the packets pk, cutting the byte stream into the given writes; afterwards the
// packets in reply are written back with WriteTo and what arrives at the client is described.
type pconnIn struct {
	ID      int    `json:"id"`
	Pk      []int  `json:"pk"`
	Writes  []int  `json:"writes"`
	Trunc   int    `json:"trunc"`
	Wb      int    `json:"wb"`
	Rb      int    `json:"rb"`
	Reply   []int  `json:"reply"`
	Rchunks []int  `json:"rchunks"`
	Rcap    int    `json:"rcap"`
	Stall   bool   `json:"stall"` // the client does not read while the replies are written (needs wb > 0); it reads everything afterwards
	Alen    int    `json:"alen"`  // application's ReadFrom buffer: length and capacity (0: 70000)
	Acap    int    `json:"acap"`
	Tag     string `json:"tag"`
}

type delivered struct {
	data []byte
	addr string
	err  error
}

func runPconn(t *testing.T, c pconnIn) (in caseOut, out *caseOut, leak string) {
	t.Helper()
	defer func() {
		if r := recover(); r != nil {
			leak = "bubble: " + toString(r)
		}
	}()
	synctest.Test(t, func(t *testing.T) {
		ln := newFakeListener()
		mux := ice.NewTCPMuxDefault(ice.TCPMuxParams{Listener: ln, Logger: quietLogger(), ReadBufferSize: c.Rb, WriteBufferSize: c.Wb})
		pc, err := mux.GetConnByUfrag("u1", false, ln.addr.IP)
		if err != nil {
			t.Fatal(err)
		}
		raddr := &net.TCPAddr{IP: net.IPv4(10, 9, 9, 9), Port: 1001}
		cl, sv := pipePair(ln.addr, raddr)
		ln.offer(sv)

		var mu sync.Mutex
		var gots []delivered
		go func() { // the application reading from the packet connection
			alen, acap := c.Alen, c.Acap
			if acap == 0 {
				alen, acap = 70000, 70000
			}
			buf := make([]byte, alen, acap)
			for {
				for i := range buf[:acap] {
					buf[:acap][i] = 0xff // no packet byte has this value: bytes ReadFrom did not write stay visible
				}
				n, a, err := pc.ReadFrom(buf)
				d := delivered{err: err}
				if a != nil {
					d.addr = a.String()
				}
				if err == nil {
					// what a caller sees in b[:n] (n is promised to be at most len(b); up to cap(b) can be looked at)
					d.data = append([]byte{}, buf[:min(max(n, 0), acap)]...)
					if n > acap {
						d.data = nil
					}
				}
				mu.Lock()
				gots = append(gots, d)
				mu.Unlock()
				if err != nil && a == nil {
					return
				}
			}
		}()
		var rx []byte
		resume := make(chan struct{})
		if !c.Stall {
			close(resume)
		}
		go func() { // the client reading what the mux sends back
			b := make([]byte, 1<<17)
			<-resume
			for {
				n, err := cl.Read(b)
				mu.Lock()
				rx = append(rx, b[:n]...)
				mu.Unlock()
				if err != nil {
					return
				}
			}
		}()

		// inbound stream
		first := bindingRequest("u1:peer")
		payloads := [][]byte{first}
		stream := frame(first)
		in = caseOut{ID: c.ID, Kind: "pconn", Tag: c.Tag, Pk: []int{len(first)}, Caps: []int{512}, Cap: ice.VerifReceiveMTU, Trunc: c.Trunc, Abuf: abufClass(c),
			Raw: []int{}, Wr: []wrRec{{OK: true, Ret: len(first), Hdr: len(first), Blen: len(first), Same: true, Wrote: len(first) + 2}}}
		in.Adrop = []bool{c.Acap != 0 && len(first) > c.Alen}
		for i, n := range c.Pk {
			pl := payload(i+1, n)
			payloads = append(payloads, pl)
			in.Adrop = append(in.Adrop, c.Acap != 0 && n > c.Alen)
			in.Pk = append(in.Pk, n)
			in.Caps = append(in.Caps, ice.VerifReceiveMTU)
			in.Wr = append(in.Wr, wrRec{OK: true, Ret: n, Hdr: n, Blen: n, Same: true, Wrote: n + 2, S: len(stream)})
			stream = append(stream, frame(pl)...)
		}
		cut := min(c.Trunc, len(stream))
		stream = stream[:len(stream)-cut]
		in.Slen = len(stream)
		go func() {
			off := 0
			for _, w := range c.Writes {
				if off >= len(stream) {
					break
				}
				w = min(max(w, 1), len(stream)-off)
				if _, err := cl.Write(stream[off : off+w]); err != nil {
					return
				}
				off += w
			}
			if off < len(stream) {
				_, _ = cl.Write(stream[off:])
			}
		}()
		synctest.Wait()

		// replies, as long as the mux still has the connection
		mu.Lock()
		attached := len(gots) > 0 && gots[0].err == nil // the first frame was accepted: the mux knows this connection
		mu.Unlock()
		if len(c.Reply) > 0 && attached && !sv.closedByServer() {
			o := caseOut{ID: c.ID, Kind: "pconnw", Tag: c.Tag, Pk: c.Reply, Cap: c.Rcap, Wreal: true, Wmax: 65535, Wb: c.Wb, Stall: c.Stall, Raw: []int{}}
			var rpay [][]byte
			for i, n := range c.Reply {
				pl := payload(i+1, n)
				rpay = append(rpay, pl)
				mu.Lock()
				before := len(rx)
				mu.Unlock()
				rec := wrRec{S: before, Hdr: -1}
				done := make(chan struct{})
				go func() {
					defer close(done)
					defer func() {
						if r := recover(); r != nil {
							rec.Ret = -1
						}
					}()
					ret, err := pc.WriteTo(pl, raddr)
					rec.OK, rec.Ret = err == nil, ret
				}()
				synctest.Wait()
				select {
				case <-done:
				default:
					o.Note = "WriteTo did not return"
				}
				mu.Lock()
				got := append([]byte{}, rx[before:]...)
				mu.Unlock()
				rec.Wrote = len(got)
				if len(got) >= 2 {
					rec.Hdr = int(got[0])<<8 | int(got[1])
					rec.Blen = len(got) - 2
					rec.Same = string(got[2:]) == string(pl)
				}
				o.Wr = append(o.Wr, rec)
				o.Caps = append(o.Caps, c.Rcap)
			}
			if c.Stall {
				// the peer reads now; the accepted packets must be on the wire as consecutive frames, in the order they were written
				close(resume)
				synctest.Wait()
				mu.Lock()
				all := append([]byte{}, rx...)
				mu.Unlock()
				off := 0
				for i := range o.Wr {
					w := &o.Wr[i]
					w.S, w.Hdr, w.Wrote = off, -1, 0
					if !w.OK {
						continue
					}
					want := len(rpay[i])
					if off+2 <= len(all) {
						w.Hdr = int(all[off])<<8 | int(all[off+1])
					}
					body := all[min(off+2, len(all)):min(off+2+want, len(all))]
					w.Blen, w.Same = len(body), string(body) == string(rpay[i])
					w.Wrote = min(2+want, len(all)-off)
					off += w.Wrote
				}
				if off < len(all) { // bytes that belong to no accepted packet
					o.Note = "unaccounted bytes on the wire"
				}
			}
			mu.Lock()
			wire := append([]byte{}, rx...)
			mu.Unlock()
			sc := &scriptConn{chunks: c.Rchunks, total: len(wire), stream: wire}
			for _, w := range o.Wr {
				if w.Wrote > 0 {
					sc.starts = append(sc.starts, w.S)
				} else {
					sc.starts = append(sc.starts, 1<<40)
				}
			}
			o.Slen = len(wire)
			o.Out, o.Res, _ = readAll(sc, c.Rcap, rpay, len(c.Reply)+len(wire)/2+8, func(map[string]any) {})
			o.Rd = sc.reads
			if o.Rd == nil || o.Note == "unaccounted bytes on the wire" {
				o.Rd = []rdRec{} // reads cannot be attributed to frames when the wire holds bytes of no frame; the note carries the verdict
			}
			out = &o
		}

		_ = cl.Close()
		synctest.Wait()
		// describe what the packet connection delivered
		mu.Lock()
		in.Out = []outRec{}
		in.Res = "open"
		for _, d := range gots {
			if d.err != nil {
				if in.Res == "open" {
					in.Res = classify(d.err)
				}

				continue
			}
			o := outRec{N: len(d.data), At: -2, M: matches(d.data, payloads)}
			if d.addr != raddr.String() {
				o.M = []int{} // delivered with a wrong source address: not the packet that was sent
			}
			in.Out = append(in.Out, o)
		}
		mu.Unlock()
		sv.mu.Lock()
		in.Rd = append([]rdRec{}, sv.reads...)
		sv.mu.Unlock()
		for k := range in.Rd {
			p := in.Rd[k].P
			for i, w := range in.Wr {
				if w.S <= p && p < w.S+w.Wrote {
					in.Rd[k].F = i + 1
				}
			}
		}
		done := make(chan struct{})
		go func() { _ = mux.Close(); close(done) }()
		synctest.Wait()
		_ = pc.Close()
		synctest.Wait()
		select {
		case <-done:
		default:
			in.Note = "mux.Close did not return"
		}
	})

	return in, out, leak
}

// abufClass names the shape of the application's read buffer relative to the packets of the case.
func abufClass(c pconnIn) string {
	if c.Acap == 0 {
		return "ample"
	}
	for _, n := range c.Pk {
		if n > c.Alen && n <= c.Acap {
			return "len<packet<=cap"
		}
	}

	return "other"
}

func toString(r any) string {
	if e, ok := r.(error); ok {
		return e.Error()
	}
	if s, ok := r.(string); ok {
		return s
	}
	b, _ := json.Marshal(r)

	return string(b)
}

// TestPacketConn drives tcpPacketConn (reader loop, WriteTo, optional write buffer) through a real TCPMuxDefault
// over net.Pipe connections inside synctest bubbles.
func TestPacketConn(t *testing.T) {
	var j job
	loadJob(t, &j)
	f, err := os.ReadFile(j.Cases)
	if err != nil {
		t.Fatal(err)
	}
	var cases []pconnIn
	if err := json.Unmarshal(f, &cases); err != nil {
		t.Fatal(err)
	}
	out := newNDJSON(t, j.Out)
	leaks := 0
	for _, c := range cases {
		in, o, leak := runPconn(t, c)
		if leak != "" {
			leaks++
			in.ID, in.Kind, in.Tag, in.Res, in.Note = c.ID, "pconn", c.Tag, "panic", leak
			in.Pk, in.Caps, in.Wr, in.Rd, in.Out, in.Raw = []int{}, []int{}, []wrRec{}, []rdRec{}, []outRec{}, []int{}
		}
		out.put(in)
		if o != nil {
			out.put(*o)
		}
	}
	out.close()
	st, _ := json.Marshal(map[string]int{"cases": len(cases), "leaks": leaks})
	if err := os.WriteFile(j.Stats, st, 0o644); err != nil {
		t.Fatal(err)
	}
}
