package tcp

import (
	"bytes"
	"encoding/json"
	"errors"
	"fmt"
	"io"
	"net"
	"os"
	"strings"
	"sync"
	"testing"
	"testing/synctest"
	"time"

	"github.com/pion/ice/v4"
)

// A scenario for the real TCPMuxDefault: per-client behaviours and a list of environment actions taken from a
// behaviour of specs/tcp/TcpMux.tla. "w" on an action: wait for quiescence (synctest.Wait) and observe before it.
type muxAct struct {
	Ev string `json:"ev"` // Dial, Send, CClose, Get, Remove, Close, Advance, Reply
	C  int    `json:"c,omitempty"`
	U  string `json:"u,omitempty"`
	H  int    `json:"h,omitempty"`
	W  bool   `json:"w"`
}

type muxScenario struct {
	ID    int      `json:"id"`
	Beh   []string `json:"beh"`
	RB    int      `json:"rb"`
	Later int      `json:"later"`
	Acts  []muxAct `json:"acts"`
	Tag   string   `json:"tag"`
}

type clObs struct {
	SC  bool  `json:"sc"`  // the mux closed its end of the TCP connection
	EOF bool  `json:"eof"` // the client saw the end of the stream
	RX  []int `json:"rx"`  // replies received (numbers)
	WR  int   `json:"wr"`  // frames whose write completed
}

type hObs struct {
	U      string   `json:"u"`
	Del    [][2]int `json:"del"`    // packets read from this handle: [client, frame] (frame 0: an error was reported)
	Closed bool     `json:"closed"` // ReadFrom reported the packet connection closed
	Reads  bool     `json:"reads"`  // this handle is the one the driver reads the underlying connection through
}

type muxObs struct {
	CL   []clObs `json:"cl"`
	H    []hObs  `json:"h"`
	CRet bool    `json:"cret"` // Close has returned
	LC   bool    `json:"lc"`   // the listener was closed
}

type muxLine struct {
	Ev   string   `json:"ev"`
	C    int      `json:"c"`
	U    string   `json:"u"`
	H    int      `json:"h"`
	K    int      `json:"k"`
	R    int      `json:"r"`
	OK   bool     `json:"ok"`
	W    bool     `json:"w"`
	Pre  muxObs   `json:"pre"`
	Beh  []string `json:"beh"`
	RB   int      `json:"rb"`
	Lat  int      `json:"later"`
	ID   int      `json:"id"`
	Leak bool     `json:"leak"`
	Note string   `json:"note"`
}

type muxClient struct {
	beh    string
	addr   *net.TCPAddr
	conn   net.Conn
	sv     *srvConn
	st     string // idle, open, closed
	sendq  chan []byte
	sent   int
	frames [][]byte
	mu     sync.Mutex
	wrOK   int
	wrPend int
	eof    bool
	rx     []int
}

type muxHandle struct {
	u       string
	pc      net.PacketConn
	id      string
	reads   bool
	mu      sync.Mutex
	del     [][2]int
	closed  bool
	aborted bool // SetDeadline(now) + Close were called on this handle
}

type muxRun struct {
	t        *testing.T
	sc       muxScenario
	ln       *fakeListener
	mux      *ice.TCPMuxDefault
	cl       []*muxClient
	hs       []*muxHandle
	readers  map[string]*muxHandle
	mu       sync.Mutex
	closeRet bool
	closed   bool
	closed2  bool          // Close has been called a second time
	addGate  chan struct{} // non-nil: handleConn goroutines park in AddConn (yield point tm.addconn) until it is closed
	replies  int
	out      func(muxLine)
}

// ipForm returns the 4-byte (form even) or the 16-byte (form odd) representation of an IPv4 address: the same address for
// the application and for the mux, which routes by address and not by representation.
func ipForm(ip net.IP, form int) net.IP {
	if form&1 == 0 {
		return ip.To4()
	}

	return ip.To16()
}

func laterPayload(c, k int) []byte { return []byte(fmt.Sprintf("pkt-%d-%d", c, k)) }

// firstFrame is the body of the first frame client c sends (nil: none); built once, the transaction id is random.
func (r *muxRun) firstFrame(c int) []byte {
	cl := r.cl[c-1]
	if cl.frames == nil {
		cl.frames = [][]byte{r.buildFirstFrame(c)}
	}

	return cl.frames[0]
}

func (r *muxRun) buildFirstFrame(c int) []byte {
	switch r.cl[c-1].beh {
	case "known", "late":
		return bindingRequest("u1:peer")
	case "unknown":
		return bindingRequest("u9:peer")
	case "garbage":
		return []byte("definitely not a stun message")
	case "nonbinding":
		return allocateRequest("u1:peer")
	case "nouser":
		return bindingRequest("")
	case "oversize":
		return append(bindingRequest("u1:peer"), make([]byte, 600)...)
	}

	return nil
}

func (r *muxRun) obs() muxObs {
	o := muxObs{CL: []clObs{}, H: []hObs{}, LC: r.ln.isClosed()}
	r.mu.Lock()
	o.CRet = r.closeRet
	r.mu.Unlock()
	for _, c := range r.cl {
		co := clObs{RX: []int{}}
		c.mu.Lock()
		co.EOF, co.WR = c.eof, c.wrOK
		co.RX = append(co.RX, c.rx...)
		c.mu.Unlock()
		if c.sv != nil {
			co.SC = c.sv.closedByServer()
		}
		o.CL = append(o.CL, co)
	}
	for _, h := range r.hs {
		ho := hObs{U: h.u, Del: [][2]int{}, Reads: h.reads}
		h.mu.Lock()
		ho.Del = append(ho.Del, h.del...)
		ho.Closed = h.closed
		h.mu.Unlock()
		o.H = append(o.H, ho)
	}

	return o
}

func (r *muxRun) clientOf(a net.Addr) int {
	if a == nil {
		return 0
	}
	for i, c := range r.cl {
		if c.addr.String() == a.String() {
			return i + 1
		}
	}

	return 0
}

// frameOf tells which frame of client c these bytes are (99: none of them).
func (r *muxRun) frameOf(c int, data []byte) int {
	if c == 0 {
		return 99
	}
	if ff := r.firstFrame(c); ff != nil && bytes.Equal(ff, data) {
		return 1
	}
	var cc, k int
	if n, _ := fmt.Sscanf(string(data), "pkt-%d-%d", &cc, &k); n == 2 && cc == c && bytes.Equal(laterPayload(cc, k), data) {
		return k
	}

	return 99
}

func (r *muxRun) startReader(h *muxHandle) {
	h.reads = true
	go func() {
		buf := make([]byte, 2048)
		for {
			n, a, err := h.pc.ReadFrom(buf)
			h.mu.Lock()
			switch {
			case err == nil:
				c := r.clientOf(a)
				h.del = append(h.del, [2]int{c, r.frameOf(c, buf[:n])})
			case a != nil:
				h.del = append(h.del, [2]int{r.clientOf(a), 0})
			default:
				h.closed = true
			}
			h.mu.Unlock()
			if err != nil && a == nil {
				return
			}
		}
	}()
}

func (r *muxRun) dial(c int) bool {
	cl := r.cl[c-1]
	if cl.st != "idle" {
		return false
	}
	// the accepted socket reports its local address in either representation of the IPv4 address (4 bytes from an IPv4 socket,
	// 16 bytes v4-mapped from a dual-stack socket); which one is a property of the platform, not of the address
	conn, sv := pipePair(&net.TCPAddr{IP: ipForm(r.ln.addr.IP, r.sc.ID>>1), Port: r.ln.addr.Port}, cl.addr)
	if !r.ln.offer(sv) {
		_ = conn.Close()

		return false
	}
	cl.conn, cl.sv, cl.st = conn, sv, "open"
	cl.sendq = make(chan []byte, 16)
	go func() { // writer: one net.Pipe write at a time, in order
		for b := range cl.sendq {
			_, err := cl.conn.Write(b)
			cl.mu.Lock()
			cl.wrPend--
			if err == nil {
				cl.wrOK++
			}
			cl.mu.Unlock()
		}
	}()
	go func() { // reader: replies from the mux, and the end of the stream
		var acc []byte
		b := make([]byte, 4096)
		for {
			n, err := cl.conn.Read(b)
			acc = append(acc, b[:n]...)
			for len(acc) >= 2 {
				l := int(acc[0])<<8 | int(acc[1])
				if len(acc) < 2+l {
					break
				}
				id := -1
				if l == 2 && acc[2] == 'r' {
					id = int(acc[3])
				}
				cl.mu.Lock()
				cl.rx = append(cl.rx, id)
				cl.mu.Unlock()
				acc = acc[2+l:]
			}
			if err != nil {
				cl.mu.Lock()
				cl.eof = errors.Is(err, io.EOF)
				cl.mu.Unlock()

				return
			}
		}
	}()
	switch cl.beh {
	case "silent", "late":
	case "stalled":
		// the length prefix and the first bytes of a binding request, then nothing: the frame never completes
		part := frame(bindingRequest("u1:peer"))[:9]
		go func() { _, _ = conn.Write(part) }()
	case "earlyclose":
		cl.st = "closed"
		close(cl.sendq)
		_ = cl.conn.Close()
	default:
		r.send(c)
	}

	return true
}

func (r *muxRun) send(c int) (int, bool) {
	cl := r.cl[c-1]
	if cl.st != "open" || cl.sv.closedByServer() {
		return 0, false // the model's client does not write into a connection the mux has closed
	}
	k := cl.sent + 1
	var body []byte
	if k == 1 {
		body = r.firstFrame(c)
		if body == nil {
			return 0, false
		}
	} else {
		if cl.beh != "known" && cl.beh != "unknown" && cl.beh != "late" || k > 1+r.sc.Later {
			return 0, false
		}
		body = laterPayload(c, k)
	}
	cl.sent = k
	cl.mu.Lock()
	cl.wrPend++
	cl.mu.Unlock()
	cl.sendq <- frame(body)

	return k, true
}

func (r *muxRun) step(a muxAct) {
	line := muxLine{Ev: a.Ev, C: a.C, U: a.U, H: a.H, W: a.W, Beh: []string{}}
	if a.W {
		synctest.Wait()
	}
	line.Pre = r.obs()
	skip := func(why string) { line.Note = a.Ev + ": " + why; line.Ev = "Skipped" }
	switch a.Ev {
	case "Dial":
		if a.C < 1 || a.C > len(r.cl) || !r.dial(a.C) {
			skip("cannot dial")
		}
	case "Send":
		if a.C < 1 || a.C > len(r.cl) {
			skip("no such client")

			break
		}
		k, ok := r.send(a.C)
		line.K = k
		if !ok {
			skip("nothing to send")
		}
	case "CClose":
		if a.C < 1 || a.C > len(r.cl) {
			skip("no such client")

			break
		}
		cl := r.cl[a.C-1]
		cl.mu.Lock()
		pend := cl.wrPend
		cl.mu.Unlock()
		if cl.st != "open" || pend > 0 {
			skip("client not open or a write is pending")

			break
		}
		cl.st = "closed"
		close(cl.sendq)
		_ = cl.conn.Close()
	case "Get":
		// "u1/6": the packet conn of ufrag u1 in the mux's IPv6 table (the family is a parameter of the call)
		uf, v6 := strings.CutSuffix(a.U, "/6")
		lip := ipForm(r.ln.addr.IP, r.sc.ID)
		if v6 {
			lip = net.ParseIP("fd00::1")
		}
		pc, err := r.mux.GetConnByUfrag(uf, v6, lip)
		line.OK = err == nil
		if err == nil {
			h := &muxHandle{u: a.U, pc: pc, id: ice.VerifTCPPacketConnID(pc)}
			r.hs = append(r.hs, h)
			line.H = len(r.hs)
			if r.readers[h.id] == nil {
				r.readers[h.id] = h
				r.startReader(h)
			}
		}
	case "HAbort":
		// what an agent does when it drops a candidate: SetDeadline(now) and Close on ITS handle. Only done to a handle that has
		// a sibling on the same packet connection and is not the one the driver reads through: the packet connection, its TCP
		// connections and the sibling are not to notice (the mux model does not: the event is a stutter).
		if a.H < 1 || a.H > len(r.hs) {
			skip("no such handle")

			break
		}
		h := r.hs[a.H-1]
		sibling := false
		for i, o := range r.hs {
			if i != a.H-1 && o.id == h.id && !o.aborted {
				sibling = true
			}
		}
		if !sibling || r.readers[h.id] == h || h.aborted {
			skip("no sibling handle, or the handle the driver reads through")

			break
		}
		h.aborted = true
		_ = h.pc.SetDeadline(time.Now())
		_ = h.pc.Close()
	case "Remove":
		r.mux.RemoveConnByUfrag(a.U)
	case "Close":
		if r.closed && r.closed2 {
			skip("already closing")

			break
		}
		// a second Close call, made while the first is under way or after it: it too returns only when the mux is through
		r.closed2 = r.closed
		r.closed = true
		go func() {
			_ = r.mux.Close()
			r.mu.Lock()
			r.closeRet = true
			r.mu.Unlock()
		}()
	case "HoldAdd":
		r.mu.Lock()
		if r.addGate == nil {
			r.addGate = make(chan struct{})
		}
		r.mu.Unlock()
	case "FreeAdd":
		r.freeAdd()
	case "Advance":
		time.Sleep(16 * time.Second)
	case "Reply":
		if a.H < 1 || a.H > len(r.hs) || a.C < 1 || a.C > len(r.cl) {
			skip("no such handle or client")

			break
		}
		r.replies++
		line.R = r.replies
		_, err := r.hs[a.H-1].pc.WriteTo([]byte{'r', byte(r.replies)}, r.cl[a.C-1].addr)
		line.OK = err == nil
	case "End":
	default:
		skip("unknown action")
	}
	r.out(line)
}

func (r *muxRun) freeAdd() {
	r.mu.Lock()
	g := r.addGate
	r.addGate = nil
	r.mu.Unlock()
	if g != nil {
		close(g)
	}
}

func runMuxScenario(t *testing.T, sc muxScenario, out func(muxLine)) {
	t.Helper()
	leak := ""
	func() {
		defer func() {
			if r := recover(); r != nil {
				leak = toString(r)
			}
		}()
		synctest.Test(t, func(t *testing.T) {
			r := &muxRun{t: t, sc: sc, ln: newFakeListener(), readers: map[string]*muxHandle{}, out: out}
			r.mux = ice.NewTCPMuxDefault(ice.TCPMuxParams{Listener: r.ln, Logger: quietLogger(), ReadBufferSize: sc.RB})
			for i, b := range sc.Beh {
				r.cl = append(r.cl, &muxClient{beh: b, st: "idle", addr: &net.TCPAddr{IP: net.IPv4(10, 9, 9, byte(i+1)), Port: 1000 + i}})
			}
			// the one yield point of the TCP mux (tag verif): AddConn, after handleConn has found or created the packet connection
			// and before it takes that connection's lock. HoldAdd arms a gate there, FreeAdd opens it.
			ice.VerifSetYield(func(site string) {
				if site != "tm.addconn" {
					return
				}
				r.mu.Lock()
				g := r.addGate
				r.mu.Unlock()
				if g != nil {
					<-g
				}
			})
			defer ice.VerifSetYield(nil)
			out(muxLine{Ev: "Reset", ID: sc.ID, Beh: sc.Beh, RB: sc.RB, Lat: sc.Later, W: true, Pre: r.obs()})
			for _, a := range sc.Acts {
				r.step(a)
			}
			r.freeAdd()
			// epilogue: Close (if the scenario did not), then enough time for every timer, then the final observation
			if !r.closed {
				r.step(muxAct{Ev: "Close", W: true})
			}
			for i := 0; i < 3; i++ {
				r.step(muxAct{Ev: "Advance", W: true})
			}
			r.step(muxAct{Ev: "End", W: true})
			// release what belongs to the driver
			for _, h := range r.hs {
				_ = h.pc.Close()
			}
			for _, c := range r.cl {
				if c.st == "open" {
					close(c.sendq)
					_ = c.conn.Close()
				}
			}
			synctest.Wait()
		})
	}()
	out(muxLine{Ev: "Exit", Leak: leak != "", Note: leak, Beh: []string{}, Pre: muxObs{CL: []clObs{}, H: []hObs{}}})
}

// TestMux replays behaviours of TcpMux.tla on the real TCPMuxDefault (fake listener, net.Pipe connections,
// virtual time) and records what the clients and the application observed.
func TestMux(t *testing.T) {
	var j job
	loadJob(t, &j)
	f, err := os.ReadFile(j.Cases)
	if err != nil {
		t.Fatal(err)
	}
	var scs []muxScenario
	if err := json.Unmarshal(f, &scs); err != nil {
		t.Fatal(err)
	}
	out := newNDJSON(t, j.Out)
	leaks, skipped := 0, 0
	for _, sc := range scs {
		runMuxScenario(t, sc, func(l muxLine) {
			if l.Ev == "Skipped" {
				skipped++
			}
			if l.Ev == "Exit" && l.Leak {
				leaks++
			}
			if l.Beh == nil {
				l.Beh = []string{}
			}
			out.put(l)
		})
	}
	out.close()
	st, _ := json.Marshal(map[string]int{"scenarios": len(scs), "events": out.n, "leaks": leaks, "skipped": skipped})
	if err := os.WriteFile(j.Stats, st, 0o644); err != nil {
		t.Fatal(err)
	}
}
