package tcp

import (
	"encoding/binary"
	"errors"
	"io"
	"net"
	"sync"

	"github.com/pion/logging"
	"github.com/pion/stun/v3"
)

// fakeListener hands out the server ends of net.Pipe pairs: everything blocks on channels created
// inside the synctest bubble, so quiescence is exact and the 30 s timers of the mux cost nothing.
type fakeListener struct {
	ch      chan net.Conn
	closed  chan struct{}
	once    sync.Once
	addr    *net.TCPAddr
	accepts int
	mu      sync.Mutex
}

func newFakeListener() *fakeListener {
	return &fakeListener{ch: make(chan net.Conn), closed: make(chan struct{}), addr: &net.TCPAddr{IP: net.IPv4(10, 0, 0, 1), Port: 4000}}
}

func (l *fakeListener) Accept() (net.Conn, error) {
	select {
	case c := <-l.ch:
		l.mu.Lock()
		l.accepts++
		l.mu.Unlock()

		return c, nil
	case <-l.closed:
		return nil, net.ErrClosed
	}
}
func (l *fakeListener) Close() error   { l.once.Do(func() { close(l.closed) }); return nil }
func (l *fakeListener) Addr() net.Addr { return l.addr }
func (l *fakeListener) isClosed() bool {
	select {
	case <-l.closed:
		return true
	default:
		return false
	}
}

// offer hands a connection to Accept; false if the listener is closed.
func (l *fakeListener) offer(c net.Conn) bool {
	select {
	case l.ch <- c:
		return true
	case <-l.closed:
		return false
	}
}

// srvConn is the server end of a pipe with TCP addresses; it logs every Read of the code under test.
type srvConn struct {
	net.Conn
	l, r   *net.TCPAddr
	mu     sync.Mutex
	pos    int
	reads  []rdRec
	closes int
}

func (p *srvConn) LocalAddr() net.Addr  { return p.l }
func (p *srvConn) RemoteAddr() net.Addr { return p.r }
func (p *srvConn) Read(b []byte) (int, error) {
	n, err := p.Conn.Read(b)
	if errors.Is(err, io.ErrClosedPipe) {
		err = net.ErrClosed // what a TCP connection closed locally reports
	}
	p.mu.Lock()
	if n > 0 || err == nil {
		p.reads = append(p.reads, rdRec{P: p.pos, A: len(b), G: n})
		p.pos += n
	}
	p.mu.Unlock()

	return n, err
}

func (p *srvConn) Close() error {
	p.mu.Lock()
	p.closes++
	p.mu.Unlock()

	return p.Conn.Close()
}

func (p *srvConn) closedByServer() bool {
	p.mu.Lock()
	defer p.mu.Unlock()

	return p.closes > 0
}

func pipePair(local *net.TCPAddr, remote *net.TCPAddr) (client net.Conn, server *srvConn) {
	c, s := net.Pipe()

	return c, &srvConn{Conn: s, l: local, r: remote}
}

func frame(b []byte) []byte {
	h := make([]byte, 2)
	binary.BigEndian.PutUint16(h, uint16(len(b))) //nolint:gosec

	return append(h, b...)
}

func bindingRequest(user string) []byte {
	s := []stun.Setter{stun.BindingRequest, stun.TransactionID}
	if user != "" {
		s = append(s, stun.NewUsername(user))
	}
	m, err := stun.Build(s...)
	if err != nil {
		panic(err)
	}

	return m.Raw
}

func allocateRequest(user string) []byte {
	m, err := stun.Build(stun.NewType(stun.MethodAllocate, stun.ClassRequest), stun.TransactionID, stun.NewUsername(user))
	if err != nil {
		panic(err)
	}

	return m.Raw
}

func quietLogger() logging.LeveledLogger {
	lf := logging.NewDefaultLoggerFactory()
	lf.DefaultLogLevel = logging.LogLevelDisabled

	return lf.NewLogger("ice")
}
