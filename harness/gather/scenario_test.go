package gather

import (
	"bufio"
	"context"
	"encoding/json"
	"fmt"
	"net"
	"os"
	"strings"
	"sync"
	"testing"
	"testing/synctest"
	"time"

	"github.com/pion/ice/v4"
	"github.com/pion/logging"
	"github.com/pion/stun/v3"
	"github.com/pion/turn/v5"
)

// A scenario is a sequence of driver-controlled events; between two events the agent runs to quiescence
// (synctest.Wait) unless the event is marked nowait, in which case the next event follows immediately.
type step struct {
	A      string `json:"a"` // Gather | Open | Reply | Timeout | Restart | Fail | Close | Settle | Hold | Free
	K      int    `json:"k,omitempty"`
	NoWait bool   `json:"nowait,omitempty"`
}

type scenario struct {
	ID      int    `json:"id"`
	Site    string `json:"site"`
	Fault   string `json:"fault"`
	Steps   []step `json:"steps"`
	Two     bool   `json:"two,omitempty"`     // thorough: two server URLs, both scripted alike
	HostToo bool   `json:"hostToo,omitempty"` // relay sites: host candidates are enabled as well (a host candidate precedes the relay candidate)
	Multi   bool   `json:"multi,omitempty"`   // thorough: rewrite rule in append mode (several candidates on shared handles)
}

type pubEv struct {
	Nil    bool   `json:"nil"`
	Type   string `json:"type,omitempty"`
	Net    string `json:"net,omitempty"`
	Addr   string `json:"addr,omitempty"`
	Port   int    `json:"port,omitempty"`
	Ufrag  string `json:"-"`
	UGen   int    `json:"ugen"` // generation whose ufrag the candidate carries (-1 unknown)
	Res    int    `json:"res"`  // resource the candidate sits on (0 unknown)
	ResGen int    `json:"rgen"` // generation in which that resource was acquired
	Gen    int    `json:"gen"`  // driver's generation when the callback ran
	cand   ice.Candidate
}

type obsRec struct {
	Ev      string  `json:"ev"`
	Scn     int     `json:"scn"`
	Site    string  `json:"site,omitempty"`
	Fault   string  `json:"fault,omitempty"`
	I       int     `json:"i"`
	K       int     `json:"k"`
	NoWait  bool    `json:"nowait"`
	Ret     string  `json:"ret"`
	GS      string  `json:"gs"`
	GSPre   string  `json:"gspre"`
	Conn    string  `json:"conn"`
	Gen     int     `json:"gen"`
	Closed  bool    `json:"closed"`  // Close has returned
	Closing bool    `json:"closing"` // Close has been called
	Settled bool    `json:"settled"` // no gather goroutine can still be running (time passed beyond every timeout, no gate held)
	Parked  int     `json:"parked"`
	Res     []res   `json:"res"`
	Pub     []pubEv `json:"pub"`
	Nils    int     `json:"nils"`
	NPub    int     `json:"npub"`
	Opened  int     `json:"opened"`
	Rel     int     `json:"released"`
	Dbl     int     `json:"dbl"`
	OwnedN  int     `json:"owned"`
	Locals  int     `json:"locals"`
	Acc     int     `json:"accepted"` // GatherCandidates calls that returned nil so far
	Arrived []int   `json:"arrived"`  // gatherers that reached their first driver-controlled point in this step
}

type gth struct {
	id    int
	park  *parked
	sock  *fudp
	xor   *xorCall
	turn  *fturn
	freed bool
}

type runner struct {
	t            *testing.T
	sc           scenario
	w            *world
	a            *ice.Agent
	uni          *funiMux
	mu           sync.Mutex
	pub          []pubEv
	pubCut       int
	gths         []*gth
	ufrags       []string
	closed       chan struct{}
	closing      bool
	acc          int
	out          []obsRec
	dialCancel   context.CancelFunc
	assignedSock map[*fudp]bool
	assignedTurn map[*fturn]bool
	assignedXor  map[*xorCall]bool
	assignedPark map[*parked]bool
	failed       bool
	redo         bool
	lastRes      int
	seenG        int
	curStep      int
	holdMu       sync.Mutex
	holdArmed    bool
	holdNext     bool
	holdCh       chan struct{}
	holdFreed    bool
}

func cred(gen int) (string, string) {
	return fmt.Sprintf("ufrag%dxxxxxxxxxx", gen), fmt.Sprintf("pwd%dxxxxxxxxxxxxxxxxxxxxxxxxxxxx", gen)
}

func quietLogger() logging.LoggerFactory {
	lf := logging.NewDefaultLoggerFactory()
	lf.DefaultLogLevel = logging.LogLevelDisabled

	return lf
}

func mustURL(t *testing.T, s string) *stun.URI {
	u, err := stun.ParseURI(s)
	if err != nil {
		t.Fatal(err)
	}

	return u
}

func (r *runner) build() error {
	sc := r.sc
	w := newWorld()
	r.w = w
	dup := sc.Fault == "dup"
	w.closeErr = sc.Fault == "close-error"
	ifs := []ifaceSpec{{Name: "eth0", Up: true, Addrs: []string{"10.1.0.1"}}}
	if (dup || sc.Two) && (sc.Site == "host-udp" || sc.Site == "host-tcpmux") {
		ifs = append(ifs, ifaceSpec{Name: "eth1", Up: true, Addrs: []string{"10.1.0.1"}})
		if !dup {
			ifs[1].Addrs = []string{"10.1.0.2"}
		}
	}
	if err := w.setInterfaces(ifs); err != nil {
		return err
	}
	u0, p0 := cred(0)
	r.ufrags = []string{u0}
	opts := []ice.AgentOption{ice.WithNet(w), ice.WithMulticastDNSMode(ice.MulticastDNSModeDisabled), ice.WithLoggerFactory(quietLogger()),
		ice.WithLocalCredentials(u0, p0), ice.WithDisconnectedTimeout(100 * time.Millisecond), ice.WithFailedTimeout(100 * time.Millisecond)}
	nets := []ice.NetworkType{ice.NetworkTypeUDP4}
	var ctypes []ice.CandidateType
	var urls []*stun.URI
	switch sc.Site {
	case "host-udp":
		ctypes = []ice.CandidateType{ice.CandidateTypeHost}
		if dup {
			opts = append(opts, ice.WithPortRange(5000, 5000))
		}
	case "host-udpmux":
		ctypes = []ice.CandidateType{ice.CandidateTypeHost}
		m := &fudpMux{fmux{w: w, kind: "udpmux", addrs: []net.Addr{&net.UDPAddr{IP: net.IPv4(10, 1, 0, 1), Port: 6000}}}}
		if sc.Two || dup {
			m.addrs = append(m.addrs, &net.UDPAddr{IP: net.IPv4(10, 1, 0, 2), Port: 6000})
		}
		if dup {
			// both listen addresses map to one advertised host address: the second is a duplicate configuration, for which the
			// gatherer must not take (or must give back) a reference from the mux
			opts = append(opts, ice.WithAddressRewriteRules(ice.AddressRewriteRule{External: []string{"1.2.3.4"}, AsCandidateType: ice.CandidateTypeHost,
				Mode: ice.AddressRewriteReplace}))
		}
		if sc.Multi {
			opts = append(opts, ice.WithAddressRewriteRules(ice.AddressRewriteRule{External: []string{"1.2.3.4"}, AsCandidateType: ice.CandidateTypeHost,
				Mode: ice.AddressRewriteAppend}))
		}
		opts = append(opts, ice.WithUDPMux(m))
	case "host-tcpmux":
		ctypes = []ice.CandidateType{ice.CandidateTypeHost}
		nets = []ice.NetworkType{ice.NetworkTypeTCP4}
		if sc.Multi { // several listeners: all their connections are fetched in one go, each becomes a candidate of its own
			opts = append(opts, ice.WithTCPMux(&fmultiTCPMux{ftcpMux: ftcpMux{fmux: fmux{w: w, kind: "tcpmux"}, port: 7000}, ports: []int{7000, 7001, 7002}}))
		} else {
			opts = append(opts, ice.WithTCPMux(&ftcpMux{fmux: fmux{w: w, kind: "tcpmux"}, port: 7000}))
		}
	case "srflx-own":
		ctypes = []ice.CandidateType{ice.CandidateTypeServerReflexive}
		urls = []*stun.URI{mustURL(r.t, "stun:8.8.8.8:3478")}
		if dup || sc.Two {
			urls = append(urls, mustURL(r.t, "stun:8.8.4.4:3478"))
		}
		if dup {
			opts = append(opts, ice.WithPortRange(5000, 5000))
		}
	case "srflx-mux":
		ctypes = []ice.CandidateType{ice.CandidateTypeServerReflexive}
		urls = []*stun.URI{mustURL(r.t, "stun:8.8.8.8:3478")}
		if dup || sc.Two {
			urls = append(urls, mustURL(r.t, "stun:8.8.4.4:3478"))
		}
		r.uni = &funiMux{fudpMux{fmux{w: w, kind: "srflxmux", addrs: []net.Addr{&net.UDPAddr{IP: net.IPv4(10, 1, 0, 1), Port: 6100}}}}}
		opts = append(opts, ice.WithUDPMuxSrflx(r.uni))
	case "srflx-mapped":
		ctypes = []ice.CandidateType{ice.CandidateTypeServerReflexive}
		ext := []string{"1.2.3.4"}
		if dup {
			ext = []string{"1.2.3.4", "1.2.3.4"}
			opts = append(opts, ice.WithPortRange(5000, 5000))
		}
		if sc.Multi {
			ext = []string{"1.2.3.4", "1.2.3.5"}
		}
		if sc.Fault == "filtered" {
			// every external address is one that must not be published (IPv6 link-local): the socket opened for the lookup
			// stays with the gatherer, which has to close it
			nets = []ice.NetworkType{ice.NetworkTypeUDP6}
			ext = []string{"fe80::1"}
			if sc.Multi {
				ext = []string{"fe80::1", "fe80::2"}
			}
		}
		opts = append(opts, ice.WithAddressRewriteRules(ice.AddressRewriteRule{External: ext, AsCandidateType: ice.CandidateTypeServerReflexive,
			Mode: ice.AddressRewriteReplace}))
	case "relay", "relay-tcp":
		ctypes = []ice.CandidateType{ice.CandidateTypeRelay}
		if sc.HostToo {
			ctypes = []ice.CandidateType{ice.CandidateTypeHost, ice.CandidateTypeRelay}
		}
		tr := "udp"
		if sc.Site == "relay-tcp" {
			tr = "tcp"
			opts = append(opts, ice.WithTURNTransportProtocols([]ice.NetworkType{ice.NetworkTypeTCP4}))
		}
		mk := func(host string) *stun.URI {
			u := mustURL(r.t, "turn:"+host+":3478?transport="+tr)
			u.Username, u.Password = "user", "pass"

			return u
		}
		urls = []*stun.URI{mk("9.9.9.9")}
		if dup || sc.Two {
			urls = append(urls, mk("9.9.9.10"))
		}
		if dup {
			w.samePort = true
		}
		if sc.Multi {
			opts = append(opts, ice.WithAddressRewriteRules(ice.AddressRewriteRule{External: []string{"1.2.3.4"}, AsCandidateType: ice.CandidateTypeRelay,
				Mode: ice.AddressRewriteAppend}))
		}
	default:
		return fmt.Errorf("unknown site %q", sc.Site)
	}
	opts = append(opts, ice.WithCandidateTypes(ctypes), ice.WithNetworkTypes(nets))
	if urls != nil {
		opts = append(opts, ice.WithUrls(urls))
	}
	a, err := ice.NewAgentWithOptions(opts...)
	if err != nil {
		return err
	}
	r.a = a
	if err := a.VerifSetTURNClientFactory(func(cfg *turn.ClientConfig) (ice.VerifTURNClient, error) {
		return w.newTurn(cfg.Conn), nil
	}); err != nil {
		return err
	}

	return a.OnCandidate(func(c ice.Candidate) {
		r.mu.Lock()
		defer r.mu.Unlock()
		w.mu.Lock()
		gen := w.gen
		w.mu.Unlock()
		if c == nil {
			r.pub = append(r.pub, pubEv{Nil: true, Gen: gen, UGen: -1})

			return
		}
		e := pubEv{Type: c.Type().String(), Net: c.NetworkType().String(), Addr: c.Address(), Port: c.Port(), Gen: gen, UGen: -1, cand: c}
		if x, ok := c.GetExtension("ufrag"); ok {
			e.Ufrag = x.Value
		}
		r.pub = append(r.pub, e)
	})
}

// discover attributes newly parked acquisitions, pending STUN exchanges and TURN clients to gatherers.
func (r *runner) discover() {
	w := r.w
	w.mu.Lock()
	defer w.mu.Unlock()
	for _, p := range w.parked {
		if !r.assignedPark[p] {
			r.assignedPark[p] = true
			r.gths = append(r.gths, &gth{id: len(r.gths) + 1, park: p})
		}
	}
	if r.sc.Site == "srflx-mux" {
		var fresh []*xorCall
		for _, x := range w.xorCalls {
			if !r.assignedXor[x] {
				fresh = append(fresh, x)
			}
		}
		pair := r.sc.Fault == "dup" || r.sc.Two
		for len(fresh) > 0 {
			if pair && len(fresh) >= 2 {
				// two URLs: the first call of a cycle is the companion and is answered at once
				r.assignedXor[fresh[0]] = true
				fresh[0].done = true
				fresh[0].ans <- &stun.XORMappedAddress{IP: net.IPv4(99, 0, 0, 1), Port: r.mappedPort(0, 50+len(w.xorCalls))}
				r.redo = true
				fresh = fresh[1:]
			}
			r.assignedXor[fresh[0]] = true
			r.gths = append(r.gths, &gth{id: len(r.gths) + 1, xor: fresh[0]})
			fresh = fresh[1:]
		}
	}
	for _, g := range r.gths {
		if g.park == nil || !g.freed {
			continue
		}
		if g.sock == nil && (r.sc.Site == "srflx-own") {
			for _, s := range w.socks {
				if !r.assignedSock[s] && !s.r.MDNS {
					r.assignedSock[s] = true
					g.sock = s

					break
				}
			}
		}
		if g.turn == nil && strings.HasPrefix(r.sc.Site, "relay") {
			for _, t := range w.turns {
				if !r.assignedTurn[t] {
					r.assignedTurn[t] = true
					g.turn = t

					break
				}
			}
		}
	}
}

// companions lets everything that is not the scripted gatherer of a cycle complete at once (duplicate and two-URL scenarios).
func (r *runner) companions() bool {
	w := r.w
	did := false
	w.mu.Lock()
	socks := append([]*fudp{}, w.socks...)
	turns := append([]*fturn{}, w.turns...)
	w.mu.Unlock()
	if r.sc.Site == "srflx-own" {
		for _, s := range socks {
			if r.assignedSock[s] || s.r.MDNS {
				continue
			}
			if m, _ := s.pendingSTUN(); m != nil {
				r.assignedSock[s] = true
				s.reply(&net.UDPAddr{IP: net.IPv4(99, 0, 0, 1), Port: r.mappedPort(0, s.r.ID)})
				w.mu.Lock()
				s.r.AI = r.curStep
				w.mu.Unlock()
				did = true
			}
		}
	}
	if strings.HasPrefix(r.sc.Site, "relay") {
		for _, t := range turns {
			w.mu.Lock()
			waiting := t.allocate
			w.mu.Unlock()
			if r.assignedTurn[t] || !waiting {
				continue
			}
			r.assignedTurn[t] = true
			w.mu.Lock()
			t.r.AI = r.curStep
			if t.r.Parent > 0 {
				w.res[t.r.Parent-1].AI = r.curStep
			}
			w.mu.Unlock()
			t.grant(&net.UDPAddr{IP: net.IPv4(77, 0, 0, 1), Port: r.mappedPort(0, t.r.ID)})
			did = true
		}
	}
	return did
}

// mappedPort: duplicates need the scripted server to hand out the same mapped address twice.
func (r *runner) mappedPort(k, uniq int) int {
	if r.sc.Fault == "dup" {
		return 7000
	}
	if k > 0 {
		return 7000 + k
	}

	return 7100 + uniq
}

func (r *runner) armGate() {
	w := r.w
	w.mu.Lock()
	defer w.mu.Unlock()
	if r.sc.Site == "srflx-mux" {
		return
	}
	w.gateOn = true
	w.gateSkip = 0
	if (r.sc.Fault == "dup" && r.sc.Site != "host-udpmux") || r.sc.Two {
		w.gateSkip = 1 // (the mux host gatherer acquires nothing for a duplicate configuration: its one acquisition is the scripted one)
	}
}

func (r *runner) settle(d time.Duration) {
	time.Sleep(d)
	synctest.Wait()
}

func (r *runner) quiesce() {
	for i := 0; i < 8; i++ {
		synctest.Wait()
		r.redo = false
		r.discover()
		if !r.companions() && !r.redo {
			break
		}
	}
}

func (r *runner) gatherer(k int) *gth {
	if k >= 1 && k <= len(r.gths) {
		return r.gths[k-1]
	}

	return nil
}

func (r *runner) do(st step) string {
	w := r.w
	switch st.A {
	case "Gather":
		r.armGate()
		err := r.a.GatherCandidates()
		switch {
		case err == nil:
			r.acc++

			return "ok"
		case strings.Contains(err.Error(), "closed"):
			return "closed"
		default:
			return "refused"
		}
	case "Open":
		g := r.gatherer(st.K)
		if g == nil || g.park == nil || g.freed {
			return "skipped"
		}
		if r.sc.Fault == "listen-error" {
			g.park.err = fmt.Errorf("fake: scripted acquisition failure")
		}
		g.freed = true
		close(g.park.ch)

		return "ok"
	case "Reply":
		g := r.gatherer(st.K)
		if g == nil {
			return "skipped"
		}
		switch {
		case g.sock != nil:
			if g.sock.isClosed() || !g.sock.reply(&net.UDPAddr{IP: net.IPv4(99, 0, 0, 1), Port: r.mappedPort(g.id, 0)}) {
				return "skipped"
			}
		case g.xor != nil && !g.xor.done:
			g.xor.done = true
			if r.sc.Fault == "listen-error" {
				w.mu.Lock()
				w.listenE = fmt.Errorf("fake: scripted acquisition failure")
				w.mu.Unlock()
			}
			g.xor.ans <- &stun.XORMappedAddress{IP: net.IPv4(99, 0, 0, 1), Port: r.mappedPort(g.id, 0)}
		case g.turn != nil:
			w.mu.Lock()
			waiting := g.turn.allocate
			w.mu.Unlock()
			if !waiting {
				return "skipped"
			}
			g.turn.allocate = false
			g.turn.grant(&net.UDPAddr{IP: net.IPv4(77, 0, 0, 1), Port: r.mappedPort(g.id, 0)})
		default:
			return "skipped"
		}

		return "ok"
	case "Timeout":
		g := r.gatherer(st.K)
		if g == nil {
			return "skipped"
		}
		switch {
		case g.sock != nil:
			if m, _ := g.sock.pendingSTUN(); m == nil || g.sock.isClosed() || g.sock.answered {
				return "skipped"
			}
			g.sock.answered = true
			g.sock.expire()
		case g.xor != nil && !g.xor.done:
			g.xor.done = true
			g.xor.ans <- nil
		case g.turn != nil:
			w.mu.Lock()
			waiting := g.turn.allocate
			w.mu.Unlock()
			if !waiting {
				return "skipped"
			}
			g.turn.allocate = false
			g.turn.ans <- nil
		default:
			return "skipped"
		}

		return "ok"
	case "Restart":
		w.mu.Lock()
		next := w.gen + 1
		w.mu.Unlock()
		u, p := cred(next)
		if err := r.a.Restart(u, p); err != nil {
			return "closed"
		}
		w.mu.Lock()
		w.gen = next
		w.mu.Unlock()
		r.ufrags = append(r.ufrags, u)

		return "ok"
	case "Fail":
		if !r.failed {
			r.failed = true
			ctx, cancel := context.WithCancel(context.Background())
			r.dialCancel = cancel
			go func() { _, _ = r.a.Dial(ctx, "remoteufragxxxx", "remotepwdxxxxxxxxxxxxxxxxxxxxxxx") }()
		}
		time.Sleep(457 * time.Millisecond)

		return "ok"
	case "Close":
		if r.closing {
			return "skipped"
		}
		r.closing = true
		go func() {
			_ = r.a.Close()
			close(r.closed)
		}()

		return "ok"
	case "Settle":
		time.Sleep(40 * time.Second)

		return "ok"
	case "Hold":
		// takes effect with the next event (Open or Reply): the driver's own observation goes through the loop as well
		r.holdMu.Lock()
		r.holdCh, r.holdFreed, r.holdNext = make(chan struct{}), false, true
		r.holdMu.Unlock()

		return "ok"
	case "Free":
		r.free()

		return "ok"
	}

	return "skipped"
}

// yield is installed at the task loop's yield points (build tag verif): while armed, the next goroutine that is about
// to enter loop.Run's select (its own error check already passed) is held there until the scenario says Free. Used by the
// directed regression scenarios for the race between addCandidate and Restart.
func (r *runner) yield(site string) {
	if site != "run.select" {
		return
	}
	r.holdMu.Lock()
	if !r.holdArmed {
		r.holdMu.Unlock()

		return
	}
	r.holdArmed = false
	ch := r.holdCh
	r.holdMu.Unlock()
	<-ch
}

func (r *runner) free() {
	r.holdMu.Lock()
	defer r.holdMu.Unlock()
	r.holdArmed = false
	if r.holdCh != nil && !r.holdFreed {
		r.holdFreed = true
		close(r.holdCh)
	}
}

func (r *runner) isClosed() bool {
	select {
	case <-r.closed:
		return true
	default:
		return false
	}
}

func gsName(s ice.GatheringState) string {
	switch s {
	case ice.GatheringStateNew:
		return "New"
	case ice.GatheringStateGathering:
		return "Gathering"
	case ice.GatheringStateComplete:
		return "Complete"
	default:
		return "Unknown"
	}
}

func (r *runner) observe(i int, st step, ret, gspre string, settled bool) obsRec {
	w := r.w
	o := obsRec{Ev: st.A, Scn: r.sc.ID, I: i, K: st.K, NoWait: st.NoWait, Ret: ret, GSPre: gspre, Settled: settled, Closing: r.closing,
		Closed: r.isClosed(), Acc: r.acc}
	owned := map[int]bool{}
	o.Arrived = []int{}
	for _, g := range r.gths[r.seenG:] {
		o.Arrived = append(o.Arrived, g.id)
	}
	r.seenG = len(r.gths)
	o.GS, o.Conn = "Closed", "Closed"
	if !r.closing {
		if snap, err := r.a.VerifGatherSnapshot(); err == nil {
			o.GS = gsName(snap.GatheringState)
			o.Conn = snap.ConnectionState.String()
			o.Locals = len(snap.Locals)
			w.mu.Lock()
			for _, l := range snap.Locals {
				if x := w.byConn[l.Conn]; x != nil {
					for x != nil {
						owned[x.ID] = true
						if x.Parent == 0 {
							break
						}
						x = w.res[x.Parent-1]
					}
				}
			}
			w.mu.Unlock()
		}
	}
	w.mu.Lock()
	o.Gen = w.gen
	o.Parked = 0
	for _, p := range w.parked {
		select {
		case <-p.ch:
		default:
			o.Parked++
		}
	}
	w.mu.Unlock()
	w.mu.Lock()
	for _, x := range w.res {
		if x.ID > r.lastRes && st.K > 0 && (st.A == "Open" || st.A == "Reply") {
			x.G = st.K
		}
	}
	r.lastRes = len(w.res)
	w.mu.Unlock()
	for _, x := range r.w.snapshotRes() {
		if x.MDNS {
			continue
		}
		x.Owned = owned[x.ID]
		o.Res = append(o.Res, x)
		o.Opened++
		if x.Rel >= 1 || x.Removed {
			o.Rel++
		}
		if x.Rel >= 2 {
			o.Dbl++
		}
		if x.Owned {
			o.OwnedN++
		}
	}
	r.mu.Lock()
	for j := range r.pub {
		e := &r.pub[j]
		if e.Nil {
			o.Nils++

			continue
		}
		o.NPub++
		if j >= r.pubCut {
			for g, u := range r.ufrags {
				if u == e.Ufrag {
					e.UGen = g
				}
			}
			w.mu.Lock()
			if x := w.byConn[ice.VerifCandidateConn(e.cand)]; x != nil {
				e.Res, e.ResGen = x.ID, x.Gen
			}
			w.mu.Unlock()
		}
	}
	o.Pub = append([]pubEv{}, r.pub[r.pubCut:]...)
	r.pubCut = len(r.pub)
	r.mu.Unlock()
	if o.Res == nil {
		o.Res = []res{}
	}

	return o
}

func (r *runner) run() (out []obsRec, err error) {
	if err = r.build(); err != nil {
		return nil, err
	}
	r.closed = make(chan struct{})
	ice.VerifSetYield(r.yield)
	defer ice.VerifSetYield(nil)
	r.assignedPark, r.assignedSock = map[*parked]bool{}, map[*fudp]bool{}
	r.assignedTurn, r.assignedXor = map[*fturn]bool{}, map[*xorCall]bool{}
	first := obsRec{Ev: "Reset", Scn: r.sc.ID, Site: r.sc.Site, Fault: r.sc.Fault, GS: "New", GSPre: "New", Conn: "New", Res: []res{}, Pub: []pubEv{}, Arrived: []int{}}
	out = append(out, first)
	gspre := "New"
	n := 0
	apply := func(st step) {
		n++
		r.curStep = n
		r.holdMu.Lock()
		if r.holdNext && (st.A == "Open" || st.A == "Reply") {
			r.holdNext, r.holdArmed = false, true
		}
		r.holdMu.Unlock()
		ret := r.do(st)
		if st.NoWait {
			// the next event follows without letting the agent quiesce; nothing can be observed in between
			out = append(out, obsRec{Ev: st.A, Scn: r.sc.ID, I: n, K: st.K, NoWait: true, Ret: ret, GS: "?", GSPre: gspre, Conn: "?",
				Res: []res{}, Pub: []pubEv{}, Arrived: []int{}})

			return
		}
		r.quiesce()
		r.holdMu.Lock()
		r.holdArmed = false
		r.holdMu.Unlock()
		o := r.observe(n, st, ret, gspre, st.A == "Settle" && r.noneParked())
		gspre = o.GS
		out = append(out, o)
	}
	for _, st := range r.sc.Steps {
		apply(st)
	}
	r.free()
	// Whatever the scenario left undone is done as ordinary, logged steps: release the gates, close, let every timer fire.
	for _, g := range r.gths {
		if g.park != nil && !g.freed {
			apply(step{A: "Open", K: g.id})
		}
	}
	if !r.closing {
		apply(step{A: "Close"})
	}
	for round := 0; round < 3 && !r.noneParked(); round++ {
		for _, g := range r.gths {
			if g.park != nil && !g.freed {
				apply(step{A: "Open", K: g.id})
			}
		}
	}
	if len(out) == 0 || out[len(out)-1].Ev != "Settle" || !out[len(out)-1].Settled || !out[len(out)-1].Closing {
		apply(step{A: "Settle"})
	}
	r.w.mu.Lock()
	r.w.gateOn = false
	r.w.mu.Unlock()
	if r.dialCancel != nil {
		r.dialCancel()
	}
	synctest.Wait()
	o := r.observe(n+1, step{A: "End"}, "ok", gspre, r.noneParked())
	out = append(out, o)

	return out, nil
}

func (r *runner) noneParked() bool {
	r.w.mu.Lock()
	defer r.w.mu.Unlock()
	for _, p := range r.w.parked {
		select {
		case <-p.ch:
		default:
			return false
		}
	}

	return true
}

type scnJob struct {
	Scenarios string `json:"scenarios"` // ndjson, one scenario per line
	Out       string `json:"out"`
	Stats     string `json:"stats"`
}

// TestScenarios replays every scenario of the job in its own bubble and records what the fakes saw.
func TestScenarios(t *testing.T) {
	jp := os.Getenv("VERIF_JOB")
	if jp == "" {
		t.Skip("no VERIF_JOB")
	}
	var job scnJob
	raw, err := os.ReadFile(jp)
	if err != nil {
		t.Fatal(err)
	}
	if err := json.Unmarshal(raw, &job); err != nil {
		t.Fatal(err)
	}
	in, err := os.Open(job.Scenarios)
	if err != nil {
		t.Fatal(err)
	}
	defer in.Close()
	of, err := os.Create(job.Out)
	if err != nil {
		t.Fatal(err)
	}
	defer of.Close()
	bw := bufio.NewWriterSize(of, 1<<20)
	defer bw.Flush()
	enc := json.NewEncoder(bw)
	sc := bufio.NewScanner(in)
	sc.Buffer(make([]byte, 1<<20), 1<<24)
	stats := map[string]int{}
	for sc.Scan() {
		line := strings.TrimSpace(sc.Text())
		if line == "" {
			continue
		}
		var s scenario
		if err := json.Unmarshal([]byte(line), &s); err != nil {
			t.Fatal(err)
		}
		recs, hung := runOne(t, s)
		stats["scenarios"]++
		if hung != "" {
			stats["hung"]++
			recs = append(recs, obsRec{Ev: "Hang", Scn: s.ID, Ret: hung, GS: "?", GSPre: "?", Conn: "?", Res: []res{}, Pub: []pubEv{}, Arrived: []int{}})
		}
		for _, o := range recs {
			stats["events"]++
			if o.Ret == "skipped" {
				stats["skipped"]++
			}
			if err := enc.Encode(o); err != nil {
				t.Fatal(err)
			}
		}
	}
	sb, _ := json.Marshal(stats)
	if err := os.WriteFile(job.Stats, sb, 0o644); err != nil {
		t.Fatal(err)
	}
}

// runOne runs a scenario in a bubble; a goroutine left blocked makes synctest panic, which is reported as a hang.
func runOne(t *testing.T, s scenario) (recs []obsRec, hung string) {
	defer func() {
		if p := recover(); p != nil {
			hung = fmt.Sprint(p)
			if len(hung) > 300 {
				hung = hung[:300]
			}
		}
	}()
	synctest.Test(t, func(t *testing.T) {
		r := &runner{t: t, sc: s}
		out, err := r.run()
		if err != nil {
			t.Fatalf("scenario %d: %v", s.ID, err)
		}
		recs = out
	})

	return recs, ""
}
