// Package gather drives the gathering code of a real ice.Agent on fakes that tally every resource the agent
// acquires: sockets of a fake transport.Net, handles of fake UDP/TCP muxes, a scripted TURN client and its allocation.
package gather

import (
	"errors"
	"fmt"
	"io"
	"net"
	"os"
	"sort"
	"strconv"
	"sync"
	"syscall"
	"time"

	"github.com/pion/stun/v3"
	"github.com/pion/transport/v4"
)

// ---------------------------------------------------------------- world: tally + gates

// res is one acquired resource: a socket, a mux handle, a TURN client or a relay allocation.
type res struct {
	ID      int    `json:"id"`
	Kind    string `json:"kind"` // udp | tcpdial | udpmux | tcpmux | srflxmux | turnclient | alloc
	Gen     int    `json:"gen"`  // driver's generation (number of Restarts returned) when it was acquired
	Addr    string `json:"-"`    // local address
	IP      string `json:"-"`
	Port    int    `json:"-"`
	Ufrag   string `json:"-"`
	Rel     int    `json:"rel"`     // number of Close calls
	Removed bool   `json:"removed"` // mux handle whose ufrag was removed from the mux
	Owned   bool   `json:"owned"`   // filled in at observation time: a current local candidate sits on it
	Parent  int    `json:"-"`       // alloc -> turnclient -> local conn (0 = none)
	MDNS    bool   `json:"-"`
	AI      int    `json:"ai"` // step in which the driver answered it on its own (companions); 0 = not
	G       int    `json:"g"`  // gatherer (arrival number) the driver attributes it to; 0 = companion / unknown
}

type parked struct {
	ch   chan struct{}
	what string
	err  error // set by the driver before release: the acquisition must fail with this error
}

type world struct {
	mu       sync.Mutex
	ifcs     []*transport.Interface
	res      []*res
	byConn   map[any]*res
	gen      int
	nextPort int
	busy     map[string]bool // ip:port bound (only enforced when enforceBusy)
	enforce  bool
	prebusy  map[int]bool // ports that are always busy (exhausted ranges)
	closeErr bool         // fault "close-error": Close of a socket-like resource returns an error

	gateOn   bool      // the next gated acquisition parks until the driver releases it (one-shot)
	gateSkip int       // ... after letting this many acquisitions pass
	parked   []*parked // acquisitions waiting at the gate, in order of arrival
	listenE  error     // non-gated listen error (C18 set driver does not use it)

	socks    []*fudp
	xorCalls []*xorCall
	turns    []*fturn
	hasChild map[int]bool
	samePort bool // hand out identical ports for identical IPs (duplicate scenarios)
	wildIP   net.IP
}

func newWorld() *world {
	return &world{byConn: map[any]*res{}, busy: map[string]bool{}, prebusy: map[int]bool{}, nextPort: 40000, hasChild: map[int]bool{}}
}

func (w *world) addRes(kind string, ip net.IP, port int, ufrag string, key any, parent int) *res {
	r := &res{ID: len(w.res) + 1, Kind: kind, Gen: w.gen, IP: ip.String(), Port: port, Ufrag: ufrag, Parent: parent}
	r.Addr = net.JoinHostPort(r.IP, strconv.Itoa(port))
	w.res = append(w.res, r)
	if key != nil {
		w.byConn[key] = r
	}

	return r
}

// gate parks the caller if the gate is armed; returns the error the driver chose for this acquisition.
func (w *world) gate(what string) error {
	w.mu.Lock()
	if !w.gateOn {
		w.mu.Unlock()

		return nil
	}
	if w.gateSkip > 0 {
		w.gateSkip--
		w.mu.Unlock()

		return nil
	}
	w.gateOn = false
	p := &parked{ch: make(chan struct{}), what: what}
	w.parked = append(w.parked, p)
	w.mu.Unlock()
	<-p.ch

	return p.err
}

func (w *world) snapshotRes() []res {
	w.mu.Lock()
	defer w.mu.Unlock()
	out := make([]res, 0, len(w.res))
	for _, r := range w.res {
		out = append(out, *r)
	}

	return out
}

// ---------------------------------------------------------------- transport.Net

var errNoTCP = errors.New("fake net: not supported")

func (w *world) Interfaces() ([]*transport.Interface, error) { return w.ifcs, nil }
func (w *world) InterfaceByIndex(int) (*transport.Interface, error) {
	return nil, transport.ErrInterfaceNotFound
}
func (w *world) InterfaceByName(string) (*transport.Interface, error) {
	return nil, transport.ErrInterfaceNotFound
}
func (w *world) ListenTCP(string, *net.TCPAddr) (transport.TCPListener, error) { return nil, errNoTCP }
func (w *world) Dial(string, string) (net.Conn, error)                         { return nil, errNoTCP }
func (w *world) DialUDP(string, *net.UDPAddr, *net.UDPAddr) (transport.UDPConn, error) {
	return nil, errNoTCP
}
func (w *world) CreateDialer(*net.Dialer) transport.Dialer                   { return nil }
func (w *world) CreateListenConfig(*net.ListenConfig) transport.ListenConfig { return nil }
func (w *world) ResolveIPAddr(nw, a string) (*net.IPAddr, error)             { return net.ResolveIPAddr(nw, a) }
func (w *world) ResolveUDPAddr(nw, a string) (*net.UDPAddr, error)           { return net.ResolveUDPAddr(nw, a) }
func (w *world) ResolveTCPAddr(nw, a string) (*net.TCPAddr, error)           { return net.ResolveTCPAddr(nw, a) }

func (w *world) ListenPacket(network, address string) (net.PacketConn, error) {
	a, err := net.ResolveUDPAddr(network, address)
	if err != nil {
		return nil, err
	}

	return w.ListenUDP(network, a)
}

func isMDNS(a *net.UDPAddr) bool { return a != nil && a.Port == 5353 }

func (w *world) ListenUDP(network string, a *net.UDPAddr) (transport.UDPConn, error) {
	if a == nil {
		a = &net.UDPAddr{}
	}
	mdns := isMDNS(a)
	if !mdns {
		if err := w.gate("listen"); err != nil {
			return nil, err
		}
	}
	w.mu.Lock()
	defer w.mu.Unlock()
	if w.listenE != nil && !mdns {
		return nil, w.listenE
	}
	ip := a.IP
	if ip == nil || ip.IsUnspecified() {
		if network == "udp6" {
			ip = net.IPv6zero
		} else {
			ip = net.IPv4zero
		}
		if w.wildIP != nil {
			ip = w.wildIP
		}
	}
	port := a.Port
	if port == 0 && w.samePort && !mdns {
		port = 41000
	} else if port == 0 {
		w.nextPort++
		port = w.nextPort
	} else if w.prebusy[port] {
		return nil, &net.OpError{Op: "listen", Net: network, Err: os.NewSyscallError("bind", syscall.EADDRINUSE)}
	}
	key := net.JoinHostPort(ip.String(), strconv.Itoa(port))
	if w.enforce && w.busy[key] {
		return nil, &net.OpError{Op: "listen", Net: network, Err: os.NewSyscallError("bind", syscall.EADDRINUSE)}
	}
	w.busy[key] = true
	c := &fudp{w: w, laddr: &net.UDPAddr{IP: ip, Port: port, Zone: a.Zone}, in: make(chan fpkt, 16), closed: make(chan struct{}),
		fire: make(chan struct{}, 1)}
	c.r = w.addRes("udp", ip, port, "", c, 0)
	c.r.MDNS = mdns
	w.socks = append(w.socks, c)

	return c, nil
}

func (w *world) DialTCP(network string, _ *net.TCPAddr, raddr *net.TCPAddr) (transport.TCPConn, error) {
	if err := w.gate("dialtcp"); err != nil {
		return nil, err
	}
	w.mu.Lock()
	defer w.mu.Unlock()
	w.nextPort++
	c := &ftcp{w: w, laddr: &net.TCPAddr{IP: net.IPv4(10, 9, 9, 9), Port: w.nextPort}, raddr: raddr, closed: make(chan struct{})}
	c.r = w.addRes("tcpdial", c.laddr.IP, c.laddr.Port, "", c, 0)

	return c, nil
}

// ---------------------------------------------------------------- fake UDP socket

type fpkt struct {
	data []byte
	addr net.Addr
}

type fudp struct {
	w      *world
	r      *res
	laddr  *net.UDPAddr
	in     chan fpkt
	closed chan struct{}
	fire   chan struct{} // driver-injected expiry of the read deadline
	rdl    time.Time
	sent   []fpkt

	answered bool // the driver has replied or let the deadline expire
}

func (c *fudp) isClosed() bool {
	select {
	case <-c.closed:
		return true
	default:
		return false
	}
}

func (c *fudp) Close() error {
	c.w.mu.Lock()
	defer c.w.mu.Unlock()
	c.r.Rel++
	if c.r.Rel == 1 {
		close(c.closed)
		delete(c.w.busy, c.r.Addr)

		return nil
	}

	return net.ErrClosed
}
func (c *fudp) LocalAddr() net.Addr           { return c.laddr }
func (c *fudp) RemoteAddr() net.Addr          { return nil }
func (c *fudp) SetDeadline(t time.Time) error { return c.SetReadDeadline(t) }
func (c *fudp) SetReadDeadline(t time.Time) error {
	c.w.mu.Lock()
	c.rdl = t
	c.w.mu.Unlock()

	return nil
}
func (c *fudp) SetWriteDeadline(time.Time) error { return nil }
func (c *fudp) SetReadBuffer(int) error          { return nil }
func (c *fudp) SetWriteBuffer(int) error         { return nil }
func (c *fudp) Read(b []byte) (int, error)       { n, _, err := c.ReadFrom(b); return n, err }
func (c *fudp) ReadFrom(b []byte) (int, net.Addr, error) {
	c.w.mu.Lock()
	dl := c.rdl
	c.w.mu.Unlock()
	var tc <-chan time.Time
	var fire chan struct{}
	if !dl.IsZero() {
		d := time.Until(dl)
		if d <= 0 {
			select {
			case <-c.closed:
				return 0, nil, net.ErrClosed
			default:
				return 0, nil, os.ErrDeadlineExceeded
			}
		}
		t := time.NewTimer(d)
		defer t.Stop()
		tc = t.C
		fire = c.fire // a deadline is armed: the driver may let it expire now
	}
	select {
	case p := <-c.in:
		return copy(b, p.data), p.addr, nil
	case <-c.closed:
		return 0, nil, net.ErrClosed
	case <-tc:
		return 0, nil, os.ErrDeadlineExceeded
	case <-fire:
		return 0, nil, os.ErrDeadlineExceeded
	}
}
func (c *fudp) ReadFromUDP(b []byte) (int, *net.UDPAddr, error) {
	n, a, err := c.ReadFrom(b)
	ua, _ := a.(*net.UDPAddr)

	return n, ua, err
}
func (c *fudp) ReadMsgUDP(b, _ []byte) (int, int, int, *net.UDPAddr, error) {
	n, a, err := c.ReadFromUDP(b)

	return n, 0, 0, a, err
}
func (c *fudp) Write(b []byte) (int, error) { return len(b), nil }
func (c *fudp) WriteTo(b []byte, a net.Addr) (int, error) {
	select {
	case <-c.closed:
		return 0, net.ErrClosed
	default:
	}
	c.w.mu.Lock()
	c.sent = append(c.sent, fpkt{append([]byte{}, b...), a})
	c.w.mu.Unlock()

	return len(b), nil
}
func (c *fudp) WriteToUDP(b []byte, a *net.UDPAddr) (int, error) { return c.WriteTo(b, a) }
func (c *fudp) WriteMsgUDP(b, _ []byte, a *net.UDPAddr) (int, int, error) {
	n, err := c.WriteTo(b, a)

	return n, 0, err
}

// pendingSTUN reports the transaction id of an unanswered Binding request this socket sent to the server.
func (c *fudp) pendingSTUN() (*stun.Message, net.Addr) {
	c.w.mu.Lock()
	defer c.w.mu.Unlock()
	for i := len(c.sent) - 1; i >= 0; i-- {
		m := &stun.Message{Raw: c.sent[i].data}
		if m.Decode() == nil && m.Type == stun.BindingRequest {
			return m, c.sent[i].addr
		}
	}

	return nil, nil
}

// reply injects the XOR-MAPPED-ADDRESS answer of the scripted STUN server.
func (c *fudp) reply(mapped *net.UDPAddr) bool {
	req, from := c.pendingSTUN()
	if req == nil || c.answered {
		return false
	}
	resp, err := stun.Build(stun.NewTransactionIDSetter(req.TransactionID), stun.BindingSuccess,
		&stun.XORMappedAddress{IP: mapped.IP, Port: mapped.Port})
	if err != nil {
		return false
	}
	select {
	case c.in <- fpkt{resp.Raw, from}:
		c.answered = true

		return true
	default:
		return false
	}
}

func (c *fudp) expire() {
	select {
	case c.fire <- struct{}{}:
	default:
	}
}

// ---------------------------------------------------------------- fake TCP connection (TURN over TCP)

type ftcp struct {
	w      *world
	r      *res
	laddr  *net.TCPAddr
	raddr  *net.TCPAddr
	closed chan struct{}
}

func (c *ftcp) Read([]byte) (int, error) { <-c.closed; return 0, io.EOF }
func (c *ftcp) Write(b []byte) (int, error) {
	select {
	case <-c.closed:
		return 0, net.ErrClosed
	default:
		return len(b), nil
	}
}
func (c *ftcp) Close() error {
	c.w.mu.Lock()
	defer c.w.mu.Unlock()
	c.r.Rel++
	if c.r.Rel == 1 {
		close(c.closed)

		return nil
	}

	return net.ErrClosed
}
func (c *ftcp) LocalAddr() net.Addr                    { return c.laddr }
func (c *ftcp) RemoteAddr() net.Addr                   { return c.raddr }
func (c *ftcp) SetDeadline(time.Time) error            { return nil }
func (c *ftcp) SetReadDeadline(time.Time) error        { return nil }
func (c *ftcp) SetWriteDeadline(time.Time) error       { return nil }
func (c *ftcp) CloseRead() error                       { return nil }
func (c *ftcp) CloseWrite() error                      { return nil }
func (c *ftcp) ReadFrom(io.Reader) (int64, error)      { return 0, errNoTCP }
func (c *ftcp) SetLinger(int) error                    { return nil }
func (c *ftcp) SetKeepAlive(bool) error                { return nil }
func (c *ftcp) SetKeepAlivePeriod(time.Duration) error { return nil }
func (c *ftcp) SetNoDelay(bool) error                  { return nil }
func (c *ftcp) SetWriteBuffer(int) error               { return nil }
func (c *ftcp) SetReadBuffer(int) error                { return nil }

// ---------------------------------------------------------------- mux handles

type fhandle struct {
	w      *world
	r      *res
	laddr  net.Addr
	closed chan struct{}
	once   sync.Once
}

func (h *fhandle) kill() { h.once.Do(func() { close(h.closed) }) }

var errFakeClose = errors.New("fake socket: close reported an error (the descriptor is released all the same)")

func (h *fhandle) Close() error {
	h.w.mu.Lock()
	h.r.Rel++
	n := h.r.Rel
	ce := h.w.closeErr
	h.w.mu.Unlock()
	h.kill()
	if n > 1 {
		return net.ErrClosed
	}
	if ce { // fault "close-error": every socket-like resource reports an error from its (first, effective) Close
		return errFakeClose
	}

	return nil
}
func (h *fhandle) ReadFrom([]byte) (int, net.Addr, error) { <-h.closed; return 0, nil, io.EOF }
func (h *fhandle) WriteTo(b []byte, _ net.Addr) (int, error) {
	select {
	case <-h.closed:
		return 0, io.ErrClosedPipe
	default:
		return len(b), nil
	}
}
func (h *fhandle) LocalAddr() net.Addr              { return h.laddr }
func (h *fhandle) SetDeadline(time.Time) error      { return nil }
func (h *fhandle) SetReadDeadline(time.Time) error  { return nil }
func (h *fhandle) SetWriteDeadline(time.Time) error { return nil }

type fmux struct {
	w       *world
	kind    string // udpmux | tcpmux | srflxmux
	addrs   []net.Addr
	handles []*fhandle
	closed  bool
}

func (m *fmux) newHandle(ufrag string, laddr net.Addr, ip net.IP, port int) *fhandle {
	m.w.mu.Lock()
	defer m.w.mu.Unlock()
	h := &fhandle{w: m.w, laddr: laddr, closed: make(chan struct{})}
	h.r = m.w.addRes(m.kind, ip, port, ufrag, h, 0)
	m.handles = append(m.handles, h)

	return h
}

func (m *fmux) RemoveConnByUfrag(ufrag string) {
	m.w.mu.Lock()
	var hs []*fhandle
	for _, h := range m.handles {
		if h.r.Ufrag == ufrag {
			h.r.Removed = true
			hs = append(hs, h)
		}
	}
	m.w.mu.Unlock()
	for _, h := range hs {
		h.kill()
	}
}
func (m *fmux) Close() error                   { m.closed = true; return nil }
func (m *fmux) GetListenAddresses() []net.Addr { return m.addrs }

// fudpMux is ice.UDPMux.
type fudpMux struct{ fmux }

func (m *fudpMux) GetConn(ufrag string, addr net.Addr) (net.PacketConn, error) {
	if err := m.w.gate("getconn"); err != nil {
		return nil, err
	}
	ua, _ := addr.(*net.UDPAddr)
	if ua == nil {
		return nil, errors.New("fake mux: not a UDP address")
	}

	return m.newHandle(ufrag, ua, ua.IP, ua.Port), nil
}

// ftcpMux is ice.TCPMux.
type ftcpMux struct {
	fmux
	port int
}

func (m *ftcpMux) GetConnByUfrag(ufrag string, _ bool, local net.IP) (net.PacketConn, error) {
	if err := m.w.gate("getconnbyufrag"); err != nil {
		return nil, err
	}
	a := &net.TCPAddr{IP: local, Port: m.port}

	return m.newHandle(ufrag, a, local, m.port), nil
}

// fmultiTCPMux is a TCP mux with several listeners: it hands out one connection per listener at once (ice.AllConnsGetter).
type fmultiTCPMux struct {
	ftcpMux
	ports []int
}

func (m *fmultiTCPMux) GetAllConns(ufrag string, _ bool, local net.IP) ([]net.PacketConn, error) {
	if err := m.w.gate("getallconns"); err != nil {
		return nil, err
	}
	var out []net.PacketConn
	for _, p := range m.ports {
		out = append(out, m.newHandle(ufrag, &net.TCPAddr{IP: local, Port: p}, local, p))
	}

	return out, nil
}

// xorCall is one GetXORMappedAddr call waiting for the scripted STUN server.
type xorCall struct {
	server net.Addr
	ans    chan *stun.XORMappedAddress // nil answer = timeout
	done   bool
}

// funiMux is ice.UniversalUDPMux.
type funiMux struct{ fudpMux }

var errXORTimeout = errors.New("fake universal mux: timeout waiting for XOR-MAPPED-ADDRESS")

func (m *funiMux) GetXORMappedAddr(server net.Addr, deadline time.Duration) (*stun.XORMappedAddress, error) {
	c := &xorCall{server: server, ans: make(chan *stun.XORMappedAddress, 1)}
	m.w.mu.Lock()
	m.w.xorCalls = append(m.w.xorCalls, c)
	m.w.mu.Unlock()
	t := time.NewTimer(deadline)
	defer t.Stop()
	select {
	case a := <-c.ans:
		if a == nil {
			return nil, errXORTimeout
		}

		return a, nil
	case <-t.C:
		return nil, errXORTimeout
	}
}
func (m *funiMux) GetRelayedAddr(net.Addr, time.Duration) (*net.Addr, error) {
	return nil, errors.New("not implemented")
}
func (m *funiMux) GetConnForURL(ufrag string, _ string, addr net.Addr) (net.PacketConn, error) {
	ua, _ := addr.(*net.UDPAddr)
	if ua == nil {
		return nil, errors.New("fake mux: not a UDP address")
	}
	m.w.mu.Lock()
	e := m.w.listenE
	m.w.mu.Unlock()
	if e != nil {
		return nil, e
	}

	return m.newHandle(ufrag, ua, ua.IP, ua.Port), nil
}

// ---------------------------------------------------------------- scripted TURN client

type fturn struct {
	w        *world
	r        *res
	loc      net.PacketConn
	ans      chan *falloc // nil = allocation fails
	listenE  error
	allocate bool // Allocate has been called and is waiting
}

type falloc struct {
	fhandle
}

var errAllocate = errors.New("fake turn: allocation failed")

func (t *fturn) Listen() error { return t.listenE }
func (t *fturn) Allocate() (net.PacketConn, error) {
	t.w.mu.Lock()
	t.allocate = true
	t.w.mu.Unlock()
	tm := time.NewTimer(30 * time.Second)
	defer tm.Stop()
	select {
	case a := <-t.ans:
		if a == nil {
			return nil, errAllocate
		}

		return a, nil
	case <-tm.C:
		return nil, errAllocate
	}
}
func (t *fturn) Close() {
	t.w.mu.Lock()
	t.r.Rel++
	t.w.mu.Unlock()
}

// newTurn is what the tagged factory hook calls.
func (w *world) newTurn(loc net.PacketConn) *fturn {
	w.mu.Lock()
	defer w.mu.Unlock()
	parent := 0
	if r := w.byConn[loc]; r != nil {
		parent = r.ID
	} else {
		// TURN over TCP: the client gets a wrapper around the dialled connection; take the latest connection without a client
		for i := len(w.res) - 1; i >= 0 && parent == 0; i-- {
			if w.res[i].Kind == "tcpdial" && !w.hasChild[w.res[i].ID] {
				parent = w.res[i].ID
			}
		}
	}
	w.hasChild[parent] = true
	t := &fturn{w: w, loc: loc, ans: make(chan *falloc, 1)}
	ip, port := net.IPv4zero, 0
	if ua, ok := loc.LocalAddr().(*net.UDPAddr); ok {
		ip, port = ua.IP, ua.Port
	}
	t.r = w.addRes("turnclient", ip, port, "", t, parent)
	w.turns = append(w.turns, t)

	return t
}

func (t *fturn) grant(relayed *net.UDPAddr) *falloc {
	t.w.mu.Lock()
	a := &falloc{fhandle{w: t.w, laddr: relayed, closed: make(chan struct{})}}
	a.r = t.w.addRes("alloc", relayed.IP, relayed.Port, "", a, t.r.ID)
	t.w.mu.Unlock()
	t.ans <- a

	return a
}

// ---------------------------------------------------------------- interface tables

type ifaceSpec struct {
	Name  string   `json:"name"`
	Up    bool     `json:"up"`
	Lo    bool     `json:"lo"`
	Addrs []string `json:"addrs"`
}

func (w *world) setInterfaces(specs []ifaceSpec) error {
	w.ifcs = nil
	for i, s := range specs {
		var fl net.Flags
		if s.Up {
			fl |= net.FlagUp
		}
		if s.Lo {
			fl |= net.FlagLoopback
		}
		ifc := transport.NewInterface(net.Interface{Index: i + 1, MTU: 1500, Name: s.Name, Flags: fl})
		for _, a := range s.Addrs {
			ip := net.ParseIP(a)
			if ip == nil {
				return fmt.Errorf("bad address %q", a)
			}
			bits := 128
			if ip4 := ip.To4(); ip4 != nil && !isV4Compat(a) {
				ip, bits = ip4, 32
			}
			ifc.AddAddress(&net.IPNet{IP: ip, Mask: net.CIDRMask(bits/2, bits)})
		}
		w.ifcs = append(w.ifcs, ifc)
	}

	return nil
}

// "::a.b.c.d" parses to a 16-byte address whose To4 is nil, so nothing to do; kept for clarity.
func isV4Compat(s string) bool { return len(s) > 2 && s[:2] == "::" }

func sortedInts(m map[int]bool) []int {
	out := make([]int, 0, len(m))
	for k := range m {
		out = append(out, k)
	}
	sort.Ints(out)

	return out
}
