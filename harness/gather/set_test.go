package gather

import (
	"bufio"
	"encoding/json"
	"fmt"
	"net"
	"net/netip"
	"os"
	"strings"
	"sync"
	"testing"
	"testing/synctest"
	"time"

	"github.com/pion/ice/v4"
	"github.com/pion/stun/v3"
)

// One case of the candidate-set check: a configuration and an interface table (both chosen by TLC), run once
// through a real agent; what it published goes back to TLC.
type addrSpec struct {
	IP  string `json:"ip"`
	Fam string `json:"fam"`
	Cls string `json:"cls"`
}

type ifaceCase struct {
	Name  string     `json:"name"`
	Up    bool       `json:"up"`
	Lo    bool       `json:"lo"`
	Addrs []addrSpec `json:"addrs"`
}

type setCfg struct {
	Nets     []string `json:"nets"`
	Types    []string `json:"types"`
	Loopback bool     `json:"loopback"`
	Ifilter  string   `json:"ifilter"`
	Ipfilter string   `json:"ipfilter"`
	Ports    string   `json:"ports"`
	MDNS     string   `json:"mdns"`
	Mux      string   `json:"mux"`
	Rewrite  string   `json:"rewrite"`
}

type setCase struct {
	ID       int         `json:"id"`
	Cfg      setCfg      `json:"cfg"`
	Table    []ifaceCase `json:"table"`
	MuxAddrs []string    `json:"muxaddrs"`
	Rw       []string    `json:"rw"` // host rewrite rule the specification asks for: local address, external address
	PortMin  int         `json:"portmin"`
	PortMax  int         `json:"portmax"`
}

type setPub struct {
	Type   string `json:"type"`
	Net    string `json:"net"`
	Addr   string `json:"addr"` // what the candidate exposes (table spelling if it is an interface address)
	Port   int    `json:"port"`
	Base   string `json:"base"`  // address of the socket / handle it sits on ("*" = wildcard, "?" = unknown)
	RBase  string `json:"rbase"` // related address ("" if none)
	RPort  int    `json:"rport"`
	IsName bool   `json:"isname"` // the exposed address is the configured mDNS name
	Kind   string `json:"kind"`   // kind of resource it sits on
}

type setResult struct {
	ID     int         `json:"id"`
	Cfg    setCfg      `json:"cfg"`
	Table  []ifaceCase `json:"table"`
	Err    string      `json:"err"`
	Pub    []setPub    `json:"pub"`
	Nils   int         `json:"nils"`
	GS     string      `json:"gs"`
	Opened int         `json:"opened"`
	Leaked int         `json:"leaked"`
	Dbl    int         `json:"dbl"`
}

const mdnsName = "verif-gather.local"

func netType(s string) (ice.NetworkType, error) {
	switch s {
	case "udp4":
		return ice.NetworkTypeUDP4, nil
	case "udp6":
		return ice.NetworkTypeUDP6, nil
	case "tcp4":
		return ice.NetworkTypeTCP4, nil
	case "tcp6":
		return ice.NetworkTypeTCP6, nil
	}

	return 0, fmt.Errorf("bad network type %q", s)
}

func candType(s string) (ice.CandidateType, error) {
	switch s {
	case "host":
		return ice.CandidateTypeHost, nil
	case "srflx":
		return ice.CandidateTypeServerReflexive, nil
	case "relay":
		return ice.CandidateTypeRelay, nil
	}

	return 0, fmt.Errorf("bad candidate type %q", s)
}

// spell maps an address to the spelling used in the interface table (Go prints ::10.1.0.9 as ::a01:9).
func spell(tc setCase, s string) string {
	if i := strings.IndexByte(s, '%'); i >= 0 {
		s = s[:i]
	}
	a, err := netip.ParseAddr(s)
	if err != nil {
		return s
	}
	if a.IsUnspecified() {
		return "*"
	}
	for _, ifc := range tc.Table {
		for _, x := range ifc.Addrs {
			if b, err := netip.ParseAddr(x.IP); err == nil && b.Unmap() == a.Unmap() {
				return x.IP
			}
		}
	}

	return a.String()
}

func runSetCase(t *testing.T, tc setCase) (res setResult) {
	res = setResult{ID: tc.ID, Cfg: tc.Cfg, Table: tc.Table, Pub: []setPub{}, GS: "?"}
	defer func() {
		if p := recover(); p != nil {
			res.Err = "panic: " + fmt.Sprint(p)
			if len(res.Err) > 300 {
				res.Err = res.Err[:300]
			}
		}
	}()
	synctest.Test(t, func(t *testing.T) {
		w := newWorld()
		w.enforce = true
		specs := make([]ifaceSpec, 0, len(tc.Table))
		for _, ifc := range tc.Table {
			s := ifaceSpec{Name: ifc.Name, Up: ifc.Up, Lo: ifc.Lo}
			for _, a := range ifc.Addrs {
				s.Addrs = append(s.Addrs, a.IP)
			}
			specs = append(specs, s)
		}
		if err := w.setInterfaces(specs); err != nil {
			res.Err = err.Error()

			return
		}
		cfg := tc.Cfg
		opts := []ice.AgentOption{ice.WithNet(w), ice.WithLoggerFactory(quietLogger()), ice.WithMulticastDNSHostName(mdnsName)}
		if len(cfg.Nets) > 0 {
			var nts []ice.NetworkType
			for _, s := range cfg.Nets {
				nt, err := netType(s)
				if err != nil {
					res.Err = err.Error()

					return
				}
				nts = append(nts, nt)
			}
			opts = append(opts, ice.WithNetworkTypes(nts))
		}
		srflx := len(cfg.Types) == 0
		if len(cfg.Types) > 0 {
			var cts []ice.CandidateType
			for _, s := range cfg.Types {
				ct, err := candType(s)
				if err != nil {
					res.Err = err.Error()

					return
				}
				if s == "srflx" {
					srflx = true
				}
				cts = append(cts, ct)
			}
			opts = append(opts, ice.WithCandidateTypes(cts))
		}
		if srflx {
			opts = append(opts, ice.WithUrls([]*stun.URI{mustURL(t, "stun:8.8.8.8:3478"), mustURL(t, "stun:[2001:4860:4860::8888]:3478")}))
		}
		if cfg.Loopback {
			opts = append(opts, ice.WithIncludeLoopback())
		}
		switch cfg.Ifilter {
		case "first":
			opts = append(opts, ice.WithInterfaceFilter(func(n string) bool { return n == "if1" }))
		case "notfirst":
			opts = append(opts, ice.WithInterfaceFilter(func(n string) bool { return n != "if1" }))
		}
		switch cfg.Ipfilter {
		case "v4only":
			opts = append(opts, ice.WithIPFilter(func(ip net.IP) bool { return ip.To4() != nil }))
		case "notA":
			opts = append(opts, ice.WithIPFilter(func(ip net.IP) bool { return !ip.Equal(net.IPv4(10, 1, 0, 1)) }))
		}
		if cfg.Ports != "none" {
			opts = append(opts, ice.WithPortRange(uint16(tc.PortMin), uint16(tc.PortMax))) //nolint:gosec
			if cfg.Ports == "exhausted" {
				for p := tc.PortMin; p <= tc.PortMax; p++ {
					w.prebusy[p] = true
				}
			}
		}
		switch cfg.MDNS {
		case "off":
			opts = append(opts, ice.WithMulticastDNSMode(ice.MulticastDNSModeDisabled))
		case "gather":
			opts = append(opts, ice.WithMulticastDNSMode(ice.MulticastDNSModeQueryAndGather))
		case "query":
			opts = append(opts, ice.WithMulticastDNSMode(ice.MulticastDNSModeQueryOnly))
		}
		if cfg.Mux == "udp" || cfg.Mux == "both" {
			m := &fudpMux{fmux{w: w, kind: "udpmux"}}
			for i, a := range tc.MuxAddrs {
				m.addrs = append(m.addrs, &net.UDPAddr{IP: net.ParseIP(a), Port: 6000 + i})
			}
			opts = append(opts, ice.WithUDPMux(m))
		}
		if cfg.Mux == "tcp" || cfg.Mux == "both" {
			opts = append(opts, ice.WithTCPMux(&ftcpMux{fmux: fmux{w: w, kind: "tcpmux"}, port: 7000}))
		}
		if len(tc.Rw) == 2 {
			opts = append(opts, ice.WithAddressRewriteRules(ice.AddressRewriteRule{Local: tc.Rw[0], External: []string{tc.Rw[1]},
				AsCandidateType: ice.CandidateTypeHost, Mode: ice.AddressRewriteReplace}))
		}
		a, err := ice.NewAgentWithOptions(opts...)
		if err != nil {
			res.Err = "new: " + err.Error()

			return
		}
		var mu sync.Mutex
		var pubs []ice.Candidate
		nils := 0
		if err := a.OnCandidate(func(c ice.Candidate) {
			mu.Lock()
			defer mu.Unlock()
			if c == nil {
				nils++

				return
			}
			pubs = append(pubs, c)
		}); err != nil {
			res.Err = err.Error()

			return
		}
		if err := a.GatherCandidates(); err != nil {
			res.Err = "gather: " + err.Error()
		}
		// the scripted STUN server answers every Binding request
		for round := 0; round < 6; round++ {
			synctest.Wait()
			w.mu.Lock()
			socks := append([]*fudp{}, w.socks...)
			w.mu.Unlock()
			did := false
			for _, s := range socks {
				if s.r.MDNS || s.answered || s.isClosed() {
					continue
				}
				if m, _ := s.pendingSTUN(); m != nil {
					ip := net.IPv4(99, 0, 0, 1)
					if s.laddr.IP.To4() == nil {
						ip = net.ParseIP("2001:db8:99::1")
					}
					if s.reply(&net.UDPAddr{IP: ip, Port: 7000 + s.r.ID}) {
						did = true
					}
				}
			}
			if !did {
				break
			}
		}
		time.Sleep(10 * time.Second)
		synctest.Wait()
		if snap, err := a.VerifGatherSnapshot(); err == nil {
			res.GS = gsName(snap.GatheringState)
		}
		mu.Lock()
		res.Nils = nils
		for _, c := range pubs {
			p := setPub{Type: c.Type().String(), Net: c.NetworkType().String(), Addr: spell(tc, c.Address()), Port: c.Port(), Base: "?"}
			p.IsName = c.Address() == mdnsName
			w.mu.Lock()
			if x := w.byConn[ice.VerifCandidateConn(c)]; x != nil {
				p.Base, p.Kind = spell(tc, x.IP), x.Kind
			}
			w.mu.Unlock()
			if ra := c.RelatedAddress(); ra != nil {
				p.RBase, p.RPort = spell(tc, ra.Address), ra.Port
			}
			res.Pub = append(res.Pub, p)
		}
		mu.Unlock()
		_ = a.Close()
		time.Sleep(10 * time.Second)
		synctest.Wait()
		for _, x := range w.snapshotRes() {
			if x.MDNS {
				continue
			}
			res.Opened++
			if x.Rel == 0 && !x.Removed {
				res.Leaked++
			}
			if x.Rel > 1 {
				res.Dbl++
			}
		}
	})

	return res
}

type setJob struct {
	Cases string `json:"cases"`
	Out   string `json:"out"`
	Stats string `json:"stats"`
}

// TestGatherSet runs every case of the job and records what the agent published.
func TestGatherSet(t *testing.T) {
	jp := os.Getenv("VERIF_JOB")
	if jp == "" {
		t.Skip("no VERIF_JOB")
	}
	var job setJob
	raw, err := os.ReadFile(jp)
	if err != nil {
		t.Fatal(err)
	}
	if err := json.Unmarshal(raw, &job); err != nil {
		t.Fatal(err)
	}
	in, err := os.Open(job.Cases)
	if err != nil {
		t.Fatal(err)
	}
	defer in.Close()
	of, err := os.Create(job.Out)
	if err != nil {
		t.Fatal(err)
	}
	defer of.Close()
	bw := bufio.NewWriterSize(of, 1<<20)
	defer bw.Flush()
	enc := json.NewEncoder(bw)
	sc := bufio.NewScanner(in)
	sc.Buffer(make([]byte, 1<<20), 1<<24)
	stats := map[string]int{}
	for sc.Scan() {
		line := strings.TrimSpace(sc.Text())
		if line == "" {
			continue
		}
		var tc setCase
		if err := json.Unmarshal([]byte(line), &tc); err != nil {
			t.Fatal(err)
		}
		r := runSetCase(t, tc)
		stats["cases"]++
		stats["published"] += len(r.Pub)
		if r.Err != "" {
			stats["errors"]++
		}
		if err := enc.Encode(r); err != nil {
			t.Fatal(err)
		}
	}
	sb, _ := json.Marshal(stats)
	if err := os.WriteFile(job.Stats, sb, 0o644); err != nil {
		t.Fatal(err)
	}
}
