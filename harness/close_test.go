package harness

import (
	"context"
	"encoding/json"
	"fmt"
	"net"
	"os"
	"strings"
	"sync"
	"testing"
	"testing/synctest"
	"time"

	"github.com/pion/ice/v4"
	"github.com/pion/logging"
	"github.com/pion/stun/v3"
)

// ---------- C08: Close / GracefulClose at every point of an agent's life.
//
// A scenario = a connection history (k pump steps), optional faults (A's socket blocks in WriteTo, a slow
// handler), blocked API callers (Dial, Accept, Read, a writer), and one or two closers (Close or
// GracefulClose; from an API goroutine or from inside one of the three callbacks; repeated afterwards).
// Every call start/return and every notification is logged as an event; the bubble itself is the
// watchdog: a closer or caller that never returns, or a goroutine left behind, makes synctest report a
// deadlock, which is logged as the final event of the scenario instead of crashing the driver.

type closeScenario struct {
	ID         int    `json:"id"`
	K          int    `json:"k"`          // pump steps before the close
	Closer     string `json:"closer"`     // api | cbstate | cbcand | cbpair
	Graceful   bool   `json:"graceful"`   // GracefulClose instead of Close (api closer only)
	Second     string `json:"second"`     // "" | close | graceful : a second, concurrent closer from an API goroutine
	BlockWrite bool   `json:"blockWrite"` // A's socket blocks in WriteTo until it is closed
	SlowState  bool   `json:"slowState"`  // A's connection-state handler sleeps 1 s per call
	Restart    bool   `json:"restart"`    // Restart + GatherCandidates after the pump steps, before the close
	PreGather  bool   `json:"preGather"`  // close before GatherCandidates was ever called
	Writer     bool   `json:"writer"`     // a goroutine keeps writing application data on A's conn
	TCP        bool   `json:"tcp"`        // passive ICE-TCP candidate on a real TCPMuxDefault, the driver plays the peer
	RealMux    bool   `json:"realMux"`    // A's candidate sits on a real ice.UDPMuxDefault over one socket of the simulated world
	ViaConn    bool   `json:"viaConn"`    // Close calls go through the net.Conn returned by Dial (Conn.Close) once it exists
}

type closeJob struct {
	Scenarios []closeScenario `json:"scenarios"`
	Out       string          `json:"out"`
}

type evlog struct {
	mu  sync.Mutex
	seq int
	enc *json.Encoder
	sc  int
}

func (l *evlog) emit(ev string, kv ...any) {
	l.mu.Lock()
	defer l.mu.Unlock()
	l.seq++
	m := map[string]any{"ev": ev, "sc": l.sc, "seq": l.seq, "who": "", "err": "", "st": "", "n": 0, "graceful": false, "closers": 0, "ok": false}
	for i := 0; i+1 < len(kv); i += 2 {
		k, _ := kv[i].(string)
		m[k] = kv[i+1]
	}
	_ = l.enc.Encode(m)
}

func errStr(err error) string {
	if err == nil {
		return ""
	}

	return err.Error()
}

func TestClose(t *testing.T) {
	jp := os.Getenv("VERIF_JOB")
	if jp == "" {
		t.Skip("VERIF_JOB not set")
	}
	var job closeJob
	b, err := os.ReadFile(jp)
	if err != nil {
		t.Fatal(err)
	}
	if err = json.Unmarshal(b, &job); err != nil {
		t.Fatal(err)
	}
	out, err := os.Create(job.Out)
	if err != nil {
		t.Fatal(err)
	}
	defer out.Close()
	log := &evlog{enc: json.NewEncoder(out)}
	ice.VerifManualTicks = true
	for _, sc := range job.Scenarios {
		log.sc = sc.ID
		log.seq = 0
		log.emit("Begin", "cfg", sc)
		leak := ""
		finished := make(chan struct{})
		go func() {
			defer close(finished)
			defer func() {
				if r := recover(); r != nil {
					leak = fmt.Sprint(r)
					if i := strings.Index(leak, "\n"); i > 0 {
						leak = leak[:i]
					}
				}
			}()
			synctest.Test(t, func(t *testing.T) {
				if sc.TCP {
					runCloseTCP(t, sc, log)
				} else {
					runCloseScenario(t, sc, log)
				}
			})
		}()
		select {
		case <-finished:
		case <-time.After(45 * time.Second): // real time, outside the bubble: a scenario takes milliseconds
			// A goroutine blocked on a sync.Mutex (or spinning) is not durably blocked, so the bubble can neither advance
			// nor report a deadlock: the scenario hangs. Record it as the scenario's outcome and stop the driver.
			log.emit("End", "err", "watchdog: the scenario did not settle within 45 s of real time (goroutine stuck on a mutex or spinning)")
			_ = out.Sync()
			os.Exit(3)
		}
		log.emit("End", "err", leak)
	}
}

//nolint:gocyclo,cyclop,maintidx
func runCloseScenario(t *testing.T, sc closeScenario, log *evlog) {
	t.Helper()
	w := newWorld()
	lf := logging.NewDefaultLoggerFactory()
	lf.DefaultLogLevel = logging.LogLevelDisabled
	mk := func(n, la string) *ice.Agent {
		u, p := cred(n, 1)
		ag, err := ice.NewAgentWithOptions(ice.WithUDPMux(&simMux{w: w, addrs: []string{symAddr[la]}}),
			ice.WithMulticastDNSMode(ice.MulticastDNSModeDisabled),
			ice.WithCandidateTypes([]ice.CandidateType{ice.CandidateTypeHost}), ice.WithNetworkTypes([]ice.NetworkType{ice.NetworkTypeUDP4}),
			ice.WithLoggerFactory(lf), ice.WithLocalCredentials(u, p))
		if err != nil {
			t.Fatal(err)
		}

		return ag
	}
	var a *ice.Agent
	if sc.RealMux {
		// the production mux, not the driver's stand-in: the agent's writes go through UDPMuxDefault's write accounting, and
		// Close has to get a blocked one back through the mux's write abort
		sock := newMuxSock(w, symAddr["a1"])
		realMux := ice.NewUDPMuxDefault(ice.UDPMuxParams{UDPConn: sock, Logger: lf.NewLogger("mux")})
		defer func() { _ = realMux.Close(); _ = sock.Close() }()
		u, p := cred("A", 1)
		var err error
		a, err = ice.NewAgentWithOptions(ice.WithUDPMux(realMux), ice.WithMulticastDNSMode(ice.MulticastDNSModeDisabled),
			ice.WithCandidateTypes([]ice.CandidateType{ice.CandidateTypeHost}), ice.WithNetworkTypes([]ice.NetworkType{ice.NetworkTypeUDP4}),
			ice.WithLoggerFactory(lf), ice.WithLocalCredentials(u, p))
		if err != nil {
			t.Fatal(err)
		}
	} else {
		a = mk("A", "a1")
	}
	bAg := mk("B", "b1")
	var closedReturned sync.WaitGroup
	closeOnce := sync.Once{}
	var connMu sync.Mutex
	var connA *ice.Conn
	doClose := func(who string, graceful bool) {
		log.emit("CloseStart", "who", who, "graceful", graceful)
		var err error
		connMu.Lock()
		c := connA
		connMu.Unlock()
		switch {
		case graceful:
			err = a.GracefulClose()
		case sc.ViaConn && c != nil:
			err = c.Close() // the application holds only the net.Conn: same contract as Agent.Close
		default:
			err = a.Close()
		}
		log.emit("CloseReturn", "who", who, "graceful", graceful, "err", errStr(err))
	}
	cbClose := func(which string) {
		if sc.Closer == which && sc.ViaConn { // Dial returns at about the time the handler runs: give it a (virtual) moment
			for i := 0; i < 200; i++ {
				connMu.Lock()
				c := connA
				connMu.Unlock()
				if c != nil {
					break
				}
				time.Sleep(time.Millisecond)
			}
		}
		if sc.Closer == which {
			closeOnce.Do(func() { doClose(which, false) })
		}
	}
	_ = a.OnCandidate(func(c ice.Candidate) {
		log.emit("HStart", "who", "cand")
		cbClose("cbcand")
		log.emit("HEnd", "who", "cand")
	})
	_ = bAg.OnCandidate(func(ice.Candidate) {})
	_ = a.OnConnectionStateChange(func(s ice.ConnectionState) {
		log.emit("HStart", "who", "state", "st", s.String())
		if sc.SlowState {
			time.Sleep(time.Second)
		}
		if s == ice.ConnectionStateConnected || (sc.K < 6 && s == ice.ConnectionStateChecking) {
			cbClose("cbstate")
		}
		log.emit("HEnd", "who", "state", "st", s.String())
	})
	_ = a.OnSelectedCandidatePairChange(func(ice.Candidate, ice.Candidate) {
		log.emit("HStart", "who", "pair")
		cbClose("cbpair")
		log.emit("HEnd", "who", "pair")
	})
	ub, pb := cred("B", 1)
	ua, pa := cred("A", 1)
	if !sc.PreGather {
		log.emit("Call", "who", "gather", "err", errStr(a.GatherCandidates()))
		_ = bAg.GatherCandidates()
		synctest.Wait()
		_ = a.AddRemoteCandidate(mkHostCand("b1"))
		_ = bAg.AddRemoteCandidate(mkHostCand("a1"))
		synctest.Wait()
	}
	blocked := func(who string, f func() error) {
		closedReturned.Add(1)
		go func() {
			defer closedReturned.Done()
			log.emit("CallStart", "who", who)
			err := f()
			log.emit("CallReturn", "who", who, "err", errStr(err))
		}()
	}
	blocked("dial", func() error {
		c, err := a.Dial(context.Background(), ub, pb)
		connMu.Lock()
		connA = c
		connMu.Unlock()

		return err
	})
	go func() { _, _ = bAg.Accept(context.Background(), ua, pa) }()
	synctest.Wait()
	blocked("await", func() error { return a.AwaitConnect(context.Background()) })
	if sc.BlockWrite {
		w.mu.Lock()
		w.block[symAddr["a1"]] = true
		w.mu.Unlock()
	}
	readerStarted, writerStarted := false, false
	startIO := func() {
		connMu.Lock()
		c := connA
		connMu.Unlock()
		if c == nil {
			return
		}
		if !readerStarted {
			readerStarted = true
			blocked("read", func() error {
				buf := make([]byte, 2000)
				for {
					if _, err := c.Read(buf); err != nil {
						return err
					}
				}
			})
		}
		if sc.Writer && !writerStarted {
			writerStarted = true
			blocked("write", func() error {
				for i := 0; ; i++ {
					if _, err := c.Write(payload(i, 100)); err != nil {
						return err
					}
					time.Sleep(50 * time.Millisecond)
				}
			})
		}
	}
	for step := 0; step < sc.K; step++ { // one step = deliver one datagram, or tick both when nothing is in flight
		gs := w.take()
		if len(gs) > 0 {
			w.deliver(gs[0])
			w.mu.Lock()
			w.flight = append(gs[1:], w.flight...)
			w.mu.Unlock()
		} else {
			if !sc.BlockWrite {
				ice.VerifTick(a)
			}
			ice.VerifTick(bAg)
		}
		synctest.Wait()
		startIO()
	}
	if sc.BlockWrite { // put a loop task into the blocked socket write
		go ice.VerifTick(a)
		synctest.Wait()
	}
	if sc.Restart && !sc.BlockWrite { // with the loop stuck in a socket write every API call waits behind it
		u2, p2 := cred("A", 2)
		log.emit("Call", "who", "restart", "err", errStr(a.Restart(u2, p2)))
		log.emit("Call", "who", "gather2", "err", errStr(a.GatherCandidates()))
	}
	startIO()
	synctest.Wait()
	// ---- the close
	done := make(chan struct{}, 2)
	closers := 0
	if sc.Closer == "api" {
		closers++
		go func() { closeOnce.Do(func() {}); doClose("api", sc.Graceful); done <- struct{}{} }()
	}
	if sc.Second != "" {
		closers++
		go func() { doClose("api2", sc.Second == "graceful"); done <- struct{}{} }()
	}
	if sc.Closer != "api" {
		// the callback closer fires when its event happens; keep pumping until it did (bounded)
		for step := 0; step < 40; step++ {
			gs := w.take()
			if len(gs) > 0 {
				w.deliver(gs[0])
				w.mu.Lock()
				w.flight = append(gs[1:], w.flight...)
				w.mu.Unlock()
			} else {
				go ice.VerifTick(a)
				ice.VerifTick(bAg)
			}
			synctest.Wait()
			startIO()
		}
		// make sure the agent is closed in the end whatever happened (idempotent)
		closers++
		go func() { doClose("api3", false); done <- struct{}{} }()
	}
	synctest.Wait()
	time.Sleep(5 * time.Second) // slow handlers finish; bounded time for everybody to return
	synctest.Wait()
	returned := 0
	for i := 0; i < closers; i++ {
		select {
		case <-done:
			returned++
		default:
		}
	}
	log.emit("Settled", "n", returned, "closers", closers)
	// ---- afterwards: every API call returns promptly and reports the closed error
	after := func(who string, f func() error) {
		ch := make(chan error, 1)
		go func() { ch <- f() }()
		synctest.Wait()
		select {
		case err := <-ch:
			log.emit("After", "who", who, "err", errStr(err))
		default:
			log.emit("After", "who", who, "err", "BLOCKED")
		}
	}
	after("GetLocalCandidates", func() error { _, err := a.GetLocalCandidates(); return err })
	after("GetRemoteCandidates", func() error { _, err := a.GetRemoteCandidates(); return err })
	after("Restart", func() error { return a.Restart("", "") })
	after("GatherCandidates", func() error { return a.GatherCandidates() })
	after("SetRemoteCredentials", func() error { return a.SetRemoteCredentials("uuuu", "pppppppppppppppppppppp") })
	after("GetGatheringState", func() error { _, err := a.GetGatheringState(); return err })
	after("GetLocalUserCredentials", func() error { _, _, err := a.GetLocalUserCredentials(); return err })
	after("AwaitConnect", func() error {
		ctx, cancel := context.WithTimeout(context.Background(), time.Second)
		defer cancel()

		return a.AwaitConnect(ctx)
	})
	after("Dial", func() error { _, err := a.Dial(context.Background(), ub, pb); return err })
	after("Close", func() error { return a.Close() })
	after("GracefulClose", func() error { return a.GracefulClose() })
	connMu.Lock()
	c := connA
	connMu.Unlock()
	if c != nil {
		after("Read", func() error { _, err := c.Read(make([]byte, 10)); return err })
		after("Write", func() error { _, err := c.Write(payload(1, 10)); return err })
	}
	snap := a.VerifSnapshot()
	log.emit("AfterSnapshot", "ok", snap.OK)
	_ = bAg.Close()
	time.Sleep(time.Minute)
	synctest.Wait()
	log.emit("Quiet")
}

func mkHostCand(name string) ice.Candidate {
	hp := symAddr[name]
	i := strings.LastIndex(hp, ":")
	var port int
	_, _ = fmt.Sscanf(hp[i+1:], "%d", &port)
	c, _ := ice.NewCandidateHost(&ice.CandidateHostConfig{Network: "udp", Address: hp[:i], Port: port, Component: 1})

	return c
}

// ---------- ICE-TCP variant: a passive TCP host candidate on a real TCPMuxDefault over a fake listener; the peer is the
// driver itself, speaking framed STUN over one end of a net.Pipe. With BlockWrite the peer stops reading, so the agent's
// answer sits in a blocked stream write inside a loop task when the close starts.

type pipeListener struct {
	ch     chan net.Conn
	closed chan struct{}
	once   sync.Once
	addr   *net.TCPAddr
}

func (l *pipeListener) Accept() (net.Conn, error) {
	select {
	case c := <-l.ch:
		return c, nil
	case <-l.closed:
		return nil, net.ErrClosed
	}
}
func (l *pipeListener) Close() error   { l.once.Do(func() { close(l.closed) }); return nil }
func (l *pipeListener) Addr() net.Addr { return l.addr }

type addrConn struct {
	net.Conn
	l, r *net.TCPAddr
}

func (p *addrConn) LocalAddr() net.Addr  { return p.l }
func (p *addrConn) RemoteAddr() net.Addr { return p.r }

func runCloseTCP(t *testing.T, sc closeScenario, log *evlog) {
	t.Helper()
	lf := logging.NewDefaultLoggerFactory()
	lf.DefaultLogLevel = logging.LogLevelDisabled
	ln := &pipeListener{ch: make(chan net.Conn), closed: make(chan struct{}), addr: &net.TCPAddr{IP: net.IPv4(127, 0, 0, 1), Port: 4000}}
	mux := ice.NewTCPMuxDefault(ice.TCPMuxParams{Listener: ln, Logger: lf.NewLogger("ice"), ReadBufferSize: 8})
	ua, pa := cred("A", 1)
	ub, pb := cred("B", 1)
	a, err := ice.NewAgentWithOptions(ice.WithTCPMux(mux), ice.WithMulticastDNSMode(ice.MulticastDNSModeDisabled),
		ice.WithCandidateTypes([]ice.CandidateType{ice.CandidateTypeHost}), ice.WithNetworkTypes([]ice.NetworkType{ice.NetworkTypeTCP4}),
		ice.WithIncludeLoopback(), ice.WithLoggerFactory(lf), ice.WithLocalCredentials(ua, pa))
	if err != nil {
		t.Fatal(err)
	}
	doClose := func(who string, graceful bool) {
		log.emit("CloseStart", "who", who, "graceful", graceful)
		var cerr error
		if graceful {
			cerr = a.GracefulClose()
		} else {
			cerr = a.Close()
		}
		log.emit("CloseReturn", "who", who, "graceful", graceful, "err", errStr(cerr))
	}
	_ = a.OnCandidate(func(ice.Candidate) { log.emit("HStart", "who", "cand"); log.emit("HEnd", "who", "cand") })
	_ = a.OnConnectionStateChange(func(s ice.ConnectionState) {
		log.emit("HStart", "who", "state", "st", s.String())
		if sc.SlowState {
			time.Sleep(time.Second)
		}
		log.emit("HEnd", "who", "state", "st", s.String())
	})
	_ = a.OnSelectedCandidatePairChange(func(ice.Candidate, ice.Candidate) { log.emit("HStart", "who", "pair"); log.emit("HEnd", "who", "pair") })
	log.emit("Call", "who", "gather", "err", errStr(a.GatherCandidates()))
	synctest.Wait()
	go func() {
		log.emit("CallStart", "who", "dial")
		_, aerr := a.Accept(context.Background(), ub, pb)
		log.emit("CallReturn", "who", "dial", "err", errStr(aerr))
	}()
	synctest.Wait()
	// the peer: an ICE-TCP client that sends one authenticated check (with USE-CANDIDATE) and then reads or stalls
	client, server := net.Pipe()
	peerAddr := &net.TCPAddr{IP: net.IPv4(10, 9, 9, 9), Port: 1001}
	go func() { ln.ch <- &addrConn{server, ln.addr, peerAddr} }()
	req, berr := stun.Build(stun.BindingRequest, stun.TransactionID, stun.NewUsername(ua+":"+ub), ice.UseCandidate(),
		ice.AttrControlling(7), ice.PriorityAttr(2130706431), stun.NewShortTermIntegrity(pa), stun.Fingerprint)
	if berr != nil {
		t.Fatal(berr)
	}
	framed := append([]byte{byte(len(req.Raw) >> 8), byte(len(req.Raw))}, req.Raw...)
	go func() { _, _ = client.Write(framed) }()
	if !sc.BlockWrite {
		go func() { // a peer that keeps reading whatever the agent sends
			b := make([]byte, 4096)
			for {
				if _, rerr := client.Read(b); rerr != nil {
					return
				}
			}
		}()
	}
	synctest.Wait()
	for step := 0; step < sc.K; step++ {
		go ice.VerifTick(a)
		synctest.Wait()
		time.Sleep(20 * time.Millisecond)
	}
	done := make(chan struct{}, 2)
	closers := 1
	go func() { doClose("api", sc.Graceful); done <- struct{}{} }()
	if sc.Second != "" {
		closers++
		go func() { doClose("api2", sc.Second == "graceful"); done <- struct{}{} }()
	}
	synctest.Wait()
	time.Sleep(5 * time.Second)
	synctest.Wait()
	returned := 0
	for i := 0; i < closers; i++ {
		select {
		case <-done:
			returned++
		default:
		}
	}
	log.emit("Settled", "n", returned, "closers", closers)
	after := func(who string, f func() error) {
		ch := make(chan error, 1)
		go func() { ch <- f() }()
		synctest.Wait()
		select {
		case cerr := <-ch:
			log.emit("After", "who", who, "err", errStr(cerr))
		default:
			log.emit("After", "who", who, "err", "BLOCKED")
		}
	}
	after("GetLocalCandidates", func() error { _, cerr := a.GetLocalCandidates(); return cerr })
	after("Restart", func() error { return a.Restart("", "") })
	after("Close", func() error { return a.Close() })
	snap := a.VerifSnapshot()
	log.emit("AfterSnapshot", "ok", snap.OK)
	_ = client.Close() // unwedge a stuck agent so that the bubble can end; what it left behind is judged from the events
	_ = mux.Close()
	time.Sleep(time.Minute)
	synctest.Wait()
	log.emit("Quiet")
}
