package harness

import (
	"bytes"
	"crypto/rand"
	"encoding/hex"
	"encoding/json"
	"errors"
	"fmt"
	"io"
	"math"
	mrand "math/rand"
	"net"
	"net/netip"
	"os"
	"sort"
	"strconv"
	"strings"
	"sync"
	"testing"
	"testing/synctest"
	"time"

	"github.com/pion/ice/v4"
	"github.com/pion/logging"
	"github.com/pion/stun/v3"
)

// ---------- configuration (specs/session/configs.json is the single source of truth)

type walkCfg struct {
	Ticks   int   `json:"ticks"`
	Loss    int   `json:"loss"`
	Dup     int   `json:"dup"`
	Inject  int   `json:"inject"`
	Restart int   `json:"restart"`
	Renom   int   `json:"renom"`
	Data    int   `json:"data"`
	Close   int   `json:"close"`
	Steps   int   `json:"steps"`
	Advance []int `json:"advance"`
	Horizon int   `json:"horizon"`
}

type trCfg struct {
	D   int            `json:"D"`
	F   int            `json:"F"`
	K   int            `json:"K"`
	H   int            `json:"H"`
	Acc map[string]int `json:"acc"`
}

type sessCfg struct {
	Loc        map[string][]string    `json:"loc"`
	Nat        map[string]string      `json:"nat"`
	Roles      map[string]string      `json:"roles"`
	TbCmp      int                    `json:"tbcmp"`
	Signal     map[string][][2]string `json:"signal"`
	Presignal  map[string][][2]string `json:"presignal"`
	Unreach    [][2]string            `json:"unreach"`
	MaxReq     int                    `json:"maxReq"`
	Renom      bool                   `json:"renom"`
	PreRestart bool                   `json:"preRestart"`
	NomBase    uint32                 `json:"nomBase"`
	NomStep    uint32                 `json:"nomStep"`
	Lite       map[string]bool        `json:"lite"`
	CheckPrio  map[string]bool        `json:"checkPrio"`
	TCPRemote  bool                   `json:"tcpRemote"`     // x9 is known to both agents as a TCP remote candidate
	RFilter    map[string][]string    `json:"rfilter"`       // remote addresses (symbolic) an agent's remote IP filter rejects
	TCPActive  bool                   `json:"tcpActive"`     // a TCP-active remote candidate is signalled to both agents during set-up (it must be ignored)
	ForgeRole  bool                   `json:"forgeConflict"` // forged requests may carry the receiver's own role (a peer that misbehaves mid-session)
	LiteDef    map[string]bool        `json:"liteDefault"`   // the lite agent keeps its default disconnected timeout (no explicit option)
	ViaConfig  bool                   `json:"viaConfig"`     // the agents are built with NewAgent(&AgentConfig{...}) (pointer fields) instead of options
	Walk       walkCfg                `json:"walk"`
	Tr         trCfg                  `json:"tr"`
}

func mergeJSON(dst, src map[string]any) {
	for k, v := range src {
		if sm, ok := v.(map[string]any); ok {
			if dm, ok2 := dst[k].(map[string]any); ok2 && k != "loc" && k != "signal" && k != "presignal" && k != "nat" && k != "roles" {
				mergeJSON(dm, sm)

				continue
			}
		}
		dst[k] = v
	}
}

func loadSessCfg(path, name string) (sessCfg, error) {
	var raw struct {
		Defaults map[string]any            `json:"defaults"`
		Configs  map[string]map[string]any `json:"configs"`
	}
	b, err := os.ReadFile(path)
	if err != nil {
		return sessCfg{}, err
	}
	if err = json.Unmarshal(b, &raw); err != nil {
		return sessCfg{}, err
	}
	ov, ok := raw.Configs[name]
	if !ok {
		return sessCfg{}, fmt.Errorf("no session config %q", name)
	}
	// deep copy defaults through JSON
	var base map[string]any
	db, _ := json.Marshal(raw.Defaults)
	_ = json.Unmarshal(db, &base)
	mergeJSON(base, ov)
	mb, _ := json.Marshal(base)
	var c sessCfg
	err = json.Unmarshal(mb, &c)

	return c, err
}

// ---------- job description written by ./check

type sessJob struct {
	Configs  string   `json:"configs"`  // path of configs.json
	Cfg      string   `json:"cfg"`      // config name
	Seed     int64    `json:"seed"`     // base seed
	Traces   int      `json:"traces"`   // number of random walks
	Scheds   []string `json:"scheds"`   // schedule files (each a JSON list of actions) replayed before the walks
	Out      string   `json:"out"`      // ndjson output
	NoPrefix bool     `json:"noprefix"` // replay of a recorded trace: the schedule carries the set-up actions itself, in the order they were recorded
	Drain    bool     `json:"drain"`    // append the fair, loss-free suffix
	NoTime   bool     `json:"notime"`   // frozen clock
	Stats    string   `json:"stats"`    // JSON summary output
	ZeroWait bool     `json:"zerowait"` // acceptance waits forced to 0
	Tb       []string `json:"tb"`       // replay: the tie-breakers of A and B (decimal); empty: drawn from the boundary pool
}

// ---------- model-level message record (field names are the TLA+ record fields)

type mmsg struct {
	From   string `json:"from"`
	Kind   string `json:"kind"`
	Src    string `json:"src"`
	Dst    string `json:"dst"`
	Tid    int    `json:"tid"`
	UC     bool   `json:"uc"`
	RoleA  string `json:"rolea"`
	User   [2]int `json:"user"`
	UShape int    `json:"ushape"` // how a negative user entry distorts the ufrag
	Key    [2]any `json:"key"`
	Prio   int    `json:"prio"`
	Tbc    int    `json:"tbc"`
	Copy   int    `json:"copy"`
	Nom    int    `json:"nom"`
}

// dgram is an application-data datagram on the simulated wire (model record + bytes).
type dgram struct {
	g gram
	m map[string]any
}

type dread struct {
	Pid    int  `json:"pid"`
	Len    int  `json:"len"`
	Intact bool `json:"intact"`
}

// payload builds a recognisable non-STUN payload: 0xD0, pid (4 bytes), then a pattern.
func payload(pid, n int) []byte {
	if n < 5 {
		n = 5
	}
	b := make([]byte, n)
	b[0] = 0xD0
	b[1], b[2], b[3], b[4] = byte(pid>>24), byte(pid>>16), byte(pid>>8), byte(pid)
	for i := 5; i < n; i++ {
		b[i] = byte(pid*31 + i*7)
	}

	return b
}

// payloadCookie builds a payload that is not a STUN message by its first byte (0xD0, cf. RFC 7983) but carries the STUN magic
// cookie at offset 4, as an RTP packet with that timestamp would: 0xD0, pid (3 bytes), cookie, then a pattern.
func payloadCookie(pid, n int) []byte {
	if n < 20 {
		n = 20
	}
	b := make([]byte, n)
	b[0] = 0xD0
	b[1], b[2], b[3] = byte(pid>>16), byte(pid>>8), byte(pid)
	b[4], b[5], b[6], b[7] = 0x21, 0x12, 0xA4, 0x42
	for i := 8; i < n; i++ {
		b[i] = byte(pid*31 + i*7)
	}

	return b
}

func parsePayload(b []byte) dread {
	if len(b) < 5 || b[0] != 0xD0 {
		return dread{Pid: -1, Len: len(b)}
	}
	if len(b) >= 20 && b[4] == 0x21 && b[5] == 0x12 && b[6] == 0xA4 && b[7] == 0x42 {
		pid := int(b[1])<<16 | int(b[2])<<8 | int(b[3])

		return dread{Pid: pid, Len: len(b), Intact: bytes.Equal(b, payloadCookie(pid, len(b)))}
	}
	pid := int(b[1])<<24 | int(b[2])<<16 | int(b[3])<<8 | int(b[4])
	ok := true
	for i, x := range payload(pid, len(b)) {
		if b[i] != x {
			ok = false
		}
	}

	return dread{Pid: pid, Len: len(b), Intact: ok}
}

type fl struct {
	g gram
	m mmsg
}

func other(a string) string {
	if a == "A" {
		return "B"
	}

	return "A"
}

// rank maps real candidate priorities onto the small ranks the model uses.
func rank(p uint32) int {
	switch p {
	case 2130706431:
		return 9
	case 1694498815:
		return 7
	case 0:
		return 0
	}

	return 8
}

type side struct {
	ag                     *ice.Agent
	gen                    int
	rgen                   int
	ufrag                  map[int]string
	pwd                    map[int]string
	tb                     uint64
	ticks                  int
	tids                   map[string]int // raw tid -> n (requests issued by this agent)
	raw                    map[int][12]byte
	nomCtr                 uint32
	lastRole, lastGath     string
	conn                   *ice.Conn
	reads                  []dread // payloads the application reader got since the last snapshot
	wrPk, wrBy, rdPk, rdBy int
	cbMu                   sync.Mutex
	cbCon                  []string
	pause                  chan struct{} // non-nil: the application's reader does not call Read until it is closed
	parked                 bool          // the reader waits for pause to be closed (it is not inside Read)
	failedSawSel           bool          // a Failed notification ran while GetSelectedCandidatePair still returned a pair
	cbSel                  [][2]string
	cbCnd                  []string
}

func (s *side) drainCB() (con []string, sel [][2]string, cnd []string) {
	s.cbMu.Lock()
	defer s.cbMu.Unlock()
	con, sel, cnd = s.cbCon, s.cbSel, s.cbCnd
	s.cbCon, s.cbSel, s.cbCnd = nil, nil, nil
	if con == nil {
		con = []string{}
	}
	if sel == nil {
		sel = [][2]string{}
	}
	if cnd == nil {
		cnd = []string{}
	}

	return
}

func cred(a string, g int) (string, string) {
	return fmt.Sprintf("uf%s%dxxxxxx", a, g), fmt.Sprintf("pw%s%dxxxxxxxxxxxxxxxxxxxxxxxxxx", a, g)
}

type sessStats struct {
	Traces      int            `json:"traces"`
	Events      int            `json:"events"`
	Skipped     int            `json:"skipped"`
	ByEvent     map[string]int `json:"by_event"`
	Connected   int            `json:"both_connected_at_end"`
	SchedTraces int            `json:"sched_traces"`
}

func TestSession(t *testing.T) {
	jp := os.Getenv("VERIF_JOB")
	if jp == "" {
		t.Skip("VERIF_JOB not set")
	}
	var job sessJob
	jb, err := os.ReadFile(jp)
	if err != nil {
		t.Fatal(err)
	}
	if err = json.Unmarshal(jb, &job); err != nil {
		t.Fatal(err)
	}
	cfg, err := loadSessCfg(job.Configs, job.Cfg)
	if err != nil {
		t.Fatal(err)
	}
	out, err := os.Create(job.Out)
	if err != nil {
		t.Fatal(err)
	}
	defer out.Close()
	enc := json.NewEncoder(out)
	stats := &sessStats{ByEvent: map[string]int{}}
	ice.VerifManualTicks = true
	for i, sf := range job.Scheds {
		var sched []map[string]any
		b, rerr := os.ReadFile(sf)
		if rerr != nil {
			t.Fatal(rerr)
		}
		if err = json.Unmarshal(b, &sched); err != nil {
			t.Fatalf("%s: %v", sf, err)
		}
		rng := mrand.New(mrand.NewSource(job.Seed + int64(1000003*i))) //nolint:gosec
		synctest.Test(t, func(t *testing.T) { runSession(t, &cfg, &job, rng, sched, enc, stats) })
		stats.SchedTraces++
	}
	for tr := 0; tr < job.Traces; tr++ {
		rng := mrand.New(mrand.NewSource(job.Seed*7919 + int64(tr))) //nolint:gosec
		synctest.Test(t, func(t *testing.T) { runSession(t, &cfg, &job, rng, nil, enc, stats) })
	}
	if job.Stats != "" {
		sb, _ := json.Marshal(stats)
		_ = os.WriteFile(job.Stats, sb, 0o600)
	}
}

//nolint:gocyclo,cyclop,maintidx
func runSession(t *testing.T, cfg *sessCfg, job *sessJob, rng *mrand.Rand, sched []map[string]any, enc *json.Encoder, stats *sessStats) {
	t.Helper()
	stats.Traces++
	w := newWorld()
	for l, p := range cfg.Nat {
		w.nat[symAddr[l]] = symAddr[p]
		w.rev[symAddr[p]] = symAddr[l]
	}
	lf := logging.NewDefaultLoggerFactory()
	lf.DefaultLogLevel = logging.LogLevelDisabled
	S := map[string]*side{}
	ms := func(v int) time.Duration { return time.Duration(v) * time.Millisecond }
	// tie-breakers: the configuration fixes only their order (TbCmp); the values come from a pool of 64-bit boundary pairs
	// (a comparison that truncates to 32 bits, is signed, or is off by one at the ends decides some of them the other way)
	tbs := map[string]uint64{}
	{
		hiLo := [][2]uint64{{200, 100}, {1<<64 - 1, 1}, {1 << 63, 1<<63 - 1}, {1<<32 + 1, 2}, {2, 1}, {1<<64 - 1, 1<<64 - 2},
			{1<<63 + 5, 7}, {1 << 32, 1<<32 - 1}, {1<<64 - 1, 1 << 63}, {3 << 32, 1<<32 + 7}, {5, 0}, {1<<64 - 1, 0}}
		eq := []uint64{150, 1, 1<<64 - 1, 1 << 63, 1 << 32, 0}
		k := rng.Intn(1 << 20)
		switch {
		case len(job.Tb) == 2:
			tbs["A"], _ = strconv.ParseUint(job.Tb[0], 10, 64)
			tbs["B"], _ = strconv.ParseUint(job.Tb[1], 10, 64)
		case cfg.TbCmp == 0:
			tbs["A"], tbs["B"] = eq[k%len(eq)], eq[k%len(eq)]
		case cfg.TbCmp > 0:
			tbs["A"], tbs["B"] = hiLo[k%len(hiLo)][0], hiLo[k%len(hiLo)][1]
		default:
			tbs["A"], tbs["B"] = hiLo[k%len(hiLo)][1], hiLo[k%len(hiLo)][0]
		}
	}
	for _, n := range []string{"A", "B"} {
		las := []string{}
		for _, l := range cfg.Loc[n] {
			las = append(las, symAddr[l])
		}
		u, p := cred(n, 1)
		acc := cfg.Tr.Acc
		if job.ZeroWait {
			acc = map[string]int{}
		}
		opts := []ice.AgentOption{
			ice.WithUDPMux(&simMux{w: w, addrs: las}),
			ice.WithMulticastDNSMode(ice.MulticastDNSModeDisabled),
			ice.WithCandidateTypes([]ice.CandidateType{ice.CandidateTypeHost}),
			ice.WithNetworkTypes([]ice.NetworkType{ice.NetworkTypeUDP4}),
			ice.WithLoggerFactory(lf), ice.WithLocalCredentials(u, p),
			ice.WithMaxBindingRequests(uint16(cfg.MaxReq)), //nolint:gosec
			ice.WithFailedTimeout(ms(cfg.Tr.F)), ice.WithKeepaliveInterval(ms(cfg.Tr.K)),
			ice.WithHostAcceptanceMinWait(ms(acc["host"])), ice.WithSrflxAcceptanceMinWait(ms(acc["srflx"])),
			ice.WithPrflxAcceptanceMinWait(ms(acc["prflx"])), ice.WithRelayAcceptanceMinWait(ms(acc["relay"])),
		}
		if cfg.Renom {
			step := cfg.NomStep
			if step == 0 {
				step = 1
			}
			opts = append(opts, ice.WithRenomination(func() uint32 {
				if S[n].nomCtr == cfg.NomBase {
					S[n].nomCtr++ // first value: base + 1, then steps of NomStep
				} else {
					S[n].nomCtr += step
				}

				return S[n].nomCtr
			}))
		}
		if !(cfg.Lite[n] && cfg.LiteDef[n]) {
			opts = append(opts, ice.WithDisconnectedTimeout(ms(cfg.Tr.D)))
		}
		if len(cfg.RFilter[n]) > 0 {
			rejected := map[string]bool{}
			for _, x := range cfg.RFilter[n] {
				hp, _ := netip.ParseAddrPort(symAddr[x])
				rejected[hp.Addr().String()] = true
			}
			opts = append(opts, ice.WithRemoteIPFilter(func(ip net.IP) bool {
				a, _ := netip.AddrFromSlice(ip)

				return !rejected[a.Unmap().String()]
			}))
		}
		if cfg.Lite[n] {
			opts = append(opts, ice.WithICELite(true))
		}
		if cfg.CheckPrio[n] {
			opts = append(opts, ice.WithEnableUseCandidateCheckPriority())
		}
		ag, err := ice.NewAgentWithOptions(opts...)
		if cfg.ViaConfig {
			// the other way to configure an agent: the AgentConfig structure, whose timeouts are pointers (nil = default, a pointer
			// to zero = disabled); only configurations that need nothing but its fields use it
			if cfg.Renom || len(cfg.RFilter[n]) > 0 || cfg.CheckPrio[n] || (cfg.Lite[n] && cfg.LiteDef[n]) {
				t.Fatal("viaConfig: configuration needs an option that AgentConfig does not have")
			}
			if ag != nil {
				_ = ag.Close()
			}
			d := func(x int) *time.Duration { v := ms(x); return &v }
			mbr := uint16(cfg.MaxReq) //nolint:gosec
			ag, err = ice.NewAgent(&ice.AgentConfig{
				UDPMux: &simMux{w: w, addrs: las}, MulticastDNSMode: ice.MulticastDNSModeDisabled,
				CandidateTypes: []ice.CandidateType{ice.CandidateTypeHost}, NetworkTypes: []ice.NetworkType{ice.NetworkTypeUDP4},
				LoggerFactory: lf, LocalUfrag: u, LocalPwd: p, MaxBindingRequests: &mbr, Lite: cfg.Lite[n],
				DisconnectedTimeout: d(cfg.Tr.D), FailedTimeout: d(cfg.Tr.F), KeepaliveInterval: d(cfg.Tr.K),
				HostAcceptanceMinWait: d(acc["host"]), SrflxAcceptanceMinWait: d(acc["srflx"]),
				PrflxAcceptanceMinWait: d(acc["prflx"]), RelayAcceptanceMinWait: d(acc["relay"]),
			})
		}
		if err != nil {
			t.Fatal(err)
		}
		tb := tbs[n]
		ag.VerifSetTieBreaker(tb)
		if cfg.TCPRemote {
			// the attacker's address x9 is signalled as a TCP (passive) remote candidate: known, but on another transport.
			// Nothing is dialled (only UDP is enabled locally); the session model, which is UDP only, does not see it.
			hp, _ := netip.ParseAddrPort(symAddr["x9"])
			tc, terr := ice.NewCandidateHost(&ice.CandidateHostConfig{Network: "tcp", Address: hp.Addr().String(), Port: int(hp.Port()),
				Component: 1, TCPType: ice.TCPTypePassive})
			if terr != nil {
				t.Fatal(terr)
			}
			if terr = ag.AddRemoteCandidate(tc); terr != nil {
				t.Fatal(terr)
			}
			synctest.Wait()
		}
		if cfg.TCPActive {
			hp, _ := netip.ParseAddrPort(symAddr["x9"])
			tc, terr := ice.NewCandidateHost(&ice.CandidateHostConfig{Network: "tcp", Address: hp.Addr().String(), Port: 9,
				Component: 1, TCPType: ice.TCPTypeActive})
			if terr != nil {
				t.Fatal(terr)
			}
			_ = ag.AddRemoteCandidate(tc)
			synctest.Wait()
		}
		sd := &side{ag: ag, nomCtr: cfg.NomBase, gen: 1, rgen: 0, ufrag: map[int]string{1: u}, pwd: map[int]string{1: p}, tb: tb, tids: map[string]int{}, raw: map[int][12]byte{}}
		_ = ag.OnCandidate(func(c ice.Candidate) {
			sd.cbMu.Lock()
			if c == nil {
				sd.cbCnd = append(sd.cbCnd, "nil")
			} else {
				sd.cbCnd = append(sd.cbCnd, sym(net.JoinHostPort(c.Address(), strconv.Itoa(c.Port()))))
			}
			sd.cbMu.Unlock()
		})
		_ = ag.OnConnectionStateChange(func(cs ice.ConnectionState) {
			// what the application sees when it is told Failed: the lock-free accessor must already report "no selected pair"
			sawSel := false
			if cs == ice.ConnectionStateFailed {
				if p, _ := ag.GetSelectedCandidatePair(); p != nil {
					sawSel = true
				}
			}
			sd.cbMu.Lock()
			sd.cbCon = append(sd.cbCon, cs.String())
			sd.failedSawSel = sd.failedSawSel || sawSel
			sd.cbMu.Unlock()
		})
		_ = ag.OnSelectedCandidatePairChange(func(l, r ice.Candidate) {
			sd.cbMu.Lock()
			sd.cbSel = append(sd.cbSel, [2]string{
				sym(net.JoinHostPort(l.Address(), strconv.Itoa(l.Port()))), sym(net.JoinHostPort(r.Address(), strconv.Itoa(r.Port()))),
			})
			sd.cbMu.Unlock()
		})
		S[n] = sd
	}
	ownerOfLocal := func(a string) string {
		for _, l := range cfg.Loc["A"] {
			if symAddr[l] == a {
				return "A"
			}
		}

		return "B"
	}
	local := func(wire string) string {
		if l, ok := w.rev[wire]; ok {
			return l
		}

		return wire
	}
	mkCand := func(addr, typ string) ice.Candidate {
		h, ps, _ := net.SplitHostPort(symAddr[addr])
		p, _ := strconv.Atoi(ps)
		if typ == "srflx" {
			c, _ := ice.NewCandidateServerReflexive(&ice.CandidateServerReflexiveConfig{Network: "udp", Address: h, Port: p, Component: 1, RelAddr: "192.168.7.7", RelPort: 7})

			return c
		}
		c, _ := ice.NewCandidateHost(&ice.CandidateHostConfig{Network: "udp", Address: h, Port: p, Component: 1})

		return c
	}
	agentAddr := map[string]bool{}
	for _, n := range []string{"A", "B"} {
		for _, l := range cfg.Loc[n] {
			agentAddr[l] = true
			if p, ok := cfg.Nat[l]; ok {
				agentAddr[p] = true
			}
		}
	}
	unreach := map[[2]string]bool{}
	for _, u := range cfg.Unreach {
		unreach[u] = true
	}
	start := func(n string) {
		u, p := cred(other(n), S[other(n)].gen)
		var err error
		if cfg.Roles[n] == "controlling" {
			S[n].conn, err = S[n].ag.StartDial(u, p)
		} else {
			S[n].conn, err = S[n].ag.StartAccept(u, p)
		}
		if err != nil {
			t.Fatal(err)
		}
		sd := S[n]
		go func() { // the application's reader
			buf := make([]byte, 9000)
			for {
				sd.cbMu.Lock()
				hold := sd.pause
				sd.cbMu.Unlock()
				if hold != nil { // the application has stopped reading: what arrives now stays in the agent's receive buffer
					sd.cbMu.Lock()
					sd.parked = true
					sd.cbMu.Unlock()
					<-hold
					sd.cbMu.Lock()
					sd.parked = false
					sd.cbMu.Unlock()
				}
				k, rerr := sd.conn.Read(buf)
				if rerr != nil {
					return
				}
				sd.cbMu.Lock()
				sd.reads = append(sd.reads, parsePayload(buf[:k]))
				sd.cbMu.Unlock()
			}
		}()
	}
	preResidue := map[string][]int{"A": {0, 0, 0, 0, 0}, "B": {0, 0, 0, 0, 0}}
	started := map[string]bool{}
	closed := map[string]bool{}
	t0 := time.Now()
	gathNew := map[string]bool{"A": true, "B": true}

	genOf := func(agent, uf string) int {
		for g, u := range S[agent].ufrag {
			if u == uf {
				return g
			}
		}

		return 0
	}
	var flight []fl
	nomTid := map[int]int{} // request ordinal -> nomination value it carried
	decode := func(g gram) (mmsg, bool) {
		m := &stun.Message{Raw: g.data}
		if m.Decode() != nil {
			return mmsg{}, false
		}
		from := ownerOfLocal(local(g.from))
		to := other(from) // the intended peer, whatever address the datagram goes to
		mm := mmsg{From: from, Src: sym(g.from), Dst: sym(g.to), RoleA: "none"}
		switch m.Type.Class {
		case stun.ClassRequest:
			mm.Kind = "req"
		case stun.ClassSuccessResponse:
			mm.Kind = "succ"
		case stun.ClassErrorResponse:
			mm.Kind = "err"
		default:
			mm.Kind = "ind"
		}
		raw := hex.EncodeToString(m.TransactionID[:])
		if mm.Kind == "req" {
			if _, ok := S[from].tids[raw]; !ok {
				n := len(S[from].tids) + 1
				if from == "B" {
					n += 1000 // disjoint ordinal ranges per issuing agent (Tid0 in IceSession.tla)
				}
				S[from].tids[raw] = n
				S[from].raw[n] = m.TransactionID
			}
			mm.Tid = S[from].tids[raw]
		} else { // a response carries the requester's transaction; unknown (attacker-chosen) ids are 0
			if v, ok := S[other(from)].tids[raw]; ok {
				mm.Tid = v
			} else if v, ok := S[from].tids[raw]; ok {
				mm.Tid = v
			}
		}
		mm.UC = m.Contains(stun.AttrUseCandidate)
		var ctl ice.AttrControl
		if ctl.GetFrom(m) == nil {
			mm.RoleA = strings.ToLower(ctl.Role.String())
			switch {
			case S[to].tb > ctl.Tiebreaker:
				mm.Tbc = 1
			case S[to].tb < ctl.Tiebreaker:
				mm.Tbc = -1
			}
		}
		var un stun.Username
		if un.GetFrom(m) == nil {
			parts := strings.SplitN(string(un), ":", 2)
			if len(parts) == 2 {
				mm.User = [2]int{genOf(to, parts[0]), genOf(from, parts[1])}
			}
		}
		mm.Key = [2]any{"X", 0}
		if stun.MessageIntegrity([]byte("")).Check(m) == nil {
			mm.Key = [2]any{other(from), 0}
		}
		for _, n := range []string{"A", "B"} {
			for gg, pw := range S[n].pwd {
				if stun.MessageIntegrity([]byte(pw)).Check(m) == nil {
					mm.Key = [2]any{n, gg}
				}
			}
		}
		var pr ice.PriorityAttr
		if pr.GetFrom(m) == nil {
			mm.Prio = rank(uint32(pr))
		}
		var na ice.NominationAttribute
		if na.GetFrom(m) == nil {
			mm.Nom = int(na.Value)
			if mm.Kind == "req" {
				nomTid[mm.Tid] = mm.Nom
			}
		}

		return mm, true
	}
	var dflight []dgram // application-data datagrams in flight (C07)
	collect := func() {
		for _, g := range w.take() {
			if mm, ok := decode(g); ok {
				flight = append(flight, fl{g, mm})
			} else {
				pr := parsePayload(g.data)
				dflight = append(dflight, dgram{g, map[string]any{"from": ownerOfLocal(local(g.from)), "src": sym(g.from), "dst": sym(g.to),
					"pid": pr.Pid, "len": pr.Len, "intact": pr.Intact}})
			}
		}
	}
	snap := func() map[string]any {
		res := map[string]any{}
		for _, n := range []string{"A", "B"} {
			s := S[n].ag.VerifSnapshot()
			if !s.OK { // the agent is closed: the loop refuses the snapshot task; everything has been released
				s.Role, s.Gath, s.Conn = S[n].lastRole, S[n].lastGath, "Closed"
			} else {
				S[n].lastRole, S[n].lastGath = s.Role, s.Gath
			}
			locs := []string{}
			for _, l := range s.Locals {
				locs = append(locs, sym(l.Addr))
			}
			tcpActive := 0
			if rc, rerr := S[n].ag.GetRemoteCandidates(); rerr == nil {
				for _, c := range rc {
					if c.TCPType() == ice.TCPTypeActive {
						tcpActive++
					}
				}
			}
			rems := []map[string]any{}
			rxs := map[string]int64{}
			for _, r := range s.Remotes {
				if !strings.HasPrefix(r.Net, "udp") {
					continue // a remote candidate of another transport is not part of the (UDP) session
				}
				rems = append(rems, map[string]any{"addr": sym(r.Addr), "typ": r.Typ, "prio": rank(r.Prio)})
				rx := int64(-1)
				if !r.Rx.IsZero() {
					rx = r.Rx.Sub(t0).Milliseconds()
				}
				if _, dup := rxs[sym(r.Addr)]; !dup { // two remote candidates at one address: inbound traffic is accounted to the first
					rxs[sym(r.Addr)] = rx
				}
			}
			prs := []map[string]any{}
			for _, p := range s.Pairs {
				prs = append(prs, map[string]any{"id": p.ID, "l": sym(p.L), "r": sym(p.R), "rt": p.RTyp, "byId": p.ByID, "st": p.St, "nom": p.Nom, "nos": p.Nos, "reqs": p.Reqs,
					"pr": []uint64{p.Prio >> 40, (p.Prio >> 20) & 0xfffff, p.Prio & 0xfffff}})
			}
			pend := []map[string]any{}
			for _, x := range s.Pend {
				pend = append(pend, map[string]any{"tid": S[n].tids[x.Tid], "dst": sym(x.Dst), "uc": x.UC, "nom": x.Nom})
			}
			con, sel, cnd := S[n].drainCB()
			S[n].cbMu.Lock()
			rds := S[n].reads
			S[n].reads = nil
			fss := S[n].failedSawSel
			paused := S[n].pause != nil
			S[n].cbMu.Unlock()
			if rds == nil {
				rds = []dread{}
			}
			for _, r := range rds {
				S[n].rdPk++
				S[n].rdBy += r.Len
			}
			selCnt := []uint64{0, 0, 0, 0}
			for _, p := range s.Pairs {
				if p.ID == s.Sel && s.Sel != 0 {
					selCnt = []uint64{uint64(p.PktSent), p.BytSent, uint64(p.PktRecv), p.BytRecv}
				}
			}
			var bs, br uint64
			if S[n].conn != nil {
				bs, br = S[n].conn.BytesSent(), S[n].conn.BytesReceived()
			}
			res[n] = map[string]any{
				"role": s.Role, "conn": s.Conn, "locals": locs, "remotes": rems, "pairs": prs, "pend": pend, "sel": s.Sel, "selListed": s.SelListed, "tcpActive": tcpActive,
				"nomPair": s.NomPair, "gen": S[n].gen, "rgen": S[n].rgen, "rx": rxs, "lastNom": s.LastNom, "gath": s.Gath,
				"cbConn": con, "cbSel": sel, "cbCand": cnd, "failedSawSel": fss, "paused": paused,
				"rd": rds, "bsent": bs, "brecv": br, "selCnt": selCnt, "tally": []int{S[n].wrPk, S[n].wrBy, S[n].rdPk, S[n].rdBy},
			}
		}
		nt := []mmsg{}
		for _, f := range flight {
			nt = append(nt, f.m)
		}
		res["net"] = nt
		dn := []map[string]any{}
		for _, d := range dflight {
			dn = append(dn, d.m)
		}
		res["dnet"] = dn
		res["now"] = time.Since(t0).Milliseconds()

		return res
	}
	emit := func(rec map[string]any) {
		stats.Events++
		if ev, ok := rec["ev"].(string); ok {
			stats.ByEvent[ev]++
		}
		if err := enc.Encode(rec); err != nil {
			t.Fatal(err)
		}
	}
	forge := func(b string, want map[string]any) fl {
		peer := other(b)
		kinds := []string{"req", "succ", "err", "ind", "other"} // "other": any class with a non-Binding method
		srcs := []string{"x9"}
		for _, pl := range cfg.Loc[peer] {
			if p, ok := cfg.Nat[pl]; ok {
				pl = p
			}
			srcs = append(srcs, pl)
		}
		dst := cfg.Loc[b][0]
		if p, ok := cfg.Nat[dst]; ok {
			dst = p
		}
		mm := mmsg{From: "X", Kind: kinds[rng.Intn(len(kinds))], Src: srcs[rng.Intn(len(srcs))], Dst: dst, UC: rng.Intn(2) == 0, Prio: 9, Tbc: 1}
		ps := S[b].ag.VerifSnapshot()
		pr := S[peer].ag.VerifSnapshot()
		mm.RoleA = pr.Role // the peer's role as seen by b: never a conflict
		var raw [12]byte
		_, _ = rand.Read(raw[:])
		if len(ps.Pend) > 0 && rng.Intn(2) == 0 {
			x := ps.Pend[rng.Intn(len(ps.Pend))]
			mm.Tid = S[b].tids[x.Tid]
			raw = S[b].raw[mm.Tid]
		}
		// a negative generation: a string built from that generation's ufrag that is not the ufrag (longer, shorter, an extra
		// segment, a prefix in front) - the USERNAME resembles the right one without being it; both negative: the halves swapped
		users := [][2]int{{S[b].gen, S[b].rgen}, {S[b].gen, 0}, {0, S[b].rgen}, {-S[b].gen, S[b].rgen}, {S[b].gen, -S[b].rgen}, {-S[b].gen, -S[b].rgen}}
		mm.User = users[rng.Intn(len(users))]
		mm.UShape = 1 + rng.Intn(4)
		keys := [][2]any{{b, S[b].gen}, {peer, S[b].rgen}, {peer, 0}, {"X", 0}, {"none", 0}}
		mm.Key = keys[rng.Intn(len(keys))]
		if (mm.Kind == "req" || mm.Kind == "succ") && rng.Intn(4) == 0 {
			// everything right except that the message carries no MESSAGE-INTEGRITY attribute at all: the right USERNAME on a
			// request; the transaction id and the source of an outstanding check on a response
			mm.User, mm.Key = [2]int{S[b].gen, S[b].rgen}, [2]any{"none", 0}
			if mm.Kind == "succ" && len(ps.Pend) > 0 {
				x := ps.Pend[rng.Intn(len(ps.Pend))]
				mm.Tid = S[b].tids[x.Tid]
				raw = S[b].raw[mm.Tid]
				mm.Src = sym(x.Dst)
			}
		}
		if mm.Kind == "other" && len(ps.Pend) > 0 && rng.Intn(2) == 0 {
			// the most tempting shape: signed with the remote password, carrying the transaction id of an outstanding check,
			// coming from the address that check went to
			x := ps.Pend[rng.Intn(len(ps.Pend))]
			mm.Tid = S[b].tids[x.Tid]
			raw = S[b].raw[mm.Tid]
			mm.Src = sym(x.Dst)
			mm.Key = [2]any{peer, S[b].rgen}
		}
		if cfg.ForgeRole && rng.Intn(2) == 0 {
			// peer misbehaviour in the middle of a session: a request that carries the receiver's own role, mostly one that
			// passes authentication, with a tie-breaker below, equal to or above the receiver's
			mm.Kind, mm.RoleA = "req", ps.Role
			mm.Tbc = rng.Intn(3) - 1
			if rng.Intn(4) != 0 {
				mm.User, mm.Key = [2]int{S[b].gen, S[b].rgen}, [2]any{b, S[b].gen}
			}
			if known := srcs[1:]; len(known) > 0 && rng.Intn(4) != 0 {
				mm.Src = known[rng.Intn(len(known))]
			}
		}
		if want != nil { // schedule replay: the model chose the message
			if v, ok := want["rolea"].(string); ok {
				mm.RoleA = v
			}
			if v, ok := want["tbc"].(float64); ok {
				mm.Tbc = int(v)
			}
			mm.Kind, _ = want["kind"].(string)
			mm.Src, _ = want["src"].(string)
			mm.UC, _ = want["uc"].(bool)
			if v, ok := want["tid"].(float64); ok {
				mm.Tid = int(v)
				if r, ok2 := S[b].raw[mm.Tid]; ok2 {
					raw = r
				} else {
					_, _ = rand.Read(raw[:]) // an id of the attacker's own, whatever the random part above had picked
				}
			}
			if u, ok := want["user"].([]any); ok && len(u) == 2 {
				mm.User = [2]int{int(u[0].(float64)), int(u[1].(float64))} //nolint:forcetypeassert
			}
			if v, ok := want["ushape"].(float64); ok {
				mm.UShape = int(v)
			}
			if k, ok := want["key"].([]any); ok && len(k) == 2 {
				mm.Key = [2]any{k[0], int(k[1].(float64))} //nolint:forcetypeassert
			}
		}
		// build bytes
		uf := func(agent string, g int, empty bool) string {
			if g == 0 {
				if empty {
					return ""
				}

				return "bogus"
			}

			if g < 0 {
				u := S[agent].ufrag[-g]
				switch mm.UShape {
				case 1:
					return u + "x"
				case 2:
					return u[:len(u)-1]
				case 3:
					if agent == b {
						return u + ":zz" // <local>:zz:<remote>
					}

					return "zz:" + u
				default:
					return "x" + u
				}
			}

			return S[agent].ufrag[g]
		}
		username := uf(b, mm.User[0], false) + ":" + uf(peer, mm.User[1], true)
		if mm.User[0] < 0 && mm.User[1] < 0 {
			username = S[peer].ufrag[-mm.User[1]] + ":" + S[b].ufrag[-mm.User[0]]
		}
		pw := "garbagegarbagegarbagegarbage"
		if k, _ := mm.Key[0].(string); k != "X" {
			g, _ := mm.Key[1].(int)
			if g == 0 {
				pw = ""
			} else {
				pw = S[k].pwd[g]
			}
		}
		cls := map[string]stun.MessageClass{"req": stun.ClassRequest, "succ": stun.ClassSuccessResponse, "err": stun.ClassErrorResponse, "ind": stun.ClassIndication}[mm.Kind]
		meth := stun.MethodBinding
		if mm.Kind == "other" {
			// a non-Binding method; mostly dressed as the success response an outstanding check is waiting for (the tid, key and
			// source choices above apply), sometimes as another class
			meth = []stun.Method{stun.MethodAllocate, stun.MethodRefresh, stun.MethodCreatePermission, stun.MethodChannelBind, stun.MethodSend}[int(raw[0])%5]
			cls = []stun.MessageClass{stun.ClassSuccessResponse, stun.ClassSuccessResponse, stun.ClassRequest, stun.ClassIndication}[int(raw[1])%4]
		}
		setters := []stun.Setter{
			stun.NewType(meth, cls), stun.NewTransactionIDSetter(raw),
			stun.NewUsername(username),
		}
		if mm.UC {
			setters = append(setters, ice.UseCandidate())
		}
		// tbc = sign(receiver's tie-breaker - sender's); at the ends of the range the nearest feasible value is taken
		if mm.Tbc > 0 && S[b].tb == 0 {
			mm.Tbc = 0
		}
		if mm.Tbc < 0 && S[b].tb == math.MaxUint64 {
			mm.Tbc = 0
		}
		ftb := S[b].tb - uint64(mm.Tbc) //nolint:gosec // -1 wraps to +1
		if mm.RoleA == "controlling" {
			setters = append(setters, ice.AttrControlling(ftb))
		} else {
			setters = append(setters, ice.AttrControlled(ftb))
		}
		setters = append(setters, ice.PriorityAttr(2130706431))
		if k, _ := mm.Key[0].(string); k != "none" {
			setters = append(setters, stun.NewShortTermIntegrity(pw))
		}
		setters = append(setters, stun.Fingerprint)
		msg, err := stun.Build(setters...)
		if err != nil {
			panic(err)
		}

		return fl{gram{msg.Raw, symAddr[mm.Src], symAddr[mm.Dst]}, mm}
	}
	reachable := func(m mmsg) bool { return agentAddr[m.Dst] && !unreach[[2]string{m.Src, m.Dst}] }

	collect()
	idBase := map[string]int{}
	for _, n := range []string{"A", "B"} {
		sn := S[n].ag.VerifSnapshot()
		idBase[n] = int(sn.NextPairID) - len(sn.Pairs)
	}
	emit(map[string]any{"ev": "Reset", "cfg": job.Cfg, "preResidue": preResidue, "idBase": idBase, "post": snap(),
		"tb": []string{strconv.FormatUint(tbs["A"], 10), strconv.FormatUint(tbs["B"], 10)}})
	loss, dup, inj, rst, renoms, badRenoms, dataOps, pidCtr, closes := 0, 0, 0, 0, 0, 0, 0, 0, 0
	type act struct {
		ev, ag string
		i      int
		want   map[string]any
	}
	do := func(c act) {
		rec := map[string]any{"ev": c.ev}
		take := func(i int) fl { f := flight[i]; flight = append(flight[:i:i], flight[i+1:]...); return f }
		switch c.ev {
		case "Start":
			rec["ag"] = c.ag
			S[c.ag].rgen = S[other(c.ag)].gen
			started[c.ag] = true
			start(c.ag)
		case "Close":
			rec["ag"] = c.ag
			closed[c.ag] = true
			closes++
			_ = S[c.ag].ag.Close()
		case "Tick":
			S[c.ag].ticks++
			rec["ag"] = c.ag
			ice.VerifTick(S[c.ag].ag)
		case "Deliver":
			f := take(c.i)
			rec["m"] = f.m
			if !reachable(f.m) {
				rec["ev"] = "Vanish"
			} else {
				w.deliver(f.g)
			}
		case "Drop":
			f := take(c.i)
			rec["m"] = f.m
			loss++
		case "Dup":
			f := flight[c.i]
			rec["m"] = f.m
			f.m.Copy = 1
			flight = append(flight, f)
			dup++
		case "Inject":
			f := forge(c.ag, c.want)
			rec["m"] = f.m
			flight = append(flight, f)
			inj++
		case "Renominate":
			sn := S[c.ag].ag.VerifSnapshot()
			p := sn.Pairs[c.i]
			locs, _ := S[c.ag].ag.GetLocalCandidates()
			rems, _ := S[c.ag].ag.GetRemoteCandidates()
			var lc, rc ice.Candidate
			for _, x := range locs {
				if net.JoinHostPort(x.Address(), strconv.Itoa(x.Port())) == p.L {
					lc = x
				}
			}
			for _, x := range rems {
				if net.JoinHostPort(x.Address(), strconv.Itoa(x.Port())) == p.R {
					rc = x
				}
			}
			rec["ag"] = c.ag
			rec["k"] = c.i + 1
			renoms++
			rec["err"] = ""
			if err := S[c.ag].ag.RenominateCandidate(lc, rc); err != nil {
				rec["err"] = err.Error()
			}
			rec["v"] = S[c.ag].nomCtr
			rec["l"], rec["r"] = sym(p.L), sym(p.R)
		case "Write": // application data through Conn.Write; c.i = payload length, c.want["stun"] = STUN-framed payload
			pidCtr++
			rec["ag"], rec["pid"], rec["len"], rec["stun"], rec["err"], rec["n"] = c.ag, pidCtr, c.i, false, "", 0
			pl := payload(pidCtr, c.i)
			rec["cookie"] = c.want != nil && c.want["cookie"] == true
			if rec["cookie"] == true {
				pl = payloadCookie(pidCtr, c.i)
			}
			rec["len"] = len(pl)
			if c.want != nil && c.want["stun"] == true {
				msg, _ := stun.Build(stun.BindingRequest, stun.TransactionID, stun.Fingerprint)
				pl = msg.Raw
				rec["stun"], rec["len"] = true, len(pl)
			}
			k, werr := S[c.ag].conn.Write(pl)
			rec["n"] = k
			if werr != nil {
				rec["err"] = werr.Error()
			} else {
				S[c.ag].wrPk++
				S[c.ag].wrBy += k
			}
			dataOps++
		case "PauseRead":
			rec["ag"] = c.ag
			S[c.ag].cbMu.Lock()
			S[c.ag].pause = make(chan struct{})
			S[c.ag].cbMu.Unlock()
		case "ShortRead": // one Read into a buffer shorter than any datagram, while the reader is stopped and not inside Read
			rec["ag"] = c.ag
			_ = S[c.ag].conn.SetReadDeadline(time.Now().Add(time.Microsecond)) // nothing waiting: the call comes back empty-handed
			k, rerr := S[c.ag].conn.Read(make([]byte, 3))
			_ = S[c.ag].conn.SetReadDeadline(time.Time{})
			rec["n"] = k
			switch {
			case rerr == nil:
				rec["res"] = "ok"
			case errors.Is(rerr, io.ErrShortBuffer):
				rec["res"] = "short"
			default:
				var ne net.Error
				if errors.As(rerr, &ne) && ne.Timeout() {
					rec["res"] = "empty"
				} else {
					rec["res"] = "error: " + rerr.Error()
				}
			}
		case "ResumeRead":
			rec["ag"] = c.ag
			S[c.ag].cbMu.Lock()
			ch := S[c.ag].pause
			S[c.ag].pause = nil
			S[c.ag].cbMu.Unlock()
			close(ch)
		case "DeliverData":
			d := dflight[c.i]
			dflight = append(dflight[:c.i:c.i], dflight[c.i+1:]...)
			rec["d"] = d.m
			dst, _ := d.m["dst"].(string)
			src, _ := d.m["src"].(string)
			if !agentAddr[dst] || unreach[[2]string{src, dst}] {
				rec["ev"] = "VanishData"
			} else {
				w.deliver(d.g)
			}
		case "DropData":
			d := dflight[c.i]
			dflight = append(dflight[:c.i:c.i], dflight[c.i+1:]...)
			rec["d"] = d.m
		case "InjectData": // a datagram with application-looking payload from the attacker's or the peer's address
			pidCtr++
			peer := other(c.ag)
			srcs := []string{"x9"}
			for _, l := range cfg.Loc[peer] {
				if p, ok := cfg.Nat[l]; ok {
					l = p
				}
				srcs = append(srcs, l)
			}
			src := srcs[rng.Intn(len(srcs))]
			if c.want != nil {
				src, _ = c.want["src"].(string)
			}
			dst := cfg.Loc[c.ag][0]
			if p, ok := cfg.Nat[dst]; ok {
				dst = p
			}
			ln := []int{5, 20, 1200}[rng.Intn(3)]
			pl := payload(pidCtr, ln)
			d := dgram{gram{pl, symAddr[src], symAddr[dst]}, map[string]any{"from": "X", "src": src, "dst": dst, "pid": pidCtr, "len": ln, "intact": true}}
			dflight = append(dflight, d)
			rec["d"] = d.m
			dataOps++
		case "RenominateBad": // a call the API must refuse: controlled agent, or renomination not enabled
			rec["ag"] = c.ag
			rec["err"] = ""
			badRenoms++
			locs, _ := S[c.ag].ag.GetLocalCandidates()
			rems, _ := S[c.ag].ag.GetRemoteCandidates()
			if len(locs) == 0 || len(rems) == 0 {
				rec["ev"] = "Skipped"
				rec["want"] = map[string]any{"ev": "RenominateBad"}
				stats.Skipped++
			} else if err := S[c.ag].ag.RenominateCandidate(locs[0], rems[0]); err != nil {
				rec["err"] = err.Error()
			}
		case "Advance":
			rec["d"] = c.i
			time.Sleep(ms(c.i))
		case "Restart":
			s := S[c.ag]
			s.gen++
			s.rgen = 0
			u, p := cred(c.ag, s.gen)
			s.ufrag[s.gen] = u
			s.pwd[s.gen] = p
			rec["ag"] = c.ag
			rst++
			gathNew[c.ag] = true
			if err := s.ag.Restart(u, p); err != nil {
				rec["err"] = err.Error()
			}
		case "Gather":
			rec["ag"] = c.ag
			gathNew[c.ag] = false
			if err := S[c.ag].ag.GatherCandidates(); err != nil {
				rec["err"] = err.Error()
			}
		case "SetRemoteCreds":
			s := S[c.ag]
			s.rgen = S[other(c.ag)].gen
			rec["ag"] = c.ag
			_ = s.ag.SetRemoteCredentials(S[other(c.ag)].ufrag[s.rgen], S[other(c.ag)].pwd[s.rgen])
		case "AddRemote":
			sg := cfg.Signal[c.ag][c.i]
			rec["ag"] = c.ag
			rec["c"] = map[string]any{"addr": sg[0], "typ": sg[1], "prio": map[string]int{"host": 9, "srflx": 7}[sg[1]]}
			_ = S[c.ag].ag.AddRemoteCandidate(mkCand(sg[0], sg[1]))
		default:
			stats.Skipped++
			emit(map[string]any{"ev": "Skipped", "want": map[string]any{"ev": c.ev}, "post": snap()})

			return
		}
		synctest.Wait()
		collect()
		rec["post"] = snap()
		emit(rec)
	}
	// ---- set-up prefix, as ordinary logged actions: gather, signal, (Restart while New), Dial/Accept.
	// Random walks run it in a shuffled order half of the time (every order is a legal use of the API).
	sigIndex := func(n string, sg [2]string) int {
		for i, x := range cfg.Signal[n] {
			if x == sg {
				return i
			}
		}

		return -1
	}
	var prefix []act
	for _, n := range []string{"A", "B"} {
		prefix = append(prefix, act{ev: "Gather", ag: n})
	}
	for _, n := range []string{"A", "B"} {
		for _, sg := range cfg.Presignal[n] {
			if i := sigIndex(n, sg); i >= 0 {
				prefix = append(prefix, act{ev: "AddRemote", ag: n, i: i})
			}
		}
	}
	if cfg.PreRestart {
		for _, n := range []string{"A", "B"} {
			prefix = append(prefix, act{ev: "Restart", ag: n}, act{ev: "Gather", ag: n})
			for _, sg := range cfg.Presignal[n] {
				if i := sigIndex(n, sg); i >= 0 {
					prefix = append(prefix, act{ev: "AddRemote", ag: n, i: i})
				}
			}
		}
	} else if sched == nil && rng.Intn(2) == 0 {
		rng.Shuffle(len(prefix), func(i, j int) { prefix[i], prefix[j] = prefix[j], prefix[i] })
	}
	prefix = append(prefix, act{ev: "Start", ag: "A"}, act{ev: "Start", ag: "B"})
	if !cfg.PreRestart && sched == nil && rng.Intn(4) == 0 { // Dial/Accept somewhere in the middle of the set-up
		k := rng.Intn(len(prefix) - 1)
		prefix[k], prefix[len(prefix)-2] = prefix[len(prefix)-2], prefix[k]
	}
	for _, c := range prefix {
		if job.NoPrefix || (c.ev == "Gather" && !gathNew[c.ag]) {
			continue
		}
		do(c)
	}
	rst = 0
	nsteps := cfg.Walk.Steps
	if sched != nil {
		nsteps = len(sched)
	}
	for step := 0; step < nsteps; step++ {
		var c act
		if sched == nil {
			var acts []act
			for _, n := range []string{"A", "B"} {
				if closed[n] {
					continue
				}
				if closes < cfg.Walk.Close && rng.Intn(10) == 0 {
					acts = append(acts, act{ev: "Close", ag: n})
				}
				if S[n].ticks < cfg.Walk.Ticks && started[n] {
					acts = append(acts, act{ev: "Tick", ag: n}, act{ev: "Tick", ag: n})
				}
				if rst < cfg.Walk.Restart {
					acts = append(acts, act{ev: "Restart", ag: n})
				}
				sn := S[n].ag.VerifSnapshot()
				if gathNew[n] {
					acts = append(acts, act{ev: "Gather", ag: n}, act{ev: "Gather", ag: n})
				}
				if S[n].rgen != S[other(n)].gen {
					acts = append(acts, act{ev: "SetRemoteCreds", ag: n}, act{ev: "SetRemoteCreds", ag: n})
				}
				for i := range cfg.Signal[n] {
					if rng.Intn(4) == 0 || len(sn.Remotes) == 0 {
						acts = append(acts, act{ev: "AddRemote", ag: n, i: i})
					}
				}
				if inj < cfg.Walk.Inject {
					acts = append(acts, act{ev: "Inject", ag: n})
				}
				if cfg.Renom && renoms < cfg.Walk.Renom && sn.Role == "controlling" {
					for i := range sn.Pairs {
						acts = append(acts, act{ev: "Renominate", ag: n, i: i})
					}
				}
				if dataOps < cfg.Walk.Data && started[n] {
					for _, ln := range []int{5, 19, 20, 1200, 8191, 8192} {
						acts = append(acts, act{ev: "Write", ag: n, i: ln})
					}
					acts = append(acts, act{ev: "Write", ag: n, i: 20, want: map[string]any{"stun": true}}, act{ev: "InjectData", ag: n}, act{ev: "InjectData", ag: n})
					acts = append(acts, act{ev: "Write", ag: n, i: 32, want: map[string]any{"cookie": true}})
				}
				if cfg.Walk.Renom > 0 && (sn.Role != "controlling" || !cfg.Renom) && badRenoms < 2 {
					acts = append(acts, act{ev: "RenominateBad", ag: n})
				}
			}
			if !job.NoTime && time.Since(t0) < ms(cfg.Walk.Horizon) {
				for _, d := range cfg.Walk.Advance {
					acts = append(acts, act{ev: "Advance", i: d})
				}
			}
			for i := range dflight {
				if dst, _ := dflight[i].m["dst"].(string); agentAddr[dst] && !started[ownerOfLocal(local(symAddr[dst]))] {
					continue
				}
				acts = append(acts, act{ev: "DeliverData", i: i}, act{ev: "DeliverData", i: i}, act{ev: "DeliverData", i: i}, act{ev: "DropData", i: i})
			}
			for i := range flight {
				if to := ownerOfLocal(local(flight[i].g.to)); agentAddr[flight[i].m.Dst] && !started[to] {
					continue // the receive loop of a candidate starts with Dial/Accept
				}
				acts = append(acts, act{ev: "Deliver", i: i}, act{ev: "Deliver", i: i}, act{ev: "Deliver", i: i})
				if loss < cfg.Walk.Loss && reachable(flight[i].m) { // unreachable datagrams can only vanish
					acts = append(acts, act{ev: "Drop", i: i})
				}
				if dup < cfg.Walk.Dup && flight[i].m.Copy == 0 {
					acts = append(acts, act{ev: "Dup", i: i})
				}
			}
			if len(acts) == 0 {
				break
			}
			c = acts[rng.Intn(len(acts))]
		} else {
			a := sched[step]
			c = act{}
			c.ev, _ = a["ev"].(string)
			if c.ev == "DeliverAll" { // macro: deliver everything in flight, oldest first, until the network is empty
				for guard := 0; len(flight) > 0 && guard < 200; guard++ {
					do(act{ev: "Deliver", i: 0})
				}

				continue
			}
			if c.ev == "DeliverWhere" || c.ev == "DropWhere" { // macro: deliver/drop every in-flight datagram matching a filter
				wh, _ := a["where"].(map[string]any)
				match := func(m mmsg) bool {
					for k, v := range wh {
						switch k {
						case "addr":
							if m.Src != v && m.Dst != v {
								return false
							}
						case "between": // both endpoints: ["a2", "b2"] matches a2->b2 and b2->a2
							ends, _ := v.([]any)
							if len(ends) != 2 || !((m.Src == ends[0] && m.Dst == ends[1]) || (m.Src == ends[1] && m.Dst == ends[0])) {
								return false
							}
						case "kind":
							if m.Kind != v {
								return false
							}
						case "from":
							if m.From != v {
								return false
							}
						case "nom":
							if float64(m.Nom) != v {
								return false
							}
						case "respToNom": // the success response to the request that carried this nomination value
							if m.Kind != "succ" || float64(nomTid[m.Tid]) != v {
								return false
							}
						}
					}

					return true
				}
				for guard := 0; guard < 200; guard++ {
					idx := -1
					for i, f := range flight {
						if match(f.m) {
							idx = i

							break
						}
					}
					if idx < 0 {
						break
					}
					if c.ev == "DropWhere" {
						do(act{ev: "Drop", i: idx})
					} else {
						do(act{ev: "Deliver", i: idx})
					}
				}

				continue
			}
			if c.ev == "Burst" { // macro: n writes of len bytes by ag, each delivered at once
				n, _ := a["n"].(float64)
				ln, _ := a["len"].(float64)
				ag, _ := a["ag"].(string)
				for r := 0; r < int(n); r++ {
					do(act{ev: "Write", ag: ag, i: int(ln)})
					for len(dflight) > 0 {
						do(act{ev: "DeliverData", i: 0})
					}
				}

				continue
			}
			if c.ev == "Rounds" { // macro: n rounds of tick A, tick B, deliver all
				n, _ := a["n"].(float64)
				for r := 0; r < int(n); r++ {
					do(act{ev: "Tick", ag: "A"})
					do(act{ev: "Tick", ag: "B"})
					for guard := 0; len(flight) > 0 && guard < 200; guard++ {
						do(act{ev: "Deliver", i: 0})
					}
				}

				continue
			}
			if v, ok := a["ag"].(string); ok {
				c.ag = v
			}
			if v, ok := a["k"].(float64); ok {
				c.i = int(v) - 1
			}
			if v, ok := a["d"].(float64); ok {
				c.i = int(v)
			}
			if v, ok := a["len"].(float64); ok && c.ev == "Write" {
				c.i = int(v)
				if a["cookie"] == true {
					c.want = map[string]any{"cookie": true}
				}
				if a["stun"] == true {
					c.want = map[string]any{"stun": true}
				}
			}
			if c.ev == "InjectData" {
				if dm, ok := a["d"].(map[string]any); ok {
					c.want = dm
					c.ag = "B"
					if d, _ := dm["dst"].(string); d != "" && ownerOfLocal(local(symAddr[d])) == "A" {
						c.ag = "A"
					}
				}
			}
			if c.ev == "DeliverData" || c.ev == "DropData" || c.ev == "VanishData" {
				c.i = -1
				if dm, ok := a["d"].(map[string]any); ok {
					for i, d := range dflight {
						if float64(d.m["pid"].(int)) == dm["pid"] && d.m["src"] == dm["src"] && d.m["dst"] == dm["dst"] { //nolint:forcetypeassert
							c.i = i
						}
					}
				}
				if c.i < 0 {
					stats.Skipped++
					emit(map[string]any{"ev": "Skipped", "want": a, "post": snap()})

					continue
				}
				if c.ev == "VanishData" {
					c.ev = "DeliverData"
				}
			}
			skip := false
			if m, ok := a["m"].(map[string]any); ok && c.ev != "Inject" {
				c.i = -1
				for i, f := range flight {
					if f.m.From == m["from"] && f.m.Kind == m["kind"] && f.m.Src == m["src"] && f.m.Dst == m["dst"] &&
						f.m.Tid == int(m["tid"].(float64)) && f.m.Copy == int(m["copy"].(float64)) { //nolint:forcetypeassert
						c.i = i
					}
				}
				skip = c.i < 0
			} else if ok {
				c.want = m
				c.ag = "B"
				if d, _ := m["dst"].(string); d != "" && ownerOfLocal(local(symAddr[d])) == "A" {
					c.ag = "A"
				}
			}
			switch c.ev {
			case "Renominate":
				sn := S[c.ag].ag.VerifSnapshot()
				skip = c.i >= len(sn.Pairs) || sn.Role != "controlling"
			case "Gather":
				skip = !gathNew[c.ag]
			case "Start":
				skip = started[c.ag]
			case "PauseRead":
				sn := S[c.ag].ag.VerifSnapshot()
				skip = S[c.ag].pause != nil || S[c.ag].conn == nil || (sn.Conn != "Checking" && sn.Conn != "Connected" && sn.Conn != "Disconnected")
			case "ResumeRead":
				skip = S[c.ag].pause == nil
			case "ShortRead":
				S[c.ag].cbMu.Lock()
				skip = S[c.ag].pause == nil || !S[c.ag].parked
				S[c.ag].cbMu.Unlock()
			case "AddRemote":
				if cc, ok := a["c"].(map[string]any); ok {
					c.i = -1
					for i, sg := range cfg.Signal[c.ag] {
						if sg[0] == cc["addr"] && sg[1] == cc["typ"] {
							c.i = i
						}
					}
					skip = c.i < 0
				}
			}
			if skip {
				stats.Skipped++
				emit(map[string]any{"ev": "Skipped", "want": a, "post": snap()})

				continue
			}
		}
		do(c)
	}
	if job.Drain && !closed["A"] && !closed["B"] {
		// fair, loss-free suffix, made of ordinary logged actions: re-signal what is missing (a restart of one
		// side is followed by the other side's restart, as a WebRTC stack does), then round-robin
		// tick A, tick B, deliver everything
		if rst > 0 || S["A"].gen != S["B"].gen {
			// an ICE restart is an offer/answer exchange: it ends with both sides in a fresh generation
			do(act{ev: "Restart", ag: "A"})
			do(act{ev: "Restart", ag: "B"})
		}
		for _, n := range []string{"A", "B"} {
			if gathNew[n] {
				do(act{ev: "Gather", ag: n})
			}
		}
		for _, n := range []string{"A", "B"} {
			if S[n].rgen != S[other(n)].gen {
				do(act{ev: "SetRemoteCreds", ag: n})
			}
			for i := range cfg.Signal[n] {
				do(act{ev: "AddRemote", ag: n, i: i})
			}
		}
		budget := map[string]bool{}
		for _, n := range []string{"A", "B"} {
			s := S[n].ag.VerifSnapshot()
			for _, p := range s.Pairs {
				if p.St != "F" {
					budget[n] = true
				}
			}
		}
		pre := snap()
		drained := 0
		for round := 0; round < 2*(cfg.MaxReq+3)+2; round++ {
			do(act{ev: "Tick", ag: "A"})
			do(act{ev: "Tick", ag: "B"})
			for ; len(flight) > 0 && drained < 800; drained++ { // bounded over the whole suffix: a tree that answers every message with another never drains
				do(act{ev: "Deliver", i: 0})
			}
			if drained >= 800 {
				break
			}
			for len(dflight) > 0 {
				do(act{ev: "DeliverData", i: 0})
			}
		}
		post := snap()
		emit(map[string]any{"ev": "DrainEnd", "pre": pre, "budgetA": budget["A"], "budgetB": budget["B"], "lossUsed": loss, "post": post})
		pa, _ := post["A"].(map[string]any)
		pb, _ := post["B"].(map[string]any)
		if pa["conn"] == "Connected" && pb["conn"] == "Connected" {
			stats.Connected++
		}
	}
	for _, n := range []string{"A", "B"} { // a reader still paused at the end of the schedule is let go
		S[n].cbMu.Lock()
		if S[n].pause != nil {
			close(S[n].pause)
			S[n].pause = nil
		}
		S[n].cbMu.Unlock()
	}
	_ = S["A"].ag.Close()
	_ = S["B"].ag.Close()
	_ = sort.Strings
}
