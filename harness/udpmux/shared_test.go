package udpmux

import (
	"errors"
	"io"
	"net"
	"net/netip"
	"os"
	"sync"
	"testing"
	"testing/synctest"
	"time"

	"github.com/pion/ice/v4"
	"github.com/pion/logging"
	"github.com/pion/stun/v3"
)

// C13 (handles): TLC paths of SharedConn replayed on real sharedPacketConn handles, handed out by a real UDPMuxDefault
// (GetConn with the same ufrag) or a real TCPMuxDefault (GetConnByUfrag), Close going through the "sc." gates.

type scJob struct {
	Paths   string   `json:"paths"`
	Out     string   `json:"out"`
	Stats   string   `json:"stats"`
	Kind    string   `json:"kind"` // "udp" | "tcp"
	Handles []string `json:"handles"`
	Closers []string `json:"closers"`
	Readers []string `json:"readers"`
}

type fakeListener struct {
	ch     chan net.Conn
	closed chan struct{}
	once   sync.Once
	addr   *net.TCPAddr
}

func (l *fakeListener) Accept() (net.Conn, error) {
	select {
	case c := <-l.ch:
		return c, nil
	case <-l.closed:
		return nil, net.ErrClosed
	}
}
func (l *fakeListener) Close() error   { l.once.Do(func() { close(l.closed) }); return nil }
func (l *fakeListener) Addr() net.Addr { return l.addr }

func stunRequest(user string) []byte {
	m, err := stun.Build(stun.BindingRequest, stun.TransactionID, stun.NewUsername(user))
	if err != nil {
		panic(err)
	}
	return m.Raw
}

var scSite = map[string]string{"CloseEnter": "close", "Cancel": "cancel", "Unref": "unref", "UClose": "uclose"}
var scEvent = map[string]string{"close": "CloseEnter", "cancel": "Cancel", "unref": "Unref", "uclose": "UClose"}

func TestSharedConn(t *testing.T) {
	var job scJob
	loadJob(t, &job)
	out := newNdjson(t, job.Out)
	defer out.close()
	lf := logging.NewDefaultLoggerFactory()
	lf.DefaultLogLevel = logging.LogLevelDisabled
	st := map[string]int{}
	byEv := map[string]int{}
	hidx := map[string]int{}
	for i, h := range job.Handles {
		hidx[h] = i
	}
	for pathNo, path := range readPaths(t, job.Paths) {
		st["paths"]++
		synctest.Test(t, func(t *testing.T) {
			s := newSched("sc.")
			ice.VerifUDPMuxSetYield(s.yield)
			defer ice.VerifUDPMuxSetYield(nil)
			var get func() (net.PacketConn, error)
			var closeMux func()
			var sock *fakeSharedSocket
			if job.Kind == "tcp" {
				ln := &fakeListener{ch: make(chan net.Conn), closed: make(chan struct{}), addr: &net.TCPAddr{IP: net.IPv4(10, 0, 0, 1), Port: 4000}}
				mux := ice.NewTCPMuxDefault(ice.TCPMuxParams{Listener: ln, Logger: lf.NewLogger("ice"), ReadBufferSize: 8})
				get = func() (net.PacketConn, error) { return mux.GetConnByUfrag("u1", false, net.IPv4(10, 0, 0, 1)) }
				closeMux = func() { _ = mux.Close() }
			} else {
				sock = newSock(&net.UDPAddr{IP: net.IPv4(127, 0, 0, 1), Port: 7000})
				var under net.PacketConn = sock
				if pathNo%2 == 1 { // every other path: a socket with the netip.AddrPort calls, so the handles have them too
					under = fakeAddrPortSocket{sock}
				}
				mux := ice.NewUDPMuxDefault(ice.UDPMuxParams{UDPConn: under, Logger: lf.NewLogger("ice")})
				get = func() (net.PacketConn, error) { return mux.GetConn("u1", sock.LocalAddr()) }
				closeMux = func() { _ = mux.Close() }
			}
			var handles []net.PacketConn
			var dm sync2
			kh := map[string]string{}
			tried := map[string]bool{} // closers released towards a Once that another closer is inside of (TryEnter)
			enterLogged := map[string]bool{}
			rh := map[string]string{}
			rres := map[string]string{}
			sent, writes := 0, 0
			wlast := []string{"-", "-"}
			dlPast := map[string]bool{} // the driver's own record of what it set (the deadline is the handle's private state)
			dst := &net.UDPAddr{IP: net.IPv4(10, 0, 0, 9), Port: 9}
			obs := func() map[string]any {
				cancelled := map[string]bool{}
				refs, uclosed := 0, false
				for i, h := range job.Handles {
					cancelled[h] = false
					if i < len(handles) {
						r, c, u, _ := ice.VerifSharedInfo(handles[i])
						cancelled[h] = c
						refs, uclosed = r, u
					}
				}
				qn := 0
				if len(handles) > 0 {
					if u := ice.VerifMuxUnderlying(handles[0]); u != nil {
						_, _, queued := ice.VerifMuxConnInfo(u)
						qn = len(queued)
					}
				}
				kpc := map[string]string{}
				khs := map[string]string{}
				ucloses := 0
				for _, k := range job.Closers {
					a := s.at(k)
					switch a {
					case "absent":
						a = "idle"
					case "done":
						a = "ret"
					case "blocked":
						if tried[k] {
							a = "close" // waiting at the Once somebody else is inside of: it has not begun to execute the body
						}
					}
					if tried[k] && !enterLogged[k] && a == "ret" {
						a = "close" // it went through the finished Once and returned; its CloseEnter is the next line of the log
					}
					kpc[k] = a
					khs[k] = kh[k]
					if khs[k] == "" {
						khs[k] = job.Handles[0]
					}
					ucloses += s.count(k, "uclose")
				}
				rpc := map[string]string{}
				rhs := map[string]string{}
				rr := map[string]string{}
				dm.do(func() {
					for _, r := range job.Readers {
						a := s.at(r)
						switch a {
						case "absent":
							a = "idle"
						case "done":
							a = "ret"
						case "blocked":
							a = "pending"
						}
						rpc[r] = a
						rhs[r] = rh[r]
						if rhs[r] == "" {
							rhs[r] = job.Handles[0]
						}
						rr[r] = rres[r]
						if rr[r] == "" {
							rr[r] = "none"
						}
					}
				})
				dls := map[string]bool{}
				for _, h := range job.Handles {
					dls[h] = dlPast[h]
				}
				return map[string]any{"got": len(handles), "dl": dls, "cancelled": cancelled, "refs": refs, "uclosed": uclosed, "ucloses": ucloses, "qn": qn,
					"kpc": kpc, "kh": khs, "rpc": rpc, "rh": rhs, "rres": rr, "sent": sent, "writes": writes, "wlast": []string{wlast[0], wlast[1]}}
			}
			logEv := func(ev string, extra map[string]any) {
				m := map[string]any{"ev": ev, "post": obs()}
				for k, v := range extra {
					m[k] = v
				}
				out.log(m)
				byEv[ev]++
				st["events"]++
			}
			out.log(map[string]any{"ev": "Reset", "post": obs()})
			// a closer is inside the Once of handle h: nobody else may be released into it (sync.Once is a lock)
			inOnce := func(h string) bool {
				for _, k := range job.Closers {
					if a := s.at(k); kh[k] == h && (a == "cancel" || a == "unref" || a == "uclose") {
						return true
					}
				}
				return false
			}
			// one step of closer k, logged as the action that its yield point stands for
			closerStep := func(k string) bool {
				site := s.at(k)
				if scEvent[site] == "" || (site == "close" && inOnce(kh[k])) {
					return false
				}
				s.step(k)
				logEv(scEvent[site], map[string]any{"p": k})
				if s.loose {
					// closers that waited at a Once have returned once nobody is left in a mutex: back to exact quiescence
					still := false
					for _, k2 := range job.Closers {
						if tried[k2] && s.at(k2) == "blocked" {
							still = true
						}
						if tried[k2] && !enterLogged[k2] && s.at(k2) == "done" {
							enterLogged[k2] = true
							logEv("CloseEnter", map[string]any{"p": k2})
						}
					}
					if !still {
						s.loose = false
						synctest.Wait()
					}
				}
				return true
			}
			for _, lab := range path {
				name, args := label(lab)
				st["steps"]++
				ok := false
				switch name {
				case "Get":
					if len(handles) < len(job.Handles) {
						pc, err := get()
						if err == nil {
							handles = append(handles, pc)
							logEv("Get", nil)
							ok = true
						}
					}
				case "CloseStart":
					k, h := args[0], args[1]
					if s.at(k) == "absent" && hidx[h] < len(handles) {
						kh[k] = h
						pc := handles[hidx[h]]
						s.spawn(k, func() { _ = pc.Close() })
						logEv("CloseStart", map[string]any{"p": k, "h": h})
						ok = true
					}
				case "CloseEnter", "Cancel", "Unref", "UClose":
					ok = s.at(args[0]) == scSite[name] && closerStep(args[0])
				case "TryEnter":
					// a step the model forbids (near miss): release a closer towards the Once of a handle while another closer is
					// inside it. sync.Once makes it wait there (nothing to log: it has not entered); if it comes out at the next
					// yield point instead, the code let a second closer into the body and that is logged as its CloseEnter.
					k := args[0]
					if s.at(k) == "close" && inOnce(kh[k]) {
						st["try_enter"]++
						tried[k] = true
						s.loose = true
						s.release(k)
						s.wait()
						switch s.at(k) {
						case "blocked":
							st["try_enter_waited"]++
						case "done":
							enterLogged[k] = true
							logEv("CloseEnter", map[string]any{"p": k})
						default:
							st["try_enter_entered"]++
							enterLogged[k] = true
							logEv("CloseEnter", map[string]any{"p": k})
						}
						ok = true
					}
				case "RStart":
					r, h := args[0], args[1]
					if s.at(r) == "absent" && hidx[h] < len(handles) {
						rh[r] = h
						pc := handles[hidx[h]]
						s.spawn(r, func() {
							buf := make([]byte, 1500)
							_, _, err := pc.ReadFrom(buf)
							res := "err"
							switch {
							case err == nil:
								res = "data"
							case errors.Is(err, io.ErrClosedPipe):
								res = "closed"
							case errors.Is(err, io.EOF):
								res = "eof"
							case errors.Is(err, os.ErrDeadlineExceeded):
								res = "timeout"
							}
							dm.do(func() { rres[r] = res })
						})
						logEv("RStart", map[string]any{"p": r, "h": h})
						ok = true
					}
				case "DeliverQ", "DeliverWake":
					if sock != nil && len(handles) > 0 {
						before := map[string]string{}
						for _, r := range job.Readers {
							before[r] = s.at(r)
						}
						sock.in <- dgram{stunRequest("u1:peer"), &net.UDPAddr{IP: net.IPv4(10, 0, 0, 9), Port: 9}}
						s.wait()
						sent++
						woken := ""
						for _, r := range job.Readers {
							if before[r] == "blocked" && s.at(r) == "done" {
								woken = r
							}
						}
						if woken != "" {
							logEv("DeliverWake", map[string]any{"p": woken})
						} else {
							logEv("DeliverQ", nil)
						}
						if (woken == "") != (name == "DeliverQ") || (woken != "" && woken != args[0]) {
							st["adapted"]++
						}
						ok = true
					}
				case "SetRD":
					h, past := args[0], args[1] == "TRUE"
					if hidx[h] < len(handles) {
						t0 := time.Time{}
						if past {
							t0 = time.Now().Add(-time.Second)
						}
						if err := handles[hidx[h]].SetReadDeadline(t0); err == nil {
							dlPast[h] = past
							s.wait()
							logEv("SetRD", map[string]any{"h": h, "v": past})
							ok = true
						}
					}
				case "Write":
					h := args[0]
					if hidx[h] < len(handles) {
						// on the paths whose socket offers it, writes go through the netip.AddrPort flavour of the call
						var err error
						if ap, isAP := handles[hidx[h]].(interface {
							WriteToAddrPort(b []byte, addr netip.AddrPort) (int, error)
						}); isAP {
							_, err = ap.WriteToAddrPort([]byte("x"), dst.AddrPort())
						} else {
							_, err = handles[hidx[h]].WriteTo([]byte("x"), dst)
						}
						res := "err"
						switch {
						case err == nil:
							res = "ok"
						case errors.Is(err, io.ErrClosedPipe):
							res = "closed"
						}
						s.wait()
						writes++
						wlast = []string{h, res}
						logEv("Write", map[string]any{"h": h})
						ok = true
					}
				}
				if !ok {
					st["skipped"]++
				}
			}
			// leave: finish the closers through the gates (bounded), close what is still open, close the mux
			for round := 0; round < 20; round++ {
				moved := false
				for _, k := range job.Closers {
					if closerStep(k) {
						moved = true
					}
				}
				if !moved {
					break
				}
			}
			logEv("End", nil)
			ice.VerifUDPMuxSetYield(nil)
			for _, n := range s.names() {
				s.release(n)
			}
			synctest.Wait()
			for _, pc := range handles {
				_ = pc.Close()
			}
			closeMux()
			synctest.Wait()
		})
		if t.Failed() {
			break
		}
	}
	writeStats(t, job.Stats, map[string]any{"counts": st, "by_event": byEv, "lines": out.n})
}
