package udpmux

import (
	"errors"
	"net"
	"os"
	"sort"
	"testing"
	"testing/synctest"

	"github.com/pion/ice/v4"
	"github.com/pion/logging"
)

// C13 (write abort): TLC paths of MuxWrite replayed on the real UDPMuxDefault through the "mw." gates.

type mwJob struct {
	Paths    string   `json:"paths"`
	Out      string   `json:"out"`
	Stats    string   `json:"stats"`
	Writers  []string `json:"writers"`
	Aborters []string `json:"aborters"`
	Rounds   int      `json:"rounds"`
	Drain    int      `json:"drain"` // rounds of the bounded gated drain
}

// model action taken when a process is released from a site (the socket write and the arm depend on the socket)
func mwAction(site string, sock *fakeSharedSocket) string {
	switch site {
	case "w_load":
		return "WLoad"
	case "w_cas":
		return "WCas"
	case "w_write":
		if sock.deadline() == "now" {
			return "WWriteTmo"
		}
		return "WWriteOk"
	case "f_load":
		return "FLoad"
	case "f_caslast":
		return "FCasLast"
	case "f_cas":
		return "FCas"
	case "c_load":
		return "CLoad"
	case "c_clear":
		sock.mu.Lock()
		defer sock.mu.Unlock()
		if sock.failClr {
			return "CClearFail"
		}
		return "CClear"
	case "c_store":
		return "CStore"
	case "a_load":
		return "ALoad"
	case "a_cas":
		return "ACas"
	case "a_arm":
		sock.mu.Lock()
		defer sock.mu.Unlock()
		if sock.failArm {
			return "AArmFail"
		}
		return "AArmOk"
	case "s_load":
		return "SLoad"
	case "s_cas":
		return "SCas"
	case "x_load":
		return "XLoad"
	case "x_cas":
		return "XCas"
	}
	return ""
}

var mwSite = map[string]string{"WLoad": "w_load", "WCas": "w_cas", "WWriteOk": "w_write", "WWriteTmo": "w_write", "FLoad": "f_load",
	"FCasLast": "f_caslast", "FCas": "f_cas", "CLoad": "c_load", "CClear": "c_clear", "CClearFail": "c_clear", "CStore": "c_store", "ALoad": "a_load", "ACas": "a_cas",
	"AArmOk": "a_arm", "AArmFail": "a_arm", "SLoad": "s_load", "SCas": "s_cas", "XLoad": "x_load", "XCas": "x_cas"}

func TestMuxWrite(t *testing.T) {
	var job mwJob
	loadJob(t, &job)
	if job.Drain == 0 {
		job.Drain = 60
	}
	if job.Rounds == 0 {
		job.Rounds = 1
	}
	out := newNdjson(t, job.Out)
	defer out.close()
	lf := logging.NewDefaultLoggerFactory()
	lf.DefaultLogLevel = logging.LogLevelDisabled
	st := map[string]int{}
	byEv := map[string]int{}
	dlSample := []string{}
	all := append(append([]string{}, job.Writers...), job.Aborters...)
	sort.Strings(all)
	for pathNo, path := range readPaths(t, job.Paths) {
		st["paths"]++
		synctest.Test(t, func(t *testing.T) {
			s := newSched("mw.")
			ice.VerifUDPMuxSetYield(s.yield)
			defer ice.VerifUDPMuxSetYield(nil)
			sock := newSock(&net.UDPAddr{IP: net.IPv4(127, 0, 0, 1), Port: 1})
			var under net.PacketConn = sock
			addrPort := pathNo%2 == 1 // every other path: a socket with the netip.AddrPort calls, written to through the mux's AddrPort path
			if addrPort {
				under = fakeAddrPortSocket{sock}
			}
			mux := ice.NewUDPMuxDefault(ice.UDPMuxParams{UDPConn: under, Logger: lf.NewLogger("ice")})
			dst := &net.UDPAddr{IP: net.IPv4(10, 0, 0, 9), Port: 9}
			muxWrite := func(b []byte) (int, error) {
				if addrPort {
					return ice.VerifMuxWriteToAddrPort(mux, b, dst.AddrPort())
				}

				return ice.VerifMuxWriteTo(mux, b, dst)
			}
			var dm sync2
			completed := map[string]int{}
			for _, n := range job.Writers {
				n := n
				s.spawn(n, func() {
					for i := 0; i < job.Rounds; i++ {
						_, _ = muxWrite([]byte("x"))
						dm.do(func() { completed[n]++ })
					}
				})
			}
			for _, n := range job.Aborters {
				s.spawn(n, func() { _ = ice.VerifMuxAbortWrite(mux) })
			}
			probe := "none"
			obs := func() map[string]any {
				cnt, b, a := ice.VerifMuxWriteState(mux)
				pc := map[string]string{}
				for _, n := range all {
					pc[n] = s.at(n)
				}
				left := map[string]int{}
				dm.do(func() {
					for _, n := range job.Writers {
						l := job.Rounds - 1 - completed[n]
						if l < 0 {
							l = 0
						}
						left[n] = l
					}
				})
				return map[string]any{"st": map[string]any{"n": cnt, "b": b, "a": a}, "dl": sock.deadline(), "pc": pc, "left": left, "probe": probe}
			}
			out.log(map[string]any{"ev": "Reset", "post": obs()})
			// one model step of process p; logs the action that actually happened
			do := func(p string, failArm, failClr bool) string {
				site := s.at(p)
				if site == "a_arm" {
					sock.mu.Lock()
					sock.failArm = failArm
					sock.mu.Unlock()
				}
				if site == "c_clear" {
					sock.mu.Lock()
					sock.failClr = failClr
					sock.mu.Unlock()
				}
				ev := mwAction(site, sock)
				if ev == "" || !s.step(p) {
					return ""
				}
				byEv[ev]++
				st["events"]++
				out.log(map[string]any{"ev": ev, "p": p, "post": obs()})
				return ev
			}
			for _, lab := range path {
				name, args := label(lab)
				st["steps"]++
				if len(args) != 1 || mwSite[name] == "" || s.at(args[0]) != mwSite[name] {
					st["skipped"]++
					continue
				}
				switch ev := do(args[0], name == "AArmFail", name == "CClearFail"); {
				case ev == "":
					st["skipped"]++
				case ev != name:
					st["adapted"]++
				}
			}
			// bounded, still gated, fair drain: a process that is not done after the budget is stuck (a spinning goroutine
			// is never durably blocked, so the gates stay on)
			for round := 0; round < job.Drain; round++ {
				moved := false
				for _, n := range all {
					if do(n, false, false) != "" {
						moved = true
					}
				}
				if !moved {
					break
				}
			}
			out.log(map[string]any{"ev": "Drain", "post": obs()})
			stuck := false
			for _, n := range all {
				if s.at(n) != "done" {
					stuck = true
				}
			}
			if !stuck {
				// a later write by any user
				var perr error
				s.spawn("probe", func() { _, perr = muxWrite([]byte("probe")) })
				for i := 0; i < 16 && s.step("probe"); i++ {
				}
				switch {
				case s.at("probe") != "done":
					probe = "stuck"
				case perr == nil:
					probe = "ok"
				case errors.Is(perr, os.ErrDeadlineExceeded):
					probe = "timeout"
				default:
					probe = "error"
				}
				out.log(map[string]any{"ev": "Probe", "post": obs()})
				st["probes"]++
			} else {
				st["stuck_paths"]++
			}
			if len(dlSample) == 0 && len(sock.dlLog) > 2 {
				dlSample = append(dlSample, sock.dlLog...)
			}
			// let whatever is still parked out so that the bubble can end: clear the state by hand, keep the gates
			if stuck || probe == "stuck" {
				ice.VerifMuxResetWriteState(mux)
				sock.mu.Lock()
				sock.armed = false
				sock.mu.Unlock()
			}
			for round := 0; round < 200; round++ {
				moved := false
				for _, n := range s.names() {
					if s.step(n) {
						moved = true
					}
					if stuck || probe == "stuck" {
						ice.VerifMuxResetWriteState(mux)
					}
				}
				if !moved {
					break
				}
			}
			for _, n := range s.names() {
				if s.at(n) != "done" {
					t.Errorf("process %s cannot be drained (at %s)", n, s.at(n))
				}
			}
			_ = mux.Close()
			synctest.Wait()
		})
		if t.Failed() {
			break
		}
	}
	writeStats(t, job.Stats, map[string]any{"counts": st, "by_event": byEv, "deadline_log_sample": dlSample, "lines": out.n})
}
