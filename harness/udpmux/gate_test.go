// Package udpmux holds the drivers of the udpmux check family (C12, C13): TLC-generated behaviours are replayed on the
// real UDPMuxDefault / sharedPacketConn of pion/ice over a fake shared socket, step by step through the yield points
// ("gates") that build tag verif switches on, and every step is recorded as one ndjson line for TLC to validate and judge.
package udpmux

import (
	"bufio"
	"bytes"
	"encoding/json"
	"errors"
	"io"
	"net"
	"net/netip"
	"os"
	"regexp"
	"runtime"
	"strconv"
	"strings"
	"sync"
	"testing"
	"testing/synctest"
	"time"
)

func goid() int {
	b := make([]byte, 64)
	b = b[:runtime.Stack(b, false)]
	b = bytes.TrimPrefix(b, []byte("goroutine "))
	b = b[:bytes.IndexByte(b, ' ')]
	n, _ := strconv.Atoi(string(b))
	return n
}

// ---------------------------------------------------------------- gate scheduler (DESIGN 3.5, B.4)

type proc struct {
	name string
	gate chan struct{}
	at   string // "" = running or blocked in a channel operation, "done" = returned, else the yield site it is parked at
}

type sched struct {
	mu     sync.Mutex
	prefix string            // only sites with this prefix are gates; other sites pass through
	procs  map[int]*proc     // goroutine id -> process
	byName map[string]*proc  // process name -> process
	adopt  map[string]string // site -> name: an unmanaged goroutine arriving at the site becomes that process
	passed map[string]int    // "name@site" -> how often the process was released from the site
	loose  bool              // a process may sit in a sync.Mutex / sync.Once (not durably blocked): quiescence is judged from the goroutine states
}

func newSched(prefix string) *sched {
	return &sched{prefix: prefix, procs: map[int]*proc{}, byName: map[string]*proc{}, adopt: map[string]string{}, passed: map[string]int{}}
}

func (s *sched) yield(site string) {
	if !strings.HasPrefix(site, s.prefix) {
		return
	}
	id := goid()
	s.mu.Lock()
	p := s.procs[id]
	if p == nil {
		if name, ok := s.adopt[site]; ok {
			delete(s.adopt, site)
			p = &proc{name: name, gate: make(chan struct{})}
			s.procs[id] = p
			s.byName[name] = p
		}
	}
	if p == nil {
		s.mu.Unlock()
		return // goroutine not under test: pass through
	}
	p.at = site[len(s.prefix):]
	s.mu.Unlock()
	<-p.gate // park on a bubble channel: durably blocked for synctest
	s.mu.Lock()
	s.passed[p.name+"@"+p.at]++
	p.at = ""
	s.mu.Unlock()
}

// adoptAt: the next unmanaged goroutine that reaches the site becomes process name; unadopt withdraws an offer nobody took.
func (s *sched) adoptAt(site, name string) {
	s.mu.Lock()
	s.adopt[site] = name
	delete(s.byName, name)
	s.mu.Unlock()
}

func (s *sched) unadopt(site string) {
	s.mu.Lock()
	delete(s.adopt, site)
	s.mu.Unlock()
}

// spawn starts f as process name and runs it to its first gate.
func (s *sched) spawn(name string, f func()) {
	p := &proc{name: name, gate: make(chan struct{})}
	s.mu.Lock()
	s.byName[name] = p
	s.mu.Unlock()
	go func() {
		s.mu.Lock()
		s.procs[goid()] = p
		p.at = "start"
		s.mu.Unlock()
		<-p.gate
		s.mu.Lock()
		p.at = ""
		s.mu.Unlock()
		f()
		s.mu.Lock()
		p.at = "done"
		s.mu.Unlock()
	}()
	s.wait()
	s.release(name)
	s.wait()
}

// at returns the site the process is parked at, "done", or "blocked" (running into / sitting in a blocking operation).
func (s *sched) at(name string) string {
	s.mu.Lock()
	defer s.mu.Unlock()
	p := s.byName[name]
	if p == nil {
		return "absent"
	}
	if p.at == "" {
		return "blocked"
	}
	return p.at
}

func (s *sched) release(name string) bool {
	s.mu.Lock()
	p := s.byName[name]
	a := ""
	if p != nil {
		a = p.at
	}
	s.mu.Unlock()
	if p == nil || a == "" || a == "done" {
		return false
	}
	p.gate <- struct{}{}
	return true
}

// step grants one step to the process and waits until the system is quiescent again.
func (s *sched) step(name string) bool {
	if !s.release(name) {
		return false
	}
	s.wait()
	return true
}

// wait returns when every other goroutine is blocked. synctest.Wait is exact but never returns while a goroutine sits in a
// sync.Mutex (sync.Once), which is not a durable block; in loose mode the goroutine states of a full stack dump decide instead.
func (s *sched) wait() {
	if !s.loose {
		synctest.Wait()
		return
	}
	quiesceByStates()
}

var goroutineHeader = regexp.MustCompile(`(?m)^goroutine (\d+) \[([^\]]*)\]:$`)

// quiesceByStates spins until no goroutine other than the caller is running or runnable in three consecutive samples.
func quiesceByStates() bool {
	me := goid()
	buf := make([]byte, 1<<20)
	calm := 0
	for i := 0; i < 50000; i++ {
		runtime.Gosched()
		n := runtime.Stack(buf, true)
		busy := false
		for _, m := range goroutineHeader.FindAllSubmatch(buf[:n], -1) {
			id, _ := strconv.Atoi(string(m[1]))
			st := string(m[2])
			if id != me && (strings.HasPrefix(st, "running") || strings.HasPrefix(st, "runnable")) {
				busy = true
				break
			}
		}
		if busy {
			calm = 0
			continue
		}
		calm++
		if calm >= 3 {
			return true
		}
	}
	return false
}

func (s *sched) count(name, site string) int {
	s.mu.Lock()
	defer s.mu.Unlock()
	return s.passed[name+"@"+site]
}

func (s *sched) names() []string {
	s.mu.Lock()
	defer s.mu.Unlock()
	r := make([]string, 0, len(s.byName))
	for n := range s.byName {
		r = append(r, n)
	}
	return r
}

// ---------------------------------------------------------------- fake shared socket (DESIGN 3.2)

type dgram struct {
	data []byte
	src  *net.UDPAddr
}

type sentRec struct {
	data []byte
	dst  string
}

// fakeSharedSocket is the single socket under a real UDPMuxDefault: a write fails with a timeout iff the write deadline is
// armed, arming can be made to fail once, every deadline value is logged, reads block on a bubble channel.
type fakeSharedSocket struct {
	mu      sync.Mutex
	armed   bool
	failArm bool
	failClr bool
	dlLog   []string
	sent    []sentRec
	in      chan dgram
	closed  chan struct{}
	once    sync.Once
	local   *net.UDPAddr
}

func newSock(local *net.UDPAddr) *fakeSharedSocket {
	return &fakeSharedSocket{in: make(chan dgram, 1), closed: make(chan struct{}), local: local}
}

func (c *fakeSharedSocket) ReadFrom(b []byte) (int, net.Addr, error) {
	select {
	case d := <-c.in:
		return copy(b, d.data), d.src, nil
	case <-c.closed:
		return 0, nil, io.EOF
	}
}

func (c *fakeSharedSocket) WriteTo(b []byte, a net.Addr) (int, error) {
	c.mu.Lock()
	defer c.mu.Unlock()
	if c.armed {
		return 0, os.ErrDeadlineExceeded
	}
	c.sent = append(c.sent, sentRec{append([]byte{}, b...), a.String()})
	return len(b), nil
}

// fakeAddrPortSocket is the same socket offering the netip.AddrPort flavour of the calls as well (as a *net.UDPConn does): the
// mux then reads through ReadFromAddrPort and hands out handles that have WriteToAddrPort / ReadFromAddrPort.
type fakeAddrPortSocket struct{ *fakeSharedSocket }

func (c fakeAddrPortSocket) ReadFromAddrPort(b []byte) (int, netip.AddrPort, error) {
	n, a, err := c.fakeSharedSocket.ReadFrom(b)
	if err != nil {
		return n, netip.AddrPort{}, err
	}
	ua, _ := a.(*net.UDPAddr)

	return n, ua.AddrPort(), nil
}

func (c fakeAddrPortSocket) WriteToAddrPort(b []byte, addr netip.AddrPort) (int, error) {
	return c.fakeSharedSocket.WriteTo(b, net.UDPAddrFromAddrPort(addr))
}

func (c *fakeSharedSocket) Close() error                    { c.once.Do(func() { close(c.closed) }); return nil }
func (c *fakeSharedSocket) LocalAddr() net.Addr             { return c.local }
func (c *fakeSharedSocket) SetDeadline(time.Time) error     { return nil }
func (c *fakeSharedSocket) SetReadDeadline(time.Time) error { return nil }
func (c *fakeSharedSocket) SetWriteDeadline(t time.Time) error {
	c.mu.Lock()
	defer c.mu.Unlock()
	if !t.IsZero() {
		if c.failArm {
			c.failArm = false
			c.dlLog = append(c.dlLog, "fail")
			return errors.New("fake socket: SetWriteDeadline failed")
		}
		c.armed = true
		c.dlLog = append(c.dlLog, "now")
		return nil
	}
	if c.failClr {
		c.failClr = false
		c.dlLog = append(c.dlLog, "fail")

		return errors.New("fake socket: SetWriteDeadline failed")
	}
	c.armed = false
	c.dlLog = append(c.dlLog, "none")
	return nil
}

func (c *fakeSharedSocket) deadline() string {
	c.mu.Lock()
	defer c.mu.Unlock()
	if c.armed {
		return "now"
	}
	return "none"
}

// ---------------------------------------------------------------- job / output helpers

func loadJob(t *testing.T, v any) {
	t.Helper()
	p := os.Getenv("VERIF_JOB")
	if p == "" {
		t.Skip("VERIF_JOB not set")
	}
	b, err := os.ReadFile(p)
	if err != nil {
		t.Fatal(err)
	}
	if err := json.Unmarshal(b, v); err != nil {
		t.Fatal(err)
	}
}

type ndjson struct {
	f *os.File
	w *bufio.Writer
	e *json.Encoder
	n int
}

func newNdjson(t *testing.T, path string) *ndjson {
	t.Helper()
	f, err := os.Create(path)
	if err != nil {
		t.Fatal(err)
	}
	w := bufio.NewWriterSize(f, 1<<20)
	return &ndjson{f: f, w: w, e: json.NewEncoder(w)}
}

func (o *ndjson) log(v any) { _ = o.e.Encode(v); o.n++ }
func (o *ndjson) close()    { _ = o.w.Flush(); _ = o.f.Close() }

func writeStats(t *testing.T, path string, v any) {
	t.Helper()
	b, _ := json.Marshal(v)
	if err := os.WriteFile(path, b, 0o644); err != nil {
		t.Fatal(err)
	}
}

// readPaths reads one JSON list of labels per line.
func readPaths(t *testing.T, path string) [][]string {
	t.Helper()
	f, err := os.Open(path)
	if err != nil {
		t.Fatal(err)
	}
	defer f.Close()
	sc := bufio.NewScanner(f)
	sc.Buffer(make([]byte, 1<<20), 1<<28)
	var res [][]string
	for sc.Scan() {
		var p []string
		if err := json.Unmarshal(sc.Bytes(), &p); err != nil {
			t.Fatal(err)
		}
		res = append(res, p)
	}
	return res
}

// label splits `Name(a, b)` (arguments may be quoted strings) into name and arguments.
func label(lab string) (string, []string) {
	i := strings.IndexByte(lab, '(')
	if i < 0 {
		return lab, nil
	}
	var args []string
	for _, a := range strings.Split(lab[i+1:len(lab)-1], ",") {
		args = append(args, strings.Trim(strings.TrimSpace(a), `"`))
	}
	return lab[:i], args
}

// sync2 is a mutex for the driver's own bookkeeping (written by processes, read by the driver).
type sync2 struct{ mu sync.Mutex }

func (m *sync2) do(f func()) { m.mu.Lock(); defer m.mu.Unlock(); f() }
