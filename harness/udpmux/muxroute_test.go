package udpmux

import (
	"errors"
	"fmt"
	"io"
	"net"
	"net/netip"
	"sort"
	"strconv"
	"strings"
	"testing"
	"testing/synctest"
	"time"

	"github.com/pion/ice/v4"
	"github.com/pion/logging"
	"github.com/pion/stun/v3"
	"github.com/pion/transport/v4/stdnet"
)

// C12: TLC paths of MuxRoute replayed on a real UDPMuxDefault over the fake shared socket.
// mode "seq": one label = one whole operation, executed directly (no gates).
// mode "conc": one label = one step between "mr." yield points; writers and the remover are spawned processes, the
// dispatcher is the mux's own connWorker goroutine, adopted at its first yield point.

type mrJob struct {
	Paths    string   `json:"paths"`
	Out      string   `json:"out"`
	Stats    string   `json:"stats"`
	Mode     string   `json:"mode"`
	Ufrags   []string `json:"ufrags"`
	Fams     []string `json:"fams"`
	Keys     []string `json:"keys"`
	Writers  []string `json:"writers"`
	MaxConns int      `json:"maxconns"`
}

// address forms: s1, s2 true IPv4; m1, m2 the IPv4-mapped IPv6 forms of the same addresses; s6, t6 IPv6
func mrAddr(name string) *net.UDPAddr {
	switch name {
	case "s1":
		return &net.UDPAddr{IP: net.IP{10, 0, 0, 1}, Port: 5001}
	case "m1":
		return &net.UDPAddr{IP: net.IPv4(10, 0, 0, 1), Port: 5001} // 16-byte form
	case "s2":
		return &net.UDPAddr{IP: net.IP{10, 0, 0, 2}, Port: 5002}
	case "m2":
		return &net.UDPAddr{IP: net.IPv4(10, 0, 0, 2), Port: 5002}
	case "s6":
		return &net.UDPAddr{IP: net.ParseIP("2001:db8::6"), Port: 5006}
	case "t6":
		return &net.UDPAddr{IP: net.ParseIP("2001:db8::7"), Port: 5007}
	}
	return nil
}

var mrNames = []string{"s1", "m1", "s2", "m2", "s6", "t6"}

func mrNameOf(ap netip.AddrPort) string {
	for _, n := range mrNames {
		if mrAddr(n).AddrPort() == ap {
			return n
		}
	}
	return ap.String()
}

func mrLocal(fam string) *net.UDPAddr {
	if fam == "6" {
		return &net.UDPAddr{IP: net.ParseIP("fd00::1"), Port: 7000}
	}
	return &net.UDPAddr{IP: net.IP{192, 168, 0, 1}, Port: 7000}
}

var mrDPC = map[string]string{"d_read": "idle", "d_lookup": "lookup", "d_ufrag": "ufrag", "d_enq": "enq", "d_put": "put", "done": "idle", "absent": "idle"}
var mrWPC = map[string]string{"w_start": "start", "contains": "contains", "append": "append", "register": "register", "done": "idle", "absent": "idle"}
var mrRPC = map[string]string{"r_unlist": "unlist", "r_unmap": "unmap", "done": "idle", "absent": "idle"}

// the watcher goroutine of a closed connection (adopted as process "k" when it reaches removeConns): it has no wrapper that
// marks it done, so once it has left its last gate it reads "blocked" - which is "idle" for the model
var mrKPC = map[string]string{"r_unlist": "unlist", "r_unmap": "unmap", "done": "idle", "absent": "idle", "blocked": "idle"}
var mrKEvent = map[string]string{"r_unlist": "KUnlist", "r_unmap": "KUnmap"}
var mrWEvent = map[string]string{"w_start": "WCheck", "contains": "WContains", "append": "WAppend", "register": "WRegister"}
var mrDEvent = map[string]string{"d_lookup": "DLookup", "d_ufrag": "DUfrag", "d_enq": "DEnq", "d_put": "DPut"}
var mrREvent = map[string]string{"r_unlist": "RUnlist", "r_unmap": "RUnmap"}

func TestMuxRoute(t *testing.T) {
	var job mrJob
	loadJob(t, &job)
	out := newNdjson(t, job.Out)
	defer out.close()
	lf := logging.NewDefaultLoggerFactory()
	lf.DefaultLogLevel = logging.LogLevelDisabled
	stdn, err := stdnet.NewNet() // only consulted by GetListenAddresses; created outside the bubble
	if err != nil {
		t.Fatal(err)
	}
	st := map[string]int{}
	byEv := map[string]int{}
	for _, path := range readPaths(t, job.Paths) {
		st["paths"]++
		synctest.Test(t, func(t *testing.T) {
			conc := job.Mode == "conc"
			s := newSched("mr.")
			if conc {
				s.adopt["mr.d_read"] = "d"
				ice.VerifUDPMuxSetYield(s.yield)
				defer ice.VerifUDPMuxSetYield(nil)
			}
			sock := newSock(&net.UDPAddr{IP: net.IPv6unspecified, Port: 7000})
			mux := ice.NewUDPMuxDefault(ice.UDPMuxParams{UDPConn: sock, Logger: lf.NewLogger("ice"), Net: stdn})
			synctest.Wait() // connWorker is parked at its first gate (conc) or blocked in ReadFrom (seq)
			var handles []net.PacketConn
			var conns []*ice.VerifMuxedConn
			var cu, cf []string
			hclosed := map[int]bool{}
			muxClosed := false
			wc := map[string]int{}
			wx := map[string]string{}
			ru := "-"
			kc := 0                           // the connection whose watcher is process k
			var extraHandles []net.PacketConn // handles obtained by GetStale
			injected := map[string]int{}      // exact bytes -> n
			ngrams := 0
			idx := func(c *ice.VerifMuxedConn) int {
				for i, x := range conns {
					if x == c {
						return i + 1
					}
				}
				return 99
			}
			decode := func(data []byte) int { return injected[string(data)] }
			obs := func() map[string]any {
				listed := map[string]map[string]int{}
				for _, f := range job.Fams {
					m := map[string]int{}
					for _, u := range job.Ufrags {
						m[u] = 0
					}
					for u, c := range ice.VerifMuxListed(mux, f == "6") {
						m[u] = idx(c)
					}
					listed[f] = m
				}
				amap := map[string]int{}
				for _, k := range job.Keys {
					amap[k] = 0
				}
				for ap, c := range ice.VerifMuxAddressMap(mux) {
					amap[mrNameOf(ap)] = idx(c)
				}
				n := job.MaxConns
				ocu, ocf := make([]string, n), make([]string, n)
				ohc, ocl := make([]bool, n), make([]bool, n)
				oca := make([][]string, n)
				oq := make([][]map[string]any, n)
				for i := 0; i < n; i++ {
					ocu[i], ocf[i], oca[i], oq[i] = "-", "-", []string{}, []map[string]any{}
					if i < len(conns) {
						ocu[i], ocf[i], ohc[i] = cu[i], cf[i], hclosed[i+1]
						addrs, closed, queued := ice.VerifMuxConnInfo(conns[i])
						ocl[i] = closed
						for _, a := range addrs {
							oca[i] = append(oca[i], mrNameOf(a))
						}
						for _, p := range queued {
							src := p.Src
							if p.Addr != nil {
								src = p.Addr.AddrPort()
							}
							oq[i] = append(oq[i], map[string]any{"n": decode(p.Data), "src": mrNameOf(src)})
						}
					}
				}
				wpc := map[string]string{}
				owc := map[string]int{}
				owx := map[string]string{}
				for _, w := range job.Writers {
					wpc[w] = mrWPC[s.at(w)]
					if wpc[w] == "" {
						wpc[w] = s.at(w)
					}
					owc[w], owx[w] = wc[w], wx[w]
					if owx[w] == "" {
						owx[w] = "-"
					}
				}
				dpc, rpc := mrDPC[s.at("d")], mrRPC[s.at("r")]
				if dpc == "" {
					dpc = s.at("d")
				}
				if rpc == "" {
					rpc = s.at("r")
				}
				kpc := mrKPC[s.at("k")]
				if kpc == "" {
					kpc = s.at("k")
				}
				return map[string]any{"made": len(conns), "listed": listed, "amap": amap, "cu": ocu, "cf": ocf, "hclosed": ohc, "closed": ocl,
					"caddrs": oca, "q": oq, "muxClosed": muxClosed, "wpc": wpc, "wc": owc, "wx": owx, "dpc": dpc, "rpc": rpc, "ru": ru,
					"kpc": kpc, "kc": kc}
			}
			logEv := func(ev string, extra map[string]any) {
				m := map[string]any{"ev": ev, "post": obs()}
				for k, v := range extra {
					m[k] = v
				}
				out.log(m)
				byEv[ev]++
				st["events"]++
			}
			// what the users of the connections read right now (ReadFrom on every open handle, without blocking)
			readAll := func() []map[string]any {
				rx := []map[string]any{}
				buf := make([]byte, 1500)
				for i, h := range handles {
					if hclosed[i+1] {
						continue
					}
					_ = h.SetReadDeadline(time.Now())
					for k := 0; k < 16; k++ {
						n, a, err := h.ReadFrom(buf)
						if err != nil {
							break
						}
						src := "?"
						if ua, ok := a.(*net.UDPAddr); ok {
							src = mrNameOf(ua.AddrPort())
						}
						rx = append(rx, map[string]any{"c": i + 1, "n": decode(buf[:n]), "src": src})
					}
				}
				return rx
			}
			payload := func(kd string) []byte {
				ngrams++
				var b []byte
				if kd == "data" {
					b = []byte(fmt.Sprintf("application data %04d", ngrams))
				} else {
					un := kd + ":peer"
					if base, more := strings.CutSuffix(kd, "+"); more { // a USERNAME with more than one colon names the same ufrag
						un = base + ":mid:peer"
					}
					m, err := stun.Build(stun.BindingRequest, stun.TransactionID, stun.NewUsername(un))
					if err != nil {
						t.Fatal(err)
					}
					b = m.Raw
				}
				injected[string(b)] = ngrams
				return b
			}
			getConn := func(u, f string) bool {
				if len(conns) >= job.MaxConns || muxClosed {
					return false
				}
				if _, ok := ice.VerifMuxListed(mux, f == "6")[u]; ok {
					return false
				}
				h, err := mux.GetConn(u, mrLocal(f))
				if err != nil {
					return false
				}
				handles = append(handles, h)
				conns = append(conns, ice.VerifMuxUnderlying(h))
				cu, cf = append(cu, u), append(cf, f)
				return true
			}
			out.log(map[string]any{"ev": "Reset", "mode": job.Mode, "post": obs()})
			atoi := func(x string) int { n, _ := strconv.Atoi(x); return n }
			// one gated step of a process, logged as the action its yield point stands for
			gated := func(p string) bool {
				site := s.at(p)
				var ev string
				extra := map[string]any{}
				switch {
				case p == "d":
					ev = mrDEvent[site]
				case p == "r":
					ev = mrREvent[site]
					extra["u"] = ru
				case p == "k":
					ev = mrKEvent[site]
				default:
					ev = mrWEvent[site]
					extra["p"] = p
				}
				if ev == "" || !s.step(p) {
					return false
				}
				logEv(ev, extra)
				return true
			}
			for _, lab := range path {
				name, a := label(lab)
				st["steps"]++
				ok := false
				switch name {
				case "GetConn":
					if ok = getConn(a[0], a[1]); ok {
						logEv("GetConn", map[string]any{"u": a[0], "f": a[1]})
					}
				case "WriteOp":
					c, x := atoi(a[0]), a[1]
					if !conc && c <= len(conns) && !hclosed[c] {
						_, err := handles[c-1].WriteTo([]byte("out"), mrAddr(x))
						synctest.Wait()
						logEv("WriteOp", map[string]any{"c": c, "x": x, "ok": err == nil})
						ok = true
					}
				case "DispatchOp":
					if x, kd := a[0], a[1]; !conc && !muxClosed {
						sock.in <- dgram{payload(kd), mrAddr(x)}
						synctest.Wait()
						rx := readAll()
						tgt := 0
						if len(rx) > 0 {
							tgt = rx[0]["c"].(int)
						}
						logEv("DispatchOp", map[string]any{"x": x, "kd": kd, "t": tgt, "rx": rx})
						ok = true
					}
				case "RemoveOp":
					if !conc {
						mux.RemoveConnByUfrag(a[0])
						synctest.Wait()
						logEv("RemoveOp", map[string]any{"u": a[0]})
						ok = true
					}
				case "CloseOp", "CloseConn":
					if c := atoi(a[0]); c <= len(conns) && !hclosed[c] && (!conc || mrKPC[s.at("k")] == "idle") {
						if conc { // the connection's watcher goroutine becomes process k when it reaches removeConns
							s.adoptAt("mr.r_unlist", "k")
							kc = c
						}
						_ = handles[c-1].Close()
						synctest.Wait() // sequential mode: the watcher goroutine runs removeConns to completion; gated mode: it parks at its first gate
						s.unadopt("mr.r_unlist")
						hclosed[c] = true
						logEv(name, map[string]any{"c": c})
						ok = true
					}
				case "CloseMux":
					if !muxClosed {
						_ = mux.Close()
						synctest.Wait()
						muxClosed = true
						logEv("CloseMux", nil)
						ok = true
					}
				case "WStart":
					w, c, x := a[0], atoi(a[1]), a[2]
					if conc && mrWPC[s.at(w)] == "idle" && c <= len(conns) && !hclosed[c] {
						wc[w], wx[w] = c, x
						h := handles[c-1]
						s.spawn(w, func() { _, _ = h.WriteTo([]byte("out"), mrAddr(x)) })
						logEv("WStart", map[string]any{"p": w, "c": c, "x": x})
						ok = true
					}
				case "WCheck", "WContains", "WAppend", "WRegister":
					ok = conc && mrWEvent[s.at(a[0])] == name && gated(a[0])
				case "DRead":
					if x, kd := a[0], a[1]; conc && s.at("d") == "d_read" && !muxClosed {
						sock.in <- dgram{payload(kd), mrAddr(x)}
						s.step("d")
						logEv("DRead", map[string]any{"x": x, "kd": kd})
						ok = true
					}
				case "URead":
					// the user of connection c reads once, while whatever else is under way stays parked at its gate: with a buffer
					// that holds any datagram, or with one that is too short for every datagram the driver injects
					c, form := atoi(a[0]), a[1]
					if !conc || c < 1 || c > len(conns) || hclosed[c] {
						break
					}
					if _, _, queued := ice.VerifMuxConnInfo(conns[c-1]); len(queued) == 0 {
						break
					}
					buf := make([]byte, 1500)
					if form == "short" {
						buf = buf[:4]
					}
					h := handles[c-1]
					_ = h.SetReadDeadline(time.Now())
					n, ra, err := h.ReadFrom(buf)
					rx := []map[string]any{}
					res := "ok"
					switch {
					case errors.Is(err, io.ErrShortBuffer):
						res = "short"
					case err != nil:
						res = err.Error()
					default:
						src := "?"
						if ua, isUDP := ra.(*net.UDPAddr); isUDP {
							src = mrNameOf(ua.AddrPort())
						}
						rx = append(rx, map[string]any{"c": c, "n": decode(buf[:n]), "src": src})
					}
					logEv("URead", map[string]any{"c": c, "form": form, "res": res, "rx": rx})
					ok = true
				case "DLookup", "DUfrag", "DEnq", "DPut":
					ok = conc && mrDEvent[s.at("d")] == name && gated("d")
				case "RStart":
					if conc && mrRPC[s.at("r")] == "idle" {
						ru = a[0]
						u := a[0]
						s.spawn("r", func() { mux.RemoveConnByUfrag(u) })
						logEv("RStart", map[string]any{"u": u})
						ok = true
					}
				case "RUnlist", "RUnmap":
					ok = conc && mrREvent[s.at("r")] == name && gated("r")
				case "KUnlist", "KUnmap":
					ok = conc && mrKEvent[s.at("k")] == name && gated("k")
				case "GetStale":
					// GetConn for a ufrag whose connection is closed but still listed (its watcher is parked): one more handle on it
					u, f := a[0], a[1]
					cur, listedNow := ice.VerifMuxListed(mux, f == "6")[u]
					if !conc || muxClosed || !listedNow {
						break
					}
					if _, closedNow, _ := ice.VerifMuxConnInfo(cur); !closedNow {
						break
					}
					h, err := mux.GetConn(u, mrLocal(f))
					if err != nil {
						break
					}
					extraHandles = append(extraHandles, h)
					got := ice.VerifMuxUnderlying(h)
					idx := 0
					for i, c := range conns {
						if c == got {
							idx = i + 1
						}
					}
					if idx == 0 { // a connection nobody had before: the mux created one - the model has no such step
						handles = append(handles, h)
						conns = append(conns, got)
						cu, cf = append(cu, u), append(cf, f)
						logEv("GetConn", map[string]any{"u": u, "f": f})
					} else {
						logEv("GetStale", map[string]any{"u": u, "f": f, "c": idx})
					}
					ok = true
				}
				if !ok {
					st["skipped"]++
				}
			}
			if conc {
				// bounded gated drain: every operation in progress finishes (the dispatcher stops at its read gate)
				procs := append(append([]string{}, job.Writers...), "r", "d", "k")
				sort.Strings(procs)
				for round := 0; round < 12; round++ {
					moved := false
					for _, p := range procs {
						if gated(p) {
							moved = true
						}
					}
					if !moved {
						break
					}
				}
			}
			logEv("Drain", map[string]any{"rx": readAll()})
			if conc && !muxClosed && s.at("d") == "d_read" {
				// everything that was started has finished: from here on "the connection that most recently wrote to the source"
				// has a definite answer again. One plain datagram per source key, the dispatcher stepped through its gates.
				for _, x := range job.Keys {
					if s.at("d") != "d_read" {
						break
					}
					sock.in <- dgram{payload("data"), mrAddr(x)}
					s.step("d")
					logEv("DRead", map[string]any{"x": x, "kd": "data"})
					for round := 0; round < 8 && s.at("d") != "d_read" && gated("d"); round++ {
					}
					logEv("ProbeOp", map[string]any{"x": x, "kd": "data", "rx": readAll()})
				}
			}
			// leave
			ice.VerifUDPMuxSetYield(nil)
			for _, h := range append(handles, extraHandles...) {
				_ = h.Close()
			}
			_ = mux.Close()
			for _, n := range s.names() {
				s.release(n)
			}
			synctest.Wait()
			for _, n := range s.names() {
				if a := s.at(n); a != "done" && n != "d" && n != "k" { // adopted goroutines (dispatcher, watcher) have no wrapper that marks them done; the bubble waits for them
					t.Errorf("process %s did not finish (at %s)", n, a)
				}
			}
		})
		if t.Failed() {
			break
		}
	}
	writeStats(t, job.Stats, map[string]any{"counts": st, "by_event": byEv, "lines": out.n})
}
