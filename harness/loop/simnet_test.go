package loop

import (
	"io"
	"net"
	"sync"
	"time"

	"github.com/pion/ice/v4"
	"github.com/pion/logging"
)

// Simulated datagram network (adapted copy of harness/simnet.go): everything blocks on
// channels created inside the synctest bubble.

type gram struct {
	data     []byte
	from, to string
}

type world struct {
	mu     sync.Mutex
	flight []gram
	conns  map[string]*simConn
	drop   bool
}

func newWorld() *world { return &world{conns: map[string]*simConn{}} }

type simConn struct {
	w      *world
	laddr  *net.UDPAddr
	in     chan gram
	closed chan struct{}
	once   sync.Once
}

func udp(s string) *net.UDPAddr { a, _ := net.ResolveUDPAddr("udp4", s); return a }

func (c *simConn) ReadFrom(b []byte) (int, net.Addr, error) {
	select {
	case d := <-c.in:
		return copy(b, d.data), udp(d.from), nil
	case <-c.closed:
		return 0, nil, io.EOF
	}
}

func (c *simConn) WriteTo(b []byte, a net.Addr) (int, error) {
	select {
	case <-c.closed:
		return 0, io.ErrClosedPipe
	default:
	}
	c.w.mu.Lock()
	c.w.flight = append(c.w.flight, gram{append([]byte{}, b...), c.laddr.String(), a.String()})
	c.w.mu.Unlock()

	return len(b), nil
}

func (c *simConn) Close() error {
	c.once.Do(func() { close(c.closed) })

	return nil
}
func (c *simConn) LocalAddr() net.Addr              { return c.laddr }
func (c *simConn) SetDeadline(time.Time) error      { return nil }
func (c *simConn) SetReadDeadline(time.Time) error  { return nil }
func (c *simConn) SetWriteDeadline(time.Time) error { return nil }

// simMux implements ice.UDPMux against the world; the listen addresses can be switched per gather cycle.
type simMux struct {
	w     *world
	mu    sync.Mutex
	addrs []string
}

func (m *simMux) setAddrs(a []string) {
	m.mu.Lock()
	m.addrs = a
	m.mu.Unlock()
}
func (m *simMux) Close() error { return nil }
func (m *simMux) GetConn(_ string, addr net.Addr) (net.PacketConn, error) {
	ua, _ := addr.(*net.UDPAddr)
	c := &simConn{w: m.w, laddr: ua, in: make(chan gram, 4096), closed: make(chan struct{})}
	m.w.mu.Lock()
	m.w.conns[ua.String()] = c
	m.w.mu.Unlock()

	return c, nil
}
func (m *simMux) RemoveConnByUfrag(string) {}
func (m *simMux) GetListenAddresses() []net.Addr {
	m.mu.Lock()
	defer m.mu.Unlock()
	r := []net.Addr{}
	for _, a := range m.addrs {
		r = append(r, udp(a))
	}

	return r
}

// pump delivers everything in flight; returns the number of datagrams handed over.
func (w *world) pump() int {
	w.mu.Lock()
	f := w.flight
	w.flight = nil
	drop := w.drop
	w.mu.Unlock()
	n := 0
	for _, g := range f {
		if drop {
			continue
		}
		w.mu.Lock()
		c := w.conns[g.to]
		w.mu.Unlock()
		if c == nil {
			continue
		}
		select {
		case <-c.closed:
		case c.in <- g:
			n++
		default:
		}
	}

	return n
}

func quietLog() *logging.DefaultLoggerFactory {
	lf := logging.NewDefaultLoggerFactory()
	lf.DefaultLogLevel = logging.LogLevelDisabled

	return lf
}

func hostOnly(mux ice.UDPMux, ufrag, pwd string, more ...ice.AgentOption) []ice.AgentOption {
	return append([]ice.AgentOption{
		ice.WithUDPMux(mux),
		ice.WithMulticastDNSMode(ice.MulticastDNSModeDisabled),
		ice.WithCandidateTypes([]ice.CandidateType{ice.CandidateTypeHost}),
		ice.WithNetworkTypes([]ice.NetworkType{ice.NetworkTypeUDP4}),
		ice.WithLoggerFactory(quietLog()),
		ice.WithLocalCredentials(ufrag, pwd),
	}, more...)
}

func credOf(a string, g int) (string, string) {
	s := string(rune('0' + g))

	return "ufrag" + a + "gen" + s + "xxxx", "passwordpassword" + a + "gen" + s + "xxxxxxxxxx"
}
