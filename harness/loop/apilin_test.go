package loop

import (
	"encoding/json"
	"errors"
	"fmt"
	"regexp"
	"runtime"
	"sort"
	"strconv"
	"strings"
	"sync"
	"sync/atomic"
	"testing"
	"testing/synctest"

	"github.com/pion/ice/v4"
)

// C10, second sentence (linearisability): concurrent public calls on ONE real agent, overlapped deterministically by
// holding the agent's task loop at its "loop.select" yield point, recorded as an invocation/return history that TLC
// checks against AgentApi (specs/loop/AgentApiTrace.tla: is there a placement of every call's atomic step between its
// invocation and its return that explains every result?).
//
// The loop goroutine parks at "loop.select" in every iteration; the driver lets it take ONE task per "loop" step (hold
// mode) or serves pending submissions until none is left (free mode). Callers are ordinary goroutines, one per call.
// Quiescence is judged from goroutine states (a caller may sit in a sync.Mutex, which synctest does not count as
// blocked), never from time: the virtual clock of the bubble does not move while the driver runs.

type alStep struct {
	K   string `json:"k"` // call | hold | free | loop
	P   string `json:"p,omitempty"`
	Op  string `json:"op,omitempty"`
	Arg string `json:"arg,omitempty"`
}

type alScenario struct {
	ID      int      `json:"id"`
	Handler bool     `json:"handler"`
	Steps   []alStep `json:"steps"`
	Tag     string   `json:"tag"`
}

type alJob struct {
	Scenarios string `json:"scenarios"`
	Out       string `json:"out"`
	Stats     string `json:"stats"`
}

var alHeader = regexp.MustCompile(`(?m)^goroutine (\d+) \[([^\]]*)\]:$`)

// alQuiesce spins until no goroutine other than the caller is running or runnable in three consecutive samples.
func alQuiesce() bool {
	me := goid()
	buf := make([]byte, 1<<20)
	calm := 0
	for i := 0; i < 400000; i++ {
		runtime.Gosched()
		n := runtime.Stack(buf, true)
		busy := false
		for _, m := range alHeader.FindAllSubmatch(buf[:n], -1) {
			id, _ := strconv.ParseInt(string(m[1]), 10, 64)
			st := string(m[2])
			if id != me && (strings.HasPrefix(st, "running") || strings.HasPrefix(st, "runnable")) {
				busy = true

				break
			}
		}
		if busy {
			calm = 0

			continue
		}
		calm++
		if calm >= 3 {
			return true
		}
	}

	return false
}

// alGate parks the loop goroutine at "loop.select" and counts the submissions that wait for it.
type alGate struct {
	gate     chan struct{}
	parked   atomic.Bool
	exited   atomic.Bool
	sel      atomic.Int64 // callers that reached Run's select
	out      atomic.Int64 // ... and left it (task accepted, context done, loop closed)
	cwait    atomic.Int64 // closers waiting for the loop to end
	cret     atomic.Int64
	loopGoid atomic.Int64
	ran      atomic.Int64 // tasks the loop has run (yield point loop.ran)
	onTask   func()       // called by serve when the turn it allowed ran a task
	// goroutines spawned by AddRemoteCandidate (its add runs as a task of its own) can be held back before they submit
	asyncHold atomic.Bool
	asyncGate chan struct{}
	asyncN    atomic.Int64
}

func (g *alGate) yield(site string) {
	switch site {
	case "loop.select":
		g.loopGoid.Store(goid())
		g.parked.Store(true)
		<-g.gate
	case "loop.ran": // the task has run, its submitter has not been told yet: the history line belongs here
		g.ran.Add(1)
		if g.onTask != nil {
			g.onTask()
		}
	case "loop.exit":
		g.exited.Store(true)
	case "run.errcheck":
		if g.asyncHold.Load() && stackHas("AddRemoteCandidate.func") {
			g.asyncN.Add(1)
			<-g.asyncGate
		}
	case "run.select":
		g.sel.Add(1)
	case "run.sent", "run.ctxdone", "run.closed":
		g.out.Add(1)
	case "close.wait":
		g.cwait.Add(1)
	case "close.ret":
		g.cret.Add(1)
	}
}

func (g *alGate) pending() bool {
	return g.sel.Load() > g.out.Load() || g.cwait.Load() > g.cret.Load()
}

// serve lets the loop take one turn (one task, or noticing that it was closed). False: the loop is not at the gate.
func (g *alGate) serve() bool {
	if g.exited.Load() || !g.parked.Load() {
		return false
	}
	g.parked.Store(false)
	g.gate <- struct{}{}
	alQuiesce()

	return true
}

func alCred(id string) (string, string) {
	switch id {
	case "":
		return "", ""
	case "short":
		return "x", "y"
	}

	return "ufrag-" + id + "-xxxx", "password-" + id + "-xxxxxxxxxxxxxxxxxxxx"
}

func alCredID(ufrag, pwd string, own map[string]string) string {
	if ufrag == "" && pwd == "" {
		return ""
	}
	if id, ok := own[ufrag+"/"+pwd]; ok {
		return id
	}
	u := strings.TrimSuffix(strings.TrimPrefix(ufrag, "ufrag-"), "-xxxx")
	p := strings.TrimSuffix(strings.TrimPrefix(pwd, "password-"), "-xxxxxxxxxxxxxxxxxxxx")
	if u == p && u != ufrag {
		return u
	}

	return "torn"
}

func alErr(err error) string {
	switch {
	case err == nil:
		return "ok"
	case errors.Is(err, ice.ErrMultipleStart), errors.Is(err, ice.ErrMultipleGatherAttempted):
		return "multi"
	case errors.Is(err, ice.ErrRemoteUfragEmpty), errors.Is(err, ice.ErrRemotePwdEmpty):
		return "empty"
	case errors.Is(err, ice.ErrLocalUfragInsufficientBits), errors.Is(err, ice.ErrLocalPwdInsufficientBits):
		return "invalid"
	case errors.Is(err, ice.ErrNoOnCandidateHandler):
		return "nohandler"
	case errors.Is(err, ice.ErrClosed) || strings.Contains(err.Error(), "the agent is closed"):
		return "closed"
	}

	return "error"
}

// alCall performs one public call and names its result the way AgentApi does.
func alCall(a *ice.Agent, st alStep, own map[string]string) string {
	switch st.Op {
	case "StartDial":
		u, p := alCred(st.Arg)
		_, err := a.StartDial(u, p)

		return alErr(err)
	case "StartAccept":
		u, p := alCred(st.Arg)
		_, err := a.StartAccept(u, p)

		return alErr(err)
	case "Restart":
		u, p := alCred(st.Arg)

		return alErr(a.Restart(u, p))
	case "SetRemoteCredentials":
		u, p := alCred(st.Arg)

		return alErr(a.SetRemoteCredentials(u, p))
	case "GetLocalUserCredentials":
		u, p, err := a.GetLocalUserCredentials()
		if err != nil {
			return alErr(err)
		}

		return alCredID(u, p, own)
	case "GetRemoteUserCredentials":
		u, p, err := a.GetRemoteUserCredentials()
		if err != nil {
			return alErr(err)
		}

		return alCredID(u, p, own)
	case "GetGatheringState":
		s, err := a.GetGatheringState()
		if err != nil {
			return alErr(err)
		}

		return s.String()
	case "GatherCandidates":
		return alErr(a.GatherCandidates())
	case "AddRemoteCandidate":
		port := 6000
		if st.Arg == "r2" {
			port = 6001
		}
		c, err := ice.NewCandidateHost(&ice.CandidateHostConfig{Network: "udp", Address: "10.7.7.7", Port: port, Component: 1})
		if err != nil {
			return "error"
		}

		return alErr(a.AddRemoteCandidate(c))
	case "GetRemoteCandidates":
		cs, err := a.GetRemoteCandidates()
		if err != nil {
			return alErr(err)
		}
		var ids []string
		for _, c := range cs {
			switch c.Port() {
			case 6000:
				ids = append(ids, "r1")
			case 6001:
				ids = append(ids, "r2")
			default:
				ids = append(ids, "?")
			}
		}
		sort.Strings(ids)
		// the result belongs to the caller: overwriting it is no operation on the agent
		for i := range cs {
			cs[i] = cs[0]
		}

		return "rc:" + strings.Join(ids, ",")
	case "OnCandidate":
		return alErr(a.OnCandidate(func(ice.Candidate) {}))
	case "Close":
		return alErr(a.Close())
	}

	return "error"
}

func TestApiLin(t *testing.T) {
	var job alJob
	loadJob(t, &job)
	out := newNdjson(t, job.Out)
	defer out.close()
	st := map[string]int{}
	readLines(t, job.Scenarios, func(line []byte) {
		var sc alScenario
		if err := json.Unmarshal(line, &sc); err != nil {
			t.Fatal(err)
		}
		st["scenarios"]++
		synctest.Test(t, func(t *testing.T) {
			t.Helper()
			g := &alGate{gate: make(chan struct{}), asyncGate: make(chan struct{})}
			a, err := ice.NewAgentWithOptions(
				ice.WithMulticastDNSMode(ice.MulticastDNSModeDisabled),
				ice.WithCandidateTypes([]ice.CandidateType{ice.CandidateTypeHost}),
				ice.WithNetworkTypes([]ice.NetworkType{ice.NetworkTypeUDP4}),
				ice.WithInterfaceFilter(func(string) bool { return false }), // no interface: cycles run to the end without a socket
				ice.WithLoggerFactory(quietLog()),
			)
			if err != nil {
				t.Fatal(err)
			}
			// installed after the constructor (which submits to the loop itself): the loop is inside its select now, takes the
			// next submission ungated and parks at "loop.select" from then on
			ice.VerifSetYield(g.yield)
			defer ice.VerifSetYield(nil)
			hold := false
			// settle serves the loop: one turn per pending submission in free mode, none in hold mode
			settle := func() {
				alQuiesce()
				for n := 0; !hold && n < 200 && g.pending() && g.serve(); n++ {
				}
			}
			settle()
			own := map[string]string{}
			done := make(chan struct{})
			go func() { // the agent's own first credentials are "c0"
				u, p, _ := a.GetLocalUserCredentials()
				own[u+"/"+p] = "c0"
				if sc.Handler {
					_ = a.OnCandidate(func(ice.Candidate) {})
				}
				close(done)
			}()
			for open := true; open; {
				settle()
				select {
				case <-done:
					open = false
				default:
				}
			}
			out.put(map[string]any{"ev": "Reset", "id": sc.ID, "handler": sc.Handler, "tag": sc.Tag})
			var wg sync.WaitGroup
			var lmu sync.Mutex // the log's lock: an invocation is logged before the call starts, a return after it came back
			// every task the loop runs is a line of the history too: the steps of the model that are loop tasks happen at these lines
			g.onTask = func() {
				lmu.Lock()
				out.put(map[string]any{"ev": "task"})
				lmu.Unlock()
			}
			returned := map[string]bool{}
			for _, s := range sc.Steps {
				st["steps"]++
				switch s.K {
				case "hold":
					hold = true
				case "free":
					hold = false
				case "loop":
					if g.serve() {
						st["loop_turns"]++
					}
				case "asynchold": // the add tasks of later AddRemoteCandidate calls are held back until "asyncfree"
					g.asyncHold.Store(true)
				case "asyncfree":
					g.asyncHold.Store(false)
					for n := g.asyncN.Swap(0); n > 0; n-- {
						g.asyncGate <- struct{}{}
						st["async_released"]++
					}
				case "call":
					st["calls"]++
					lmu.Lock()
					out.put(map[string]any{"ev": "inv", "p": s.P, "op": s.Op, "arg": s.Arg})
					lmu.Unlock()
					wg.Add(1)
					go func() {
						defer wg.Done()
						r := alCall(a, s, own)
						lmu.Lock()
						out.put(map[string]any{"ev": "ret", "p": s.P, "res": r})
						returned[s.P] = true
						lmu.Unlock()
					}()
				}
				settle()
			}
			// epilogue: free mode until every call has returned, then Close
			hold = false
			g.asyncHold.Store(false)
			for n := g.asyncN.Swap(0); n > 0; n-- {
				g.asyncGate <- struct{}{}
			}
			for n := 0; n < 400; n++ {
				settle()
				lmu.Lock()
				all := len(returned) == countCalls(sc.Steps)
				lmu.Unlock()
				if all && !g.pending() {
					break
				}
			}
			lmu.Lock()
			if len(returned) != countCalls(sc.Steps) {
				st["stuck_scenarios"]++
				out.put(map[string]any{"ev": "Stuck", "id": sc.ID, "returned": len(returned)})
			}
			lmu.Unlock()
			ice.VerifSetYield(nil)
			closed := make(chan struct{})
			go func() { _ = a.Close(); close(closed) }()
			for open, n := true, 0; open && n < 100000; n++ {
				if g.parked.Load() && !g.exited.Load() {
					g.parked.Store(false)
					select {
					case g.gate <- struct{}{}:
					default:
						g.parked.Store(true)
					}
				}
				runtime.Gosched()
				select {
				case <-closed:
					open = false
				default:
				}
			}
			wg.Wait()
			synctest.Wait()
		})
	})
	writeJSON(job.Stats, map[string]any{"counts": st, "lines": out.n})
	if st["stuck_scenarios"] > 0 {
		fmt.Println("stuck scenarios:", st["stuck_scenarios"])
	}
}

func countCalls(steps []alStep) int {
	n := 0
	for _, s := range steps {
		if s.K == "call" {
			n++
		}
	}

	return n
}
