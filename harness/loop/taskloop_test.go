package loop

import (
	"context"
	"encoding/json"
	"errors"
	"maps"
	mrand "math/rand"
	"slices"
	"sync"
	"sync/atomic"
	"testing"
	"testing/synctest"
	"time"

	"github.com/pion/ice/v4"
)

// ---------- C10, first sentence: the real internal/taskloop behind the gates.

type tlJob struct {
	Subs        []string `json:"subs"`
	Cancellable []string `json:"cancellable"`
	Closers     []string `json:"closers"`
	Blocking    []string `json:"blocking"`
	Paths       string   `json:"paths"`   // file: one JSON array of TLC edge labels per line ("" = none)
	Walks       int      `json:"walks"`   // seeded random gated walks (not guided by the model)
	WalkLen     int      `json:"walkLen"` //
	Jitter      int      `json:"jitter"`  // free-running runs with seeded jitter at the yield points
	Seed        int64    `json:"seed"`
	Out         string   `json:"out"`
	Stats       string   `json:"stats"`
}

type tlStats struct {
	Paths       int `json:"paths"`
	Walks       int `json:"walks"`
	Steps       int `json:"steps"`
	Skipped     int `json:"skipped"`
	Adapted     int `json:"adapted"`
	Spontaneous int `json:"spontaneous"`
	Events      int `json:"events"`
	Unknown     int `json:"unknown"`
	Stuck       int `json:"stuck"`
	JitterRuns  int `json:"jitterRuns"`
}

type tlObs struct {
	spc       map[string]string
	lint      string // loop position, finer than the model's lpc (l_got / l_mid both map to l_run)
	cpc       map[string]string
	ran       map[string]int
	fin       map[string]bool
	onClose   int
	maxActive int
	sac       bool
	closeSnap map[string]map[string]int
}

func (o *tlObs) clone() tlObs {
	c := *o
	c.spc, c.cpc, c.ran, c.fin = maps.Clone(o.spc), maps.Clone(o.cpc), maps.Clone(o.ran), maps.Clone(o.fin)

	return c
}

func (o *tlObs) export() map[string]any {
	lpc := o.lint
	if lpc == "l_got" || lpc == "l_mid" {
		lpc = "l_run"
	}
	snap := o.closeSnap
	if snap == nil {
		snap = map[string]map[string]int{}
	}

	return map[string]any{
		"spc": maps.Clone(o.spc), "lpc": lpc, "cpc": maps.Clone(o.cpc), "ran": maps.Clone(o.ran), "fin": maps.Clone(o.fin),
		"onCloseRuns": o.onClose, "maxActive": o.maxActive, "startedAfterClose": o.sac, "closeSnap": snap,
	}
}

func (o *tlObs) same(p *tlObs) bool {
	return maps.Equal(o.spc, p.spc) && o.lint == p.lint && maps.Equal(o.cpc, p.cpc) && maps.Equal(o.ran, p.ran) &&
		maps.Equal(o.fin, p.fin) && o.onClose == p.onClose && o.maxActive == p.maxActive && o.sac == p.sac
}

// tlBody is the instrumented task body / callbacks shared by the gated and the free-running drivers.
type tlBody struct {
	dm        sync.Mutex
	ran       map[string]int
	fin       map[string]bool
	ret       map[string]string
	active    int
	maxActive int
	onClose   int
	sac       bool
	closeRet  bool
	snap      map[string]map[string]int
	prestopCh chan struct{}
	psOnce    sync.Once
}

func newBody() *tlBody {
	return &tlBody{
		ran: map[string]int{}, fin: map[string]bool{}, ret: map[string]string{}, snap: map[string]map[string]int{},
		prestopCh: make(chan struct{}),
	}
}

func (b *tlBody) task(n string, blocking bool, mid func()) func(context.Context) {
	return func(context.Context) {
		b.dm.Lock()
		b.ran[n]++
		b.active++
		if b.active > b.maxActive {
			b.maxActive = b.active
		}
		if b.closeRet {
			b.sac = true
		}
		b.dm.Unlock()
		mid()
		if blocking {
			<-b.prestopCh
		}
		b.dm.Lock()
		b.fin[n] = true
		b.active--
		b.dm.Unlock()
	}
}

func (b *tlBody) submit(l *ice.VerifLoop, ctx context.Context, n string, blocking bool, mid func()) { //nolint:revive
	err := l.Run(ctx, b.task(n, blocking, mid))
	b.dm.Lock()
	switch {
	case err == nil:
		b.ret[n] = "ret_ok"
	case errors.Is(err, ice.VerifErrLoopClosed):
		b.ret[n] = "ret_closed"
	default:
		b.ret[n] = "ret_ctx"
	}
	b.dm.Unlock()
}

func (b *tlBody) closeLoop(l *ice.VerifLoop, c string, inPreStop func()) {
	l.CloseWithPreStop(func() {
		inPreStop()
		b.psOnce.Do(func() { close(b.prestopCh) })
	})
	b.dm.Lock()
	b.closeRet = true
	b.snap[c] = map[string]int{"onClose": b.onClose, "active": b.active}
	b.dm.Unlock()
}

type tlRun struct {
	job   *tlJob
	s     *sched
	out   *ndjson
	st    *tlStats
	b     *tlBody
	l     *ice.VerifLoop
	prev  tlObs
	block map[string]bool
	canc  map[string]context.CancelFunc
	// what the driver knows from the steps it has logged (guards: release only enabled actions)
	cancelled  map[string]bool
	tdone      map[string]bool
	curTask    string
	doneClosed bool
	loopExited bool
	once       string
	prestop    bool
}

func subPC(pos, ret string) string {
	switch pos {
	case "done":
		return ret
	case "start", "in:start", "run.errcheck", "in:run.errcheck":
		return "r_err"
	case "run.select", "in:run.select":
		return "r_sel"
	case "run.sent", "in:run.sent":
		return "r_wait"
	}

	return "?" + pos
}

func loopPC(pos string) string {
	switch pos {
	case "", "loop.select", "in:loop.select", "in:loop.ran":
		return "l_sel"
	case "loop.got", "in:loop.got":
		return "l_got"
	case "task.mid", "in:task.mid":
		return "l_mid"
	case "loop.ran":
		return "l_close"
	case "loop.onclose", "in:loop.onclose":
		return "l_onclose"
	case "loop.exit":
		return "l_exit"
	case "in:loop.exit":
		return "l_done"
	}

	return "?" + pos
}

func closerPC(pos string) string {
	switch pos {
	case "start", "in:start", "close.once", "in:close.once":
		return "c_once"
	case "close.prestop", "in:close.prestop":
		return "c_in_once"
	case "close.wait", "in:close.wait":
		return "c_wait"
	case "done":
		return "ret"
	}

	return "?" + pos
}

func (r *tlRun) obs() tlObs {
	o := tlObs{spc: map[string]string{}, cpc: map[string]string{}, ran: map[string]int{}, fin: map[string]bool{}}
	r.b.dm.Lock()
	defer r.b.dm.Unlock()
	for _, n := range r.job.Subs {
		o.spc[n] = subPC(r.s.pos(n), r.b.ret[n])
		o.ran[n], o.fin[n] = r.b.ran[n], r.b.fin[n]
	}
	for _, c := range r.job.Closers {
		o.cpc[c] = closerPC(r.s.pos(c))
	}
	o.lint = loopPC(r.s.pos("loop"))
	o.onClose, o.maxActive, o.sac = r.b.onClose, r.b.maxActive, r.b.sac

	return o
}

func (r *tlRun) emit(ev, p string, o *tlObs) {
	rec := map[string]any{"ev": ev, "post": o.export()}
	if p != "" {
		rec["p"] = p
	}
	r.out.put(rec)
	r.st.Events++
	switch ev {
	case "Cancel":
		r.cancelled[p] = true
	case "Handoff":
		r.curTask = p
	case "LCloseDone":
		r.tdone[r.curTask] = true
	case "COnceWin":
		r.doneClosed, r.once = true, "running"
	case "CPreStop":
		r.once, r.prestop = "finished", true
	case "LExit":
		r.loopExited = true
	case "Unknown":
		r.st.Unknown++
	}
}

var subMoves = map[[2]string]string{ //nolint:gochecknoglobals
	{"r_err", "r_sel"}: "RErr", {"r_err", "ret_closed"}: "RErr", {"r_sel", "ret_ctx"}: "RSelCtx",
	{"r_sel", "ret_closed"}: "RSelDone", {"r_sel", "r_wait"}: "Handoff", {"r_wait", "ret_ok"}: "RWait",
}

var loopMoves = map[[2]string]string{ //nolint:gochecknoglobals
	{"l_sel", "l_got"}: "Handoff", {"l_sel", "l_onclose"}: "LSelDone", {"l_got", "l_mid"}: "LRunStart",
	{"l_mid", "l_close"}: "LRunEnd", {"l_close", "l_sel"}: "LCloseDone", {"l_onclose", "l_exit"}: "LOnClose",
	{"l_exit", "l_done"}: "LExit",
}

var closerMoves = map[[2]string]string{ //nolint:gochecknoglobals
	{"c_once", "c_in_once"}: "COnceWin", {"c_once", "c_wait"}: "COnceLose", {"c_in_once", "c_wait"}: "CPreStop",
	{"c_wait", "ret"}: "CWait",
}

// observe derives the model steps that actually happened from where the processes
// ended up (adaptive logging, DESIGN 3.5 (iii)/(iv)): the processes in main first,
// then everybody who was woken out of a blocking operation. It returns the labels.
func (r *tlRun) observe(main ...string) []string {
	cur := r.obs()
	prev := &r.prev
	work := prev.clone()
	var labels []string
	order := append([]string{}, main...)
	for _, n := range append(append(append([]string{}, r.job.Subs...), "loop"), r.job.Closers...) {
		if !slices.Contains(order, n) {
			order = append(order, n)
		}
	}
	loopCounters := func() {
		work.ran, work.fin = maps.Clone(cur.ran), maps.Clone(cur.fin)
		work.onClose, work.maxActive, work.sac = cur.onClose, cur.maxActive, cur.sac
	}
	handoffSub := ""
	if prev.lint == "l_sel" && cur.lint == "l_got" {
		for _, n := range r.job.Subs {
			if prev.spc[n] == "r_sel" && cur.spc[n] == "r_wait" && handoffSub == "" {
				handoffSub = n
			}
		}
	}
	loopDone := false
	for _, n := range order {
		switch {
		case n == "loop":
			if loopDone || prev.lint == cur.lint {
				continue
			}
			ev, ok := loopMoves[[2]string{prev.lint, cur.lint}]
			if !ok || (ev == "Handoff" && handoffSub == "") {
				ev = "Unknown"
			}
			work.lint = cur.lint
			loopCounters()
			if ev == "Handoff" {
				work.spc[handoffSub] = "r_wait"
				r.emit(ev, handoffSub, &work)
				labels = append(labels, "Handoff("+handoffSub+")")
			} else {
				r.emit(ev, "", &work)
				labels = append(labels, ev)
			}
			loopDone = true
		case slices.Contains(r.job.Subs, n):
			if work.spc[n] == cur.spc[n] {
				continue
			}
			ev, ok := subMoves[[2]string{work.spc[n], cur.spc[n]}]
			if !ok || (ev == "Handoff" && (n != handoffSub || loopDone)) {
				ev = "Unknown"
			}
			work.spc[n] = cur.spc[n]
			if ev == "Handoff" {
				work.lint = cur.lint
				loopCounters()
				loopDone = true
			}
			r.emit(ev, n, &work)
			labels = append(labels, ev+"("+n+")")
		default:
			if work.cpc[n] == cur.cpc[n] {
				continue
			}
			ev, ok := closerMoves[[2]string{work.cpc[n], cur.cpc[n]}]
			if !ok {
				ev = "Unknown"
			}
			work.cpc[n] = cur.cpc[n]
			r.emit(ev, n, &work)
			labels = append(labels, ev+"("+n+")")
		}
	}
	if !work.same(&cur) { // something changed that no process position explains
		r.emit("Unknown", "", &cur)
		labels = append(labels, "Unknown")
	}
	r.prev = cur
	for _, lab := range labels {
		_, p := splitLabel(lab)
		if p == "" {
			p = "loop"
		}
		if !slices.Contains(main, p) {
			r.st.Spontaneous++
		}
	}

	return labels
}

// safe: never release a closer into a sync.Once that a parked closer holds (a goroutine
// blocked on a mutex is not durably blocked; the bubble would never become idle).
func (r *tlRun) safe(n string) bool {
	if slices.Contains(r.job.Closers, n) && r.s.pos(n) == "close.once" {
		for _, c := range r.job.Closers {
			if c != n && (r.s.pos(c) == "close.prestop" || r.s.pos(c) == "in:close.once") {
				return false
			}
		}
	}

	return true
}

// enabled: does the driver's knowledge of the real state say that the planned action can happen now?
func (r *tlRun) enabled(name, arg string) bool {
	lp := r.s.pos("loop")
	switch name {
	case "RErr":
		return r.s.pos(arg) == "run.errcheck"
	case "RSelCtx":
		return r.s.pos(arg) == "run.select" && r.cancelled[arg]
	case "RSelDone":
		return r.s.pos(arg) == "run.select" && r.doneClosed
	case "RWait":
		return r.s.pos(arg) == "run.sent" && r.tdone[arg]
	case "Handoff":
		sp := r.s.pos(arg)

		return (sp == "run.select" || sp == "in:run.select") && (lp == "loop.select" || lp == "in:loop.select") &&
			(sp == "run.select" || lp == "loop.select")
	case "LSelDone":
		return lp == "loop.select" && r.doneClosed
	case "LRunStart":
		return lp == "loop.got"
	case "LRunEnd":
		return lp == "task.mid" && (!r.block[r.curTask] || r.prestop)
	case "LCloseDone":
		return lp == "loop.ran"
	case "LOnClose":
		return lp == "loop.onclose"
	case "LExit":
		return lp == "loop.exit"
	case "COnceWin", "COnceLose":
		return r.s.pos(arg) == "close.once" && r.once != "running" && r.safe(arg)
	case "CPreStop":
		return r.s.pos(arg) == "close.prestop"
	case "CWait":
		return r.s.pos(arg) == "close.wait" && r.loopExited
	}

	return false
}

func (r *tlRun) planned(lab string) {
	name, arg := splitLabel(lab)
	r.st.Steps++
	if name == "Cancel" {
		if r.cancelled[arg] || r.canc[arg] == nil {
			r.st.Skipped++

			return
		}
		r.canc[arg]()
		synctest.Wait()
		r.emit("Cancel", arg, &r.prev)
		r.observe()

		return
	}
	if !r.enabled(name, arg) {
		r.st.Skipped++

		return
	}
	var main []string
	switch {
	case name == "Handoff":
		main = []string{arg, "loop"}
	case name[0] == 'L':
		main = []string{"loop"}
	default:
		main = []string{arg}
	}
	for _, n := range main {
		r.s.release(n)
	}
	synctest.Wait()
	got := r.observe(main...)
	switch {
	case len(got) == 0:
		r.st.Skipped++
	case got[0] != name && got[0] != name+"("+arg+")":
		r.st.Adapted++
	}
}

// candidates of an unguided step: every parked process that can be released safely.
func (r *tlRun) candidates() []string {
	var c []string
	for _, n := range append(append(append([]string{}, r.job.Subs...), "loop"), r.job.Closers...) {
		if r.s.parked(n) && r.safe(n) {
			c = append(c, n)
		}
	}

	return c
}

func (r *tlRun) drain() {
	budget := 40 * (len(r.job.Subs) + len(r.job.Closers) + 1)
	for k := 0; k < budget; k++ {
		c := r.candidates()
		if len(c) == 0 {
			break
		}
		r.s.release(c[0])
		synctest.Wait()
		r.observe(c[0])
	}
	cur := r.obs()
	stuck := []string{}
	for _, n := range r.job.Subs {
		if r.s.pos(n) != "done" {
			stuck = append(stuck, n)
		}
	}
	for _, n := range r.job.Closers {
		if r.s.pos(n) != "done" {
			stuck = append(stuck, n)
		}
	}
	if len(stuck) > 0 {
		r.st.Stuck++
	}
	r.out.put(map[string]any{"ev": "Drain", "stuck": stuck, "post": cur.export()})
	r.st.Events++
	r.out.flush()
}

func runTaskLoopGated(t *testing.T, job *tlJob, out *ndjson, st *tlStats, path []string, rng *mrand.Rand) {
	t.Helper()
	synctest.Test(t, func(t *testing.T) {
		t.Helper()
		s := newSched("run.ctxdone", "run.closed", "run.done", "loop.stop", "close.ret")
		s.auto = func(s *sched, site string) string {
			if site == "loop.select" && s.byName["loop"] == nil {
				return "loop"
			}

			return ""
		}
		ice.VerifSetYield(s.yield)
		defer ice.VerifSetYield(nil)
		r := &tlRun{
			job: job, s: s, out: out, st: st, b: newBody(), block: map[string]bool{}, canc: map[string]context.CancelFunc{},
			cancelled: map[string]bool{}, tdone: map[string]bool{}, once: "free",
		}
		for _, n := range job.Blocking {
			r.block[n] = true
		}
		r.l = ice.VerifNewLoop(func() {
			r.b.dm.Lock()
			r.b.onClose++
			r.b.dm.Unlock()
		})
		synctest.Wait()
		for _, n := range job.Subs {
			ctx, cancel := context.WithCancel(context.Background())
			if slices.Contains(job.Cancellable, n) {
				r.canc[n] = cancel
			}
			defer cancel()
			s.spawn(n, func() { r.b.submit(r.l, ctx, n, r.block[n], func() { s.yield("task.mid") }) })
		}
		for _, c := range job.Closers {
			s.spawn(c, func() { r.b.closeLoop(r.l, c, func() { s.yield("close.prestop") }) })
		}
		r.prev = r.obs()
		out.put(map[string]any{"ev": "Reset", "post": r.prev.export()})
		st.Events++
		if rng == nil {
			for _, lab := range path {
				r.planned(lab)
			}
		} else {
			for k := 0; k < job.WalkLen; k++ {
				st.Steps++
				c := r.candidates()
				var cn []string
				for _, n := range job.Cancellable {
					if !r.cancelled[n] {
						cn = append(cn, n)
					}
				}
				if len(c) == 0 && len(cn) == 0 {
					break
				}
				if len(cn) > 0 && (len(c) == 0 || rng.Intn(8) == 0) {
					n := cn[rng.Intn(len(cn))]
					r.canc[n]()
					synctest.Wait()
					r.emit("Cancel", n, &r.prev)
					r.observe()

					continue
				}
				n := c[rng.Intn(len(c))]
				s.release(n)
				synctest.Wait()
				if len(r.observe(n)) == 0 {
					st.Skipped++ // walked into a blocking operation: no model step (yet)
				}
			}
		}
		r.drain()
		// leave the bubble: gates off, unblock everything the harness controls
		s.freeRun()
		r.b.psOnce.Do(func() { close(r.b.prestopCh) })
		go r.l.Close()
		synctest.Wait()
	})
}

// TestTaskLoop replays TLC's edge cover (and seeded unguided walks) on the real task loop.
func TestTaskLoop(t *testing.T) {
	var job tlJob
	loadJob(t, &job)
	out := newNdjson(t, job.Out)
	defer out.close()
	st := &tlStats{}
	defer func() { writeJSON(job.Stats, st) }()
	if job.Paths != "" {
		readLines(t, job.Paths, func(b []byte) {
			var path []string
			if err := json.Unmarshal(b, &path); err != nil {
				t.Fatal(err)
			}
			st.Paths++
			runTaskLoopGated(t, &job, out, st, path, nil)
		})
	}
	rng := mrand.New(mrand.NewSource(job.Seed)) //nolint:gosec
	for i := 0; i < job.Walks; i++ {
		st.Walks++
		runTaskLoopGated(t, &job, out, st, nil, rng)
	}
}

// TestTaskLoopJitter: free-running runs; the yield points inject seeded virtual-time
// jitter (hook H2, variant b). Only the final observation is recorded and judged.
func TestTaskLoopJitter(t *testing.T) {
	var job tlJob
	loadJob(t, &job)
	out := newNdjson(t, job.Out)
	defer out.close()
	st := &tlStats{}
	defer func() { writeJSON(job.Stats, st) }()
	rng := mrand.New(mrand.NewSource(job.Seed)) //nolint:gosec
	var rmu sync.Mutex
	rnd := func(n int) int {
		rmu.Lock()
		defer rmu.Unlock()

		return rng.Intn(n)
	}
	for i := 0; i < job.Jitter; i++ {
		st.JitterRuns++
		synctest.Test(t, func(t *testing.T) {
			t.Helper()
			ice.VerifSetYield(func(string) {
				switch rnd(4) {
				case 0:
					time.Sleep(time.Duration(1+rnd(40)) * time.Microsecond)
				case 1:
					time.Sleep(time.Duration(1+rnd(3)) * time.Microsecond)
				default:
				}
			})
			defer ice.VerifSetYield(nil)
			b := newBody()
			var loopGone atomic.Bool
			l := ice.VerifNewLoop(func() {
				b.dm.Lock()
				b.onClose++
				b.dm.Unlock()
			})
			block := map[string]bool{}
			for _, n := range job.Blocking {
				block[n] = true
			}
			var wg sync.WaitGroup
			nap := func() { time.Sleep(time.Duration(rnd(60)) * time.Microsecond) }
			exp := func() map[string]any {
				b.dm.Lock()
				defer b.dm.Unlock()
				o := tlObs{spc: map[string]string{}, cpc: map[string]string{}, ran: maps.Clone(b.ran), fin: maps.Clone(b.fin)}
				for _, n := range job.Subs {
					o.spc[n] = b.ret[n]
					if o.spc[n] == "" {
						o.spc[n] = "r_sel"
					}
					o.ran[n], o.fin[n] = b.ran[n], b.fin[n]
				}
				for _, c := range job.Closers {
					o.cpc[c] = "c_wait"
					if _, ok := b.snap[c]; ok {
						o.cpc[c] = "ret"
					}
				}
				o.lint = "l_sel"
				if loopGone.Load() {
					o.lint = "l_done"
				}
				o.onClose, o.maxActive, o.sac = b.onClose, b.maxActive, b.sac
				o.closeSnap = maps.Clone(b.snap)

				return o.export()
			}
			out.put(map[string]any{"ev": "Reset", "post": func() map[string]any {
				o := tlObs{spc: map[string]string{}, cpc: map[string]string{}, ran: map[string]int{}, fin: map[string]bool{}, lint: "l_sel"}
				for _, n := range job.Subs {
					o.spc[n], o.ran[n], o.fin[n] = "r_err", 0, false
				}
				for _, c := range job.Closers {
					o.cpc[c] = "c_once"
				}

				return o.export()
			}()})
			for _, n := range job.Subs {
				ctx, cancel := context.WithCancel(context.Background())
				defer cancel()
				wg.Add(1)
				go func() {
					defer wg.Done()
					nap()
					b.submit(l, ctx, n, block[n], func() { nap() })
				}()
				if slices.Contains(job.Cancellable, n) {
					wg.Add(1)
					go func() {
						defer wg.Done()
						nap()
						cancel()
					}()
				}
			}
			for _, c := range job.Closers {
				wg.Add(1)
				go func() {
					defer wg.Done()
					time.Sleep(time.Duration(rnd(300)) * time.Microsecond)
					// no sleeping inside preStop: it runs inside sync.Once, and a goroutine waiting for that Once is not
					// durably blocked, so the bubble's clock would never advance
					b.closeLoop(l, c, func() {})
				}()
			}
			go func() {
				<-l.Done()
				// the loop goroutine is gone once Close (which waits for taskLoopDone) returns
				l.Close()
				loopGone.Store(true)
			}()
			synctest.Wait() // quiescent: everybody returned, or is blocked for good
			time.Sleep(time.Second)
			synctest.Wait()
			out.put(map[string]any{"ev": "Final", "post": exp()})
			st.Events += 2
			out.flush()
			b.psOnce.Do(func() { close(b.prestopCh) })
			wg.Wait()
		})
	}
}
