package loop

import (
	"fmt"
	mrand "math/rand"
	"os"
	"sync"
	"sync/atomic"
	"testing"
	"testing/synctest"
	"time"

	"github.com/pion/ice/v4"
)

// ---------- two connected real agents on the simulated network (public API only)

type pair struct {
	w      *world
	ag     map[string]*ice.Agent
	conn   map[string]*ice.Conn
	mux    map[string]*simMux
	gen    map[string]int
	closed map[string]*atomic.Bool
}

var pairAddrs = map[string][]string{"A": {"10.0.0.1:5000", "10.0.0.3:5000"}, "B": {"10.0.0.2:5000"}} //nolint:gochecknoglobals

func newPair(t *testing.T, extra map[string][]ice.AgentOption) *pair {
	t.Helper()
	p := &pair{
		w: newWorld(), ag: map[string]*ice.Agent{}, conn: map[string]*ice.Conn{}, mux: map[string]*simMux{},
		gen: map[string]int{"A": 1, "B": 1}, closed: map[string]*atomic.Bool{"A": {}, "B": {}},
	}
	for _, n := range []string{"A", "B"} {
		p.mux[n] = &simMux{w: p.w, addrs: pairAddrs[n]}
		u, pw := credOf(n, 1)
		opts := hostOnly(p.mux[n], u, pw, extra[n]...)
		a, err := ice.NewAgentWithOptions(opts...)
		if err != nil {
			t.Fatal(err)
		}
		p.ag[n] = a
	}

	return p
}

func otherOf(n string) string {
	if n == "A" {
		return "B"
	}

	return "A"
}

// signal hands the local candidates of from to its peer (as the application's signalling channel would).
func (p *pair) signal(from string) {
	locs, err := p.ag[from].GetLocalCandidates()
	if err != nil {
		return
	}
	for _, c := range locs {
		if cc, err := ice.UnmarshalCandidate(c.Marshal()); err == nil {
			_ = p.ag[otherOf(from)].AddRemoteCandidate(cc)
		}
	}
}

func (p *pair) start(t *testing.T) {
	t.Helper()
	var err error
	uB, pB := credOf("B", 1)
	uA, pA := credOf("A", 1)
	if p.conn["A"], err = p.ag["A"].StartDial(uB, pB); err != nil {
		t.Fatal(err)
	}
	if p.conn["B"], err = p.ag["B"].StartAccept(uA, pA); err != nil {
		t.Fatal(err)
	}
}

// run lets virtual time pass in slices of 5 ms, pumping the network.
func (p *pair) run(d time.Duration) {
	for t := time.Duration(0); t < d; t += 5 * time.Millisecond {
		p.w.pump()
		time.Sleep(5 * time.Millisecond)
	}
	p.w.pump()
}

// ---------- C11: callbacks through the public On* setters (slow / re-entrant / closing handlers)

type cbJob struct {
	Runs  int    `json:"runs"`
	Seed  int64  `json:"seed"`
	Out   string `json:"out"`
	Stats string `json:"stats"`
}

type cbStats struct {
	Runs      int            `json:"runs"`
	Events    int            `json:"events"`
	Handlers  map[string]int `json:"handlers"`
	Kinds     map[string]int `json:"kinds"`
	Graceful  int            `json:"graceful"`
	Scenarios map[string]int `json:"scenarios"`
}

type cbLog struct {
	mu  sync.Mutex
	out *ndjson
	st  *cbStats
}

func (l *cbLog) put(e map[string]any) {
	l.mu.Lock()
	l.out.put(e)
	l.st.Events++
	l.mu.Unlock()
}

func TestCallbacks(t *testing.T) {
	var job cbJob
	loadJob(t, &job)
	out := newNdjson(t, job.Out)
	defer out.close()
	st := &cbStats{Handlers: map[string]int{}, Kinds: map[string]int{}, Scenarios: map[string]int{}}
	defer func() { writeJSON(job.Stats, st) }()
	rng := mrand.New(mrand.NewSource(job.Seed)) //nolint:gosec
	kinds := []string{"fast", "slow", "reenter", "fast", "slow"}
	for i := 0; i < job.Runs; i++ {
		st.Runs++
		plan := map[string]string{}
		for _, n := range []string{"A", "B"} {
			for _, s := range []string{"cs", "cand", "pair"} {
				plan[n+s] = kinds[rng.Intn(len(kinds))]
				st.Kinds[plan[n+s]]++
			}
		}
		if rng.Intn(3) == 0 {
			plan["Bcs"] = "close" // B's connection-state handler closes B when it sees Connected
			st.Kinds["close"]++
		}
		slowMs := 20 + rng.Intn(900)
		scenario := []string{"steady", "restart", "blackout"}[rng.Intn(3)]
		st.Scenarios[scenario]++
		graceful := rng.Intn(3) != 0
		if graceful {
			st.Graceful++
		}
		closeAt := time.Duration(200+rng.Intn(5000)) * time.Millisecond
		appCloses := rng.Intn(4) != 0
		secondClose := rng.Intn(2) == 0
		synctest.Test(t, func(t *testing.T) {
			t.Helper()
			lg := &cbLog{out: out, st: st}
			short := []ice.AgentOption{
				ice.WithDisconnectedTimeout(time.Second), ice.WithFailedTimeout(time.Second), ice.WithKeepaliveInterval(200 * time.Millisecond),
			}
			p := newPair(t, map[string][]ice.AgentOption{"A": short, "B": short})
			lg.put(map[string]any{"ev": "Reset", "plan": plan, "scenario": scenario, "graceful": graceful})
			var hwg sync.WaitGroup
			body := func(n, s string, isConnected bool) {
				switch plan[n+s] {
				case "slow":
					time.Sleep(time.Duration(slowMs) * time.Millisecond)
				case "reenter":
					_, _ = p.ag[n].GetLocalCandidates()
					_, _ = p.ag[n].GetSelectedCandidatePair()
					_, _ = p.ag[n].GetRemoteCandidates()
				case "close":
					if isConnected && !p.closed[n].Swap(true) {
						lg.put(map[string]any{"ev": "CloseCall", "ag": n, "graceful": false, "from": "handler"})
						_ = p.ag[n].Close()
						lg.put(map[string]any{"ev": "CloseRet", "ag": n, "graceful": false})
					}
				default:
				}
			}
			wrap := func(n, s, v string, isConnected bool) {
				hwg.Add(1)
				defer hwg.Done()
				lg.put(map[string]any{"ev": "HStart", "ag": n, "st": s, "v": v})
				body(n, s, isConnected)
				lg.put(map[string]any{"ev": "HEnd", "ag": n, "st": s})
			}
			for _, n := range []string{"A", "B"} {
				_ = p.ag[n].OnConnectionStateChange(func(cs ice.ConnectionState) {
					wrap(n, "cs", cs.String(), cs == ice.ConnectionStateConnected)
				})
				_ = p.ag[n].OnCandidate(func(c ice.Candidate) {
					v := "nil"
					if c != nil {
						v = c.ID()
					}
					wrap(n, "cand", v, false)
				})
				_ = p.ag[n].OnSelectedCandidatePairChange(func(l, r ice.Candidate) { wrap(n, "pair", l.ID()+">"+r.ID(), false) })
				_ = p.ag[n].GatherCandidates()
			}
			synctest.Wait()
			p.signal("A")
			p.signal("B")
			p.start(t)
			closer := func() {
				if p.closed["A"].Swap(true) {
					return
				}
				lg.put(map[string]any{"ev": "CloseCall", "ag": "A", "graceful": graceful, "from": "app"})
				if graceful {
					_ = p.ag["A"].GracefulClose()
				} else {
					_ = p.ag["A"].Close()
				}
				lg.put(map[string]any{"ev": "CloseRet", "ag": "A", "graceful": graceful})
				if secondClose { // the other flavour of close afterwards: GracefulClose after Close must still wait for the handlers
					lg.put(map[string]any{"ev": "CloseCall", "ag": "A", "graceful": !graceful, "from": "app"})
					if graceful {
						_ = p.ag["A"].Close()
					} else {
						_ = p.ag["A"].GracefulClose()
					}
					lg.put(map[string]any{"ev": "CloseRet", "ag": "A", "graceful": !graceful})
				}
			}
			var cwg sync.WaitGroup
			cwg.Add(1)
			go func() {
				defer cwg.Done()
				time.Sleep(closeAt)
				if appCloses {
					closer()
				}
				if secondClose && plan["Bcs"] == "close" && p.closed["B"].Load() {
					// B was closed (ungracefully) by its own handler; the application follows up with GracefulClose from outside
					lg.put(map[string]any{"ev": "CloseCall", "ag": "B", "graceful": true, "from": "app"})
					_ = p.ag["B"].GracefulClose()
					lg.put(map[string]any{"ev": "CloseRet", "ag": "B", "graceful": true})
				}
			}()
			p.run(1500 * time.Millisecond)
			switch scenario {
			case "restart":
				for _, n := range []string{"A", "B"} {
					if p.closed[n].Load() {
						continue
					}
					u, pw := credOf(n, 2)
					if p.ag[n].Restart(u, pw) == nil {
						_ = p.ag[n].GatherCandidates()
					}
				}
				p.run(50 * time.Millisecond)
				for _, n := range []string{"A", "B"} {
					u, pw := credOf(n, 2)
					_ = p.ag[otherOf(n)].SetRemoteCredentials(u, pw)
					p.signal(n)
				}
			case "blackout":
				p.w.mu.Lock()
				p.w.drop = true
				p.w.mu.Unlock()
			default:
			}
			p.run(4500 * time.Millisecond)
			cwg.Wait()
			p.run(2 * time.Second) // long enough for the slowest handler chain
			hwg.Wait()
			synctest.Wait()
			actual := map[string]string{}
			open := []string{}
			for _, n := range []string{"A", "B"} {
				if !p.closed[n].Load() {
					s := p.ag[n].VerifSnapshot()
					actual[n] = s.Conn
					open = append(open, n)
				}
			}
			synctest.Wait()
			lg.put(map[string]any{"ev": "End", "actual": actual, "open": open})
			for _, n := range []string{"A", "B"} {
				if !p.closed[n].Swap(true) {
					_ = p.ag[n].Close()
				}
			}
			time.Sleep(3 * time.Second) // the handlers of the final Closed events may be slow
			hwg.Wait()
			synctest.Wait()
			out.flush()
		})
	}
	for k, v := range st.Kinds {
		st.Handlers[k] = v
	}
}

// ---------- C10, second sentence: concurrent public API calls on two connected agents under the race detector

type raceJob struct {
	Seed    int64  `json:"seed"`
	Calls   int    `json:"calls"`   // calls per API goroutine
	Workers int    `json:"workers"` // getter/mutator goroutines per agent
	Renom   int    `json:"renom"`   // RenominateCandidate calls of the dedicated goroutine (0 = none)
	Restart bool   `json:"restart"`
	Stats   string `json:"stats"`
}

type raceStats struct {
	Calls     map[string]int `json:"calls"`
	Total     int            `json:"total"`
	Connected bool           `json:"connected"`
	Done      bool           `json:"done"`
}

func TestApiRace(t *testing.T) {
	var job raceJob
	loadJob(t, &job)
	st := &raceStats{Calls: map[string]int{}}
	var smu sync.Mutex
	count := func(api string) {
		smu.Lock()
		st.Calls[api]++
		st.Total++
		smu.Unlock()
	}
	defer func() { writeJSON(job.Stats, st) }()
	synctest.Test(t, func(t *testing.T) {
		t.Helper()
		var nom atomic.Uint32
		long := []ice.AgentOption{
			ice.WithDisconnectedTimeout(30 * time.Second), ice.WithFailedTimeout(30 * time.Second), ice.WithKeepaliveInterval(100 * time.Millisecond),
		}
		p := newPair(t, map[string][]ice.AgentOption{
			"A": append([]ice.AgentOption{ice.WithRenomination(func() uint32 { return nom.Add(1) })}, long...),
			"B": long,
		})
		for _, n := range []string{"A", "B"} {
			_ = p.ag[n].OnCandidate(func(ice.Candidate) {})
			_ = p.ag[n].OnConnectionStateChange(func(ice.ConnectionState) {})
			_ = p.ag[n].OnSelectedCandidatePairChange(func(_, _ ice.Candidate) {})
			if err := p.ag[n].GatherCandidates(); err != nil {
				t.Fatal(err)
			}
		}
		synctest.Wait()
		p.signal("A")
		p.signal("B")
		p.start(t)
		p.run(2 * time.Second)
		sel, _ := p.ag["A"].GetSelectedCandidatePair()
		st.Connected = sel != nil
		if sel == nil {
			t.Fatal("agents did not connect")
		}
		var stop atomic.Bool
		var wg sync.WaitGroup
		spawn := func(f func()) {
			wg.Add(1)
			go func() {
				defer wg.Done()
				f()
			}()
		}
		var pumpWG sync.WaitGroup
		pumpWG.Add(1)
		go func() { // network + clock
			defer pumpWG.Done()
			for !stop.Load() {
				p.w.pump()
				time.Sleep(time.Millisecond)
			}
		}()
		for _, n := range []string{"A", "B"} { // application readers
			c := p.conn[n]
			go func() {
				buf := make([]byte, 2048)
				for {
					if _, err := c.Read(buf); err != nil {
						return
					}
					count("Conn.Read")
				}
			}()
		}
		if job.Renom > 0 {
			spawn(func() { // regression schedule of F-C10 (repaired by 172292b): RenominateCandidate with no other synchronisation with the loop
				rng := mrand.New(mrand.NewSource(job.Seed + 7)) //nolint:gosec
				for i := 0; i < job.Renom; i++ {
					_ = p.ag["A"].RenominateCandidate(sel.Local, sel.Remote)
					count("RenominateCandidate")
					time.Sleep(time.Duration(1+rng.Intn(40)) * time.Millisecond)
				}
			})
		}
		var port atomic.Int32
		port.Store(7000)
		for _, n := range []string{"A", "B"} {
			for wk := 0; wk < job.Workers; wk++ {
				rng := mrand.New(mrand.NewSource(job.Seed*100 + int64(wk)*2 + int64(n[0]))) //nolint:gosec
				spawn(func() {
					a, c := p.ag[n], p.conn[n]
					for i := 0; i < job.Calls; i++ {
						switch rng.Intn(18) {
						case 0:
							cand, err := ice.NewCandidateServerReflexive(&ice.CandidateServerReflexiveConfig{
								Network: "udp", Address: "10.8.8.8", Port: int(port.Add(1)), Component: 1, RelAddr: "192.168.7.7", RelPort: 7,
							})
							if err == nil {
								_ = a.AddRemoteCandidate(cand)
							}
							count("AddRemoteCandidate")
						case 1:
							_, _ = a.GetLocalCandidates()
							count("GetLocalCandidates")
						case 2:
							_, _ = a.GetRemoteCandidates()
							count("GetRemoteCandidates")
						case 3:
							_ = a.GetCandidatePairsStats()
							count("GetCandidatePairsStats")
						case 4:
							_, _ = a.GetSelectedCandidatePairStats()
							count("GetSelectedCandidatePairStats")
						case 5:
							_ = a.GetLocalCandidatesStats()
							count("GetLocalCandidatesStats")
						case 6:
							_ = a.GetRemoteCandidatesStats()
							count("GetRemoteCandidatesStats")
						case 7:
							_, _ = a.GetSelectedCandidatePair()
							count("GetSelectedCandidatePair")
						case 8:
							_, _, _ = a.GetLocalUserCredentials()
							count("GetLocalUserCredentials")
						case 9:
							_, _, _ = a.GetRemoteUserCredentials()
							count("GetRemoteUserCredentials")
						case 10:
							_, _ = a.GetGatheringState()
							count("GetGatheringState")
						case 11:
							u, pw, err := a.GetRemoteUserCredentials()
							if err == nil && u != "" {
								_ = a.SetRemoteCredentials(u, pw)
							}
							count("SetRemoteCredentials")
						case 12, 13:
							_, _ = c.Write([]byte(fmt.Sprintf("payload-%s-%d", n, i)))
							count("Conn.Write")
						case 14:
							_ = c.BytesSent() + c.BytesReceived()
							_ = c.LocalAddr()
							_ = c.RemoteAddr()
							count("Conn.Bytes/Addr")
						case 15:
							infos := c.GetCandidatePairsInfo()
							if len(infos) > 0 {
								_, _ = c.WriteToPair(infos[0].ID, []byte("to-pair"))
							}
							count("Conn.GetCandidatePairsInfo/WriteToPair")
						case 16:
							_ = a.UpdateOptions(ice.WithKeepaliveInterval(time.Duration(80+rng.Intn(60)) * time.Millisecond))
							count("UpdateOptions")
						default:
							_ = a.OnConnectionStateChange(func(ice.ConnectionState) {})
							count("OnConnectionStateChange")
						}
						time.Sleep(time.Duration(rng.Intn(8)) * time.Millisecond)
					}
				})
			}
		}
		if job.Restart {
			spawn(func() { // a full ICE restart of both sides while the others keep calling
				time.Sleep(300 * time.Millisecond)
				for _, n := range []string{"B", "A"} {
					u, pw := credOf(n, 2)
					_ = p.ag[n].Restart(u, pw)
					count("Restart")
					_ = p.ag[n].GatherCandidates()
					count("GatherCandidates")
					if n == "B" { // a second restart while the cycle just started is still gathering
						_ = p.ag[n].Restart(u, pw)
						count("Restart")
						_ = p.ag[n].GatherCandidates()
						count("GatherCandidates")
					}
				}
				time.Sleep(20 * time.Millisecond)
				for _, n := range []string{"A", "B"} {
					u, pw := credOf(n, 2)
					_ = p.ag[otherOf(n)].SetRemoteCredentials(u, pw)
					count("SetRemoteCredentials")
					p.signal(n)
				}
			})
		}
		wg.Wait()
		time.Sleep(500 * time.Millisecond)
		stop.Store(true)
		pumpWG.Wait()
		_ = p.ag["A"].Close()
		_ = p.ag["B"].GracefulClose()
		count("Close")
		synctest.Wait()
		st.Done = true
	})
	fmt.Fprintf(os.Stderr, "APIRACE-DONE total=%d\n", st.Total)
}
