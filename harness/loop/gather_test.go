package loop

import (
	"fmt"
	"strings"
	"sync"
	"testing"
	"testing/synctest"
	"time"

	"github.com/pion/ice/v4"
)

// ---------- C11, gathering part: Restart at every gate of a gather cycle of a real agent.
// Only the goroutines of the gather cycle are gated (at the task-loop yield points inside
// loop.Run); the loop goroutine, the notifier and the driver run freely.

type gaJob struct {
	Reps  int    `json:"reps"`
	Seed  int64  `json:"seed"`
	Out   string `json:"out"`
	Stats string `json:"stats"`
}

type gaStats struct {
	Runs       int            `json:"runs"`
	Points     int            `json:"points"`
	Events     int            `json:"events"`
	StaleAdded int            `json:"staleAdded"`
	At         map[string]int `json:"restartAt"`
}

type gaRun struct {
	s       *sched
	out     *ndjson
	st      *gaStats
	mu      sync.Mutex
	pending []map[string]any
	nproc   int
}

func (r *gaRun) flush() {
	r.mu.Lock()
	p := r.pending
	r.pending = nil
	r.mu.Unlock()
	for _, e := range p {
		r.out.put(e)
		r.st.Events++
	}
}

func (r *gaRun) log(e map[string]any) {
	r.flush()
	r.out.put(e)
	r.st.Events++
}

// parkedGather: gated goroutines of gather cycles that wait at a gate, lowest number first.
func (r *gaRun) parkedGather(minNo, maxNo int) []string {
	var c []string
	r.s.mu.Lock()
	np := r.nproc // written by the registering goroutines under the scheduler's lock
	r.s.mu.Unlock()
	for i := minNo; i <= maxNo && i <= np; i++ {
		n := fmt.Sprintf("g%d", i)
		if r.s.parked(n) {
			c = append(c, n)
		}
	}

	return c
}

func (r *gaRun) step(minNo, maxNo int) bool {
	c := r.parkedGather(minNo, maxNo)
	if len(c) == 0 {
		return false
	}
	r.s.release(c[0])
	synctest.Wait()

	return true
}

func gatherRun(t *testing.T, out *ndjson, st *gaStats, k int, mode string) (steps int) {
	t.Helper()
	synctest.Test(t, func(t *testing.T) {
		t.Helper()
		r := &gaRun{out: out, st: st}
		s := newSched("run.ctxdone", "run.closed", "run.done")
		r.s = s
		s.auto = func(_ *sched, site string) string {
			if strings.HasPrefix(site, "run.") && stackHas("(*Agent).gatherCandidates") {
				r.nproc++

				return fmt.Sprintf("g%d", r.nproc)
			}

			return ""
		}
		s.noteFn = func() string {
			switch {
			case stackHas("(*Agent).addCandidate"):
				return "addCandidate"
			case stackHas("(*Agent).setGatheringState"):
				return "setGatheringState"
			}

			return "other"
		}
		ice.VerifSetYield(s.yield)
		defer ice.VerifSetYield(nil)
		w := newWorld()
		cyc := func(c int) []string {
			return []string{fmt.Sprintf("10.0.%d.1:5000", c), fmt.Sprintf("10.0.%d.2:5000", c)}
		}
		mux := &simMux{w: w, addrs: cyc(1)}
		u1, p1 := credOf("A", 1)
		u2, p2 := credOf("A", 2)
		a, err := ice.NewAgentWithOptions(hostOnly(mux, u1, p1)...)
		if err != nil {
			t.Fatal(err)
		}
		heldCh := make(chan struct{})
		heldOnce := false
		_ = a.OnCandidate(func(c ice.Candidate) {
			// mode "held": the application is slow with the first candidate of the first cycle - it returns only after the
			// Restart; what was published meanwhile waits in the queue and is delivered afterwards, as it was published
			r.mu.Lock()
			block := mode == "held" && c != nil && !heldOnce
			if block {
				heldOnce = true
			}
			r.mu.Unlock()
			if block {
				<-heldCh
			}
			r.mu.Lock()
			defer r.mu.Unlock()
			if c == nil {
				r.pending = append(r.pending, map[string]any{"ev": "Nil"})

				return
			}
			cy := 0
			_, _ = fmt.Sscanf(c.Address(), "10.0.%d.", &cy)
			uf := 0
			if e, ok := c.GetExtension("ufrag"); ok {
				switch e.Value {
				case u1:
					uf = 1
				case u2:
					uf = 2
				}
			}
			r.pending = append(r.pending, map[string]any{"ev": "Cand", "cyc": cy, "uf": uf, "addr": c.Address()})
		})
		r.log(map[string]any{"ev": "Reset", "k": k, "mode": mode})
		gather := func(c int) bool {
			e := a.GatherCandidates()
			synctest.Wait()
			msg := ""
			if e != nil {
				msg = e.Error()
			}
			r.log(map[string]any{"ev": "Gather", "cyc": c, "ok": e == nil, "err": msg})

			return e == nil
		}
		gather(1)
		for steps < k || k < 0 {
			if !r.step(1, 1<<30) {
				break
			}
			steps++
			r.flush()
		}
		if k >= 0 {
			// where is the old cycle? (site of the parked gather goroutine and the call it is in)
			at := "idle"
			if c := r.parkedGather(1, 1<<30); len(c) > 0 {
				at = s.noteOf(c[0]) + "@" + s.pos(c[0])
			}
			s.mu.Lock()
			old := r.nproc
			s.mu.Unlock()
			gs, _ := a.GetGatheringState()
			synctest.Wait()
			mux.setAddrs(cyc(2))
			rerr := a.Restart(u2, p2)
			synctest.Wait()
			st.At[at]++
			r.log(map[string]any{"ev": "Restart", "completed": gs == ice.GatheringStateComplete, "at": at, "ok": rerr == nil})
			if mode == "held" {
				close(heldCh)
				synctest.Wait()
				r.flush()
			}
			drainOld := func() {
				for i := 0; i < 100 && r.step(1, old); i++ {
					r.flush()
				}
			}
			if mode == "before" {
				drainOld()
			}
			if gather(2) {
				n := 0
				for i := 0; i < 100; i++ {
					if mode == "mid" && n == 4 {
						drainOld()
					}
					if !r.step(old+1, 1<<30) {
						break
					}
					n++
					r.flush()
				}
			}
			drainOld()
			for i := 0; i < 100 && r.step(1, 1<<30); i++ {
				r.flush()
			}
		}
		synctest.Wait()
		gs, _ := a.GetGatheringState()
		locs, _ := a.GetLocalCandidates()
		synctest.Wait()
		stale := 0
		for _, c := range locs {
			cy := 0
			_, _ = fmt.Sscanf(c.Address(), "10.0.%d.", &cy)
			if k >= 0 && cy == 1 {
				stale++
			}
		}
		if stale > 0 {
			st.StaleAdded++
		}
		r.log(map[string]any{"ev": "End", "complete": gs == ice.GatheringStateComplete, "staleLocals": stale, "locals": len(locs)})
		s.freeRun()
		_ = a.Close()
		synctest.Wait()
		out.flush()
	})

	return steps
}

// TestGatherRestart: a probe run counts the gates of one undisturbed cycle; then Restart is issued at each of them.
func TestGatherRestart(t *testing.T) {
	var job gaJob
	loadJob(t, &job)
	out := newNdjson(t, job.Out)
	defer out.close()
	st := &gaStats{At: map[string]int{}}
	defer func() { writeJSON(job.Stats, st) }()
	total := gatherRun(t, out, st, -1, "probe")
	st.Runs++
	st.Points = total + 1
	modes := []string{"before", "after", "mid", "held"}
	for k := 0; k <= total; k++ {
		for _, m := range modes {
			for i := 0; i < job.Reps; i++ {
				gatherRun(t, out, st, k, m)
				st.Runs++
			}
		}
	}
}

// TestGatherRace (built with -race): Restart while a gather cycle is running, without the gates -- the gate
// scheduler orders every step by channel hand-offs, which the race detector counts as synchronisation, so races
// between a gather goroutine and the task loop can only show up free-running. The yield points only delay the
// gather goroutines (virtual time), and the driver issues Restart at every 5 ms of the stretched cycle.
func TestGatherRace(t *testing.T) {
	var job gaJob
	loadJob(t, &job)
	st := &gaStats{At: map[string]int{}}
	defer func() { writeJSON(job.Stats, st) }()
	for rep := 0; rep < job.Reps; rep++ {
		for at := 2; at <= 72; at += 5 {
			st.Runs++
			synctest.Test(t, func(t *testing.T) {
				t.Helper()
				ice.VerifSetYield(func(site string) {
					if site == "run.errcheck" && stackHas("(*Agent).gatherCandidates") {
						time.Sleep(10 * time.Millisecond)
					}
				})
				defer ice.VerifSetYield(nil)
				w := newWorld()
				mux := &simMux{w: w, addrs: []string{"10.0.1.1:5000", "10.0.1.2:5000", "10.0.1.3:5000"}}
				u1, p1 := credOf("A", 1)
				u2, p2 := credOf("A", 2)
				a, err := ice.NewAgentWithOptions(hostOnly(mux, u1, p1)...)
				if err != nil {
					t.Fatal(err)
				}
				_ = a.OnCandidate(func(ice.Candidate) {})
				if err := a.GatherCandidates(); err != nil {
					t.Fatal(err)
				}
				time.Sleep(time.Duration(at) * time.Millisecond)
				_ = a.Restart(u2, p2)
				_ = a.GatherCandidates()
				time.Sleep(time.Second)
				_ = a.Close()
				synctest.Wait()
			})
		}
	}
	st.Points = 15
}
