// Package loop holds the drivers of the `loop` check family (C10, C11): the real
// internal/taskloop and handlerNotifier of pion/ice are driven through the yield
// points (hook H2) by a gate scheduler that replays TLC-generated behaviours, and
// real agents are driven through the public API (race detector, callbacks, gather
// cycles). Every driver reads its job from $VERIF_JOB and writes ndjson that TLC
// validates (trace specs) and judges (monitor specs) -- see /verif/lib/plan_loop.py.
package loop

import (
	"bufio"
	"bytes"
	"encoding/json"
	"os"
	"runtime"
	"strconv"
	"strings"
	"sync"
	"testing"
	"testing/synctest"
)

func goid() int64 {
	var buf [64]byte
	b := buf[:runtime.Stack(buf[:], false)]
	b = bytes.TrimPrefix(b, []byte("goroutine "))
	if i := bytes.IndexByte(b, ' '); i >= 0 {
		b = b[:i]
	}
	n, _ := strconv.ParseInt(string(b), 10, 64)

	return n
}

func stackHas(sub string) bool {
	buf := make([]byte, 8192)
	buf = buf[:runtime.Stack(buf, false)]

	return bytes.Contains(buf, []byte(sub))
}

// proc is one goroutine under the control of the gate scheduler.
type proc struct {
	name   string
	gate   chan struct{}
	at     string // site where it is parked ("" = running or blocked inside the code)
	last   string // site it was last released from
	marker string // last non-parking marker site it passed
	note   string // what noteFn said when it parked
	done   bool
}

// sched is the gate scheduler of DESIGN 3.5: a goroutine registered under a process
// name parks at every yield point until it is granted one step; goroutines that are
// not registered pass through untouched.
type sched struct {
	mu      sync.Mutex
	free    bool
	procs   map[int64]*proc
	byName  map[string]*proc
	markers map[string]bool
	// auto names an unregistered goroutine that arrives at site ("" = leave it alone).
	auto func(s *sched, site string) string
	// noteFn, if set, is evaluated on the parking goroutine (e.g. which API call it is in).
	noteFn func() string
}

func newSched(markers ...string) *sched {
	s := &sched{procs: map[int64]*proc{}, byName: map[string]*proc{}, markers: map[string]bool{}}
	for _, m := range markers {
		s.markers[m] = true
	}

	return s
}

func (s *sched) yield(site string) {
	id := goid()
	s.mu.Lock()
	p := s.procs[id]
	if p == nil && s.auto != nil && !s.free {
		if name := s.auto(s, site); name != "" {
			p = &proc{name: name, gate: make(chan struct{})}
			s.procs[id] = p
			s.byName[name] = p
		}
	}
	if p == nil || s.free {
		s.mu.Unlock()

		return
	}
	if s.markers[site] {
		p.marker = site
		s.mu.Unlock()

		return
	}
	if s.noteFn != nil {
		p.note = s.noteFn()
	}
	p.at = site
	s.mu.Unlock()
	<-p.gate // bubble channel: durably blocked
	s.mu.Lock()
	p.at = ""
	p.last = site
	s.mu.Unlock()
}

// spawn starts f as process name and runs it up to its first yield point.
func (s *sched) spawn(name string, f func()) {
	p := &proc{name: name, gate: make(chan struct{})}
	s.mu.Lock()
	s.byName[name] = p
	s.mu.Unlock()
	go func() {
		s.mu.Lock()
		s.procs[goid()] = p
		s.mu.Unlock()
		s.yield("start")
		f()
		s.mu.Lock()
		p.done = true
		s.mu.Unlock()
	}()
	synctest.Wait()
	s.release(name)
	synctest.Wait()
}

// pos: "done", the site where the process is parked, or "in:<site>" when it runs /
// is blocked inside the code that follows <site>; "" if there is no such process.
func (s *sched) pos(name string) string {
	s.mu.Lock()
	defer s.mu.Unlock()
	p := s.byName[name]
	switch {
	case p == nil:
		return ""
	case p.done:
		return "done"
	case p.at != "":
		return p.at
	default:
		return "in:" + p.last
	}
}

func (s *sched) noteOf(name string) string {
	s.mu.Lock()
	defer s.mu.Unlock()
	if p := s.byName[name]; p != nil {
		return p.note
	}

	return ""
}

func (s *sched) parked(name string) bool {
	s.mu.Lock()
	defer s.mu.Unlock()
	p := s.byName[name]

	return p != nil && !p.done && p.at != ""
}

func (s *sched) release(name string) bool {
	s.mu.Lock()
	p := s.byName[name]
	ok := p != nil && !p.done && p.at != ""
	s.mu.Unlock()
	if !ok {
		return false
	}
	p.gate <- struct{}{}

	return true
}

// forget drops a finished auto-registered process so that its name can be reused.
func (s *sched) forget(name string) {
	s.mu.Lock()
	defer s.mu.Unlock()
	if p := s.byName[name]; p != nil {
		for id, q := range s.procs {
			if q == p {
				delete(s.procs, id)
			}
		}
		delete(s.byName, name)
	}
}

func (s *sched) names() []string {
	s.mu.Lock()
	defer s.mu.Unlock()
	r := []string{}
	for n := range s.byName {
		r = append(r, n)
	}

	return r
}

// freeRun switches all gates off and releases everybody (end of a bubble only: a
// spinning goroutine would never be durably blocked, so verdict-relevant draining is
// always gated and bounded -- DESIGN 3.5 (vi)).
func (s *sched) freeRun() {
	s.mu.Lock()
	s.free = true
	s.mu.Unlock()
	for _, n := range s.names() {
		s.release(n)
	}
}

// ---------- small helpers shared by the drivers

func splitLabel(lab string) (name, arg string) {
	name = lab
	if i := strings.IndexByte(lab, '('); i >= 0 {
		name, arg = lab[:i], strings.Trim(lab[i+1:len(lab)-1], "\" ")
	}

	return name, arg
}

func loadJob(t *testing.T, v any) {
	t.Helper()
	p := os.Getenv("VERIF_JOB")
	if p == "" {
		t.Skip("VERIF_JOB not set")
	}
	b, err := os.ReadFile(p) //nolint:gosec
	if err != nil {
		t.Fatal(err)
	}
	if err := json.Unmarshal(b, v); err != nil {
		t.Fatal(err)
	}
}

type ndjson struct {
	f   *os.File
	w   *bufio.Writer
	enc *json.Encoder
	n   int
	mu  sync.Mutex
}

func newNdjson(t *testing.T, path string) *ndjson {
	t.Helper()
	f, err := os.Create(path) //nolint:gosec
	if err != nil {
		t.Fatal(err)
	}
	w := bufio.NewWriterSize(f, 1<<20)

	return &ndjson{f: f, w: w, enc: json.NewEncoder(w)}
}

func (o *ndjson) put(v any) {
	o.mu.Lock()
	_ = o.enc.Encode(v)
	o.n++
	o.mu.Unlock()
}

func (o *ndjson) flush() {
	o.mu.Lock()
	_ = o.w.Flush()
	o.mu.Unlock()
}

func (o *ndjson) close() {
	o.flush()
	_ = o.f.Close()
}

func writeJSON(path string, v any) {
	b, _ := json.Marshal(v)
	_ = os.WriteFile(path, b, 0o600)
}

func readLines(t *testing.T, path string, each func([]byte)) {
	t.Helper()
	f, err := os.Open(path) //nolint:gosec
	if err != nil {
		t.Fatal(err)
	}
	defer f.Close() //nolint:errcheck
	sc := bufio.NewScanner(f)
	sc.Buffer(make([]byte, 1<<20), 1<<26)
	for sc.Scan() {
		each(sc.Bytes())
	}
}
