package loop

import (
	"encoding/json"
	"maps"
	mrand "math/rand"
	"os"
	"slices"
	"strconv"
	"strings"
	"sync"
	"testing"
	"testing/synctest"

	"github.com/pion/ice/v4"
)

// ---------- C11: the real handlerNotifier (one stream per job) behind the gates.

type hnJob struct {
	Stream  string `json:"stream"` // "cs" | "cand" | "pair"
	Alias   bool   `json:"alias"`  // events 1 and 3 carry the same value (the same state / candidate / pair object): equal values are still two events
	NEvents int    `json:"nevents"`
	Paths   string `json:"paths"` // lines {"kind":[...],"graceful":b,"path":[labels]}
	Walks   int    `json:"walks"`
	WalkLen int    `json:"walkLen"`
	Seed    int64  `json:"seed"`
	Out     string `json:"out"`
	Stats   string `json:"stats"`
}

type hnPath struct {
	Kind     []string `json:"kind"`
	Graceful bool     `json:"graceful"`
	Path     []string `json:"path"`
}

var hnSlots = []string{"d1", "d2", "d3"} //nolint:gochecknoglobals

type hnObs struct {
	dpc       map[string]string
	dev       map[string]int
	next      int
	cpc       string
	qlen      int
	running   bool
	closed    bool
	delivered []int
	enq       []int
	inh       int
	maxInh    int
	overlap   bool
	lateStart bool
	extra     int // drainer goroutines beyond the model's slots (only a broken notifier has them)
}

func (o *hnObs) export() map[string]any {
	return map[string]any{
		"dpc": maps.Clone(o.dpc), "dev": maps.Clone(o.dev), "next": o.next, "cpc": o.cpc, "qlen": o.qlen, "running": o.running,
		"closed": o.closed, "delivered": append([]int{}, o.delivered...), "enq": append([]int{}, o.enq...), "inh": o.inh, "maxInh": o.maxInh,
		"overlap": o.overlap, "lateStart": o.lateStart,
	}
}

func (o *hnObs) same(p *hnObs) bool {
	return maps.Equal(o.dpc, p.dpc) && o.next == p.next && o.cpc == p.cpc && o.qlen == p.qlen && o.running == p.running &&
		o.closed == p.closed && slices.Equal(o.delivered, p.delivered) && slices.Equal(o.enq, p.enq) && o.inh == p.inh &&
		o.maxInh == p.maxInh && o.lateStart == p.lateStart && o.overlap == p.overlap
}

type hnRun struct {
	job      *hnJob
	s        *sched
	out      *ndjson
	st       *tlStats
	n        *ice.VerifNotifier
	kind     []string
	graceful bool
	prev     hnObs
	am       sync.Mutex
	seen1    int // alias mode: deliveries of the shared value so far
	// handler-side bookkeeping
	hm        sync.Mutex
	delivered []int
	devOf     map[string]int
	inh       int
	maxInh    int
	overlap   bool
	lateStart bool
	gracRet   bool
	produced  int
	enq       []int
	rel       map[int]chan struct{}
	released  map[int]bool
	cands     []ice.Candidate
	pairs     []*ice.CandidatePair
}

func (r *hnRun) site(x string) string { return "hn." + r.job.Stream + "." + x }

func (r *hnRun) kindOf(e int) string {
	if e >= 1 && e <= len(r.kind) {
		return r.kind[e-1]
	}

	return "fast"
}

// valOf is the value event e carries. Normally every event has a value of its own; in alias mode events 1 and 3 share one
// (A, B, A): the notifier is told about events, not about values, so the second A is an event like any other.
func (r *hnRun) valOf(e int) int {
	if r.job.Alias && e == 3 {
		return 1
	}

	return e
}

// eventOf maps a delivered value back to the event: the k-th delivery of a shared value is the k-th event that carries it
// (the producer enqueues them in that order).
func (r *hnRun) eventOf(val int) int {
	if !r.job.Alias || val != 1 {
		return val
	}
	r.am.Lock()
	defer r.am.Unlock()
	r.seen1++
	if r.seen1 == 1 {
		return 1
	}

	return 3
}

// csOf / csBack: in alias mode the connection-state stream carries real states - Connected, Disconnected, Connected (and
// Failed for the re-entrant extra event): a flap the application must hear about in full, however slow its handler is.
var csAlias = map[int]ice.ConnectionState{1: ice.ConnectionStateConnected, 2: ice.ConnectionStateDisconnected, 4: ice.ConnectionStateFailed}

func (r *hnRun) csOf(val int) ice.ConnectionState {
	if r.job.Alias {
		if s, ok := csAlias[val]; ok {
			return s
		}
	}

	return ice.ConnectionState(val)
}

func (r *hnRun) csBack(s ice.ConnectionState) int {
	if r.job.Alias {
		for v, x := range csAlias {
			if x == s {
				return v
			}
		}
	}

	return int(s)
}

func (r *hnRun) enqueue(e int) {
	switch r.job.Stream {
	case "cs":
		r.n.EnqueueConnectionState(r.csOf(r.valOf(e)))
	case "cand":
		r.n.EnqueueCandidate(r.cands[r.valOf(e)])
	default:
		r.n.EnqueueSelectedCandidatePair(r.pairs[r.valOf(e)])
	}
}

// handler is the application callback: an interval hStart ... hEnd with a body chosen by the event's kind.
func (r *hnRun) handler(e int) {
	me := ""
	r.s.mu.Lock()
	if p := r.s.procs[goid()]; p != nil {
		me = p.name
	}
	r.s.mu.Unlock()
	r.hm.Lock()
	r.delivered = append(r.delivered, e)
	r.devOf[me] = e
	r.inh++
	if r.inh > r.maxInh {
		r.maxInh = r.inh
	}
	if r.inh > 1 {
		r.overlap = true
	}
	if r.gracRet {
		r.lateStart = true
	}
	r.hm.Unlock()
	switch r.kindOf(e) {
	case "block":
		r.s.yield("h.block")
		<-r.rel[e]
	case "reenter":
		r.enqueue(r.job.NEvents + 1)
	case "close":
		r.n.Close(false)
	default:
		r.s.yield("h.fast")
	}
	r.hm.Lock()
	r.inh--
	r.hm.Unlock()
}

func (r *hnRun) dpcOf(d string) string {
	switch r.s.pos(d) {
	case "":
		return "idle"
	case r.site("lock"), "in:" + r.site("lock"):
		return "lock"
	case r.site("call"), "in:" + r.site("call"):
		return "call"
	case "h.fast", "h.block", "in:h.block", "in:h.fast", r.site("enq"), "hn.close", "in:" + r.site("enq"), "in:hn.close":
		return "h"
	case r.site("exit"):
		return "exit"
	case "in:" + r.site("exit"):
		r.s.forget(d) // the goroutine is gone; the slot is free again

		return "idle"
	}

	return "?" + r.s.pos(d)
}

func (r *hnRun) obs() hnObs {
	o := hnObs{dpc: map[string]string{}, dev: map[string]int{}}
	for _, d := range hnSlots {
		o.dpc[d] = r.dpcOf(d)
	}
	for _, n := range r.s.names() {
		if len(n) == 2 && n[0] == 'd' && !slices.Contains(hnSlots, n) {
			if r.s.pos(n) == "in:"+r.site("exit") {
				r.s.forget(n)
			} else {
				o.extra++
			}
		}
	}
	st := r.n.State(r.job.Stream)
	o.qlen, o.running, o.closed = st.QLen, st.Running, st.Closed
	r.hm.Lock()
	defer r.hm.Unlock()
	for _, d := range hnSlots {
		o.dev[d] = 0
		if o.dpc[d] == "h" {
			o.dev[d] = r.devOf[d]
		}
	}
	o.next = r.produced + 1
	switch r.s.pos("c") {
	case "done":
		o.cpc = "ret"
	case "hn.close.wait", "in:hn.close.wait":
		o.cpc = "wait"
	default:
		o.cpc = "start"
	}
	o.delivered, o.enq = slices.Clone(r.delivered), slices.Clone(r.enq)
	o.inh, o.maxInh, o.overlap, o.lateStart = r.inh, r.maxInh, r.overlap, r.lateStart

	return o
}

func (r *hnRun) emit(ev string, p any, e int, o *hnObs) {
	rec := map[string]any{"ev": ev, "post": o.export()}
	if p != nil {
		rec["p"] = p
	}
	if e > 0 {
		rec["e"] = e
	}
	r.out.put(rec)
	r.st.Events++
	if ev == "Unknown" {
		r.st.Unknown++
	}
}

var hnMoves = map[[2]string]string{ //nolint:gochecknoglobals
	{"lock", "call"}: "DLockPop", {"lock", "exit"}: "DLockEmpty", {"exit", "idle"}: "DExit", {"call", "h"}: "HStart",
}

var hnEnd = map[string]string{"fast": "HFast", "block": "HBlock", "reenter": "HReenter", "close": "HClose"} //nolint:gochecknoglobals

// observe derives the model steps that happened from the positions of the processes (see tlRun.observe).
// closedBefore: was the notifier closed before the step (decides whether an Enqueue was accepted).
func (r *hnRun) observe(closedBefore bool, main ...string) []string {
	// accepted enqueues are part of the observation: find them before taking it
	probe := r.obs()
	prev := &r.prev
	enqueuers := []int{}
	if probe.next > prev.next {
		for e := prev.next; e < probe.next; e++ {
			enqueuers = append(enqueuers, e)
		}
	}
	reenter := map[string]bool{}
	for _, d := range hnSlots {
		if prev.dpc[d] == "h" && probe.dpc[d] != "h" && r.kindOf(prev.dev[d]) == "reenter" {
			reenter[d] = true
		}
	}
	order := append([]string{}, main...)
	for _, n := range append(append([]string{"p"}, hnSlots...), "c") {
		if !slices.Contains(order, n) {
			order = append(order, n)
		}
	}
	if !closedBefore {
		for _, n := range order {
			if n == "p" {
				r.enq = append(r.enq, enqueuers...)
			} else if reenter[n] {
				r.enq = append(r.enq, r.job.NEvents+1)
			}
		}
	}
	cur := r.obs()
	work := *prev
	work.dpc, work.dev = maps.Clone(prev.dpc), maps.Clone(prev.dev)
	var labels []string
	handlerSide := func() {
		work.delivered, work.inh, work.maxInh, work.overlap, work.lateStart = cur.delivered, cur.inh, cur.maxInh, cur.overlap, cur.lateStart
	}
	shared := func() { work.qlen, work.running, work.closed = cur.qlen, cur.running, cur.closed }
	spawned := func() { // a drainer started by an accepted Enqueue: idle -> lock belongs to the enqueuer's step
		for _, d := range hnSlots {
			if work.dpc[d] == "idle" && cur.dpc[d] == "lock" {
				work.dpc[d] = "lock"
			}
		}
	}
	for _, n := range order {
		switch {
		case n == "p":
			for _, e := range enqueuers {
				work.next = e + 1
				if !closedBefore {
					work.enq = append(slices.Clone(work.enq), e)
				}
				shared()
				spawned()
				r.emit("Produce", nil, e, &work)
				labels = append(labels, "Produce")
			}
		case n == "c":
			if work.cpc == cur.cpc {
				continue
			}
			ev := "Unknown"
			switch {
			case work.cpc == "start" && (cur.cpc == "wait" || cur.cpc == "ret"):
				ev = "CClose"
				if cur.cpc == "ret" && r.graceful {
					ev = "Unknown"
				}
			case work.cpc == "wait" && cur.cpc == "ret":
				ev = "CWait"
			}
			work.cpc = cur.cpc
			shared()
			r.emit(ev, nil, 0, &work)
			labels = append(labels, ev)
		default:
			a, b := work.dpc[n], cur.dpc[n]
			if a == b && !(a == "h" && reenter[n]) {
				continue
			}
			ev, ok := hnMoves[[2]string{a, b}]
			e := 0
			switch {
			case ok:
			case a == "h" && b == "lock":
				ev = hnEnd[r.kindOf(prev.dev[n])]
				if ev == "HReenter" {
					e = r.job.NEvents + 1
					if !closedBefore {
						work.enq = append(slices.Clone(work.enq), e)
					}
				}
			default:
				ev = "Unknown"
			}
			work.dpc[n] = b
			work.dev[n] = cur.dev[n]
			shared()
			handlerSide()
			if ev == "HReenter" {
				spawned()
			}
			r.emit(ev, n, e, &work)
			labels = append(labels, ev+"("+n+")")
		}
	}
	work.extra = cur.extra
	if !work.same(&cur) || cur.extra > 0 {
		if !work.same(&cur) {
			r.emit("Unknown", nil, 0, &cur)
			labels = append(labels, "Unknown")
		}
	}
	r.prev = cur
	for _, lab := range labels {
		_, p := splitLabel(lab)
		if p == "" {
			p = map[string]string{"Produce": "p", "CClose": "c", "CWait": "c"}[lab]
		}
		if !slices.Contains(main, p) {
			r.st.Spontaneous++
			if os.Getenv("VERIF_DEBUG") != "" {
				println("spontaneous", lab, "main", strings.Join(main, ","))
			}
		}
	}

	return labels
}

func (r *hnRun) liveDrainers() int {
	k := 0
	for _, n := range r.s.names() {
		if len(n) == 2 && n[0] == 'd' {
			k++
		}
	}

	return k
}

func (r *hnRun) enabled(name, arg string) (string, bool) {
	switch name {
	case "Produce":
		return "p", r.s.pos("p") == r.site("enq")
	case "DLockPop", "DLockEmpty":
		return arg, r.s.pos(arg) == r.site("lock")
	case "DExit":
		return arg, r.s.pos(arg) == r.site("exit")
	case "HStart":
		return arg, r.s.pos(arg) == r.site("call")
	case "HFast":
		return arg, r.s.pos(arg) == "h.fast"
	case "HBlock":
		return arg, r.s.pos(arg) == "h.block" && r.released[r.prev.dev[arg]]
	case "HReenter":
		return arg, r.s.pos(arg) == r.site("enq")
	case "HClose":
		return arg, r.s.pos(arg) == "hn.close"
	case "CClose":
		return "c", r.s.pos("c") == "hn.close"
	case "CWait":
		return "c", r.s.pos("c") == "hn.close.wait" && r.liveDrainers() == 0
	}

	return "", false
}

func (r *hnRun) release(e int) {
	if r.released[e] || r.rel[e] == nil {
		return
	}
	r.released[e] = true
	close(r.rel[e])
	synctest.Wait()
	r.emit("Release", e, 0, &r.prev)
	r.observe(r.prev.closed)
}

func (r *hnRun) planned(lab string) {
	name, arg := splitLabel(lab)
	r.st.Steps++
	if name == "Release" {
		e, _ := strconv.Atoi(arg)
		if r.released[e] || r.kindOf(e) != "block" {
			r.st.Skipped++

			return
		}
		r.release(e)

		return
	}
	who, ok := r.enabled(name, arg)
	if !ok {
		r.st.Skipped++

		return
	}
	closedBefore := r.prev.closed
	r.s.release(who)
	synctest.Wait()
	got := r.observe(closedBefore, who)
	switch {
	case len(got) == 0:
		r.st.Skipped++
	case got[0] != name && got[0] != name+"("+arg+")":
		r.st.Adapted++
	}
}

// waiting: events whose blocking handler has started and has not been released yet.
func (r *hnRun) waiting() []int {
	var w []int
	for _, d := range hnSlots {
		if pos := r.s.pos(d); pos == "h.block" || pos == "in:h.block" {
			if e := r.prev.dev[d]; !r.released[e] {
				w = append(w, e)
			}
		}
	}

	return w
}

func (r *hnRun) candidates() []string {
	var c []string
	names := r.s.names()
	slices.Sort(names)
	for _, n := range names {
		if r.s.parked(n) {
			c = append(c, n)
		}
	}

	return c
}

func (r *hnRun) drain() {
	for k := 0; k < 200; k++ {
		c := r.candidates()
		if len(c) == 0 {
			// handlers blocked on their release channel: the environment lets them go
			blocked := false
			for _, e := range r.waiting() {
				r.release(e)
				blocked = true
			}
			if !blocked {
				break
			}

			continue
		}
		// a handler parked before its release channel is released first so that it does not block
		if pos := r.s.pos(c[0]); pos == "h.block" {
			r.release(r.prev.dev[c[0]])
		}
		closedBefore := r.prev.closed
		r.s.release(c[0])
		synctest.Wait()
		r.observe(closedBefore, c[0])
	}
	cur := r.obs()
	stuck := []string{}
	for _, n := range []string{"p", "c"} {
		if r.s.pos(n) != "done" {
			stuck = append(stuck, n)
		}
	}
	for _, n := range r.s.names() {
		if len(n) == 2 && n[0] == 'd' {
			stuck = append(stuck, n)
		}
	}
	if len(stuck) > 0 {
		r.st.Stuck++
	}
	r.out.put(map[string]any{"ev": "Drain", "stuck": stuck, "post": cur.export()})
	r.st.Events++
	r.out.flush()
}

func runNotifierGated(t *testing.T, job *hnJob, out *ndjson, st *tlStats, hp *hnPath, rng *mrand.Rand) {
	t.Helper()
	synctest.Test(t, func(t *testing.T) {
		t.Helper()
		s := newSched()
		lockSite := "hn." + job.Stream + ".lock"
		s.auto = func(s *sched, site string) string {
			if site != lockSite {
				return ""
			}
			for _, d := range []string{"d1", "d2", "d3", "d4", "d5", "d6", "d7", "d8"} {
				if s.byName[d] == nil {
					return d
				}
			}

			return ""
		}
		ice.VerifSetYield(s.yield)
		defer ice.VerifSetYield(nil)
		r := &hnRun{
			job: job, s: s, out: out, st: st, kind: hp.Kind, graceful: hp.Graceful, devOf: map[string]int{},
			rel: map[int]chan struct{}{}, released: map[int]bool{},
		}
		for e := 0; e <= job.NEvents+1; e++ {
			r.rel[e] = make(chan struct{})
			c, err := ice.NewCandidateHost(&ice.CandidateHostConfig{Network: "udp", Address: "10.0.0.1", Port: 5000 + e, Component: 1})
			if err != nil {
				t.Fatal(err)
			}
			r.cands = append(r.cands, c)
			r.pairs = append(r.pairs, &ice.CandidatePair{})
		}
		if job.Alias {
			// the candidate stream then reads A, nil, A: the end-of-candidates marker of one gather cycle between two candidates
			// (what a Restart with a slow handler produces); nil is an event of the stream like any other
			r.cands[2] = nil
		}
		r.n = ice.VerifNewNotifier(
			func(cs ice.ConnectionState) { r.handler(r.eventOf(r.csBack(cs))) },
			func(c ice.Candidate) { r.handler(r.eventOf(slices.Index(r.cands, c))) },
			func(p *ice.CandidatePair) { r.handler(r.eventOf(slices.Index(r.pairs, p))) },
		)
		s.spawn("p", func() {
			for e := 1; e <= job.NEvents; e++ {
				r.enqueue(e)
				r.hm.Lock()
				r.produced++
				r.hm.Unlock()
			}
		})
		s.spawn("c", func() {
			r.n.Close(hp.Graceful)
			if hp.Graceful {
				r.hm.Lock()
				r.gracRet = true
				r.hm.Unlock()
			}
		})
		r.prev = r.obs()
		out.put(map[string]any{"ev": "Reset", "kind": hp.Kind, "graceful": hp.Graceful, "stream": job.Stream, "post": r.prev.export()})
		st.Events++
		if rng == nil {
			for _, lab := range hp.Path {
				r.planned(lab)
			}
		} else {
			for k := 0; k < job.WalkLen; k++ {
				st.Steps++
				c := r.candidates()
				rl := r.waiting()
				if len(c) == 0 && len(rl) == 0 {
					break
				}
				if len(rl) > 0 && (len(c) == 0 || rng.Intn(6) == 0) {
					r.release(rl[rng.Intn(len(rl))])

					continue
				}
				n := c[rng.Intn(len(c))]
				closedBefore := r.prev.closed
				s.release(n)
				synctest.Wait()
				if len(r.observe(closedBefore, n)) == 0 {
					st.Skipped++
				}
			}
		}
		r.drain()
		s.freeRun()
		for e, ch := range r.rel {
			if !r.released[e] {
				close(ch)
			}
		}
		synctest.Wait()
	})
}

// TestNotifier replays TLC's edge cover of Notifier (and seeded unguided walks) on one stream of the real handlerNotifier.
func TestNotifier(t *testing.T) {
	var job hnJob
	loadJob(t, &job)
	out := newNdjson(t, job.Out)
	defer out.close()
	st := &tlStats{}
	defer func() { writeJSON(job.Stats, st) }()
	if job.Paths != "" {
		readLines(t, job.Paths, func(b []byte) {
			var hp hnPath
			if err := json.Unmarshal(b, &hp); err != nil {
				t.Fatal(err)
			}
			st.Paths++
			runNotifierGated(t, &job, out, st, &hp, nil)
		})
	}
	rng := mrand.New(mrand.NewSource(job.Seed)) //nolint:gosec
	kinds := []string{"fast", "block", "reenter", "close"}
	for i := 0; i < job.Walks; i++ {
		st.Walks++
		hp := hnPath{Graceful: rng.Intn(2) == 0}
		for e := 0; e < job.NEvents; e++ {
			hp.Kind = append(hp.Kind, kinds[rng.Intn(len(kinds))])
		}
		runNotifierGated(t, &job, out, st, &hp, rng)
	}
}
