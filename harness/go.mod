module verif/harness

go 1.26.8

require (
	github.com/pion/ice/v4 v4.0.0
	github.com/pion/logging v0.2.4
	github.com/pion/stun/v3 v3.1.7
	github.com/pion/transport/v4 v4.1.0
	github.com/pion/turn/v5 v5.0.13
)

require (
	github.com/google/uuid v1.6.0 // indirect
	github.com/pion/dtls/v3 v3.1.5 // indirect
	github.com/pion/mdns/v2 v2.1.0 // indirect
	github.com/pion/randutil v0.1.0 // indirect
	github.com/wlynxg/anet v0.0.5 // indirect
	golang.org/x/crypto v0.48.0 // indirect
	golang.org/x/net v0.49.0 // indirect
	golang.org/x/sys v0.41.0 // indirect
	golang.org/x/time v0.14.0 // indirect
)

replace github.com/pion/ice/v4 => /repo
