"""Checks of the session family (C01-C07, C20): IceSession model checking + real-agent traces judged by IceSessionMon."""
import json
import os
import sys

import sessiongen as g
import vlib as v

CONFIGS = os.path.join(v.SPECS, "session", "configs.json")


def features_of(pred, lines, idx, cfgname):
    """Shape of the offending step (used to match known findings and shown with a violation)."""
    e = lines[idx]
    pre = lines[idx - 1]["post"] if idx > 0 else e["post"]
    f = {"predicate": pred, "ev": e.get("ev"), "cfg": cfgname}
    if "m" in e:
        f["kind"] = e["m"].get("kind")
        f["from"] = e["m"].get("from")
        f["nom"] = 1 if e["m"].get("nom") else 0
    if e.get("ev") == "Deliver":
        # priority of the pair the datagram arrived on, relative to the receiver's selected pair
        try:
            nat = {vv: k for k, vv in (g.load(cfgname, CONFIGS).get("nat") or {}).items()}
            rcv = "A" if nat.get(e["m"]["dst"], e["m"]["dst"]).startswith("a") else "B"
            po = e["post"][rcv]
            tgt = [p for p in po["pairs"] if p["l"] == nat.get(e["m"]["dst"], e["m"]["dst"]) and p["r"] == e["m"]["src"]]
            cur = [p for p in pre[rcv]["pairs"] if p["id"] == pre[rcv]["sel"]]
            if tgt and cur:
                f["pair_vs_sel"] = "same" if tgt[0]["id"] == cur[0]["id"] else ("lower" if tgt[0]["pr"] < cur[0]["pr"] else "higher_or_equal")
        except (KeyError, TypeError, IndexError):
            pass
    for a in "AB":
        try:
            if pre[a]["conn"] != e["post"][a]["conn"]:
                f["conn_" + a] = "%s>%s" % (pre[a]["conn"], e["post"][a]["conn"])
                f["transition"] = f["conn_" + a]
        except (KeyError, TypeError):
            pass
    return f


def split_traces(lines):
    """Indices of the Reset lines."""
    return [i for i, e in enumerate(lines) if e.get("ev") == "Reset"]


def schedule_of(lines, start, end):
    """The actions of lines[start+1..end] in the form the driver replays."""
    sched = []
    for e in lines[start + 1:end + 1]:
        if e.get("ev") in ("Skipped", "DrainEnd", "Reset"):
            continue
        a = {k: e[k] for k in ("ev", "ag", "m", "k", "d", "c", "len", "stun") if k in e}
        if a["ev"] == "Vanish":
            a["ev"] = "Deliver"
        sched.append(a)
    return sched


def run_batch(work, binary, verdict, run, seed, tag, stats):
    """One driver batch: record traces, validate against the specification, judge with the monitor."""
    name = run["cfg"]
    cfg = g.load(name, CONFIGS)
    trace = work.path("%s-%s.ndjson" % (tag, name))
    scheds = []
    for i, sn in enumerate(run.get("scheds", [])):
        if os.path.isabs(sn):
            scheds.append(sn)
            continue
        lib = json.load(open(os.path.join(v.SPECS, "session", "scheds", sn + ".json")))
        assert lib["cfg"] == name, (sn, name)
        sp = work.path("%s-sched%d.json" % (tag, i))
        json.dump(lib["schedule"], open(sp, "w"))
        scheds.append(sp)
    job = {"configs": CONFIGS, "cfg": name, "seed": seed, "traces": run.get("traces", 0), "scheds": scheds,
           "out": trace, "drain": run.get("drain", False), "notime": run.get("notime", False),
           "stats": work.path("%s-%s.stats.json" % (tag, name)), "zerowait": run.get("zerowait", False), "tb": run.get("tb", []),
           "noprefix": run.get("noprefix", False)}
    jp = work.path("%s-%s.job.json" % (tag, name))
    json.dump(job, open(jp, "w"))
    rc, out, wall = v.run_harness(binary, "TestSession", jp, timeout=run.get("timeout", 300))
    if rc != 0:
        sys.stderr.write(out[-3000:])
        raise v.Inconclusive("session driver failed for %s (rc %d)" % (name, rc))
    st = json.load(open(job["stats"]))
    lines = v.read_ndjson(trace)
    stats["real_traces"] += st["traces"]
    stats["real_steps"] += st["events"]
    stats["skipped_actions"] += st["skipped"]
    for k, n in st["by_event"].items():
        stats["by_event"][k] = stats["by_event"].get(k, 0) + n
    stats["both_connected_at_end"] += st.get("both_connected_at_end", 0)
    if cfg.get("acc_zero_for_trace") or job["zerowait"]:
        cfg["tr"]["acc"] = {"host": 0, "srflx": 0, "prflx": 0, "relay": 0}
    # conformance (evidence, not verdict)
    tr = g.gen_tr(work.dir, name, cfg, trace)
    r = v.tlc(work.dir, tr, workers=1, timeout=run.get("tlc_timeout", 600), dfs=True)
    resets = split_traces(lines)
    if r.error:
        sys.stderr.write(r.out[-2000:])
        raise v.Inconclusive("trace validation of %s: TLC %s" % (name, r.error))
    if r.clean:
        stats["traces_validated_against_impl"] += len(resets)
    else:
        rej = r.prints("TRACE_REJECTED_AT")
        at = int(rej[0][0]) if rej else r.depth   # 1-based line that could not be explained
        ok = len([i for i in resets if i + 1 <= at]) - 1
        stats["traces_validated_against_impl"] += max(ok, 0)
        stats["nonconforming_traces"] += 1
        ev = lines[at - 1] if 0 < at <= len(lines) else {}
        msg = "NONCONFORMANCE spec=IceSession cfg=%s line=%d ev=%s" % (name, at, ev.get("ev"))
        stats["nonconformance"].append(msg)
        sys.stderr.write(msg + "\n")
    # verdict
    mon = g.gen_mon(work.dir, name, cfg, trace, run["preds"])
    r = v.tlc(work.dir, mon, workers=1, timeout=run.get("tlc_timeout", 600))
    if r.error or not r.clean:
        sys.stderr.write(r.out[-3000:])
        raise v.Inconclusive("monitor run of %s did not complete (%s)" % (name, r.error))
    stats["monitor_states"] += r.distinct
    stats["monitor_predicates_evaluated"] += r.distinct * len(run["preds"])
    viols = sorted(((int(line) - 1, pred) for pred, line in r.prints("VIOL")))
    hit_in_trace = {}   # trace start -> ids of known findings matched earlier in that trace
    shapes = stats.setdefault("_shapes", {})
    for idx, pred in viols:
        # a broken tree violates the same predicate thousands of times: a handful of replay files per predicate and configuration
        # (violations that a finding: line might explain are always looked at, they cost nothing: no file is written for them)
        if not verdict.known and shapes.get((pred, name), 0) >= 5:
            stats["violations_not_written"] = stats.get("violations_not_written", 0) + 1
            continue
        feat = features_of(pred, lines, idx, name)
        start = max(i for i in resets if i <= idx)
        feat["trace"] = resets.index(start)
        feat["step"] = idx - start
        if hit_in_trace.get(start):
            # a quiescence predicate that fails at the end of a trace in which a known defect already struck
            feat["caused_by"] = "+".join(sorted(hit_in_trace[start]))
        k0 = v.match_known(verdict.known, feat)
        if k0:
            hit_in_trace.setdefault(start, set()).add(k0["id"].split("/")[0])

        def writer(path, start=start, idx=idx):
            json.dump({"property": verdict.prop, "cfg": name, "predicate": pred, "job": dict({k: job[k] for k in ("drain", "notime", "zerowait")}, tb=lines[start].get("tb", []), noprefix=True),
                       "schedule": schedule_of(lines, start, idx), "events": lines[start:idx + 1]}, open(path, "w"))
        if not v.match_known(verdict.known, feat):
            if shapes.get((pred, name), 0) >= 5:
                stats["violations_not_written"] = stats.get("violations_not_written", 0) + 1
                continue
            shapes[(pred, name)] = shapes.get((pred, name), 0) + 1
        verdict.report(feat, writer)
    if not stats["samples"]:
        stats["samples"].append({"cfg": name, "first_events": [{k: e[k] for k in e if k != "post"} for e in lines[:12]]})
    return lines


def model_check(work, name, stats, invariants=None, timeout=900, mc_override=None, workers=None, properties=None):
    cfg = g.load(name, CONFIGS)
    if cfg.get("mc") is None:
        return None
    if mc_override:
        cfg["mc"].update(mc_override)
    mod = g.gen_mc(work.dir, name, cfg, invariants=invariants, properties=properties)
    r = v.tlc(work.dir, mod, timeout=timeout, workers=workers)
    if r.error:
        sys.stderr.write(r.out[-2000:])
        raise v.Inconclusive("model check %s: TLC %s" % (name, r.error))
    stats["states"] += r.distinct
    stats["transitions"] += r.generated
    stats["model_runs"].append({"cfg": name, "constants": cfg["mc"], "distinct": r.distinct, "generated": r.generated,
                                "depth": r.depth, "wall_s": round(r.wall, 1), "invariants": invariants, "properties": properties or [],
                                "invariants_violated": r.invariants_violated, "properties_violated": r.props_violated or r.temporal_violated})
    return r


def new_stats():
    return {"states": 0, "transitions": 0, "traces_validated_against_impl": 0, "real_traces": 0, "real_steps": 0,
            "skipped_actions": 0, "nonconforming_traces": 0, "nonconformance": [], "monitor_states": 0,
            "monitor_predicates_evaluated": 0, "by_event": {}, "both_connected_at_end": 0, "model_runs": [], "samples": []}


def run_property(prop, tier, seed, plan):
    """plan: {"mc": [(cfg, invariants, override)], "runs": [run dicts]}"""
    verdict = v.Verdict(prop, tier, seed)
    stats = new_stats()
    with v.Work(prop) as work:
        work.copy_specs("session")
        binary = v.build_harness(work)
        for i, run in enumerate(plan["runs"]):
            run_batch(work, binary, verdict, run, seed, "r%d" % i, stats)
        for item in plan.get("mc", []):
            name, invs, override = item[:3]
            props = item[3] if len(item) > 3 else None
            r = model_check(work, name, stats, invariants=invs, mc_override=override, timeout=plan.get("mc_timeout", 900), properties=props)
            if r is not None and (r.invariants_violated or r.temporal_violated):
                # a design-level counterexample: only a real trace can turn it into a verdict (DESIGN 2.2)
                stats.setdefault("model_counterexamples", []).append({"cfg": name, "invariants": r.invariants_violated})
                print("MODEL-COUNTEREXAMPLE spec=IceSession cfg=%s invariants=%s (design level: not a verdict; see evidence)" % (name, r.invariants_violated))
    stats.pop("_shapes", None)     # tuple keys: bookkeeping only
    verdict.coverage.update(stats)
    verdict.coverage["predicates"] = sorted({p for r in plan["runs"] for p in r["preds"]})
    verdict.assumptions = plan.get("assumptions", [])
    return verdict.finish()
