"""Near-miss schedules (DESIGN 2.3 item 2): for a guard of IceSession.tla that protects a listed property, model-check the
spec with that guard switched OFF (constant Miss); TLC's shortest counterexample to the property is a schedule that
distinguishes "guard present" from "guard absent". The schedules are committed under specs/session/scheds/nm_*.json and are
replayed on the real agents in every run: the unchanged code refuses the bad step, a tree that lost the guard follows it.

    python3 lib/nearmiss.py            regenerate all schedules
"""
import json
import os
import re
import sys

sys.path.insert(0, os.path.dirname(os.path.abspath(__file__)))
import sessiongen as g  # noqa: E402
import vlib as v  # noqa: E402

# guard, configuration, violated invariant, constants of the run, what the guard protects
GUARDS = [
    ("selvalid", "p11", "SelValidated", {"MaxTicks": 2, "MaxLoss": 0, "MaxDup": 0, "MaxFlight": 3},
     "C03: the controlled agent selects on USE-CANDIDATE only if the pair already completed its own check"),
    ("ctlsel_uc", "p11", "SelValidated", {"MaxTicks": 3, "MaxLoss": 0, "MaxDup": 0, "MaxFlight": 3},
     "C03: the controlling agent selects only on the success response of a request that carried USE-CANDIDATE"),
    ("findpair", "pnat", "NoDupPairs", {"MaxTicks": 2, "MaxLoss": 0, "MaxDup": 0, "MaxFlight": 3},
     "C06: a (local, remote) pair is never listed twice (trickled candidate after peer-reflexive discovery)"),
    ("respdst", "p12", "SuccValidated", {"MaxTicks": 2, "MaxLoss": 0, "MaxDup": 0, "MaxFlight": 3, "MaxInject": 1},
     "C02: a success response validates a pair only if it comes from the address the request was sent to"),
    ("prioless", "p21n", "NoDowngradeInv", {"MaxTicks": 2, "MaxLoss": 0, "MaxDup": 0, "MaxFlight": 2, "MaxInject": 1},
     "C03: plain USE-CANDIDATE never moves a controlled agent to a lower-priority pair"),
    # "nomsticky" (C01: an unanswered nomination is retransmitted on the pair chosen first) has a hand-written schedule,
    # scheds/c01_better_pair_validates_while_nominating.json: it needs a pair that has the lower priority on BOTH sides (p22), whose
    # state space TLC neither exhausts nor samples into the counterexample within the time a regeneration may take
]


SIMULATE = {"nomsticky": 40}


def parse_msg(k):
    f = dict(re.findall(r'(\w+) \|-> ("?[^,\]<>]*"?)', k))
    gs = lambda x: f[x].strip('"')
    m = {"from": gs("from"), "kind": gs("kind"), "src": gs("src"), "dst": gs("dst"), "tid": int(f["tid"]), "copy": int(f["copy"])}
    um = re.search(r'user \|-> <<(\d+), (\d+)>>', k)
    km = re.search(r'key \|-> <<"(\w+)", (\d+)>>', k)
    if um:
        m["user"] = [int(um.group(1)), int(um.group(2))]
    if km:
        m["key"] = [km.group(1), int(km.group(2))]
    m["uc"] = "uc |-> TRUE" in k
    return m


def bag(b):
    return b if isinstance(b, dict) else {}


def schedule_of(states):
    sched = []
    for a, b in zip(states, states[1:]):
        done = False
        for ag in "AB":
            if b["ticks"][ag] > a["ticks"][ag]:
                sched.append({"ev": "Tick", "ag": ag})
                done = True
            elif b["gen"][ag] > a["gen"][ag]:
                sched.append({"ev": "Restart", "ag": ag})
                done = True
            elif a["gath"][ag] == "new" and b["gath"][ag] == "complete":
                sched.append({"ev": "Gather", "ag": ag})
                done = True
            elif b["rgen"][ag] != a["rgen"][ag] and b["gen"][ag] == a["gen"][ag]:
                sched.append({"ev": "SetRemoteCreds", "ag": ag})
                done = True
        if done:
            continue
        if b["now"] > a["now"]:
            sched.append({"ev": "Advance", "d": b["now"] - a["now"]})
            continue
        na, nb = bag(a["net"]), bag(b["net"])
        gone = [k for k in na if nb.get(k, 0) < na[k]]
        new = [k for k in nb if nb[k] > na.get(k, 0)]
        if b["inj"] > a["inj"]:
            sched.append({"ev": "Inject", "m": parse_msg(new[0])})
        elif b["loss"] > a["loss"]:
            sched.append({"ev": "Drop", "m": parse_msg(gone[0])})
        elif b["dup"] > a["dup"]:
            m = parse_msg(new[0])
            m["copy"] = 0
            sched.append({"ev": "Dup", "m": m})
        elif len(gone) == 1:
            sched.append({"ev": "Deliver", "m": parse_msg(gone[0])})
        else:
            for ag in "AB":
                if a["remotes"][ag] != b["remotes"][ag]:
                    c = [r for r in b["remotes"][ag] if r not in a["remotes"][ag]][0]
                    sched.append({"ev": "AddRemote", "ag": ag, "c": {"addr": c["addr"], "typ": c["typ"]}})
                    break
            else:
                raise ValueError("cannot explain step %s -> %s" % (json.dumps(a)[:200], json.dumps(b)[:200]))
    return sched


def main(only=None):
    out = {}
    with v.Work("nearmiss") as work:
        work.copy_specs("session")
        for guard, cfgname, inv, ov, doc in GUARDS:
            if only and guard not in only:
                continue
            cfg = g.load(cfgname, os.path.join(v.SPECS, "session", "configs.json"))
            cfg["mc"].update(ov)
            cfg["miss"] = [guard]
            mod = g.gen_mc(work.dir, "nm_" + guard, cfg, invariants=[inv])
            dump = work.path("cex_%s.json" % guard)
            if guard in SIMULATE:      # the breadth-first search does not reach the depth needed: random behaviours of the guard-less spec
                r = v.tlc(work.dir, mod, timeout=600, simulate="num=20000000", depth=SIMULATE[guard], seed=7, extra=["-dumpTrace", "json", dump])
            else:
                r = v.tlc(work.dir, mod, timeout=600, extra=["-dumpTrace", "json", dump])
            if r.error or inv not in r.invariants_violated:
                print("guard %s: no counterexample (%s, %d states)" % (guard, r.error, r.distinct))
                continue
            d = json.load(open(dump))
            states = [x[1] for x in d["counterexample"]["state"]]
            sched = schedule_of(states)
            path = os.path.join(v.SPECS, "session", "scheds", "nm_%s.json" % guard)
            json.dump({"cfg": cfgname, "generated_by": "lib/nearmiss.py (TLC counterexample to %s with guard '%s' switched off, %d states explored)" % (inv, guard, r.distinct),
                       "doc": doc, "schedule": sched}, open(path, "w"), indent=1)
            out[guard] = len(sched)
            print("guard %s: %d-step schedule, %d states" % (guard, len(sched), r.distinct))
    return out


if __name__ == "__main__":
    main(sys.argv[1:])
