"""python3 lib/seedrun.py [--tier quick] [--keep] <seed id> ... | all | missed
Re-evaluate stored seeded defects (seeded/<id>/patch.diff) against the current checks: scratch worktree of /repo's HEAD under
/var/tmp/vs, patch applied (3-way when it no longer applies cleanly), the property's check run with VERIF_REPO pointing at it
(evidence redirected to a scratch directory), worktree removed. Updates meta.json ("recheck") and prints one line per seed."""
import json, os, shutil, subprocess, sys, time
from concurrent.futures import ThreadPoolExecutor
ROOT = os.path.dirname(os.path.dirname(os.path.abspath(__file__)))
SCR = "/var/tmp/vs"


def sh(cmd, **kw):
    return subprocess.run(cmd, capture_output=True, text=True, **kw)


def one(sid, tier):
    d = os.path.join(ROOT, "seeded", sid)
    meta = json.load(open(os.path.join(d, "meta.json")))
    prop = meta["property"]
    wt = os.path.join(SCR, "sr-" + sid)
    sh(["git", "-C", "/repo", "worktree", "remove", "--force", wt])
    shutil.rmtree(wt, ignore_errors=True)
    r = sh(["git", "-C", "/repo", "worktree", "add", "-q", "--detach", wt, "HEAD"])
    if r.returncode:
        return sid, "worktree failed: " + r.stderr[-200:], None
    try:
        a = sh(["git", "-C", wt, "apply", os.path.join(d, "patch.diff")])
        how = "clean"
        if a.returncode:
            a = sh(["git", "-C", wt, "apply", "--3way", os.path.join(d, "patch.diff")])
            how = "3way"
        if a.returncode:
            alt = os.path.join(d, "patch.rebased.diff")
            if os.path.exists(alt):
                sh(["git", "-C", wt, "reset", "--hard", "-q"])
                a = sh(["git", "-C", wt, "apply", alt])
                how = "rebased"
        if a.returncode:
            return sid, "patch does not apply to HEAD: " + a.stderr[-300:], None
        b = sh(["go", "build", "./..."], cwd=wt, env=dict(os.environ, GOFLAGS="-mod=mod"))
        if b.returncode:
            return sid, "does not build: " + b.stderr[-300:], None
        ev = os.path.join(SCR, "ev-" + sid)
        os.makedirs(ev, exist_ok=True)
        t0 = time.time()
        chk = sh([os.path.join(ROOT, "check"), prop, "--tier", tier], cwd=ROOT, env=dict(os.environ, VERIF_REPO=wt, VERIF_EVIDENCE_DIR=ev))
        res = {"head": sh(["git", "-C", "/repo", "rev-parse", "--short", "HEAD"]).stdout.strip(),
               "verif": sh(["git", "-C", ROOT, "rev-parse", "--short", "HEAD"]).stdout.strip(), "applied": how, "tier": tier, "rc": chk.returncode,
               "wall_s": round(time.time() - t0),
               "violations": len([l for l in chk.stdout.splitlines() if l.startswith("VIOLATION")]),
               "details": [l.strip()[:300] for l in chk.stderr.splitlines() if "violation detail" in l][:3]}
        shutil.rmtree(ev, ignore_errors=True)
        meta["recheck"] = res
        if tier == "quick":
            meta["caught_by_quick_check"] = chk.returncode == 1
        elif chk.returncode == 1:
            meta["caught_by_thorough_check"] = True
        json.dump(meta, open(os.path.join(d, "meta.json"), "w"), indent=1)
        return sid, "rc=%d %s %ds %s" % (chk.returncode, how, res["wall_s"], (res["details"] or [chk.stderr[-200:] if chk.returncode not in (0, 1) else ""])[0][:220]), chk.returncode
    finally:
        sh(["git", "-C", "/repo", "worktree", "remove", "--force", wt])
        shutil.rmtree(wt, ignore_errors=True)


def main():
    args = sys.argv[1:]
    tier, par = "quick", 3
    if "--tier" in args:
        i = args.index("--tier"); tier = args[i + 1]; del args[i:i + 2]
    if "--par" in args:
        i = args.index("--par"); par = int(args[i + 1]); del args[i:i + 2]
    ids = sorted(os.listdir(os.path.join(ROOT, "seeded")))
    if args == ["missed"]:
        ids = [s for s in ids if not json.load(open(os.path.join(ROOT, "seeded", s, "meta.json"))).get("caught_by_quick_check")]
    elif args != ["all"]:
        ids = args
    os.makedirs(SCR, exist_ok=True)
    with ThreadPoolExecutor(par) as ex:
        for sid, msg, rc in ex.map(lambda s: one(s, tier), ids):
            print("%-8s %s" % (sid, msg), flush=True)
    sh(["git", "-C", "/repo", "worktree", "prune"])


main()
