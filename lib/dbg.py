"""Debug helper: python3 lib/dbg.py <cfg> <seed> <traces> [drain] [notime] -> runs driver + TR, prints the first rejected step."""
import json, sys, os
sys.path.insert(0, os.path.dirname(os.path.abspath(__file__)))
import vlib as v, sessiongen as g, session
name, seed, n = sys.argv[1], int(sys.argv[2]), int(sys.argv[3])
flags = sys.argv[4:]
os.environ["VERIF_KEEP"] = "1"
with v.Work("dbg") as w:
    w.copy_specs("session")
    b = v.build_harness(w)
    cfg = g.load(name, session.CONFIGS)
    trace = w.path("t.ndjson")
    job = {"configs": session.CONFIGS, "cfg": name, "seed": seed, "traces": n, "out": trace, "drain": "drain" in flags,
           "notime": "notime" in flags, "stats": w.path("st.json")}
    json.dump(job, open(w.path("job.json"), "w"))
    rc, out, wall = v.run_harness(b, "TestSession", w.path("job.json"))
    print("driver rc", rc, out[-500:] if rc else "")
    tr = g.gen_tr(w.dir, name, cfg, trace)
    r = v.tlc(w.dir, tr, workers=1, dfs=True)
    print("clean", r.clean, "depth", r.depth, r.error)
    lines = v.read_ndjson(trace)
    if not r.clean:
        rej = r.prints("TRACE_REJECTED_AT")
        print(rej, r.out[-1500:] if not rej else "")
        at = int(rej[0][0])
        resets = [i for i, e in enumerate(lines) if e["ev"] == "Reset"]
        st = max(i for i in resets if i < at)
        for e in lines[st:at]:
            print(json.dumps({k: e[k] for k in e if k != "post"}))
        print("PRE ", json.dumps(lines[at - 2]["post"]))
        print("POST", json.dumps(lines[at - 1]["post"]))
    print(w.dir)
