"""Generate TLC modules/cfg files for the session configurations.

specs/session/configs.json is the single source of truth shared with the Go driver.
For a configuration name this writes, into a work directory:
  MC_<name>.tla/.cfg   exhaustive model check of IceSession with the small 'mc' constants
  TR_<name>.tla/.cfg   trace validation (IceSessionTrace) with the 'tr' constants
  MON_<name>.tla/.cfg  monitor (IceSessionMon) with the 'tr' constants
"""
import copy
import json
import os

HERE = os.path.dirname(os.path.abspath(__file__))
SPECDIR = os.path.join(HERE, "..", "specs", "session")
NOMERGE = {"loc", "signal", "presignal", "nat", "roles"}


def merge(dst, src):
    for k, v in src.items():
        if isinstance(v, dict) and isinstance(dst.get(k), dict) and k not in NOMERGE:
            merge(dst[k], v)
        else:
            dst[k] = v


def load(name, path=None):
    raw = json.load(open(path or os.path.join(SPECDIR, "configs.json")))
    base = copy.deepcopy(raw["defaults"])
    merge(base, raw["configs"][name])
    return base


def names(path=None):
    raw = json.load(open(path or os.path.join(SPECDIR, "configs.json")))
    return list(raw["configs"].keys())


PRIO = {"host": 9, "srflx": 7, "prflx": 8, "relay": 5}
ALL_ADDRS = ["a1", "a2", "b1", "b2", "n1", "n2", "x9"]


def q(s):
    return '"%s"' % s


def seq(items):
    return "<<" + ", ".join(items) + ">>"


def cand(c):
    return '[addr |-> "%s", typ |-> "%s", prio |-> %d]' % (c[0], c[1], PRIO[c[1]])


def consts(cfg, which, tracefile=None):
    """TLA+ definitions (name -> expression) for the constants of IceSession."""
    loc = cfg["loc"]
    nat = cfg["nat"]
    wire = lambda l: nat.get(l, l)
    d = {}
    d["Loc"] = "[A |-> %s, B |-> %s]" % (seq(map(q, loc["A"])), seq(map(q, loc["B"])))
    d["NatMap"] = "[x \\in {%s} |-> CASE %s [] OTHER -> x]" % (
        ", ".join(map(q, ALL_ADDRS)),
        " [] ".join('x = "%s" -> "%s"' % (k, v) for k, v in nat.items()) or "FALSE -> x")
    reach = set()
    unreach = {tuple(u) for u in cfg.get("unreach", [])}
    for la in loc["A"]:
        for lb in loc["B"]:
            reach.add((wire(la), wire(lb)))
            reach.add((wire(lb), wire(la)))
    if cfg.get("attacker", True):
        for a in loc["A"] + loc["B"]:
            reach.add(("x9", wire(a)))
    reach -= unreach
    d["Reach"] = "{" + ", ".join("<<%s, %s>>" % (q(a), q(b)) for a, b in sorted(reach)) + "}"
    d["InitRole"] = '[A |-> "%s", B |-> "%s"]' % (cfg["roles"]["A"], cfg["roles"]["B"])
    d["TbCmp"] = str(cfg["tbcmp"])
    for key, nm in (("signal", "Signal"), ("presignal", "PreSignal")):
        d[nm] = "[A |-> %s, B |-> %s]" % (seq(map(cand, cfg[key]["A"])), seq(map(cand, cfg[key]["B"])))
    d["MaxReq"] = str(cfg["maxReq"])
    d["Renom"] = "TRUE" if cfg["renom"] else "FALSE"
    d["NomBase"] = str(cfg.get("nomBase", 0))
    d["NomStep"] = str(cfg.get("nomStep", 1))
    d["ForgeConflict"] = "TRUE" if cfg.get("forgeConflict") else "FALSE"
    d["Miss"] = "{" + ", ".join(q(x) for x in cfg.get("miss", [])) + "}"
    d["Lite"] = "[A |-> %s, B |-> %s]" % tuple("TRUE" if cfg["lite"][a] else "FALSE" for a in "AB")
    d["RFilter"] = "[A |-> {%s}, B |-> {%s}]" % tuple(", ".join(map(q, cfg.get("rfilter", {}).get(a, []))) for a in "AB")
    d["CheckPrio"] = "[A |-> %s, B |-> %s]" % tuple("TRUE" if cfg["checkPrio"][a] else "FALSE" for a in "AB")
    if which == "mc":
        m = cfg["mc"]
        t = m
        for k in ("MaxTicks", "MaxLoss", "MaxDup", "MaxFlight", "MaxInject", "MaxRestart", "MaxRenom", "MaxTime"):
            d[k] = str(m[k])
        d["MaxData"] = str(m.get("MaxData", 0))
        d["BufLimit"], d["PLen"], d["MaxPause"] = str(m.get("BufLimit", 6)), "1", str(m.get("MaxPause", 0))
        d["MaxClose"] = str(m.get("MaxClose", 0))
        d["Steps"] = "{" + ", ".join(map(str, m["Steps"])) + "}"
    else:
        t = cfg["tr"]
        for k in ("MaxTicks", "MaxLoss", "MaxDup", "MaxFlight", "MaxInject", "MaxRestart", "MaxRenom"):
            d[k] = "100000"
        d["MaxTime"] = "1000000000"
        d["MaxData"] = "100000"
        d["BufLimit"], d["PLen"], d["MaxPause"] = "1000000", "1", "1"     # the code's maxBufferSize
        d["MaxClose"] = "1"
        d["Steps"] = "{}"
    for k in ("D", "F", "K", "H"):
        d[k] = str(t[k])
    d["DD"], d["DC"] = lite_defaults(cfg, t, which)
    acc = t["acc"]
    d["Acc"] = "[host |-> %d, srflx |-> %d, prflx |-> %d, relay |-> %d]" % (acc["host"], acc["srflx"], acc["prflx"], acc["relay"])
    if tracefile is not None:
        d["TraceFile"] = q(tracefile)
    return d


def write_module(workdir, modname, extends, d, cfg_lines):
    with open(os.path.join(workdir, modname + ".tla"), "w") as f:
        f.write("---- MODULE %s ----\nEXTENDS %s\n" % (modname, extends))
        for k, v in d.items():
            f.write("c_%s == %s\n" % (k, v))
        f.write("====\n")
    with open(os.path.join(workdir, modname + ".cfg"), "w") as f:
        f.write("CONSTANTS\n")
        for k in d:
            f.write("  %s <- c_%s\n" % (k, k))
        f.write("\n".join(cfg_lines) + "\n")


MC_INVARIANTS = ["SelValidated", "SelListed", "UniqueIds", "NoDupPairs", "PairsFromCurrent", "Mirror", "SelWhileConnected"]


def gen_mc(workdir, name, cfg, invariants=None, properties=None, extra=None, next_name=None):
    d = consts(cfg, "mc")
    if extra:
        d.update(extra)
    lines = ["INIT Init", "NEXT %s" % (next_name or "Next"), "VIEW View", "CHECK_DEADLOCK FALSE"]
    for i in invariants if invariants is not None else MC_INVARIANTS:
        lines.append("INVARIANT %s" % i)
    for p in properties or []:
        lines.append("PROPERTY %s" % p)
    mod = "MC_" + name
    write_module(workdir, mod, "IceSession", d, lines)
    return mod


def gen_tr(workdir, name, cfg, tracefile):
    d = consts(cfg, "tr", tracefile)
    mod = "TR_" + name
    write_module(workdir, mod, "IceSessionTrace", d,
                 ["SPECIFICATION TSpec", "POSTCONDITION Accepted", "CHECK_DEADLOCK FALSE"])
    return mod


def lite_defaults(cfg, t, which):
    """Per-agent disconnected timeout in effect and disconnected part of the initial checking deadline. A lite agent that
    keeps its defaults (cfg liteDefault) has the lite default (10 s) as disconnected timeout, while its initial checking
    deadline is computed with the full agent's default (5 s), agent_config.go; model checking uses 4 and 2 ticks for them."""
    lite_d, full_d = (10000, 5000) if which == "tr" else (4, 2)
    ld = cfg.get("liteDefault", {})
    dd = {a: (lite_d if cfg["lite"][a] and ld.get(a) else t["D"]) for a in "AB"}
    dc = {a: (full_d if cfg["lite"][a] and ld.get(a) else t["D"]) for a in "AB"}
    return "[A |-> %d, B |-> %d]" % (dd["A"], dd["B"]), "[A |-> %d, B |-> %d]" % (dc["A"], dc["B"])


def gen_mon(workdir, name, cfg, tracefile, predicates):
    t = cfg["tr"]
    c = consts(cfg, "tr")
    d = {"D": str(t["D"]), "F": str(t["F"]), "H": str(t["H"]), "DD": c["DD"], "DC": c["DC"], "TraceFile": q(tracefile),
         "NatMap": c["NatMap"], "Reach": c["Reach"],
         "LocA": "{" + ", ".join(map(q, cfg["loc"]["A"] + [cfg["nat"][l] for l in cfg["loc"]["A"] if l in cfg["nat"]])) + "}",
         "LocB": "{" + ", ".join(map(q, cfg["loc"]["B"])) + "}",
         "Lite": c["Lite"], "RFilter": c["RFilter"], "CheckPrio": c["CheckPrio"], "MaxReq": str(cfg["maxReq"]),
         "Check": "{" + ", ".join(map(q, predicates)) + "}"}
    lines = ["SPECIFICATION Spec", "INVARIANT Report", "POSTCONDITION Done", "CHECK_DEADLOCK FALSE"]
    mod = "MON_" + name
    write_module(workdir, mod, "IceSessionMon", d, lines)
    return mod
