"""Checks of the tcp family: C14 (RFC 4571 framing, specs/tcp/TcpFraming*.tla) and C15 (TCP mux, specs/tcp/TcpMux*.tla).

C14: TcpFraming is model-checked at small scale (two-valued header bytes); its state graph is a forest of tiny
DAGs (one per configuration), and *every path* of every DAG is one chunking of the byte stream.  Each path is
scaled to concrete lengths (0,1,2,255,256,cap-1,cap,cap+1,65535,65536+) and replayed as a scripted net.Conn on
the real readStreamingPacket fed by the real writeStreamingPacket; what the real code did is validated against
TcpFraming (HB = 256) by TcpFramingTrace and judged by TcpFramingMon - both evaluated by TLC.  The same monitor
judges tcpPacketConn behind a real TCPMuxDefault (net.Pipe, synctest bubble) and activeTCPConn (loopback sockets).

C15: TcpMux (one action per critical section / blocking point of each goroutine of the mux) is model-checked
exhaustively within a bound on environment actions; behaviours from TLC's simulation mode (TcpMuxSim prints the
environment's actions as JSON), TLC's near-miss counterexample to NoStaleRemoval and a few directed schedules are replayed
on the real TCPMuxDefault inside synctest bubbles; the recorded traces are validated against TcpMux with silent
internal steps (TcpMuxTrace) and judged by TcpMuxMon.

False alarms of this family corrected while it was built (the log DESIGN.md section 10.4 asks for):
 * C14 WriterDelivers demanded "reported ok => on the wire" also for packets above the write path's limit; activeTCPConn
   accepts them into its buffer and refuses later by closing - demand restricted to supported lengths.
 * C14 activeTCPConn case set: an over-MTU WriteTo (which closes the connection) preceded the inbound part - cases split.
 * C15 model: CloseCompletes asked that no tcpPacketConn reader goroutine exists when Close returns; the reader of a
   packet conn unlisted by a concurrent RemoveConnByUfrag may still be on its way out (Remove waits for it) - weakened
   to "only readers of closed packet conns". CloseProgress failed on the MaxPc bound of the model - bound raised.
 * C15 monitor: after a client closes its end the mux was required to close its end at once; a reader goroutine blocked
   handing a packet to the application (unclaimed provisional conn, full queue) notices only later - the demand now
   applies only while handleConn still waits for the first frame.
 * C15 trace spec: the driver's Close runs on its own goroutine (the model took m.mu at the call), the driver wrote into
   connections the mux had closed, ClientClose required all frames sent - model/driver aligned.
"""
import json
import os
import random
import re
import shutil
import sys

import vlib as v

FAMILY = "tcp"

# ---------------------------------------------------------------- generic helpers


def q(s):
    return '"%s"' % s


def tla_set(xs):
    return "{" + ", ".join(str(x) for x in xs) + "}"


def write_module(workdir, modname, extends, consts, cfg_lines):
    """A module that EXTENDS the given one and defines the constants; returns the module name."""
    with open(os.path.join(workdir, modname + ".tla"), "w") as f:
        f.write("---- MODULE %s ----\nEXTENDS %s\n" % (modname, extends))
        for k, val in consts.items():
            f.write("c_%s == %s\n" % (k, val))
        f.write("====\n")
    with open(os.path.join(workdir, modname + ".cfg"), "w") as f:
        f.write("CONSTANTS\n")
        for k in consts:
            f.write("  %s <- c_%s\n" % (k, k))
        f.write("\n".join(cfg_lines) + "\n")
    return modname


def write_ndjson(path, recs):
    with open(path, "w") as f:
        for r in recs:
            f.write(json.dumps(r, separators=(",", ":")) + "\n")


def budget_left(t0, total):
    import time
    return total - (time.time() - t0)


# ---------------------------------------------------------------- dot dump of a TLC state graph

NODE_RE = re.compile(r'^(-?\d+) \[label="(.*?)"(?:,tooltip=".*")?(,style = filled)?\]\s*;?\s*$')
EDGE_RE = re.compile(r'^(-?\d+) -> (-?\d+) \[label="([^"]*)"')


def parse_dot(path, wanted):
    """-> (nodes: id -> {var: text}, edges: id -> [(label, dst)], roots). Only the variables in `wanted` are kept."""
    nodes, edges, roots = {}, {}, []
    pat = {w: re.compile(r"/\\\\ %s = (.*?)(?:\\n|$)" % re.escape(w)) for w in wanted}
    for line in open(path):
        m = EDGE_RE.match(line)
        if m:
            if m.group(1) != m.group(2):
                edges.setdefault(m.group(1), []).append((m.group(3), m.group(2)))
            continue
        m = NODE_RE.match(line)
        if m:
            lab = m.group(2)
            d = {}
            for w, p in pat.items():
                mm = p.search(lab)
                if mm:
                    d[w] = mm.group(1).replace('\\"', '"')
            nodes[m.group(1)] = d
            if m.group(3):
                roots.append(m.group(1))
    return nodes, edges, roots


def all_paths(edges, root, limit=None):
    """Every maximal path of an acyclic graph from root, as lists of (label, src, dst); iterative DFS."""
    out = []
    stack = [(root, [])]
    while stack:
        node, path = stack.pop()
        succ = edges.get(node, [])
        if not succ:
            out.append(path)
            if limit and len(out) >= limit:
                return out
            continue
        for lab, dst in succ:
            stack.append((dst, path + [(lab, node, dst)]))
    return out


def count_paths(edges, root, memo):
    if root in memo:
        return memo[root]
    succ = edges.get(root, [])
    n = 1 if not succ else sum(count_paths(edges, d, memo) for _, d in succ)
    memo[root] = n
    return n


# ================================================================ C14: framing

HB_SMALL = 2          # header bytes have two values in the small model: lengths 0..3 fit, 4 and 5 do not
CFG_RE = re.compile(r"\[pk \|-> <<(.*?)>>, cap \|-> (\d+), trunc \|-> (\d+)\]")

# Concretisations: small-model length -> real length, per small-model buffer size. Every map keeps what the
# model distinguishes: 0 stays 0, "fits the buffer" and "fits the 16-bit header" are preserved, and
# real length >= model length (so that every model chunk is at least one real byte).
OVER = {4: 65536, 5: 70000}
SCALES = {
    0: [dict(cap=0, m={0: 0, 1: 1, 2: 2, 3: 3}), dict(cap=0, m={0: 0, 1: 255, 2: 256, 3: 65535})],
    1: [dict(cap=1, m={0: 0, 1: 1, 2: 2, 3: 3}), dict(cap=255, m={0: 0, 1: 255, 2: 256, 3: 8193}),
        dict(cap=8191, m={0: 0, 1: 8191, 2: 8192, 3: 65535})],
    2: [dict(cap=2, m={0: 0, 1: 1, 2: 2, 3: 3}), dict(cap=8192, m={0: 0, 1: 8191, 2: 8192, 3: 8193}),
        dict(cap=256, m={0: 0, 1: 255, 2: 256, 3: 65535}), dict(cap=8192, m={0: 0, 1: 1, 2: 256, 3: 8193})],
    3: [dict(cap=3, m={0: 0, 1: 1, 2: 2, 3: 3}), dict(cap=65535, m={0: 0, 1: 255, 2: 256, 3: 65535}),
        dict(cap=8192, m={0: 0, 1: 2, 2: 8191, 3: 8192}), dict(cap=65535, m={0: 0, 1: 8192, 2: 65534, 3: 65535})],
}
POSMAPS = ("spread", "head", "tail")


def len_class(n, cap=None):
    if n > 65535:
        return "65536+"
    if n in (0, 1, 2, 255, 256, 65535):
        return str(n)
    if cap is not None and n == cap - 1:
        return "cap-1"
    if cap is not None and n == cap:
        return "cap"
    if cap is not None and n == cap + 1:
        return "cap+1"
    return "other"


def posmap(style, a, big, k):
    """Real offset of small-model offset k inside a body of small length a and real length big (monotone, 0->0, a->big)."""
    if k <= 0:
        return 0
    if k >= a:
        return big
    if style == "head":      # small reads first, the rest in the last read
        return k
    if style == "tail":      # a big first read, then single bytes
        return big - (a - k)
    return max(k, (k * big) // a)


def framing_graph(work, n_pk, stats, timeout=300):
    """Model-check the small instance for all sequences of up to n_pk packets and dump its state graph."""
    mod = write_module(work.dir, "MCF_%d" % n_pk, "MC_TcpFraming",
                       {"HB": str(HB_SMALL), "N": str(n_pk), "Lens": tla_set(range(6)), "Caps": tla_set(range(4)),
                        "Truncs": tla_set(range(4)), "Configs": "MCConfigs", "Truncating": "FALSE"},
                       ["SPECIFICATION Spec", "CHECK_DEADLOCK FALSE", "INVARIANT NoTruncHeader", "INVARIANT ErrNotGarbage",
                        "INVARIANT RoundTrip", "INVARIANT BoundedRead"])
    dot = work.path("framing_%d.dot" % n_pk)
    r = v.require(v.tlc(work.dir, mod, timeout=timeout, dump=dot), "TcpFraming model check")
    if not r.clean:
        sys.stderr.write(r.out[-3000:])
        raise v.Inconclusive("TcpFraming (specified writer) violates its own invariants: %s" % r.invariants_violated)
    stats["states"] += r.distinct
    stats["transitions"] += r.generated
    stats["model_runs"].append({"module": "TcpFraming", "instance": "HB=2, all sequences of <= %d packets over lengths 0..5, cap 0..3, trunc 0..3" % n_pk,
                                "distinct": r.distinct, "generated": r.generated, "depth": r.depth, "wall_s": round(r.wall, 1),
                                "invariants": ["NoTruncHeader", "ErrNotGarbage", "RoundTrip", "BoundedRead"], "violated": []})
    return dot


def framing_near_miss(work, stats, timeout=300):
    """Near miss: the same model with the writer that truncates the length (F-C14, repaired): TLC must find NoTruncHeader violated."""
    mod = write_module(work.dir, "MCF_miss", "MC_TcpFraming",
                       {"HB": str(HB_SMALL), "N": "2", "Lens": tla_set(range(6)), "Caps": tla_set([2, 3]),
                        "Truncs": tla_set([0]), "Configs": "MCConfigs", "Truncating": "TRUE"},
                       ["SPECIFICATION Spec", "CHECK_DEADLOCK FALSE", "INVARIANT NoTruncHeader", "INVARIANT ErrNotGarbage"])
    r = v.require(v.tlc(work.dir, mod, timeout=timeout, extra=["-continue"]), "TcpFraming near-miss")
    stats["states"] += r.distinct
    stats["transitions"] += r.generated
    stats["model_runs"].append({"module": "TcpFraming", "instance": "near miss: writer stores len mod 2^16 (Truncating = TRUE)",
                                "distinct": r.distinct, "generated": r.generated, "wall_s": round(r.wall, 1),
                                "violated": sorted(set(r.invariants_violated))})
    stats["near_miss_schedules"] += 1
    return sorted(set(r.invariants_violated))


def framing_paths(dot, stats, rng, max_per_root=None):
    """All paths of every DAG of the dump -> list of (small config, [(phase, got, need, n) per read])."""
    nodes, edges, roots = parse_dot(dot, ["cfg", "pos", "phase", "got", "need", "res"])
    res = []
    memo = {}
    total = 0
    for root in roots:
        m = CFG_RE.search(nodes[root]["cfg"])
        pk = [int(x) for x in m.group(1).split(",")] if m.group(1).strip() else []
        cfg = {"pk": pk, "cap": int(m.group(2)), "trunc": int(m.group(3))}
        total += count_paths(edges, root, memo)
        paths = all_paths(edges, root)
        if max_per_root and len(paths) > max_per_root:
            paths = rng.sample(paths, max_per_root)
        for p in paths:
            reads = []
            for lab, src, dst in p:
                if not lab.startswith("ReadChunk"):
                    continue
                s = nodes[src]
                reads.append((s["phase"].strip('"'), int(s["got"]), int(s["need"]), int(nodes[dst]["pos"]) - int(s["pos"])))
            res.append((cfg, reads))
    stats["graph_roots"] += len(roots)
    stats["graph_paths_total"] += total
    return res


def concretise(cfg, reads, scale, style, cid, tag):
    """One small-model path -> a case for the driver."""
    m = dict(scale["m"])
    m.update(OVER)
    chunks = []
    for phase, got, need, n in reads:
        if phase == "hdr":
            chunks.append(n)
        else:
            big = m[need]
            chunks.append(posmap(style, need, big, got + n) - posmap(style, need, big, got))
    return {"id": cid, "kind": "script", "pk": [m[a] for a in cfg["pk"]], "cap": scale["cap"], "trunc": cfg["trunc"],
            "chunks": chunks, "tag": tag}


CLASS_LENGTHS = [0, 1, 2, 255, 256, 8191, 8192, 8193, 65535]


def random_cases(rng, n, first_id, npk=(8, 40), over=False):
    """Seeded random chunkings of long streams (lengths from the class set and random ones)."""
    cases = []
    for k in range(n):
        cap = rng.choice([8192, 8192, 65535, 256, 1500])
        cnt = rng.randint(*npk)
        pk = []
        for _ in range(cnt):
            r = rng.random()
            if r < 0.45:
                x = rng.choice(CLASS_LENGTHS + [cap - 1, cap, cap + 1])
            elif r < 0.9:
                x = rng.randint(0, min(cap, 3000))
            else:
                x = rng.randint(0, 65535)
            pk.append(x)
        if rng.random() < 0.6:   # most streams should be readable to the end
            pk = [min(x, cap) for x in pk]
        if over and k % 4 == 0:
            pk[rng.randrange(len(pk))] = rng.choice([65536, 65537, 65541, 70000, 131071])
        chunks = []
        total = sum(2 + x for x in pk)
        mode = rng.choice(["tiny", "mixed", "mixed", "big", "ones-in-header"])
        # more entries than reads are harmless: the conn gives min(asked, scripted)
        for _ in range(min(4000, total)):
            r = rng.random()
            if mode == "tiny":
                chunks.append(rng.choice([1, 1, 2, 3]))
            elif mode == "big":
                chunks.append(1 << 20)
            elif mode == "ones-in-header":
                chunks.append(rng.choice([1, 1 << 20, 1 << 20]))
            else:
                chunks.append(rng.choice([1, 2, 3, 7, 100, 1000, 4096, 1 << 20, 1 << 20]) if r < 0.8 else rng.randint(1, 70000))
            if sum(chunks) > total + 16 and mode != "tiny":
                break
        trunc = rng.choice([0, 0, 0, 1, 2, 3, rng.randint(0, 50)])
        cases.append({"id": first_id + k, "kind": "script", "pk": pk, "cap": cap, "trunc": trunc, "chunks": chunks, "tag": "random-" + mode})
    return cases


def garbage_cases(rng, n, first_id):
    """Arbitrary byte streams (short, so that the reference parse in TLA+ stays cheap)."""
    cases = []
    for k in range(n):
        ln = rng.randint(0, 120)
        style = rng.choice(["uniform", "small", "small", "zeros"])
        if style == "uniform":
            raw = [rng.randrange(256) for _ in range(ln)]
        elif style == "zeros":
            raw = [0 if rng.random() < 0.8 else rng.randrange(4) for _ in range(ln)]
        else:
            raw = [rng.choice([0, 0, 0, 1, 2, 3, 5, 9, 255]) for _ in range(ln)]
        cap = rng.choice([0, 1, 4, 16, 300, 8192])
        chunks = [rng.choice([1, 1, 2, 3, 1 << 20]) for _ in range(ln + 2)]
        cases.append({"id": first_id + k, "kind": "garbage", "pk": [], "cap": cap, "trunc": 0, "chunks": chunks, "raw": raw, "tag": "garbage-" + style})
    return cases


C14_PREDS = ["NoTruncHeader", "WriterDelivers", "ErrNotGarbage", "RoundTrip", "BoundedRead"]
MTU = 8192


def framing_features(pred, c):
    """Shape of the offending case: used for known-finding matching and shown with a violation."""
    f = {"predicate": pred, "kind": c["kind"], "res": c["res"]}
    if c.get("abuf") not in (None, "", "ample"):
        f["app_buffer"] = c["abuf"]
    wr = c.get("wr", [])
    on_wire = [w["ok"] and w["wrote"] > 0 for w in wr]
    wire_ok = all((w["hdr"] == n and w["blen"] == n and w["same"]) if ow else w["wrote"] == 0 for w, n, ow in zip(wr, c["pk"], on_wire))
    f["wire_ok"] = wire_ok
    caps = c.get("caps") or [c.get("cap")] * len(c["pk"])
    adrop = c.get("adrop") or [False] * len(wr)
    acc = [i for i, ow in enumerate(on_wire) if ow and not adrop[i]]
    bad = None
    if pred == "NoTruncHeader":
        for i, (w, n) in enumerate(zip(wr, c["pk"])):
            good = (n <= 65535 or (not w["ok"] and w["wrote"] == 0)) and (w["wrote"] == 0 or (w["hdr"] == n and w["blen"] == n and w["same"]))
            if not good:
                bad = i
                break
    elif pred == "WriterDelivers":
        for i, (w, n) in enumerate(zip(wr, c["pk"])):
            good = n > c.get("wmax", 65535) or (w["ok"] and w["ret"] == n and w["wrote"] == n + 2)
            if not good:
                bad = i
                f["write_buffer"] = c.get("wb", 0) > 0
                f["reported_ok"] = w["ok"]
                f["on_wire"] = "nothing" if w["wrote"] == 0 else "all" if w["wrote"] == n + 2 else "part"
                f["framed_over_mtu"] = n + 2 > MTU
                break
    elif pred in ("ErrNotGarbage", "RoundTrip"):
        # first accepted packet at which the output stops being what was written
        for k, i in enumerate(acc):
            o = c["out"][k] if k < len(c["out"]) else None
            if o is None or o["n"] != c["pk"][i] or (i + 1) not in o["m"]:
                bad = i
                break
    if bad is not None:
        writer_side = pred in ("NoTruncHeader", "WriterDelivers")
        f["len_class"] = len_class(c["pk"][bad], MTU if writer_side else caps[bad])
        f["len"] = c["pk"][bad]
    f["cap"] = c.get("cap")
    f["trunc"] = c.get("trunc")
    return f


def framing_judge(work, verdict, stats, outfile, tag, preds=C14_PREDS, timeout=600, inputs=None):
    """TcpFramingMon over the recorded cases: the verdict."""
    recs = v.read_ndjson(outfile)
    if not recs:
        return recs
    mod = write_module(work.dir, "MONF_" + tag, "TcpFramingMon",
                       {"CaseFile": q(outfile), "Check": "{" + ", ".join(q(p) for p in preds) + "}"},
                       ["SPECIFICATION Spec", "INVARIANT Report", "CHECK_DEADLOCK FALSE"])
    r = v.tlc(work.dir, mod, workers=1, timeout=timeout)
    if r.error or not r.clean or r.distinct != len(recs) + 1:
        sys.stderr.write(r.out[-3000:])
        raise v.Inconclusive("framing monitor run %s did not complete (%s, %d states for %d cases)" % (tag, r.error, r.distinct, len(recs)))
    if r.prints("BADRECORD"):
        raise v.Inconclusive("framing driver wrote an inconsistent record: %s" % r.prints("BADRECORD")[:3])
    stats["monitor_cases"] += len(recs)
    stats["monitor_predicates_evaluated"] += len(recs) * len(preds)
    seen = {}
    for pred, line in r.prints("VIOL"):
        c = recs[int(line) - 1]
        feat = framing_features(pred, c)
        detail = {k: feat.pop(k) for k in ("len", "cap", "trunc", "res") if k in feat}
        detail.update(case=c["id"], tag=c.get("tag"))
        feat["trace"] = detail
        key = json.dumps({k: x for k, x in feat.items() if k != "trace"}, sort_keys=True)
        seen[key] = seen.get(key, 0) + 1
        if seen[key] > 3 and not v.match_known(verdict.known, feat):   # a broken tree fails thousands of cases alike
            stats["violations_not_listed"] = stats.get("violations_not_listed", 0) + 1
            continue

        def writer(path, c=c, pred=pred):
            small = dict(c)
            small["rd"] = c["rd"][:60]
            json.dump({"property": "C14", "family": FAMILY, "predicate": pred, "driver": DRIVER_OF.get(c["kind"], "TestFraming"),
                       "input": (inputs or {}).get(c["id"]), "record": small}, open(path, "w"))
        verdict.report(feat, writer)
    return recs


DRIVER_OF = {"script": "TestFraming", "garbage": "TestFraming", "pconn": "TestPacketConn", "active": "TestActive"}


def split_events(evfile, want_over):
    """Events of the cases with (want_over) / without a packet longer than 65535, and the number of such cases."""
    sel, n, keep = [], 0, False
    for line in open(evfile):
        if line.startswith('{"case"') or '"ev":"Reset"' in line:
            e = json.loads(line)
            keep = (max(e["pk"] or [0]) > 65535) == want_over
            n += 1 if keep else 0
        if keep:
            sel.append(line)
    return sel, n


def framing_conformance(work, stats, evfile, tag, timeout=600):
    """TcpFramingTrace over the recorded events (evidence, not verdict). Cases with an over-long packet that do not
    conform to the specified writer are also tried against the near-miss writer (Truncating = TRUE, the defect F-C14
    repaired by 93179af) so that a regression is named precisely in the evidence."""
    def validate(lines, ncases, truncating, name):
        path = work.path("ev-%s-%s.ndjson" % (tag, name))
        open(path, "w").writelines(lines)
        mod = write_module(work.dir, "TRF_%s_%s" % (tag, name), "TcpFramingTrace",
                           {"HB": "256", "Configs": "Dummy", "Truncating": "TRUE" if truncating else "FALSE", "TraceFile": q(path)},
                           ["SPECIFICATION TSpec", "POSTCONDITION Accepted", "CHECK_DEADLOCK FALSE"])
        r = v.tlc(work.dir, mod, workers=1, timeout=timeout)
        if r.error:
            sys.stderr.write(r.out[-2000:])
            raise v.Inconclusive("framing trace validation %s: TLC %s" % (tag, r.error))
        if r.clean:
            return ncases, None
        rej = r.prints("TRACE_REJECTED_AT")
        at = int(rej[0][0]) if rej else r.depth
        ok = sum(1 for ln in lines[:max(at - 1, 0)] if '"ev":"Reset"' in ln) - 1
        ev = lines[at - 1].strip() if 0 < at <= len(lines) else ""
        case = [json.loads(ln) for ln in lines[:at] if '"ev":"Reset"' in ln][-1:]
        return max(ok, 0), "line=%d event=%s case=%s" % (at, ev, json.dumps(case[0]) if case else "?")

    for over in (False, True):
        lines, ncases = split_events(evfile, over)
        if not ncases:
            continue
        stats["trace_events"] += len(lines)
        ok, why = validate(lines, ncases, False, "over" if over else "fit")
        if why is None:
            stats["traces_validated_against_impl"] += ncases
            continue
        if over:
            ok2, why2 = validate(lines, ncases, True, "overtrunc")
            if why2 is None:
                stats["traces_conforming_to_truncating_writer"] += ncases
                continue
            why = why2
        stats["traces_validated_against_impl"] += ok if not over else 0
        stats["nonconforming_traces"] += 1
        msg = "NONCONFORMANCE spec=TcpFraming%s %s" % (" (also with the truncating writer)" if over else "", why)
        stats["nonconformance"].append(msg[:600])
        sys.stderr.write(msg[:600] + "\n")

PCONN_SCALES = {2: [SCALES[2][1], SCALES[2][3]], 3: [SCALES[3][2]]}   # the reader buffer of tcpPacketConn is fixed (8192)
STUN_FRAME = 2 + 36   # framed Binding request with USERNAME "u1:peer" as built by the driver


def pconn_cases(rng, paths, n_paths, n_random):
    """Cases for tcpPacketConn behind a real mux: sampled model paths (client writes = the path's chunks, so the
    reader sees exactly that chunking), random coalesced/split writes, and packets written back with WriteTo."""
    cases = []
    usable = [(cfg, reads) for cfg, reads in paths if cfg["cap"] in PCONN_SCALES and cfg["pk"] and max(cfg["pk"]) <= 3]
    for cfg, reads in rng.sample(usable, min(n_paths, len(usable))):
        sc = rng.choice(PCONN_SCALES[cfg["cap"]])
        c = concretise(cfg, reads, sc, rng.choice(POSMAPS), 0, "")
        first = rng.choice([[STUN_FRAME], [1, 1, STUN_FRAME - 2], [2, STUN_FRAME - 2], [STUN_FRAME - 1, 1]])
        cases.append({"pk": c["pk"], "writes": first + c["chunks"], "trunc": c["trunc"], "wb": 0, "rb": rng.choice([1, 8]),
                      "reply": [], "rchunks": [], "rcap": 8192, "tag": "path pk=%s cap=%d trunc=%d" % (cfg["pk"], cfg["cap"], cfg["trunc"])})
    for k in range(n_random):
        cnt = rng.randint(1, 12)
        pk = [rng.choice(CLASS_LENGTHS[:7] + [rng.randint(0, 8192)]) for _ in range(cnt)]
        if rng.random() < 0.25:
            pk[rng.randrange(cnt)] = rng.choice([8193, 9000, 65535])
        total = STUN_FRAME + sum(2 + x for x in pk)
        writes = []
        while sum(writes) < total:
            writes.append(rng.choice([1, 2, 3, 39, 40, 100, 8192, 8194, 20000, total]))
        reply = [rng.choice(CLASS_LENGTHS[:7] + [rng.randint(0, 8192), 65535]) for _ in range(rng.randint(0, 5))]
        trunc = min(rng.choice([0, 0, 0, 1, 2, 5]), total - STUN_FRAME)      # never cut into the first (STUN) frame
        cases.append({"pk": pk, "writes": writes, "trunc": trunc, "wb": 0, "rb": rng.choice([1, 8, 64]),
                      "reply": reply, "rchunks": [rng.choice([1, 2, 5, 1 << 20]) for _ in range(60)], "rcap": 65535, "tag": "random"})
    # WriteTo with every length class, without and with the write buffer (8191/8192 with the buffer: regression F-C14b, efd5d35)
    for wb in (0, 4 << 20):
        cases.append({"pk": [], "writes": [STUN_FRAME], "trunc": 0, "wb": wb, "rb": 8, "reply": [0, 1, 2, 255, 256, 8189, 8190],
                      "rchunks": [1, 1, 2, 1 << 20], "rcap": 65535, "tag": "writeto wb=%d" % wb})
        cases.append({"pk": [], "writes": [STUN_FRAME], "trunc": 0, "wb": wb, "rb": 8, "reply": [8191, 8192, 1],
                      "rchunks": [1 << 20] * 4, "rcap": 65535, "tag": "writeto-mtu wb=%d" % wb})
    # the peer stalls while replies are written into a small write buffer: what is refused leaves nothing on the wire
    for wb, rep in ((3000, [700] * 8), (5000, [1200] * 7), (2500, [700, 300, 900, 500, 700, 100, 800, 40, 1300]), (1200, [1100, 30, 30, 1100, 8])):
        cases.append({"pk": [], "writes": [STUN_FRAME], "trunc": 0, "wb": wb, "rb": 8, "reply": rep, "stall": True,
                      "rchunks": [1 << 20] * 4, "rcap": 65535, "tag": "writeto-stall wb=%d" % wb})
    cases.append({"pk": [], "writes": [STUN_FRAME], "trunc": 0, "wb": 0, "rb": 8, "reply": [8193, 65535, 3],
                  "rchunks": [1 << 20] * 4, "rcap": 65535, "tag": "writeto-big wb=0"})
    cases.append({"pk": [], "writes": [STUN_FRAME], "trunc": 0, "wb": 0, "rb": 8, "reply": [65541],
                  "rchunks": [1 << 20] * 4, "rcap": 8192, "tag": "writeto-fc14 wb=0"})
    # the application reads with a buffer whose length is shorter than the packet but whose capacity is not (regression F-C14c, d173a44)
    cases.append({"pk": [10], "writes": [STUN_FRAME + 12], "trunc": 0, "wb": 0, "rb": 8, "reply": [], "rchunks": [], "rcap": 8192,
                  "alen": 40, "acap": 40, "tag": "app buffer len=cap=40"})
    cases.append({"pk": [50, 10], "writes": [STUN_FRAME + 52 + 12], "trunc": 0, "wb": 0, "rb": 8, "reply": [], "rchunks": [], "rcap": 8192,
                  "alen": 40, "acap": 64, "tag": "app buffer len=40 cap=64"})
    for i, c in enumerate(cases):
        c["id"] = 100000 + i
    return cases


def run_pconn_driver(work, binary, cases, stats, timeout=240):
    import time
    cin, cout, cst = (work.path("pc-" + x) for x in ("in.json", "out.ndjson", "stats.json"))
    json.dump(cases, open(cin, "w"))
    jp = work.path("pc-job.json")
    json.dump({"cases": cin, "out": cout, "stats": cst}, open(jp, "w"))
    t0 = time.time()
    rc, out, wall = v.run_harness(binary, "TestPacketConn", jp, timeout=timeout)
    if rc != 0 or not os.path.exists(cst):
        sys.stderr.write(out[-3000:])
        raise v.Inconclusive("tcpPacketConn driver failed (rc %d)" % rc)
    stats["wall"]["driver_pconn"] = round(time.time() - t0, 1)
    stats["pconn_bubble_leaks"] = json.load(open(cst))["leaks"]
    return cout


def active_cases(rng):
    """Small case set for activeTCPConn over real loopback sockets."""
    big = 1 << 20
    cases = [
        dict(pk=[1, 2, 255, 256, 0, 5], writes=[1, 1, 1, 1, 1, 2, 100, 1, 1, 200, 3, 1, 1], trunc=0, reply=[0, 1, 2, 255, 256], rchunks=[1, 1, 2, big], tag="small split"),
        dict(pk=[8191, 8192, 3], writes=[3, 5000, 5000, 10000], trunc=0, reply=[8191, 8192, 1], rchunks=[big] * 6, tag="mtu"),
        dict(pk=[3, 8193, 4], writes=[big], trunc=0, reply=[], rchunks=[], tag="over mtu inbound"),
        dict(pk=[], writes=[], trunc=0, reply=[5, 8193], rchunks=[big] * 4, tag="over mtu outbound"),
        dict(pk=[10, 20], writes=[7, 7, 7, 7], trunc=3, reply=[], rchunks=[], tag="truncated"),
    ]
    cnt = rng.randint(3, 10)
    pk = [rng.choice(CLASS_LENGTHS[:7] + [rng.randint(0, 8192)]) for _ in range(cnt)]
    total = sum(2 + x for x in pk)
    cases.append(dict(pk=pk, writes=[rng.choice([1, 2, 3, 50, 1500, 9000]) for _ in range(40)] + [total], trunc=0,
                      reply=[rng.choice(CLASS_LENGTHS[:7] + [rng.randint(0, 8192)]) for _ in range(rng.randint(1, 6))],
                      rchunks=[rng.choice([1, 3, big]) for _ in range(50)], tag="random"))
    for i, c in enumerate(cases):
        c["id"] = 200000 + i
    return cases


def run_active_driver(work, binary, cases, stats, timeout=120):
    import time
    cin, cout, cst = (work.path("ac-" + x) for x in ("in.json", "out.ndjson", "stats.json"))
    json.dump(cases, open(cin, "w"))
    jp = work.path("ac-job.json")
    json.dump({"cases": cin, "out": cout, "stats": cst}, open(jp, "w"))
    t0 = time.time()
    rc, out, wall = v.run_harness(binary, "TestActive", jp, timeout=timeout)
    if rc != 0 or not os.path.exists(cst):
        sys.stderr.write(out[-3000:])
        raise v.Inconclusive("activeTCPConn driver failed (rc %d)" % rc)
    stats["wall"]["driver_active"] = round(time.time() - t0, 1)
    st = json.load(open(cst))
    stats["active_cases_skipped"] = st["skipped"]
    if st["skipped"]:
        stats["active_skip_reason"] = st["why"]
    return cout


def new_stats():
    return {"states": 0, "transitions": 0, "traces_validated_against_impl": 0, "traces_conforming_to_truncating_writer": 0,
            "nonconforming_traces": 0, "nonconformance": [], "trace_events": 0, "monitor_cases": 0,
            "monitor_predicates_evaluated": 0, "model_runs": [], "samples": [], "near_miss_schedules": 0,
            "graph_roots": 0, "graph_paths_total": 0, "cases_by_kind": {}, "wall": {}}


# the minimal failing inputs of F-C14 (repaired by 93179af), replayed in every run as regression cases
FC14_CASES = [dict(pk=[65541], cap=8192, trunc=0, chunks=[], tag="fc14-min"),
              dict(pk=[5, 65536, 7], cap=8192, trunc=0, chunks=[1, 1, 2, 3], tag="fc14-65536"),
              dict(pk=[70000], cap=65535, trunc=0, chunks=[1 << 20] * 8, tag="fc14-70000")]


def run_framing_driver(work, binary, cases, tag, stats, timeout=240):
    import time
    cin, cout, cev, cst = (work.path("%s-%s" % (tag, x)) for x in ("in.ndjson", "out.ndjson", "ev.ndjson", "stats.json"))
    write_ndjson(cin, cases)
    jp = work.path(tag + "-job.json")
    json.dump({"cases": cin, "out": cout, "events": cev, "stats": cst}, open(jp, "w"))
    t0 = time.time()
    rc, out, wall = v.run_harness(binary, "TestFraming", jp, timeout=timeout)
    if rc != 0 or not os.path.exists(cst):
        sys.stderr.write(out[-3000:])
        raise v.Inconclusive("framing driver failed (rc %d)" % rc)
    stats["wall"]["driver_" + tag] = round(time.time() - t0, 1)
    return cout, cev


def c14(tier, seed):
    import time
    quick = tier == "quick"
    verdict = v.Verdict("C14", tier, seed)
    stats = new_stats()
    rng = random.Random(seed)
    with v.Work("C14") as work:
        work.copy_specs(FAMILY)
        binary = v.build_harness(work, pkg=FAMILY)
        t0 = time.time()
        dot = framing_graph(work, 3, stats)
        stats["near_miss_violated"] = framing_near_miss(work, stats)
        stats["wall"]["model_check"] = round(time.time() - t0, 1)
        # every path of every DAG = every chunking, scaled to the length classes
        paths = framing_paths(dot, stats, rng)
        if quick:   # all chunkings of <= 2 packets, a seeded sample of those of 3 packets
            short = [p for p in paths if len(p[0]["pk"]) <= 2]
            long3 = [p for p in paths if len(p[0]["pk"]) > 2]
            chosen = short + rng.sample(long3, min(4000, len(long3)))
        else:
            chosen = paths
        cases = []
        for cfg, reads in chosen:
            scales = SCALES[cfg["cap"]]
            if quick:   # identity scale always (only one scale for the sampled 3-packet paths), one other scale chosen by the seed
                scales = [scales[0], rng.choice(scales[1:])] if len(cfg["pk"]) <= 2 else [rng.choice(scales)]
            for sc in scales:
                cases.append(concretise(cfg, reads, sc, rng.choice(POSMAPS), len(cases) + 1,
                                        "path pk=%s cap=%d trunc=%d scale=%d" % (cfg["pk"], cfg["cap"], cfg["trunc"], SCALES[cfg["cap"]].index(sc))))
        stats["path_cases"] = len(cases)
        stats["paths_replayed"] = len(chosen)
        for fc in FC14_CASES:
            cases.append(dict(fc, id=len(cases) + 1, kind="script"))
        cases += random_cases(rng, 24 if quick else 400, len(cases) + 1, over=True)
        cases += garbage_cases(rng, 300 if quick else 5000, len(cases) + 1)
        inputs = {c["id"]: c for c in cases}
        recs = []
        BATCH = 12000
        for b in range(0, len(cases), BATCH):
            tag = "fr%d" % (b // BATCH)
            cout, cev = run_framing_driver(work, binary, cases[b:b + BATCH], tag, stats)
            t0 = time.time()
            got = framing_judge(work, verdict, stats, cout, tag, inputs=inputs)
            stats["wall"]["monitor"] = round(stats["wall"].get("monitor", 0) + time.time() - t0, 1)
            t0 = time.time()
            framing_conformance(work, stats, cev, tag)
            stats["wall"]["trace_validation"] = round(stats["wall"].get("trace_validation", 0) + time.time() - t0, 1)
            recs += got if b == 0 else [c for c in got if c["tag"] == "fc14-min"]
            for c in got:
                stats["cases_by_kind"][c["kind"]] = stats["cases_by_kind"].get(c["kind"], 0) + 1
            for f in (cout, cev):
                os.remove(f)
        pcases = pconn_cases(rng, paths, 60 if quick else 600, 40 if quick else 400)
        inputs.update({c["id"]: c for c in pcases})
        pout = run_pconn_driver(work, binary, pcases, stats)
        recs += framing_judge(work, verdict, stats, pout, "pc", inputs=inputs)
        acases = active_cases(rng)
        inputs.update({c["id"]: c for c in acases})
        aout = run_active_driver(work, binary, acases, stats)
        recs += framing_judge(work, verdict, stats, aout, "ac", inputs=inputs)
        for c in recs:
            if c["kind"] not in ("script", "garbage"):
                stats["cases_by_kind"][c["kind"]] = stats["cases_by_kind"].get(c["kind"], 0) + 1
        pick = [c for c in recs if c["tag"].startswith("path") and len(c["rd"]) >= 5][:1] + [c for c in recs if c["tag"] == "fc14-min"]
        for c in pick:
            stats["samples"].append({"input": {k: inputs[c["id"]][k] for k in ("pk", "cap", "trunc", "chunks", "tag")},
                                     "wire": c["wr"], "reads": c["rd"][:12], "returned": c["out"][:6], "result": c["res"]})
    stats["real_cases"] = stats["monitor_cases"]
    stats["exhaustive"] = False
    verdict.coverage.update(stats)
    verdict.coverage["predicates"] = C14_PREDS
    verdict.assumptions = C14_ASSUME
    return verdict.finish()


C14_ASSUME = ["a conn.Read returns between 1 and len(p) bytes or an error (net.Conn contract); zero-byte successful reads are not generated",
              "the small model uses two-valued header bytes (lengths 0..3 fit the header, 4 and 5 stand for 65536+); its paths are scaled to the real length classes by the driver",
              "packet contents are a fixed function of packet index and offset (Fill), the same in the specification and the driver",
              "activeTCPConn is driven over real loopback sockets in real time with a small case set; the chunking there is whatever the kernel delivers"]

PLANS = {"C14": c14}


# ================================================================ C15: TCP mux

MUX_BEHAVIOURS = ["known", "unknown", "late", "garbage", "nonbinding", "nouser", "oversize", "silent", "earlyclose", "stalled"]
MUX_CLASSES = ["known", "unknown", "garbage", "silent", "earlyclose"]     # one bad-first-frame class stands for all four in the quick model check
MUX_INVARIANTS = ["TypeOK", "RoutedByFirstUfrag", "RepliesOnSameConn", "BadFirstFrameClosed", "ProvisionalExpires", "WgCounts",
                  "CloseCompletes", "CloseProgress", "NoStaleRemoval"]
MUX_PARTS = {"RoutedSafe": "RoutedByFirstUfrag", "RepliesRouted": "RoutedByFirstUfrag", "ReplyAccepted": "RoutedByFirstUfrag", "RoutedComplete": "RoutedByFirstUfrag",
             "HandleAlive": "RoutedByFirstUfrag", "NoSpuriousClose": "RoutedByFirstUfrag",
             "BadFirstFrameClosed": "BadFirstFrameClosed", "ProvisionalExpires": "ProvisionalExpires",
             "CloseCompletes": "CloseCompletes", "GetAfterClose": "CloseCompletes"}


def mux_consts(clients, behaviours, **kw):
    d = {"Clients": clients, "Behaviours": "{" + ", ".join(q(b) for b in behaviours) + "}",
         "MaxPc": "4", "RB": "1", "MaxLater": "1", "MaxGet": "2", "MaxRm": "1", "MaxAdv": "2", "MaxReply": "0",
         "MaxExt": "4", "MaxRaces": "1", "StaleWatcher": "FALSE"}
    d.update({k: str(x) for k, x in kw.items()})
    return d


def mux_model_check(work, stats, tier, timeout):
    """TcpMux exhaustively: 2 clients x behaviour classes x interleavings with Get/Remove/Close/Advance."""
    quick = tier == "quick"
    # thorough: one more environment action and replies (measured: 9.0 M distinct states, 5.5 min beside other runs); with the second
    # Close, the IPv6 table and RemoveConnByUfrag's close list in the model, seven behaviours x MaxRaces = 2 x MaxPc = 5 no longer
    # finishes (> 24 M distinct states after 12 min) - the behaviours left out here are covered by the simulated behaviours below
    d = mux_consts("MCClients", MUX_CLASSES, MaxExt=4 if quick else 5, MaxRaces=1, MaxReply=0 if quick else 1, MaxPc=4)
    mod = write_module(work.dir, "MCM", "MC_TcpMux", d,
                       ["SPECIFICATION Spec", "CHECK_DEADLOCK FALSE", "SYMMETRY MCSym"] + ["INVARIANT " + i for i in MUX_INVARIANTS])
    # write_module maps every constant through an operator; the model values of MC_TcpMux are declared in the cfg
    cfg = open(os.path.join(work.dir, mod + ".cfg")).read().replace("CONSTANTS\n", "CONSTANTS\n  c1 = c1\n  c2 = c2\n", 1)
    open(os.path.join(work.dir, mod + ".cfg"), "w").write(cfg)
    r = v.require(v.tlc(work.dir, mod, timeout=timeout), "TcpMux model check")
    stats["states"] += r.distinct
    stats["transitions"] += r.generated
    run = {"module": "TcpMux", "constants": {k: x for k, x in d.items() if k != "Clients"}, "clients": 2, "distinct": r.distinct,
           "generated": r.generated, "depth": r.depth, "wall_s": round(r.wall, 1), "invariants": MUX_INVARIANTS,
           "violated": sorted(set(r.invariants_violated)), "complete": r.completed}
    stats["model_runs"].append(run)
    if r.invariants_violated:
        # a design-level counterexample: only a real trace can turn it into a verdict (DESIGN 2.2)
        stats.setdefault("model_counterexamples", []).append({"invariants": sorted(set(r.invariants_violated))})
        sys.stderr.write("MODEL-COUNTEREXAMPLE spec=TcpMux invariants=%s (not a verdict)\n" % sorted(set(r.invariants_violated)))
    return r


STEP_RE = re.compile(r'^State \d+: <(\w+)(?:\((.*?)\))? line')


def mux_stale_counterexample(work, stats, timeout=120):
    """Near miss (DESIGN 2.3): TcpMux with the guard "a watcher unlists only its own packet conn" removed (StaleWatcher = TRUE,
    the defect F-C15a repaired by 1201bc6). TLC's shortest counterexample to NoStaleRemoval becomes a schedule for the real mux,
    followed by a client for that ufrag: on a tree with the guard the predicates hold, without it they fail."""
    d = mux_consts("{1, 2}", ["known", "silent"], MaxExt=3, MaxRaces=2, StaleWatcher="TRUE")
    mod = write_module(work.dir, "MCMstale", "TcpMuxSim", d, ["INIT SimInit", "NEXT SimNext", "CHECK_DEADLOCK FALSE", "INVARIANT StaleDump"])
    r = v.require(v.tlc(work.dir, mod, timeout=timeout, workers=1), "TcpMux NoStaleRemoval")
    stats["states"] += r.distinct
    stats["transitions"] += r.generated
    cex = []
    for line in r.out.splitlines():
        m = BEH_RE.search(line)
        if m:
            cex.append(json.loads(m.group(1).replace('\\"', '"')))
    stats["model_runs"].append({"module": "TcpMux", "instance": "near miss: StaleWatcher = TRUE (watcher unlists whatever is registered), NoStaleRemoval must fail, 3 environment actions",
                                "distinct": r.distinct, "generated": r.generated, "wall_s": round(r.wall, 1),
                                "violated": ["NoStaleRemoval"] if cex else [], "counterexample_states": len(cex)})
    if not cex:
        return None
    b = min(cex, key=lambda x: len(x["acts"]))
    acts = []
    for a in b["acts"]:
        x = {"ev": a["ev"], "w": a["w"]}
        for k in ("c", "u", "h"):
            if a.get(k):
                x[k] = a[k]
        acts.append(x)
    u = next((a["u"] for a in reversed(acts) if a["ev"] == "Get"), "u1")
    tail = [{"ev": "Dial", "c": 1, "w": True}, {"ev": "Send", "c": 1, "w": True}]
    stats["near_miss_schedules"] += 1
    return {"beh": ["known" if u == "u1" else "unknown", "silent"], "rb": 1, "later": 1, "acts": acts + tail, "tag": "near-miss NoStaleRemoval (regression F-C15a)"}


BEH_RE = re.compile(r'<<"BEH", "(.*)">>\s*$')


def mux_simulate(work, stats, n, seed, timeout=120):
    """Behaviours of TcpMux from TLC's simulation mode (3 clients, all behaviours, larger budgets) as scenarios."""
    d = mux_consts("{1, 2, 3}", MUX_BEHAVIOURS, MaxPc=8, MaxLater=2, MaxGet=3, MaxRm=2, MaxAdv=4, MaxReply=2, MaxExt=14, MaxRaces=2)
    mod = write_module(work.dir, "SIMM", "TcpMuxSim", d, ["INIT SimInit", "NEXT SimNext", "INVARIANT Dump", "CHECK_DEADLOCK FALSE"])
    workers = 1      # one worker: the behaviours are a function of the seed
    r = v.tlc(work.dir, mod, workers=workers, timeout=timeout, simulate="num=%d" % max(1, n // workers + 1), depth=400, seed=seed)
    if r.error:
        sys.stderr.write(r.out[-2000:])
        raise v.Inconclusive("TcpMux simulation: TLC %s" % r.error)
    seen, scs = set(), []
    for line in r.out.splitlines():
        m = BEH_RE.search(line)
        if not m:
            continue
        txt = m.group(1).replace('\\"', '"')
        if txt in seen:
            continue
        seen.add(txt)
        b = json.loads(txt)
        if len(b["acts"]) < 3:
            continue
        acts = []
        for a in b["acts"]:
            x = {"ev": a["ev"], "w": a["w"]}
            for k in ("c", "u", "h"):
                if a.get(k):
                    x[k] = a[k]
            acts.append(x)
        scs.append({"beh": b["beh"], "rb": 1, "later": 2, "acts": acts, "tag": "tlc-simulate"})
    stats["model_runs"].append({"module": "TcpMuxSim", "mode": "simulate", "behaviours": len(scs), "wall_s": round(r.wall, 1),
                                "constants": {k: x for k, x in d.items()}})
    return scs[:n]


def run_mux_driver(work, binary, scs, tag, stats, timeout=240, quiet=False):
    import time
    cin, cout, cst = (work.path("%s-%s" % (tag, x)) for x in ("in.json", "out.ndjson", "stats.json"))
    json.dump(scs, open(cin, "w"))
    jp = work.path(tag + "-job.json")
    json.dump({"cases": cin, "out": cout, "stats": cst}, open(jp, "w"))
    t0 = time.time()
    rc, out, wall = v.run_harness(binary, "TestMux", jp, timeout=timeout)
    if rc != 0 or not os.path.exists(cst):
        if not quiet:
            sys.stderr.write(out[-3000:])
        raise v.Inconclusive("mux driver failed (rc %d)" % rc)
    st = json.load(open(cst))
    stats["wall"]["driver_" + tag] = round(time.time() - t0, 1)
    stats["real_traces"] += st["scenarios"]
    stats["real_steps"] += st["events"]
    stats["skipped_actions"] += st["skipped"]
    stats["bubble_leaks"] += st["leaks"]
    return cout


def mux_features(part, lines, idx):
    """Shape of the offending observation: which part of the predicate, before which action, and whether the ufrag
    concerned was re-obtained by GetConnByUfrag right after RemoveConnByUfrag without the mux becoming idle in between."""
    start = max(i for i in range(idx + 1) if lines[i]["ev"] == "Reset")
    e = lines[idx]
    f = {"predicate": MUX_PARTS[part], "part": part}
    # ufrags whose current packet conn was registered (by GetConnByUfrag or by a first frame naming the ufrag) after
    # RemoveConnByUfrag(u) without the mux having become idle in between: the removed conn's watcher goroutine is still due
    burst = set()
    pending = set()    # ufrags removed since the driver last waited for quiescence
    beh = lines[start]["beh"]
    for i in range(start + 1, idx):
        x = lines[i]
        if x["w"]:
            pending.clear()
        u = None
        if x["ev"] == "Get" and x["ok"]:
            u = x["u"]
        elif (x["ev"] == "Dial" and beh[x["c"] - 1] in ("known", "unknown")) or (x["ev"] == "Send" and x["k"] == 1):
            u = "u9" if beh[x["c"] - 1] == "unknown" else "u1"
        if u is not None and u in pending:
            burst.add(u)
        if x["ev"] == "Remove":
            burst.discard(x["u"])
            pending.add(x["u"])
    f["reregistered_right_after_remove"] = bool(burst)
    f["after_handle_abort"] = any(lines[i]["ev"] == "HAbort" for i in range(start + 1, idx))
    if e["ev"] == "Exit":
        f["leak"] = e["leak"]
    f["trace"] = {"scenario": lines[start]["id"], "line": idx - start, "before": e["ev"], "beh": beh, "burst_ufrags": sorted(burst), "note": e.get("note", "")[:200]}
    return f


def mux_judge(work, verdict, stats, outfile, tag, scs, timeout=600):
    lines = v.read_ndjson(outfile)
    mod = write_module(work.dir, "MONM_" + tag, "TcpMuxMon",
                       {"TraceFile": q(outfile), "MaxClients": "3", "Check": "{" + ", ".join(q(p) for p in MUX_PARTS) + "}"},
                       ["SPECIFICATION Spec", "INVARIANT Report", "CHECK_DEADLOCK FALSE"])
    r = v.tlc(work.dir, mod, workers=1, timeout=timeout)
    if r.error or not r.clean or r.distinct != len(lines) + 1:
        sys.stderr.write(r.out[-3000:])
        raise v.Inconclusive("mux monitor run %s did not complete (%s, %d states for %d lines)" % (tag, r.error, r.distinct, len(lines)))
    stats["monitor_states"] += r.distinct
    stats["monitor_predicates_evaluated"] += r.distinct * len(MUX_PARTS)
    byid = {s["id"]: s for s in scs}
    seen = {}
    for part, line in r.prints("VIOL"):
        idx = int(line) - 1
        feat = mux_features(part, lines, idx)
        key = json.dumps({k: x for k, x in feat.items() if k != "trace"}, sort_keys=True)
        seen[key] = seen.get(key, 0) + 1
        if seen[key] > 3 and not v.match_known(verdict.known, feat):
            stats["violations_not_listed"] = stats.get("violations_not_listed", 0) + 1
            continue
        start = max(i for i in range(idx + 1) if lines[i]["ev"] == "Reset")

        def writer(path, start=start, idx=idx, part=part):
            json.dump({"property": verdict.prop, "family": FAMILY, "predicate": MUX_PARTS[part], "part": part, "driver": "TestMux",
                       "scenario": byid.get(lines[start]["id"]), "events": lines[start:idx + 1]}, open(path, "w"))
        verdict.report(feat, writer)
    return lines


def mux_conformance(work, stats, lines, tag, max_traces, timeout=600):
    """TcpMuxTrace over the first max_traces recorded traces (evidence, not verdict)."""
    starts = [i for i, e in enumerate(lines) if e["ev"] == "Reset"]
    if not starts:
        return
    end = starts[max_traces] if len(starts) > max_traces else len(lines)
    sel = lines[:end]
    ntr = len([i for i in starts if i < end])
    path = work.path("tr-%s.ndjson" % tag)
    write_ndjson(path, sel)
    d = mux_consts("{1, 2, 3}", MUX_BEHAVIOURS, MaxPc=9, MaxLater=2, MaxGet=99, MaxRm=99, MaxAdv=99, MaxReply=99, MaxExt=999, MaxRaces=999)
    d["TraceFile"] = q(path)
    mod = write_module(work.dir, "TRM_" + tag, "TcpMuxTrace", d,
                       ["SPECIFICATION TSpec", "INVARIANT HWM", "POSTCONDITION Accepted", "CHECK_DEADLOCK FALSE"])
    r = v.tlc(work.dir, mod, workers=1, timeout=timeout, dfs=True)
    if r.error:
        sys.stderr.write(r.out[-2000:])
        raise v.Inconclusive("mux trace validation %s: TLC %s" % (tag, r.error))
    stats["trace_states"] = stats.get("trace_states", 0) + r.distinct
    if r.clean:
        stats["traces_validated_against_impl"] += ntr
    else:
        rej = r.prints("TRACE_REJECTED_AT")
        at = int(rej[0][0]) if rej else 0      # highest line position reached: that line could not be explained
        ok = len([i for i in starts if i + 1 <= at]) - 1
        stats["traces_validated_against_impl"] += max(ok, 0)
        stats["nonconforming_traces"] += 1
        e = sel[at - 1] if 0 < at <= len(sel) else {}
        s0 = max([i for i in starts if i < at] or [0])
        msg = "NONCONFORMANCE spec=TcpMux line=%d (step %d of scenario %s) ev=%s" % (at, at - 1 - s0, sel[s0].get("id"), {k: e.get(k) for k in ("ev", "c", "u", "h", "w")})
        stats["nonconformance"].append(msg)
        sys.stderr.write(msg + "\n")


def c15(tier, seed):
    import time
    quick = tier == "quick"
    verdict = v.Verdict("C15", tier, seed)
    stats = new_stats()
    stats.update({"real_traces": 0, "real_steps": 0, "skipped_actions": 0, "bubble_leaks": 0, "monitor_states": 0})
    rng = random.Random(seed)
    with v.Work("C15") as work:
        work.copy_specs(FAMILY)
        binary = v.build_harness(work, pkg=FAMILY)
        t0 = time.time()
        mux_model_check(work, stats, tier, timeout=150 if quick else 2400)
        stale = mux_stale_counterexample(work, stats)
        stats["wall"]["model_check"] = round(time.time() - t0, 1)
        t0 = time.time()
        scs = ([stale] if stale else []) + MUX_DIRECTED + mux_simulate(work, stats, 300 if quick else 3000, seed)
        stats["wall"]["simulate"] = round(time.time() - t0, 1)
        for i, s in enumerate(scs):
            s["id"] = i + 1
            if s["tag"] == "tlc-simulate" and i % 5 == 4:      # the real code also with other receive-queue sizes
                s["rb"] = rng.choice([0, 8])
        cout = run_mux_driver(work, binary, scs, "mux", stats)
        t0 = time.time()
        lines = mux_judge(work, verdict, stats, cout, "mux", scs)
        stats["wall"]["monitor"] = round(time.time() - t0, 1)
        t0 = time.time()
        gated_check(work, binary, verdict, stats)
        stats["wall"]["gated"] = round(time.time() - t0, 1)
        t0 = time.time()
        conf = [s for s in scs if s["rb"] == 1]
        # conformance on the scenarios whose receive queue has the size the model was instantiated with
        keep, ids = [], {s["id"] for s in conf}
        cur = False
        for e in lines:
            if e["ev"] == "Reset":
                cur = e["id"] in ids
            if cur:
                keep.append(e)
        mux_conformance(work, stats, keep, "mux", 100 if quick else 1500, timeout=200 if quick else 800)
        stats["wall"]["trace_validation"] = round(time.time() - t0, 1)
        first = next((i for i, e in enumerate(lines) if e["ev"] == "Reset" and i > 0), len(lines))
        stats["samples"].append({"scenario": {k: scs[0][k] for k in ("beh", "rb", "acts", "tag")},
                                 "events": [{k: e[k] for k in ("ev", "c", "u", "h", "k", "ok", "w", "pre")} for e in lines[:min(first, 14)]]})
    stats["predicates"] = sorted(set(MUX_PARTS.values()))
    verdict.coverage.update(stats)
    verdict.assumptions = C15_ASSUME
    return verdict.finish()


def gated_check(work, binary, verdict, stats, copies=8):
    """The gated scenarios, several copies each, one driver process per copy. Where a closed packet connection is handed a TCP
    connection after all, its reader's select between "closed" and "hand over the first packet" is decided by the Go runtime:
    one branch leaves the connection open for ever (judged by the monitor like any other trace), the other panics inside the
    library and takes the driver process with it. A run that died is counted and set aside - a dead driver is never a verdict -
    and the surviving copies are judged."""
    died, ran = 0, 0
    for k in range(copies):
        for j, sc0 in enumerate(MUX_GATED):
            sc = json.loads(json.dumps(sc0))
            sc["id"] = 1
            tag = "gated%d_%d" % (j, k)
            st = new_stats()
            st.update({"real_traces": 0, "real_steps": 0, "skipped_actions": 0, "bubble_leaks": 0, "monitor_states": 0})
            try:
                cout = run_mux_driver(work, binary, [sc], tag, st, timeout=60, quiet=True)
            except v.Inconclusive:
                died += 1
                continue
            ran += 1
            mux_judge(work, verdict, st, cout, tag, [sc])
            stats["real_traces"] += st["real_traces"]
            stats["real_steps"] += st["real_steps"]
            stats["monitor_states"] += st["monitor_states"]
    stats["gated_scenarios"] = {"shapes": len(MUX_GATED), "copies": copies, "judged": ran, "driver_died": died}
    if ran == 0:
        raise v.Inconclusive("every gated scenario killed its driver")


def handle_abort_check(work, verdict, stats, copies=6):
    """C13 on TCP-mux handles with a TCP connection attached: the directed HAbort scenarios (SetDeadline(now) + Close on one of
    two handles of a packet connection) are driven through the TCP mux driver and judged by the TcpMux monitor; a violation
    (the sibling loses its connection or its packets) is reported under the calling property's verdict."""
    binary = v.build_harness(work, pkg=FAMILY)
    for f in os.listdir(os.path.join(v.SPECS, FAMILY)):
        shutil.copy(os.path.join(v.SPECS, FAMILY, f), work.dir)
    scs = [json.loads(json.dumps(s)) for _ in range(copies) for s in MUX_HABORT]
    for i, s in enumerate(scs):
        s["id"] = i + 1
    st = new_stats()
    st.update({"real_traces": 0, "real_steps": 0, "skipped_actions": 0, "bubble_leaks": 0, "monitor_states": 0})
    cout = run_mux_driver(work, binary, scs, "habort", st)
    mux_judge(work, verdict, st, cout, "habort", scs)
    stats["tcp_handle_abort_scenarios"] = len(scs)
    stats["real_traces"] = stats.get("real_traces", 0) + st["real_traces"]
    stats["real_steps"] = stats.get("real_steps", 0) + st["real_steps"]


# C13 on TCP-mux handles (run from the C13 check, plan_udpmux): what an agent does to ITS handle when it drops a candidate
MUX_HABORT = [
    {"beh": ["known", "known", "silent"], "rb": 1, "later": 2, "tag": "directed: one of two handles is aborted (SetDeadline(now) + Close), the sibling goes on",
     "acts": [{"ev": "Get", "u": "u1", "w": True}, {"ev": "Get", "u": "u1", "w": True}, {"ev": "Dial", "c": 1, "w": True}, {"ev": "Send", "c": 1, "w": True},
              {"ev": "HAbort", "h": 2, "w": True}, {"ev": "Advance", "w": True}, {"ev": "Send", "c": 1, "w": True}, {"ev": "Reply", "h": 1, "c": 1, "w": True},
              {"ev": "Dial", "c": 2, "w": True}, {"ev": "Send", "c": 2, "w": True}, {"ev": "Send", "c": 1, "w": True}]},
    {"beh": ["known", "silent", "silent"], "rb": 1, "later": 2, "tag": "directed: one of two handles is aborted, reads and later packets only",
     "acts": [{"ev": "Get", "u": "u1", "w": True}, {"ev": "Get", "u": "u1", "w": True}, {"ev": "Dial", "c": 1, "w": True}, {"ev": "Send", "c": 1, "w": True},
              {"ev": "HAbort", "h": 2, "w": True}, {"ev": "Advance", "w": True}, {"ev": "Send", "c": 1, "w": True}, {"ev": "Send", "c": 1, "w": True}]},
]


# directed scenarios replayed in every run; the first is the history that reproduced F-C15a (repaired by 1201bc6; the same
# history also comes from TLC's near-miss counterexample above) and must now pass
# the gate at AddConn's yield point (tm.addconn): a first frame that has found its packet connection is held there while the
# application removes the ufrag or closes the mux. Each copy runs in a driver process of its own (see gated_check).
MUX_GATED = [
    {"beh": ["late", "silent", "silent"], "rb": 1, "later": 1, "tag": "directed RemoveConnByUfrag while a first frame is being attached (gate at AddConn)",
     "acts": [{"ev": "Get", "u": "u1", "w": True}, {"ev": "Dial", "c": 1, "w": True}, {"ev": "HoldAdd", "w": True}, {"ev": "Send", "c": 1, "w": True},
              {"ev": "Remove", "u": "u1", "w": True}, {"ev": "FreeAdd", "w": True}, {"ev": "Advance", "w": True}]},
    {"beh": ["late", "late", "silent"], "rb": 1, "later": 1, "tag": "directed Close while first frames are being attached (gate at AddConn)",
     "acts": [{"ev": "Dial", "c": 1, "w": True}, {"ev": "Dial", "c": 2, "w": True}, {"ev": "HoldAdd", "w": True}, {"ev": "Send", "c": 1, "w": True},
              {"ev": "Send", "c": 2, "w": True}, {"ev": "Close", "w": True}, {"ev": "FreeAdd", "w": True}, {"ev": "Advance", "w": True}]},
]

MUX_DIRECTED = [
    {"beh": ["known", "silent", "silent"], "rb": 1, "later": 1, "tag": "directed dual-stack ufrag: RemoveConnByUfrag clears both tables",
     "acts": [{"ev": "Dial", "c": 1, "w": True}, {"ev": "Send", "c": 1, "w": True}, {"ev": "Get", "u": "u1", "w": True}, {"ev": "Get", "u": "u1/6", "w": True},
              {"ev": "Remove", "u": "u1", "w": True}, {"ev": "Get", "u": "u1/6", "w": True}, {"ev": "Get", "u": "u1", "w": True},
              {"ev": "Remove", "u": "u1", "w": True}, {"ev": "Advance", "w": True}]},
    {"beh": ["silent", "silent", "silent"], "rb": 1, "later": 1, "tag": "directed IPv6-only registration removed and closed",
     "acts": [{"ev": "Get", "u": "u9/6", "w": True}, {"ev": "Remove", "u": "u9", "w": True}, {"ev": "Get", "u": "u9/6", "w": True}, {"ev": "Close", "w": True}]},
    {"beh": ["known", "silent"], "rb": 1, "later": 1, "tag": "directed remove-then-get (regression F-C15a)",
     "acts": [{"ev": "Get", "u": "u1", "w": True}, {"ev": "Remove", "u": "u1", "w": True}, {"ev": "Get", "u": "u1", "w": False},
              {"ev": "Dial", "c": 1, "w": True}, {"ev": "Send", "c": 1, "w": True}]},
    {"beh": ["known", "silent", "late"], "rb": 1, "later": 1, "tag": "directed remove-then-first-frame (regression F-C15a)",
     "acts": [{"ev": "Get", "u": "u1", "w": True}, {"ev": "Dial", "c": 3, "w": True}, {"ev": "Remove", "u": "u1", "w": True},
              {"ev": "Send", "c": 3, "w": False}, {"ev": "Advance", "w": True}, {"ev": "Get", "u": "u1", "w": True}, {"ev": "Send", "c": 3, "w": True}]},
    {"beh": ["known", "unknown", "garbage"], "rb": 1, "later": 2, "tag": "directed routing",
     "acts": [{"ev": "Get", "u": "u1", "w": True}, {"ev": "Dial", "c": 1, "w": True}, {"ev": "Send", "c": 1, "w": True},
              {"ev": "Dial", "c": 2, "w": True}, {"ev": "Dial", "c": 3, "w": True}, {"ev": "Reply", "h": 1, "c": 1, "w": True},
              {"ev": "Send", "c": 2, "w": True}, {"ev": "Advance", "w": True}, {"ev": "Get", "u": "u9", "w": True},
              {"ev": "Reply", "h": 2, "c": 2, "w": True}, {"ev": "Send", "c": 1, "w": True}, {"ev": "CClose", "c": 1, "w": True}]},
    {"beh": ["unknown", "silent", "late"], "rb": 1, "later": 1, "tag": "directed timers",
     "acts": [{"ev": "Dial", "c": 1, "w": True}, {"ev": "Dial", "c": 2, "w": True}, {"ev": "Dial", "c": 3, "w": True},
              {"ev": "Advance", "w": True}, {"ev": "Send", "c": 3, "w": True}, {"ev": "Advance", "w": True},
              {"ev": "Get", "u": "u1", "w": True}, {"ev": "Advance", "w": True}, {"ev": "Get", "u": "u9", "w": True}]},
    {"beh": ["known", "known", "silent"], "rb": 1, "later": 2, "tag": "directed adoption then a second connection of the same ufrag",
     "acts": [{"ev": "Dial", "c": 1, "w": True}, {"ev": "Send", "c": 1, "w": True}, {"ev": "Get", "u": "u1", "w": True},
              {"ev": "Dial", "c": 2, "w": True}, {"ev": "Send", "c": 2, "w": True}, {"ev": "Advance", "w": True}, {"ev": "Advance", "w": True},
              {"ev": "Send", "c": 1, "w": True}, {"ev": "Reply", "h": 1, "c": 2, "w": True}, {"ev": "Advance", "w": True}, {"ev": "Send", "c": 2, "w": True}]},
    {"beh": ["unknown", "unknown", "silent"], "rb": 1, "later": 2, "tag": "directed adoption of a provisional connection, second connection, time",
     "acts": [{"ev": "Dial", "c": 1, "w": True}, {"ev": "Send", "c": 1, "w": True}, {"ev": "Get", "u": "u9", "w": True},
              {"ev": "Dial", "c": 2, "w": True}, {"ev": "Send", "c": 2, "w": True}, {"ev": "Advance", "w": True}, {"ev": "Advance", "w": True},
              {"ev": "Send", "c": 2, "w": True}, {"ev": "Reply", "h": 1, "c": 1, "w": True}]},
    {"beh": ["silent", "known", "silent"], "rb": 1, "later": 1, "tag": "directed two Close calls while a connection still waits for its first frame",
     "acts": [{"ev": "Dial", "c": 1, "w": True}, {"ev": "Dial", "c": 2, "w": True}, {"ev": "Send", "c": 2, "w": True}, {"ev": "Get", "u": "u1", "w": True},
              {"ev": "Close", "w": True}, {"ev": "Close", "w": True}, {"ev": "Get", "u": "u1", "w": True}, {"ev": "Advance", "w": True},
              {"ev": "Get", "u": "u9", "w": True}, {"ev": "Advance", "w": True}]},
    {"beh": ["known", "silent", "silent"], "rb": 1, "later": 1, "tag": "directed second Close racing the first",
     "acts": [{"ev": "Dial", "c": 1, "w": True}, {"ev": "Send", "c": 1, "w": True}, {"ev": "Dial", "c": 2, "w": True},
              {"ev": "Close", "w": True}, {"ev": "Close", "w": False}, {"ev": "Advance", "w": True}, {"ev": "Advance", "w": True}]},
    {"beh": ["stalled", "known", "stalled"], "rb": 1, "later": 1, "tag": "directed first frame that stalls after its length prefix: deadline, then Close with one still stalled",
     "acts": [{"ev": "Dial", "c": 1, "w": True}, {"ev": "Dial", "c": 2, "w": True}, {"ev": "Send", "c": 2, "w": True}, {"ev": "Get", "u": "u1", "w": True},
              {"ev": "Advance", "w": True}, {"ev": "Advance", "w": True}, {"ev": "Dial", "c": 3, "w": True}, {"ev": "Close", "w": True},
              {"ev": "Advance", "w": True}, {"ev": "Advance", "w": True}]},
    {"beh": ["known", "late", "unknown"], "rb": 1, "later": 1, "tag": "directed replies to addresses that are not attached to the handle (one attached connection, then two)",
     "acts": [{"ev": "Dial", "c": 1, "w": True}, {"ev": "Send", "c": 1, "w": True}, {"ev": "Get", "u": "u1", "w": True},
              {"ev": "Dial", "c": 2, "w": True}, {"ev": "Dial", "c": 3, "w": True}, {"ev": "Send", "c": 3, "w": True}, {"ev": "Get", "u": "u9", "w": True},
              {"ev": "Reply", "h": 1, "c": 2, "w": True}, {"ev": "Reply", "h": 1, "c": 3, "w": True}, {"ev": "Reply", "h": 2, "c": 1, "w": True},
              {"ev": "Reply", "h": 1, "c": 1, "w": True}, {"ev": "Send", "c": 2, "w": True}, {"ev": "Reply", "h": 1, "c": 2, "w": True},
              {"ev": "Reply", "h": 1, "c": 3, "w": True}, {"ev": "CClose", "c": 1, "w": True}, {"ev": "Reply", "h": 1, "c": 1, "w": True},
              {"ev": "Reply", "h": 2, "c": 3, "w": True}]},
    {"beh": ["known", "oversize", "nouser"], "rb": 1, "later": 1, "tag": "directed close with clients in every phase",
     "acts": [{"ev": "Dial", "c": 1, "w": True}, {"ev": "Dial", "c": 2, "w": True}, {"ev": "Dial", "c": 3, "w": False},
              {"ev": "Close", "w": False}]},
]

C15_ASSUME = ["TCP connections are net.Pipe pairs behind a fake net.Listener inside a testing/synctest bubble (virtual time, exact quiescence); "
              "a locally closed connection reports net.ErrClosed like a TCP socket",
              "one IPv4 local address; two ufrags (one the application asks for, one it does not); up to three clients per scenario",
              "the goroutines of the mux cannot be scheduled individually (no yield points in tcp_mux.go): interleavings below the "
              "granularity of a driver action are explored exhaustively in the model, on the real code only as the Go scheduler produces them",
              "time advances in steps of 16 s, so a 30 s timer fires during the second step after it was armed"]

PLANS["C15"] = c15


# ================================================================ replay, manifest

def replay(path):
    """Re-run one recorded case (evidence/replay file written with a VIOLATION line) on the current tree and re-judge it:
    ./check replay-tcp --replay <path>"""
    rp = json.load(open(path))
    prop = rp["property"]
    verdict = v.Verdict(prop, "quick", 0)
    stats = new_stats()
    stats.update({"real_traces": 0, "real_steps": 0, "skipped_actions": 0, "bubble_leaks": 0, "monitor_states": 0})
    with v.Work("replay-" + FAMILY) as work:
        work.copy_specs(FAMILY)
        binary = v.build_harness(work, pkg=FAMILY)
        if prop == "C14":
            c = dict(rp["input"])
            kind = rp["record"]["kind"]
            if kind in ("script", "garbage"):
                cout, _ = run_framing_driver(work, binary, [c], "rp", stats)
            elif kind.startswith("pconn"):
                cout = run_pconn_driver(work, binary, [c], stats)
            else:
                cout = run_active_driver(work, binary, [c], stats)
            framing_judge(work, verdict, stats, cout, "rp", inputs={c["id"]: c})
        else:
            sc = dict(rp["scenario"])
            cout = run_mux_driver(work, binary, [sc], "rp", stats)
            mux_judge(work, verdict, stats, cout, "rp", [sc])
    for kid, (what, cnt) in verdict.known_hits.items():
        print("KNOWN-FINDING: property=%s %s" % (prop, what))
    for feat, p in verdict.violations:
        print("VIOLATION property=%s replay=%s" % (prop, p))
    return 1 if verdict.violations else 0


def _replay_plan(tier, seed):
    if "--replay" not in sys.argv:
        sys.stderr.write("usage: ./check replay-tcp --replay <path>\n")
        return 2
    return replay(sys.argv[sys.argv.index("--replay") + 1])


PLANS["replay-tcp"] = _replay_plan

TCP_NOTE = ("Trusted base: TLC; the Go drivers (scripted net.Conn, fake net.Listener + net.Pipe connections with TCP addresses, the "
            "description of returned bytes in terms of the packets written); testing/synctest's virtual clock and quiescence detection; "
            "the tagged export /repo/verif_export_tcp.go. The verdict is a TLA+ predicate of specs/tcp/TcpFramingMon.tla or "
            "specs/tcp/TcpMuxMon.tla evaluated by TLC on what the real code in /repo's working tree did in this run; conformance of "
            "the same runs to specs/tcp/TcpFraming.tla / TcpMux.tla (trace validation) is reported as evidence. A violation file is "
            "re-run with ./check replay-tcp --replay <path>.")
MANIFEST = {
    "C14": ("model_checking", "5.C14",
            "TcpFraming.tla (writer with refusal, reader's two-phase loop, one action per conn.Read) model-checked at small scale for every "
            "sequence of <= 3 packets over the length classes x buffers x truncations; every PATH of its acyclic state graph (= every "
            "chunking) is scaled to the real length classes (0,1,2,255,256,cap-1,cap,cap+1,65535,65536+) and replayed as a scripted "
            "net.Conn on the real readStreamingPacket fed by the real writeStreamingPacket (quick: all chunkings of <= 2 packets and a "
            "seeded sample for 3; thorough: all), plus seeded random chunkings of long streams, arbitrary byte streams, tcpPacketConn "
            "behind a real TCPMuxDefault (both directions, with and without write buffer) and activeTCPConn over loopback sockets; "
            "judged by the monitor predicates NoTruncHeader, WriterDelivers, ErrNotGarbage, RoundTrip, BoundedRead.",
            TCP_NOTE, "TLA+ spec model-checked with TLC; all paths of the state graph replayed on the real code; recorded runs validated "
            "against the spec and judged by a TLA+ monitor in TLC"),
    "C15": ("model_checking", "5.C15",
            "TcpMux.tla (handleConn, per-connection reader, watcher and alive-timer goroutines, m.mu as a lock, m.wg as a counter, "
            "Get/Remove/Close, countdown timers) model-checked exhaustively for 2 clients x behaviour classes x interleavings within a "
            "bound on environment actions and on actions that race with the mux's goroutines; TLC simulation behaviours (3 clients, nine "
            "client behaviours), TLC's near-miss counterexample to NoStaleRemoval and directed schedules are replayed on the real TCPMuxDefault over a "
            "fake listener and net.Pipe connections inside synctest bubbles (virtual 30 s timers, goroutine-leak oracle); recorded traces "
            "are validated against TcpMux (silent internal steps) and judged by the monitor predicates RoutedByFirstUfrag, "
            "BadFirstFrameClosed, ProvisionalExpires, CloseCompletes.",
            TCP_NOTE, "TLA+ spec model-checked with TLC; TLC-generated behaviours replayed on the real code; recorded traces validated "
            "against the spec (silent-step composition) and judged by a TLA+ monitor in TLC"),
}
