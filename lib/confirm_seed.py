"""python3 lib/confirm_seed.py <worktree> <variant a|b> <seed id> <property> : confirm a seeded defect in its scratch worktree
(applies, vets, full suite green with the change, demo fails with / passes without), run the property's quick check against it
(VERIF_REPO), and store it under /verif/seeded/<seed id>/."""
import json, os, shutil, subprocess, sys, time
wt, var, sid, prop = sys.argv[1:5]
ROOT = os.path.dirname(os.path.dirname(os.path.abspath(__file__)))
aside = wt.rstrip("/") + "-out"
if os.path.isdir(os.path.join(wt, "out")):   # keep the agent's output out of ./...
    shutil.rmtree(aside, ignore_errors=True)
    shutil.move(os.path.join(wt, "out"), aside)
src = os.path.join(aside, var)
env = dict(os.environ, GOFLAGS="-mod=mod")
# evaluate on the current HEAD of /repo when the patch still applies there (the seed was written against an older HEAD)
seed_wt = wt
fresh = "/var/tmp/vs/cs-" + sid
subprocess.run(["git", "-C", "/repo", "worktree", "remove", "--force", fresh], capture_output=True)
subprocess.run(["git", "-C", "/repo", "worktree", "add", "-q", fresh, "HEAD"], check=True)
if subprocess.run(["git", "-C", fresh, "apply", "--check", os.path.join(src, "patch.diff")], capture_output=True).returncode == 0:
    wt = fresh
    base = "current HEAD " + subprocess.run(["git", "-C", "/repo", "rev-parse", "--short", "HEAD"], capture_output=True, text=True).stdout.strip()
else:
    base = "the seed's own base " + subprocess.run(["git", "-C", seed_wt, "rev-parse", "--short", "HEAD"], capture_output=True, text=True).stdout.strip() + " (patch does not apply to the current HEAD)"
def run(cmd, **kw):
    return subprocess.run(cmd, cwd=wt, env=env, capture_output=True, text=True, **kw)
meta = {"seed": sid, "property": prop, "base": base, "ran": []}
run(["git", "checkout", "--", "."])
for f in os.listdir(wt):
    if f.startswith("seed_demo_"): os.remove(os.path.join(wt, f))
demo = [f for f in os.listdir(src) if f.endswith("_test.go")][0]
def demo_run():
    shutil.copy(os.path.join(src, demo), os.path.join(wt, demo))
    r = run(["go", "test", "-count=1", "-timeout", "5m", "-run", "Seed|seed|Demo", "."])
    os.remove(os.path.join(wt, demo))
    return r
r0 = demo_run(); meta["ran"].append({"cmd": "demo on unchanged tree", "rc": r0.returncode})
a = run(["git", "apply", os.path.join(src, "patch.diff")]); meta["ran"].append({"cmd": "git apply patch.diff", "rc": a.returncode})
vt = run(["go", "vet", "."]); meta["ran"].append({"cmd": "go vet .", "rc": vt.returncode})
r1 = demo_run(); meta["ran"].append({"cmd": "demo with the change", "rc": r1.returncode, "tail": r1.stdout[-300:]})
t0 = time.time()
full = run(["go", "test", "-count=1", "-timeout", "25m", "./..."]); 
fails = [l for l in full.stdout.splitlines() if l.startswith("--- FAIL")]
if full.returncode != 0:   # flaky mux tests: retry failing tests once
    names = "|".join(sorted({l.split()[2] for l in fails if len(l.split()) > 2}))
    if names:
        rr = run(["go", "test", "-count=1", "-run", "^(%s)$" % names, "."])
        meta["ran"].append({"cmd": "re-run of failing tests %s" % names, "rc": rr.returncode})
        if rr.returncode == 0: full.returncode = 0
meta["ran"].append({"cmd": "go test -count=1 ./... with the change", "rc": full.returncode, "wall_s": round(time.time() - t0), "fails": fails[:5]})
chk = subprocess.run([os.path.join(ROOT, "check"), prop, "--tier", "quick"], cwd=ROOT, env=dict(os.environ, VERIF_REPO=wt, VERIF_EVIDENCE_DIR="/var/tmp/vs/ev_confirm_" + sid), capture_output=True, text=True)
meta["check"] = {"cmd": "VERIF_REPO=<worktree with the change> ./check %s --tier quick" % prop, "rc": chk.returncode,
                 "violations": [l for l in chk.stdout.splitlines() if l.startswith("VIOLATION")][:3],
                 "details": [l.strip()[:300] for l in chk.stderr.splitlines() if "violation detail" in l][:3]}
run(["git", "checkout", "--", "."])
shutil.rmtree("/var/tmp/vs/ev_confirm_" + sid, ignore_errors=True)
ok = r0.returncode == 0 and a.returncode == 0 and vt.returncode == 0 and r1.returncode != 0 and full.returncode == 0
meta["confirmed"] = ok
meta["caught_by_quick_check"] = chk.returncode == 1
print(json.dumps(meta, indent=1))
subprocess.run(["git", "-C", "/repo", "worktree", "remove", "--force", fresh], capture_output=True)
if ok:
    dst = os.path.join(ROOT, "seeded", sid)
    os.makedirs(dst, exist_ok=True)
    shutil.copy(os.path.join(src, "patch.diff"), dst)
    shutil.copy(os.path.join(src, demo), dst)
    if os.path.exists(os.path.join(src, "notes.md")): shutil.copy(os.path.join(src, "notes.md"), dst)
    json.dump(meta, open(os.path.join(dst, "meta.json"), "w"), indent=1)
