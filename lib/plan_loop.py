"""Checks of the `loop` family: C10 (task loop; thread-safe API) and C11 (callback notifier; gather cycles).

C10: specs/loop/TaskLoop.tla is model-checked exhaustively, its complete state graph is dumped, an edge cover is planned
here and replayed through the yield-point gates on the real internal/taskloop (harness/loop), the recorded steps are
validated by TaskLoopTrace (conformance) and judged by TaskLoopMon (verdict); seeded unguided gated walks and free-running
jitter runs are judged by the same monitor; a -race build of two connected real agents under concurrent public API
calls is judged by ApiRaceMon.
C11: the same machinery for specs/loop/Notifier.tla on the real handlerNotifier (three streams), agent-level runs through
the public On* setters judged by CallbackMon, gather cycles with Restart at every gate judged by GatherMon.
"""
import bisect
import collections
import json
import os
import random
import re
import sys
import threading
import time

import vlib as v

FAMILY = "loop"
EDGE_RE = re.compile(r'^(-?\d+) -> (-?\d+) \[label="((?:[^"\\]|\\.)*)"')


# ---------------------------------------------------------------- state graph, edge cover, achieved coverage

def norm_label(lab):
    return lab.replace('\\"', "").replace('"', "").replace(" ", "")


def parse_dot(path):
    """TLC's `-dump dot,actionlabels` -> (initial node, {src: [(label, dst)]}); stuttering self-loops are dropped."""
    edges = collections.defaultdict(list)
    init = None
    seen = set()
    with open(path) as f:
        for line in f:
            m = EDGE_RE.match(line)
            if m:
                s, d, lab = m.group(1), m.group(2), norm_label(m.group(3))
                if s != d and (s, lab, d) not in seen:
                    seen.add((s, lab, d))
                    edges[s].append((lab, d))
            elif init is None and "style = filled" in line:
                init = line.split(" ", 1)[0]
    return init, edges


def edge_cover(init, edges, targets=None, lookahead=4):
    """Paths from the initial state that together traverse every edge in targets (default: all edges).
    One BFS tree gives the shortest prefix to each edge's source; each path is then extended greedily through
    still-uncovered edges (with a short look-ahead) until none is near."""
    parent = {init: None}
    order = [init]
    q = collections.deque([init])
    while q:
        u = q.popleft()
        for lab, d in edges.get(u, ()):
            if d not in parent:
                parent[d] = (u, lab)
                order.append(d)
                q.append(d)
    uncovered = set(targets) if targets is not None else {(s, lab, d) for s in order for lab, d in edges.get(s, ())}

    def prefix(u):
        p = []
        while parent[u] is not None:
            pu, lab = parent[u]
            p.append((pu, lab, u))
            u = pu
        p.reverse()
        return p

    def near(u):
        """A shortest hop sequence (<= lookahead edges) from u ending with an uncovered edge."""
        frontier = [(u, [])]
        seen = {u}
        for _ in range(lookahead):
            nxt = []
            for x, hops in frontier:
                for lab, d in edges.get(x, ()):
                    if (x, lab, d) in uncovered:
                        return hops + [(x, lab, d)]
                    if d not in seen:
                        seen.add(d)
                        nxt.append((d, hops + [(x, lab, d)]))
            frontier = nxt
        return None

    paths = []
    for u in order:
        while any((u, lab, d) in uncovered for lab, d in edges.get(u, ())):
            path = prefix(u)
            cur = u
            while True:
                hops = near(cur)
                if not hops:
                    break
                for e in hops:
                    uncovered.discard(e)
                    path.append(e)
                cur = hops[-1][2]
            for e in path:
                uncovered.discard(e)
            paths.append([e[1] for e in path])
    return paths


def event_label(e):
    return e["ev"] + ("(%s)" % e["p"] if e.get("p") else "")


def walk_coverage(init, edges, lines, skip=("Drain", "Final")):
    """Edges of the graph exercised by the recorded events; events that leave the graph end the walk of that trace."""
    idx = {}
    for s in edges:
        for lab, d in edges[s]:
            idx[(s, lab)] = d
    covered = set()
    off = 0
    cur = None if callable(init) else init
    for e in lines:
        ev = e["ev"]
        if ev == "Reset":
            cur = init(e) if callable(init) else init
            continue
        if ev in skip or cur is None:
            continue
        lab = event_label(e)
        d = idx.get((cur, lab))
        if d is None:
            off += 1
            cur = None
            continue
        covered.add((cur, lab, d))
        cur = d
    return covered, off


def all_edges(edges):
    return {(s, lab, d) for s in edges for lab, d in edges[s]}


def write_paths(path, paths):
    with open(path, "w") as f:
        for p in paths:
            f.write(json.dumps(p) + "\n")


def tla_set(xs):
    return "{" + ", ".join('"%s"' % x for x in xs) + "}"


def write_cfg(path, consts, lines):
    with open(path, "w") as f:
        if consts:
            f.write("CONSTANTS\n")
            for k, val in consts.items():
                f.write("  %s = %s\n" % (k, val))
        for l in lines:
            f.write(l + "\n")


def split_traces(lines):
    return [i for i, e in enumerate(lines) if e.get("ev") == "Reset"]


INIT_RE = re.compile(r'^(-?\d+) \[label="((?:[^"\\]|\\.)*)",style = filled')


def parse_inits(path):
    """All initial nodes of a dot dump with the value of every variable in their label: {node: {var: text}}."""
    res = {}
    with open(path) as f:
        for line in f:
            m = INIT_RE.match(line)
            if m:
                vals = {}
                for part in m.group(2).split("\\n"):
                    part = part.replace('\\"', '"').replace("\\\\", "\\")
                    mm = re.match(r"\s*/\\\s*(\w+)\s*=\s*(.*)$", part)
                    if mm:
                        vals[mm.group(1)] = mm.group(2).strip()
                res[m.group(1)] = vals
    return res


def notifier_cfg_of(vals):
    kind = re.findall(r'"(\w+)"', vals["kind"])
    return kind, vals["graceful"].strip() == "TRUE"


# ---------------------------------------------------------------- shared helpers of the two checks

def par(*fns):
    """Run thunks concurrently; re-raise the first exception; return results in order."""
    res = [None] * len(fns)
    err = []

    def run(i, f):
        try:
            res[i] = f()
        except BaseException as e:  # noqa
            err.append(e)
    ts = [threading.Thread(target=run, args=(i, f)) for i, f in enumerate(fns)]
    for t in ts:
        t.start()
    for t in ts:
        t.join()
    if err:
        raise err[0]
    return res


def drive(binary, test, job, what, timeout=240, env_extra=None, tolerate_failure=False):
    rc, out, wall = v.run_harness(binary, test, job, timeout=timeout, env_extra=env_extra)
    if rc != 0 and not tolerate_failure:
        sys.stderr.write(out[-3000:])
        raise v.Inconclusive("%s: driver %s failed (rc %d)" % (what, test, rc))
    return rc, out, wall


def monitor(work, module, trace, preds, tag, timeout=600):
    """Run a monitor spec over a recorded trace; returns (TLCResult, [(predicate, 1-based line)])."""
    cfg = "%s_%s.cfg" % (module, tag)
    write_cfg(work.path(cfg), {"TraceFile": '"%s"' % trace, "Check": tla_set(preds)},
              ["SPECIFICATION Spec", "INVARIANT Report", "POSTCONDITION Done", "CHECK_DEADLOCK FALSE"])
    r = v.tlc(work.dir, module, cfg=cfg, workers=1, timeout=timeout)
    if r.error or not r.clean:
        sys.stderr.write(r.out[-3000:])
        raise v.Inconclusive("monitor %s on %s did not complete (%s)" % (module, os.path.basename(trace), r.error))
    return r, [(p, int(n)) for p, n in r.prints("VIOL")]


def validate(work, module, consts, trace, tag, stats, timeout=600):
    """Trace validation (conformance evidence, never a verdict)."""
    cfg = "%s_%s.cfg" % (module, tag)
    c = dict(consts)
    c["TraceFile"] = '"%s"' % trace
    write_cfg(work.path(cfg), c, ["SPECIFICATION TSpec", "POSTCONDITION Accepted", "CHECK_DEADLOCK FALSE"])
    r = v.tlc(work.dir, module, cfg=cfg, workers=1, timeout=timeout)
    if r.error:
        sys.stderr.write(r.out[-2000:])
        raise v.Inconclusive("trace validation %s: TLC %s" % (tag, r.error))
    return r


def account_validation(r, lines, stats, spec, tag):
    resets = split_traces(lines)
    if r.clean:
        stats["traces_validated_against_impl"] += len(resets)
        stats["events_validated"] += len(lines)
        return
    rej = r.prints("TRACE_REJECTED_AT")
    at = int(rej[0][0]) if rej else r.depth + 1
    ok = len([i for i in resets if i + 1 <= at]) - 1
    stats["traces_validated_against_impl"] += max(ok, 0)
    stats["events_validated"] += max(at - 1, 0)
    stats["nonconforming_traces"] += 1
    e = lines[at - 1] if 0 < at <= len(lines) else {}
    msg = "NONCONFORMANCE spec=%s run=%s line=%d ev=%s" % (spec, tag, at, event_label(e) if e else "?")
    stats["nonconformance"].append(msg)
    sys.stderr.write(msg + "\n")


MAX_REPORTS_PER_SHAPE = 3


def report(verdict, stats, feat, writer):
    """verdict.report with a cap on replay files per violation shape (a broken tree produces thousands of the same)."""
    if v.match_known(verdict.known, feat):
        return verdict.report(feat, writer)
    key = json.dumps({k: val for k, val in feat.items() if k in ("predicate", "ev", "cfg", "mode", "stream", "level", "via", "st")}, sort_keys=True)
    seen = stats.setdefault("_shapes", {})
    seen[key] = seen.get(key, 0) + 1
    if seen[key] > MAX_REPORTS_PER_SHAPE:
        stats["violations_not_written"] = stats.get("violations_not_written", 0) + 1
        return True
    return verdict.report(feat, writer)


def segment(lines, idx):
    """The trace (Reset .. idx) that contains 0-based line idx."""
    start = idx
    while start > 0 and lines[start].get("ev") != "Reset":
        start -= 1
    return start, lines[start:idx + 1]


def new_stats():
    return {"states": 0, "transitions": 0, "traces_validated_against_impl": 0, "events_validated": 0, "real_traces": 0,
            "real_steps": 0, "skipped_actions": 0, "adapted_actions": 0, "spontaneous_events": 0, "nonconforming_traces": 0,
            "nonconformance": [], "monitor_states": 0, "monitor_predicates_evaluated": 0, "model_runs": [], "samples": [],
            "edge_cover": {}, "timing_s": {}}


def model_check(work, module, cfgname, stats, dump=None, timeout=600):
    t0 = time.time()
    r = v.tlc(work.dir, module, cfg=cfgname, timeout=timeout, dump=dump)
    if r.error:
        sys.stderr.write(r.out[-2000:])
        raise v.Inconclusive("model check %s: TLC %s" % (cfgname, r.error))
    stats["states"] += r.distinct
    stats["transitions"] += r.generated
    stats["model_runs"].append({"cfg": cfgname, "distinct": r.distinct, "generated": r.generated, "depth": r.depth,
                                "wall_s": round(time.time() - t0, 1), "invariants_violated": r.invariants_violated,
                                "temporal_violated": r.temporal_violated})
    if r.invariants_violated or r.temporal_violated:
        # a design-level counterexample is not a verdict (DESIGN 2.2); it is recorded
        stats.setdefault("model_counterexamples", []).append({"cfg": cfgname, "invariants": r.invariants_violated,
                                                               "temporal": r.temporal_violated})
    return r


# ---------------------------------------------------------------- C10: task loop

TL_PREDS = ["Mutex", "OkIffRanOnce", "ErrIffNever", "NoStartAfterClose", "OnCloseOnceLast", "CloseRetImpliesQuiet",
            "RunReturns", "CloseReturns"]
TL_CONFIGS = {
    "3x2": dict(subs=["s1", "s2", "s3"], cancellable=["s3"], closers=["c1", "c2"], blocking=[]),
    "2x2c": dict(subs=["s1", "s2"], cancellable=["s1", "s2"], closers=["c1", "c2"], blocking=[]),
    "2x1b": dict(subs=["s1", "s2"], cancellable=["s2"], closers=["c1"], blocking=["s1"]),
    "3x2b": dict(subs=["s1", "s2", "s3"], cancellable=["s2", "s3"], closers=["c1", "c2"], blocking=["s1"]),
}
TL_JITTER = dict(subs=["s1", "s2", "s3", "s4", "s5", "s6"], cancellable=["s2", "s4", "s6"], closers=["c1", "c2", "c3"], blocking=["s5"])


def tl_consts(c):
    return {"Subs": tla_set(c["subs"]), "Cancellable": tla_set(c["cancellable"]), "Closers": tla_set(c["closers"]),
            "BlockingTask": tla_set(c["blocking"])}


def tl_features(pred, lines, idx, cfgname, mode):
    e = lines[idx]
    f = {"predicate": pred, "ev": e.get("ev"), "cfg": cfgname, "mode": mode}
    if e.get("ev") in ("Drain",):
        f["stuck"] = ",".join(e.get("stuck", []))
    return f


def tl_judge(work, verdict, stats, trace, lines, cfgname, c, mode, tag, conform=True):
    """Validate (conformance) and judge (verdict) one recorded task-loop trace file."""
    jobs = [lambda: monitor(work, "TaskLoopMon", trace, TL_PREDS, tag)]
    if conform:
        jobs.append(lambda: validate(work, "TaskLoopTrace", tl_consts(c), trace, tag, stats))
    out = par(*jobs)
    r, viols = out[0]
    stats["monitor_states"] += r.distinct
    stats["monitor_predicates_evaluated"] += r.distinct * len(TL_PREDS)
    if conform:
        account_validation(out[1], lines, stats, "TaskLoop", tag)
    for pred, line in viols:
        idx = line - 1
        feat = tl_features(pred, lines, idx, cfgname, mode)
        start, seg = segment(lines, idx)
        feat["trace"] = start
        feat["step"] = idx - start

        def writer(path, seg=seg, pred=pred):
            json.dump({"property": "C10", "family": FAMILY, "kind": "taskloop", "predicate": pred, "cfg": c, "cfgname": cfgname,
                       "labels": [event_label(x) for x in seg[1:] if x["ev"] not in ("Drain", "Final", "Unknown")],
                       "events": seg}, open(path, "w"))
        report(verdict, stats, feat, writer)
    return viols


def tl_replay_config(work, binary, verdict, stats, cfgname, tier, seed, passes, walks):
    c = TL_CONFIGS[cfgname]
    t0 = time.time()
    dump = "g_" + cfgname
    model_check(work, "TaskLoop", "MC_TaskLoop_%s.cfg" % cfgname, stats, dump=dump)
    init, edges = parse_dot(work.path(dump + ".dot"))
    E = all_edges(edges)
    stats["timing_s"]["mc_" + cfgname] = round(time.time() - t0, 1)
    covered = set()
    cov_hist = []
    sample_path = None
    for ps in range(passes):
        targets = None if ps == 0 else (E - covered)
        if ps > 0 and not targets:
            break
        paths = edge_cover(init, edges, targets=targets)
        if sample_path is None and paths:
            sample_path = paths[len(paths) // 2]
        pf = work.path("paths_%s_%d.jsonl" % (cfgname, ps))
        write_paths(pf, paths)
        tag = "%s_p%d" % (cfgname, ps)
        trace = work.path("tl_%s.ndjson" % tag)
        job = dict(c, paths=pf, walks=(walks if ps == 0 else 0), walkLen=80, seed=seed * 1000 + ps, out=trace,
                   stats=work.path("tl_%s.stats.json" % tag))
        jp = work.path("tl_%s.job.json" % tag)
        json.dump(job, open(jp, "w"))
        t1 = time.time()
        rc, out, _ = drive(binary, "TestTaskLoop", jp, "task loop replay " + tag, tolerate_failure=True)
        if not os.path.exists(job["stats"]) or not os.path.exists(trace):
            sys.stderr.write(out[-3000:])
            raise v.Inconclusive("task loop driver died (%s)" % tag)
        st = json.load(open(job["stats"]))
        lines = v.read_ndjson(trace)
        stats["timing_s"]["drive_" + tag] = round(time.time() - t1, 1)
        stats["real_traces"] += st["paths"] + st["walks"]
        stats["real_steps"] += st["events"]
        stats["skipped_actions"] += st["skipped"]
        stats["adapted_actions"] += st["adapted"]
        stats["spontaneous_events"] += st["spontaneous"]
        t1 = time.time()
        viols = tl_judge(work, verdict, stats, trace, lines, cfgname, c, "replay+walk" if ps == 0 else "replay", tag)
        stats["timing_s"]["tlc_" + tag] = round(time.time() - t1, 1)
        if rc != 0 and not viols:
            sys.stderr.write(out[-3000:])
            raise v.Inconclusive("task loop driver failed without a judged violation (%s, rc %d)" % (tag, rc))
        cov, off = walk_coverage(init, edges, lines)
        covered |= cov
        cov_hist.append(len(covered))
        if not stats["samples"]:
            stats["samples"].append({"what": "real task-loop trace (first events, observation dropped)", "cfg": cfgname,
                                     "events": [event_label(e) for e in lines[:30]]})
    stats["edge_cover"]["TaskLoop_" + cfgname] = {"edges_in_graph": len(E), "edges_replayed": len(covered),
                                                  "fraction": round(len(covered) / max(1, len(E)), 4), "after_pass": cov_hist,
                                                  "states_in_graph": len(edges)}
    if sample_path and len(stats["samples"]) < 3:
        stats["samples"].append({"what": "planned model path (TLC edge labels)", "cfg": cfgname, "labels": sample_path[:40]})


# ---- race detector runs (C10, second sentence)

RACE_SPLIT = "=================="


def short_fn(f):
    """github.com/pion/ice/v4.(*Agent).Restart.func1 -> Restart.func1"""
    f = f.split("/")[-1]
    f = re.sub(r"^[\w\-]+\.", "", f, count=1)
    f = re.sub(r"^\(\*?\w+\)\.", "", f)
    return f


def parse_races(text):
    """Race detector reports -> list of dicts with the access stacks (function names)."""
    reports = []
    for b in text.split(RACE_SPLIT):
        if "WARNING: DATA RACE" not in b:
            continue
        sides = []
        for part in re.split(r"\n(?=(?:Write|Read|Previous write|Previous read|Atomic \w+|Previous atomic \w+) at |Goroutine \d+ \()", b):
            m = re.match(r"\s*((?:Previous )?(?:atomic )?(?:write|read|Write|Read))[^\n]* by ", part.lstrip("\n"))
            if not m:
                continue
            fns = re.findall(r"^  (\S+)\(\)\n\s+\S+:\d+", part, re.M)
            sides.append({"kind": m.group(1).lower(), "fns": fns})
        reports.append({"sides": sides, "text": b.strip()[:6000]})
    return reports


def race_features(rep):
    """via: how the side outside the task loop got there; against: top pion/ice frame of the other side."""
    ice_sides = []
    for s in rep["sides"]:
        ice_fns = [f for f in s["fns"] if "github.com/pion/ice/v4" in f and "/internal/verifhook" not in f]
        in_loop = any("taskloop.(*Loop).runLoop" in f for f in s["fns"])
        entry = [short_fn(f) for f in s["fns"] if re.search(r"pion/ice/v4\.\(\*(Agent|Conn)\)\.[A-Z]\w*$", f)]
        top = short_fn(ice_fns[0]) if ice_fns else ""
        ice_sides.append({"in_loop": in_loop, "entry": entry[-1] if entry else "", "top": top, "ice": bool(ice_fns)})
    feat = {"predicate": "RaceFree", "in_ice": any(s["ice"] for s in ice_sides)}
    nonloop = [s for s in ice_sides if not s["in_loop"]]
    pick = None
    for s in nonloop:
        if s["entry"] == "RenominateCandidate":
            pick = s
    if pick is None:
        for s in nonloop:
            if s["ice"]:
                pick = s
                break
    if pick is None and ice_sides:
        pick = ice_sides[0]
    if pick is not None:
        feat["via"] = pick["entry"] or pick["top"]
        others = [s for s in ice_sides if s is not pick]
        feat["against"] = others[0]["top"] if others else ""
        feat["sides"] = "/".join("loop" if s["in_loop"] else "nonloop" for s in ice_sides)
    return feat


def race_part(work, verdict, stats, race_binary, tier, seed):
    """Concurrent public API calls, and Restart at every 5 ms of a (stretched) gather cycle, under the race detector.
    These runs are free-running on purpose: the gate scheduler orders all steps by channel hand-offs, which the
    detector counts as synchronisation."""
    t0 = time.time()
    recs = [{"ev": "Reset", "tier": tier, "seed": seed}]
    reports = []
    runs = [("TestApiRace", dict(seed=seed, calls=n_(tier, 150, 1500), workers=n_(tier, 3, 4), renom=n_(tier, 40, 200), restart=True)),
            ("TestApiRace", dict(seed=seed + 1000, calls=n_(tier, 150, 1500), workers=n_(tier, 3, 4), renom=0, restart=True)),
            ("TestGatherRace", dict(seed=seed, reps=n_(tier, 1, 4)))]
    for i, (test, job) in enumerate(runs):
        job["stats"] = work.path("race%d.stats.json" % i)
        job["out"] = work.path("race%d.ndjson" % i)
        jp = work.path("race%d.job.json" % i)
        json.dump(job, open(jp, "w"))
        rc, out, wall = drive(race_binary, test, jp, "race run", timeout=n_(tier, 150, 600),
                              env_extra={"GORACE": "halt_on_error=0"}, tolerate_failure=True)
        rr = parse_races(out)
        done = os.path.exists(job["stats"]) and ("PASS" in out or "race detected during execution of test" in out)
        st = json.load(open(job["stats"])) if os.path.exists(job["stats"]) else {}
        if not done or (rc != 0 and not rr):
            sys.stderr.write(out[-3000:])
            raise v.Inconclusive("race driver %s did not complete (rc %d)" % (test, rc))
        calls = st.get("calls", {}) if test == "TestApiRace" else {"gather cycles with Restart at every 5 ms": st.get("runs", 0)}
        recs.append({"ev": "Run", "test": test, "done": True, "calls": sum(calls.values()) if calls else 0, "races": len(rr)})
        stats.setdefault("race_runs", []).append({"test": test, "job": {k: job[k] for k in job if k not in ("stats", "out")},
                                                  "calls": calls, "race_reports": len(rr), "wall_s": round(wall, 1)})
        for rep in rr:
            feat = race_features(rep)
            feat["test"] = test
            reports.append((rep, feat, job, test))
            recs.append(dict({"ev": "Race", "test": test}, **{k: str(val) for k, val in feat.items()}))
    recs.append({"ev": "End"})
    trace = work.path("race.ndjson")
    with open(trace, "w") as f:
        for r in recs:
            f.write(json.dumps(r) + "\n")
    r, viols = monitor(work, "ApiRaceMon", trace, ["RaceFree", "DriversCompleted"], "race")
    stats["monitor_states"] += r.distinct
    stats["monitor_predicates_evaluated"] += r.distinct * 2
    race_recs = [i for i, x in enumerate(recs) if x["ev"] == "Race"]
    harness_only = 0
    for pred, line in viols:
        idx = line - 1
        if pred != "RaceFree" or idx not in race_recs:
            verdict.report({"predicate": pred, "line": idx}, lambda p: json.dump({"property": "C10", "family": FAMILY, "kind": "race", "record": recs[idx]}, open(p, "w")))
            continue
        rep, feat, job, test = reports[race_recs.index(idx)]
        if not feat.get("in_ice"):
            harness_only += 1
            continue

        def writer(path, rep=rep, feat=feat, job=job, test=test):
            json.dump({"property": "C10", "family": FAMILY, "kind": "race", "test": test, "job": job, "features": feat,
                       "report": rep["text"]}, open(path, "w"))
        report(verdict, stats, feat, writer)
    if harness_only:
        raise v.Inconclusive("%d race report(s) without a pion/ice frame (harness defect)" % harness_only)
    stats["race_reports"] = len(reports)
    stats["timing_s"]["race_part"] = round(time.time() - t0, 1)


def n_(tier, quick, thorough):
    return quick if tier == "quick" else thorough


C10_ASSUME = ["the task loop is driven through yield points placed before every shared access / blocking operation of Run, runLoop and "
              "CloseWithPreStop (hook H2); the code between two yield points is one atomic model action",
              "testing/synctest decides quiescence; goroutine identity from runtime.Stack",
              "data-race freedom is observed with the Go race detector on seeded schedules of public calls (a runtime facility, not TLA+)",
              "linearisability is judged for the control API listed in AgentApi.tla on one agent without a peer (no interface passes the filter, so gather "
              "cycles open no socket); documented multi-task calls are modelled as such (Start: credentials task + start task under one mutex; GatherCandidates: "
              "cycle marks are later tasks; AddRemoteCandidate returns before the candidate is added); calls overlap because the driver holds the loop, "
              "quiescence between driver steps is read from goroutine states"]


# ---------------------------------------------------------------- C10, second sentence: linearisability of the public API (AgentApi)

AL_HIST_PREDS = ["StartAtMostOnce", "NoTornCredentials", "NoUnknownError", "ClosedIsFinal"]
AL_PROCS = ["q%d" % i for i in range(1, 15)]
AL_OPS = [("StartDial", ["c1", "c2", ""]), ("StartAccept", ["c1", "c3"]), ("Restart", ["c4", "c5", "c6", "short"]),
          ("SetRemoteCredentials", ["c7", "c8", ""]), ("GetLocalUserCredentials", [""]), ("GetRemoteUserCredentials", [""]),
          ("GetGatheringState", [""]), ("GatherCandidates", [""]), ("AddRemoteCandidate", ["r1", "r2"]), ("GetRemoteCandidates", [""]),
          ("OnCandidate", [""]), ("Close", [""])]


def al_call(n, op, arg=""):
    return {"k": "call", "p": "q%d" % n, "op": op, "arg": arg}


def al_directed():
    """Overlaps that ordinary use never produces: two calls are both past their invocation before the loop serves either."""
    H, F, L = {"k": "hold"}, {"k": "free"}, {"k": "loop"}
    d = []
    d.append(("two starts while the loop is busy", True, [H, al_call(1, "StartDial", "c1"), al_call(2, "StartAccept", "c2")] + [L] * 6 +
              [F, al_call(3, "GetRemoteUserCredentials"), al_call(4, "StartDial", "c3")]))
    d.append(("two starts, second role first", False, [H, al_call(1, "StartAccept", "c1"), al_call(2, "StartDial", "c2"), L, L, al_call(3, "StartDial", "c3")] + [L] * 6 + [F]))
    d.append(("three starts and a restart", True, [H, al_call(1, "StartDial", "c1"), al_call(2, "Restart", "c4"), al_call(3, "StartAccept", "c2"), L,
                                                  al_call(4, "StartAccept", "c3")] + [L] * 8 + [F, al_call(5, "GetRemoteUserCredentials"), al_call(6, "GetLocalUserCredentials")]))
    d.append(("two gathers while the loop is busy", True, [H, al_call(1, "GatherCandidates"), al_call(2, "GatherCandidates"), L, L, al_call(3, "GetGatheringState")] + [L] * 6 +
              [F, al_call(4, "GetGatheringState"), al_call(5, "GatherCandidates")]))
    d.append(("gather without a handler, handler set concurrently", False, [H, al_call(1, "GatherCandidates"), al_call(2, "OnCandidate"), L, L, F, al_call(3, "GatherCandidates"),
                                                                          al_call(4, "GetGatheringState")]))
    d.append(("restarts and a reader", True, [H, al_call(1, "Restart", "c4"), al_call(2, "Restart", "c5"), al_call(3, "GetLocalUserCredentials"), L, L, L,
                                             al_call(4, "GetLocalUserCredentials"), L, F]))
    d.append(("remote credentials against restart", True, [al_call(1, "SetRemoteCredentials", "c7"), H, al_call(2, "Restart", "c4"), al_call(3, "GetRemoteUserCredentials"),
                                                          al_call(4, "SetRemoteCredentials", "c8"), L, L, L, F, al_call(5, "GetRemoteUserCredentials")]))
    d.append(("close against everything", True, [H, al_call(1, "Close"), al_call(2, "Restart", "c4"), al_call(3, "StartDial", "c1"), al_call(4, "GatherCandidates")] + [L] * 6 +
              [F, al_call(5, "GetLocalUserCredentials"), al_call(6, "Restart", "c5"), al_call(7, "StartAccept", "c2"), al_call(8, "Close")]))
    d.append(("start interrupted by close", True, [H, al_call(1, "StartDial", "c1"), L, al_call(2, "Close"), L, L, L, F, al_call(3, "StartAccept", "c2")]))
    d.append(("remote candidates against restart", True, [H, al_call(1, "AddRemoteCandidate", "r1"), al_call(2, "Restart", "c4"), al_call(3, "GetRemoteCandidates")] + [L] * 5 +
              [F, al_call(4, "AddRemoteCandidate", "r2"), al_call(5, "GetRemoteCandidates")]))
    d.append(("remote credentials set between the two tasks of a start", True, [H, al_call(1, "StartDial", "c1"), al_call(2, "SetRemoteCredentials", "c7"), L, L, L, L, F,
                                                                          al_call(3, "GetRemoteUserCredentials"), al_call(4, "SetRemoteCredentials", "c8"), al_call(5, "GetRemoteUserCredentials")]))
    d.append(("the caller scribbles over a returned candidate list", True, [al_call(1, "AddRemoteCandidate", "r1"), al_call(2, "AddRemoteCandidate", "r2"), al_call(3, "GetRemoteCandidates"),
                                                                       al_call(4, "GetRemoteCandidates"), al_call(5, "Restart", "c4"), al_call(6, "GetRemoteCandidates")]))
    AH, AF = {"k": "asynchold"}, {"k": "asyncfree"}
    d.append(("add task of AddRemoteCandidate delayed past a Restart", True, [AH, al_call(1, "AddRemoteCandidate", "r1"), al_call(2, "Restart", "c4"), al_call(3, "GetRemoteCandidates"), AF,
                                                                          al_call(4, "GetRemoteCandidates"), al_call(5, "AddRemoteCandidate", "r2"), al_call(6, "GetRemoteCandidates")]))
    d.append(("gather against restart", True, [al_call(1, "GatherCandidates"), H, al_call(2, "Restart", "c4"), al_call(3, "GatherCandidates"), al_call(4, "GetGatheringState")] +
              [L] * 6 + [F, al_call(5, "GetGatheringState")]))
    return [{"handler": h, "steps": st, "tag": "directed: " + tag} for tag, h, st in d]


def al_random(rng, n):
    out = []
    for _ in range(n):
        steps, calls, hold, ahold = [], 0, False, False
        ncalls = rng.randint(3, 9)
        while calls < ncalls:
            x = rng.random()
            if x < 0.05:
                ahold = not ahold
                steps.append({"k": "asynchold" if ahold else "asyncfree"})
            elif x < 0.15:
                hold = not hold
                steps.append({"k": "hold" if hold else "free"})
            elif x < 0.40 and hold:
                steps.append({"k": "loop"})
            else:
                op, args = rng.choice(AL_OPS)
                if op == "Close" and rng.random() < 0.6:
                    continue
                calls += 1
                steps.append(al_call(calls, op, rng.choice(args)))
        if hold:
            steps += [{"k": "loop"}] * rng.randint(0, 4) + [{"k": "free"}]
        if ahold:
            steps += [{"k": "asyncfree"}, al_call(calls + 1, "GetRemoteCandidates")]
        out.append({"handler": rng.random() < 0.6, "steps": steps, "tag": "random"})
    return out


def al_validate(work, trace_lines, tag, stats, timeout):
    """TLC searches a linearisation of every history of the file; returns the 0-based line the search could not get past, or None."""
    path = work.path("al_%s.ndjson" % tag)
    with open(path, "w") as f:
        for e in trace_lines:
            f.write(json.dumps(e) + "\n")
    cfg = "AgentApiTrace_%s.cfg" % tag
    write_cfg(work.path(cfg), {"TraceFile": '"%s"' % path, "Procs": tla_set(AL_PROCS), "OpSet": "{}", "MaxCycles": "12", "Defects": "{}"},
              ["SPECIFICATION TSpec", "INVARIANT HWM", "POSTCONDITION Accepted", "CHECK_DEADLOCK FALSE"])
    r = v.tlc(work.dir, "AgentApiTrace", cfg=cfg, workers=1, timeout=timeout, dfs=True, heap="8g")
    if r.error:
        sys.stderr.write(r.out[-2000:])
        raise v.Inconclusive("linearisation search %s: TLC %s" % (tag, r.error))
    stats["lin_search_states"] = stats.get("lin_search_states", 0) + r.distinct
    if r.clean:
        return None
    rej = r.prints("TRACE_REJECTED_AT")
    if not rej:
        sys.stderr.write(r.out[-2000:])
        raise v.Inconclusive("linearisation search %s ended without a verdict" % tag)
    return int(rej[0][0]) - 1


def api_lin_part(work, verdict, stats, binary, tier, seed):
    t0 = time.time()
    rng = random.Random(seed * 7919 + 17)
    # the design: AgentApi model-checked with three concurrent callers over the whole operation set
    r = model_check(work, "MC_AgentApi", "MC_AgentApi.cfg", stats, timeout=900)
    if not r.clean:
        sys.stderr.write(r.out[-2000:])
        raise v.Inconclusive("AgentApi: the model violates %s" % (r.invariants_violated or "a property"))
    api_lin_run(work, verdict, stats, binary, al_directed() + al_random(rng, n_(tier, 400, 6000)), tier)
    stats["timing_s"]["api_linearisability"] = round(time.time() - t0, 1)


def api_lin_run(work, verdict, stats, binary, scs, tier):
    """Drive the scenarios on a real agent each, judge the histories (monitor + linearisation search)."""
    for i, sc in enumerate(scs):
        sc["id"] = i + 1
    with open(work.path("al_scenarios.ndjson"), "w") as f:
        for sc in scs:
            f.write(json.dumps(sc) + "\n")
    trace = work.path("al_trace.ndjson")
    job = {"scenarios": work.path("al_scenarios.ndjson"), "out": trace, "stats": work.path("al_stats.json")}
    jp = work.path("al_job.json")
    json.dump(job, open(jp, "w"))
    drive(binary, "TestApiLin", jp, "api linearisability", timeout=n_(tier, 200, 1500))
    lines = v.read_ndjson(trace)
    dst = json.load(open(job["stats"]))["counts"]
    resets = [i for i, e in enumerate(lines) if e["ev"] == "Reset"]
    bounds = list(zip(resets, resets[1:] + [len(lines)]))
    stuck = {b for b in bounds if any(e["ev"] == "Stuck" for e in lines[b[0]:b[1]])}
    if len(stuck) > max(2, len(bounds) // 50):
        raise v.Inconclusive("api driver: %d of %d scenarios did not finish" % (len(stuck), len(bounds)))
    traces = [lines[a:b] for (a, b) in bounds if (a, b) not in stuck]
    stats["api_histories"] = len(traces)
    stats["api_calls"] = dst.get("calls", 0)
    stats["api_loop_turns_granted"] = dst.get("loop_turns", 0)
    stats["api_histories_dropped_unfinished"] = len(stuck)
    stats["real_traces"] += len(traces)
    stats["real_steps"] += sum(len(t) for t in traces)
    flat = [e for t in traces for e in t]
    # consequences that need no search (monitor)
    mpath = work.path("al_mon.ndjson")
    with open(mpath, "w") as f:
        for e in flat:
            f.write(json.dumps(e) + "\n")
    rm, viols = monitor(work, "ApiHistMon", mpath, AL_HIST_PREDS, "al")
    stats["monitor_states"] += rm.distinct
    stats["monitor_predicates_evaluated"] += rm.distinct * len(AL_HIST_PREDS)
    starts = [i for i, e in enumerate(flat) if e["ev"] == "Reset"]

    def trace_of(idx):
        k = bisect.bisect_right(starts, idx) - 1
        return traces[k], idx - starts[k]
    seen = set()
    for pred, n in viols:
        tr, off = trace_of(n - 1)
        key = (pred, tr[0]["id"])
        if key in seen:
            continue
        seen.add(key)
        e = tr[off]
        opof = {x["p"]: x["op"] for x in tr if x["ev"] == "inv"}
        feat = {"predicate": pred, "part": "api-history", "op": opof.get(e.get("p"), ""), "res": e.get("res", ""), "scenario": tr[0].get("tag", "")[:40]}
        report(verdict, stats, feat, lambda path, tr=tr, pred=pred: json.dump(
            {"property": "C10", "family": FAMILY, "kind": "apilin", "driver": "TestApiLin", "predicate": pred, "scenario": scs[tr[0]["id"] - 1], "history": tr},
            open(path, "w")))
    # the statement itself: every history has a linearisation
    pending, rejected, rounds = traces, [], 0
    while pending and rounds < 8:
        rounds += 1
        flat = [e for t in pending for e in t]
        at = al_validate(work, flat, "r%d" % rounds, stats, timeout=n_(tier, 300, 1500))
        if at is None:
            stats["traces_validated_against_impl"] += len(pending)
            stats["events_validated"] += len(flat)
            pending = []
            break
        starts2, acc = [], 0
        for t in pending:
            starts2.append(acc)
            acc += len(t)
        k = bisect.bisect_right(starts2, at) - 1
        stats["traces_validated_against_impl"] += k
        stats["events_validated"] += starts2[k]
        rejected.append((pending[k], at - starts2[k]))
        pending = pending[k + 1:]
    stats["api_histories_not_examined"] = sum(1 for _ in pending)
    for tr, off in rejected:
        e = tr[off] if off < len(tr) else {}
        opof = {x["p"]: x["op"] for x in tr if x["ev"] == "inv"}
        feat = {"predicate": "Linearizable", "part": "api-history", "stuck_at": e.get("ev", ""), "op": opof.get(e.get("p"), e.get("op", "")),
                "res": e.get("res", ""), "ops": ",".join(sorted(set(opof.values()))), "scenario": tr[0].get("tag", "")[:40]}
        report(verdict, stats, feat, lambda path, tr=tr, off=off: json.dump(
            {"property": "C10", "family": FAMILY, "kind": "apilin", "driver": "TestApiLin", "predicate": "Linearizable", "unexplained_line": off,
             "scenario": scs[tr[0]["id"] - 1], "history": tr}, open(path, "w")))
    if traces:
        stats["samples"].append({"api_history": traces[0][:14]})


C10_CLOSE_PREDS = ["C08_FinalNoTask", "C08_LastIsClosed", "C08_CloseReturns", "C08_FinalClosedError"]


def c10(tier, seed):
    verdict = v.Verdict("C10", tier, seed)
    stats = new_stats()
    with v.Work("C10") as work:
        work.copy_specs(FAMILY)
        box = {}

        def build_race():
            t0 = time.time()
            box["race"] = v.build_harness(work, race=True, pkg=FAMILY)
            stats["timing_s"]["build_race"] = round(time.time() - t0, 1)
        bt = threading.Thread(target=lambda: _try(build_race, box))
        bt.start()
        t0 = time.time()
        binary = v.build_harness(work, pkg=FAMILY)
        stats["timing_s"]["build"] = round(time.time() - t0, 1)
        # whole-graph replay: the large configuration and two small ones (cancel-heavy; blocking task + preStop)
        tl_replay_config(work, binary, verdict, stats, "3x2", tier, seed, passes=n_(tier, 2, 5), walks=n_(tier, 1500, 20000))
        tl_replay_config(work, binary, verdict, stats, "2x1b", tier, seed, passes=n_(tier, 2, 4), walks=n_(tier, 300, 3000))
        tl_replay_config(work, binary, verdict, stats, "2x2c", tier, seed, passes=n_(tier, 1, 4), walks=n_(tier, 300, 3000))
        if tier == "thorough":
            tl_replay_config(work, binary, verdict, stats, "3x2b", tier, seed, passes=4, walks=5000)
        # free-running jitter runs on a larger configuration (monitor only)
        t1 = time.time()
        trace = work.path("tl_jitter.ndjson")
        job = dict(TL_JITTER, jitter=n_(tier, 3000, 100000), seed=seed, out=trace, stats=work.path("tl_jitter.stats.json"))
        jp = work.path("tl_jitter.job.json")
        json.dump(job, open(jp, "w"))
        rc, out, _ = drive(binary, "TestTaskLoopJitter", jp, "jitter", timeout=n_(tier, 120, 400), tolerate_failure=True)
        if not os.path.exists(trace):
            raise v.Inconclusive("jitter driver died")
        lines = v.read_ndjson(trace)
        viols = tl_judge(work, verdict, stats, trace, lines, "jitter6x3", TL_JITTER, "jitter", "jitter", conform=False)
        if rc != 0 and not viols:
            sys.stderr.write(out[-3000:])
            raise v.Inconclusive("jitter driver failed without a judged violation (rc %d)" % rc)
        stats["jitter_runs"] = len(split_traces(lines))
        stats["real_traces"] += stats["jitter_runs"]
        stats["real_steps"] += len(lines)
        stats["timing_s"]["jitter"] = round(time.time() - t1, 1)
        # second sentence: race detector
        bt.join()
        if box.get("exc"):
            raise box["exc"]
        race_part(work, verdict, stats, box["race"], tier, seed)
        api_lin_part(work, verdict, stats, binary, tier, seed)
        # Agent.Close on top of the loop: two closers of one agent racing (Close/Close, Close/GracefulClose, from API goroutines and
        # from handlers) at every position of a connection history; the close driver's event log is judged by CloseMon for the
        # clauses of this property (no task after Close has returned, the close callback's effects come last, every Close returns)
        import plan_close
        t2 = time.time()
        work.copy_specs("close")
        cs = {}
        plan_close.judge_close(work, v.build_harness(work), verdict, cs, plan_close.racing_closers(tier, seed), "C10", C10_CLOSE_PREDS, "closerace")
        stats["racing_closers"] = cs
        stats["real_traces"] += cs.get("scenarios", 0)
        stats["real_steps"] += cs.get("events", 0)
        stats["timing_s"]["racing_closers"] = round(time.time() - t2, 1)
    stats.pop("_shapes", None)
    verdict.coverage.update(stats)
    verdict.coverage["predicates"] = TL_PREDS + ["RaceFree", "Linearizable"] + AL_HIST_PREDS
    verdict.coverage["exhaustive"] = True
    verdict.assumptions = C10_ASSUME
    return verdict.finish()


def _try(fn, box):
    try:
        fn()
        return True
    except BaseException as e:  # noqa
        box["exc"] = e
        return False


# ---------------------------------------------------------------- C11: notifier, callbacks, gather cycles

HN_PREDS = ["Fifo", "NoOverlap", "ExactlyOnceAtQuiescence", "GracefulMeansQuiet", "AllReturn"]
CB_PREDS = ["NoOverlap", "NoDuplicate", "GracefulMeansQuiet", "LastIsActual", "HandlersReturn"]
GA_PREDS = ["UfragOfCycle", "OneNilLast", "NoNilIfCancelled", "GatherCompletes"]
HN_CONSTS = {"NEvents": "3", "Kinds": tla_set(["fast", "block", "reenter", "close"]), "Drainers": tla_set(["d1", "d2", "d3"])}
STREAMS = ["cs", "cand", "pair"]


def hn_stream(work, binary, verdict, stats, stream, recs, walks, seed, init_of, edges, alias=False):
    """Replay planned paths (+ unguided walks) on one stream of the real notifier; validate; judge; coverage.
    alias: events 1 and 3 carry the same value (A, B, A) - still three events."""
    tag = "hn_" + stream + ("_alias" if alias else "")
    pf = work.path(tag + ".paths.jsonl")
    with open(pf, "w") as f:
        for r in recs:
            f.write(json.dumps(r) + "\n")
    trace = work.path(tag + ".ndjson")
    job = dict(stream=stream, nevents=3, paths=pf, walks=walks, walkLen=80, seed=seed, out=trace, stats=work.path(tag + ".stats.json"), alias=alias)
    jp = work.path(tag + ".job.json")
    json.dump(job, open(jp, "w"))
    rc, out, _ = drive(binary, "TestNotifier", jp, "notifier replay " + stream, tolerate_failure=True)
    if not os.path.exists(job["stats"]) or not os.path.exists(trace):
        sys.stderr.write(out[-3000:])
        raise v.Inconclusive("notifier driver died (%s)" % stream)
    st = json.load(open(job["stats"]))
    lines = v.read_ndjson(trace)
    (r, viols), rv = par(lambda: monitor(work, "NotifierMon", trace, HN_PREDS, tag),
                         lambda: validate(work, "NotifierTrace", HN_CONSTS, trace, tag, stats))
    if rc != 0 and not viols:
        sys.stderr.write(out[-3000:])
        raise v.Inconclusive("notifier driver failed without a judged violation (%s, rc %d)" % (stream, rc))
    cov, off = walk_coverage(init_of, edges, lines)
    return dict(stream=stream, alias=alias, st=st, lines=lines, mon=r, viols=viols, val=rv, cov=cov, trace=trace)


def hn_account(verdict, stats, res):
    st, lines = res["st"], res["lines"]
    stats["real_traces"] += st["paths"] + st["walks"]
    stats["real_steps"] += st["events"]
    stats["skipped_actions"] += st["skipped"]
    stats["adapted_actions"] += st["adapted"]
    stats["spontaneous_events"] += st["spontaneous"]
    stats["monitor_states"] += res["mon"].distinct
    stats["monitor_predicates_evaluated"] += res["mon"].distinct * len(HN_PREDS)
    account_validation(res["val"], lines, stats, "Notifier", "hn_" + res["stream"])
    for pred, line in res["viols"]:
        idx = line - 1
        start, seg = segment(lines, idx)
        feat = {"predicate": pred, "ev": lines[idx].get("ev"), "stream": res["stream"], "repeated_value": bool(res.get("alias")), "kind": ",".join(seg[0].get("kind", [])),
                "graceful": seg[0].get("graceful"), "trace": start, "step": idx - start}

        def writer(path, seg=seg, pred=pred):
            json.dump({"property": "C11", "family": FAMILY, "kind": "notifier", "predicate": pred, "stream": res["stream"], "alias": res.get("alias", False),
                       "handler_kinds": seg[0].get("kind"), "graceful": seg[0].get("graceful"),
                       "labels": [event_label(x) for x in seg[1:] if x["ev"] not in ("Drain", "Unknown")], "events": seg}, open(path, "w"))
        report(verdict, stats, feat, writer)
    if len(stats["samples"]) < 2:
        stats["samples"].append({"what": "real notifier trace, stream " + res["stream"], "handler_kinds": lines[0].get("kind"),
                                 "graceful": lines[0].get("graceful"), "events": [event_label(e) for e in lines[:25]]})


def judge_simple(work, verdict, stats, module, preds, trace, tag, feature_fn, kind):
    lines = v.read_ndjson(trace)
    r, viols = monitor(work, module, trace, preds, tag)
    stats["monitor_states"] += r.distinct
    stats["monitor_predicates_evaluated"] += r.distinct * len(preds)
    for pred, line in viols:
        idx = line - 1
        start, seg = segment(lines, idx)
        feat = feature_fn(pred, lines, idx, seg)
        feat["trace"], feat["step"] = start, idx - start

        def writer(path, seg=seg, pred=pred):
            json.dump({"property": "C11", "family": FAMILY, "kind": kind, "predicate": pred, "events": seg}, open(path, "w"))
        report(verdict, stats, feat, writer)
    return lines, viols


def ga_features(pred, lines, idx, seg):
    e = lines[idx]
    f = {"predicate": pred, "ev": e.get("ev"), "mode": seg[0].get("mode"), "k": seg[0].get("k")}
    rs = [x for x in seg if x.get("ev") == "Restart"]
    if rs:
        fn, _, site = rs[-1].get("at", "").partition("@")
        f["restart_in"] = fn
        f["restart_site"] = site
        f["window"] = "check-to-handoff" if site in ("run.errcheck", "run.select") else ("after-handoff" if site else "none")
    if e.get("ev") == "Cand":
        cy, uf = e.get("cyc", 0), e.get("uf", 0)
        f["shape"] = "old-cycle-candidate-new-ufrag" if 0 < cy < uf else ("cycle-%s-ufrag-%s" % (cy, uf))
    return f


def cb_features(pred, lines, idx, seg):
    e = lines[idx]
    return {"predicate": pred, "ev": e.get("ev"), "ag": e.get("ag"), "st": e.get("st"), "scenario": seg[0].get("scenario"),
            "handler": seg[0].get("plan", {}).get("%s%s" % (e.get("ag"), e.get("st"))), "level": "agent"}


C11_ASSUME = ["the notifier is driven through yield points placed outside its critical sections (hook H2); Enqueue/Close/drainer critical "
              "sections are single atomic model actions; the three streams are copies of one algorithm and are all replayed",
              "agent-level runs judge what is observable from outside (no overlap, no duplicate, last = actual, quiet after GracefulClose); "
              "the order of occurrence of agent-internal events is only judged at notifier level",
              "gather cycles are host candidates from a fake UDPMux; a candidate's cycle is identified by its listen address",
              "testing/synctest decides quiescence and provides the virtual clock"]


def c11(tier, seed):
    verdict = v.Verdict("C11", tier, seed)
    stats = new_stats()
    with v.Work("C11") as work:
        work.copy_specs(FAMILY)
        t0 = time.time()
        binary = v.build_harness(work, pkg=FAMILY)
        stats["timing_s"]["build"] = round(time.time() - t0, 1)
        # 1. exhaustive model check over all handler-kind assignments x {graceful, not}; liveness on the 2-event model
        t0 = time.time()
        par(lambda: model_check(work, "Notifier", "MC_Notifier_3.cfg", stats, dump="g_hn"),
            lambda: model_check(work, "Notifier", "MC_Notifier_live.cfg", stats))
        _, edges = parse_dot(work.path("g_hn.dot"))
        inits = parse_inits(work.path("g_hn.dot"))
        E = all_edges(edges)
        stats["timing_s"]["mc"] = round(time.time() - t0, 1)
        node_of = {}
        per_stream = {s: [] for s in STREAMS}
        t0 = time.time()
        for k, (node, vals) in enumerate(sorted(inits.items(), key=lambda kv: (kv[1]["kind"], kv[1]["graceful"]))):
            kind, gr = notifier_cfg_of(vals)
            node_of[(tuple(kind), gr)] = node
            paths = edge_cover(node, edges)
            targets = STREAMS if tier == "thorough" else [STREAMS[(k + seed) % 3]]
            for s in targets:
                per_stream[s] += [{"kind": kind, "graceful": gr, "path": p} for p in paths]
        stats["timing_s"]["plan"] = round(time.time() - t0, 1)

        def init_of(e):
            return node_of.get((tuple(e.get("kind", [])), bool(e.get("graceful"))))
        t0 = time.time()
        walks = n_(tier, 600, 10000)
        results = par(*([(lambda s=s: hn_stream(work, binary, verdict, stats, s, per_stream[s], walks, seed * 10 + i, init_of, edges))
                         for i, s in enumerate(STREAMS)] +
                        # the same paths once more per stream with a repeated value (state / candidate / pair object) among the events
                        [(lambda s=s: hn_stream(work, binary, verdict, stats, s, per_stream[s] or per_stream[max(per_stream, key=lambda k: len(per_stream[k]))],
                                                walks // 3, seed * 10 + 5 + i, init_of, edges, alias=True))
                         for i, s in enumerate(STREAMS)]))
        covered = set()
        per = {}
        for res in results:
            hn_account(verdict, stats, res)
            covered |= res["cov"]
            per[res["stream"]] = len(res["cov"])
        stats["edge_cover"]["Notifier"] = {"edges_in_graph": len(E), "edges_replayed": len(covered), "fraction": round(len(covered) / max(1, len(E)), 4),
                                           "per_stream": per, "initial_states": len(inits), "states_in_graph": len(edges),
                                           "assignment": "every handler-kind assignment on all three streams" if tier == "thorough"
                                           else "every handler-kind assignment on one stream (rotated by seed); unguided walks on all three"}
        stats["timing_s"]["notifier_replay"] = round(time.time() - t0, 1)
        # 2. agent level: public On* setters, slow / re-entrant / closing handlers
        t0 = time.time()
        trace = work.path("cb.ndjson")
        job = dict(runs=n_(tier, 150, 3000), seed=seed, out=trace, stats=work.path("cb.stats.json"))
        jp = work.path("cb.job.json")
        json.dump(job, open(jp, "w"))
        rc, out, _ = drive(binary, "TestCallbacks", jp, "callbacks", timeout=n_(tier, 120, 500), tolerate_failure=True)
        if not os.path.exists(trace) or not os.path.exists(job["stats"]):
            sys.stderr.write(out[-3000:])
            raise v.Inconclusive("callback driver died")
        lines, viols = judge_simple(work, verdict, stats, "CallbackMon", CB_PREDS, trace, "cb", cb_features, "callbacks")
        if rc != 0 and not viols:
            sys.stderr.write(out[-3000:])
            raise v.Inconclusive("callback driver failed without a judged violation (rc %d)" % rc)
        cst = json.load(open(job["stats"]))
        stats["agent_level_runs"] = {"runs": cst["runs"], "events": cst["events"], "handler_kinds": cst["kinds"], "scenarios": cst["scenarios"],
                                     "graceful_closes": cst["graceful"]}
        stats["real_traces"] += cst["runs"]
        stats["real_steps"] += cst["events"]
        stats["timing_s"]["callbacks"] = round(time.time() - t0, 1)
        # 3. gather cycles with Restart at every gate
        t0 = time.time()
        trace = work.path("ga.ndjson")
        job = dict(reps=n_(tier, 8, 40), seed=seed, out=trace, stats=work.path("ga.stats.json"))
        jp = work.path("ga.job.json")
        json.dump(job, open(jp, "w"))
        rc, out, _ = drive(binary, "TestGatherRestart", jp, "gather", timeout=n_(tier, 120, 500), tolerate_failure=True)
        if not os.path.exists(trace) or not os.path.exists(job["stats"]):
            sys.stderr.write(out[-3000:])
            raise v.Inconclusive("gather driver died")
        lines, viols = judge_simple(work, verdict, stats, "GatherMon", GA_PREDS, trace, "ga", ga_features, "gather")
        if rc != 0 and not viols:
            sys.stderr.write(out[-3000:])
            raise v.Inconclusive("gather driver failed without a judged violation (rc %d)" % rc)
        gst = json.load(open(job["stats"]))
        stats["gather_restart"] = {"runs": gst["runs"], "gates_in_cycle": gst["points"], "events": gst["events"], "restart_at": gst["restartAt"],
                                   "runs_with_stale_candidate_in_new_generation": gst["staleAdded"]}
        stats["real_traces"] += gst["runs"]
        stats["real_steps"] += gst["events"]
        stats["samples"].append({"what": "gather cycle with Restart", "events": [{k: x[k] for k in x if k != "addr"} for x in lines[6:16]]})
        stats["timing_s"]["gather"] = round(time.time() - t0, 1)
    stats.pop("_shapes", None)
    verdict.coverage.update(stats)
    verdict.coverage["predicates"] = {"notifier": HN_PREDS, "agent_level": CB_PREDS, "gather": GA_PREDS}
    verdict.coverage["exhaustive"] = True
    verdict.assumptions = C11_ASSUME
    return verdict.finish()


PLANS = {"C10": c10, "C11": c11}

LOOP_NOTE = ("Trusted base: TLC; the gate scheduler of harness/loop (goroutine identity from runtime.Stack, testing/synctest quiescence) and the "
             "yield one-liners in internal/taskloop and agent_handlers.go (build tag verif; one atomic model action = the code between two yield "
             "points); the Go race detector for the second sentence of C10. The verdict is a TLA+ predicate of specs/loop/*Mon.tla evaluated by TLC on "
             "what the real code in /repo's working tree did in this run; conformance of the same traces to specs/loop/TaskLoop.tla / Notifier.tla "
             "(trace validation) and the achieved edge coverage of the TLC state graph are reported as evidence.")
MANIFEST = {
    "C10": ("model_checking", "5.C10",
            "TaskLoop.tla (submitters with Err pre-check / select / wait, cancellers, the loop, closers with closeOnce and preStop) model-checked exhaustively "
            "for 3 submitters (1 cancellable) x 2 closers and smaller configurations incl. a task that blocks until preStop, with liveness under fairness; "
            "an edge cover of the complete TLC state graph is replayed through yield-point gates on the real internal/taskloop inside synctest bubbles "
            "(adaptive to Go's random select), plus seeded unguided gated walks and free-running jitter runs; every recorded step is validated against the "
            "spec and judged by TaskLoopMon (Mutex, OkIffRanOnce, ErrIffNever, NoStartAfterClose, OnCloseOnceLast, CloseRetImpliesQuiet, RunReturns, CloseReturns). "
            "Second sentence: (a) AgentApi.tla - every public control call (StartDial/StartAccept, Restart, SetRemoteCredentials, Get*Credentials, GatherCandidates, "
            "GetGatheringState, AddRemoteCandidate, GetRemoteCandidates, OnCandidate, Close) as atomic step(s) on an abstract agent state - model-checked for 3 concurrent "
            "callers; invocation/return histories of concurrent calls on a real agent, overlapped deterministically by holding its task loop at a yield point, are "
            "searched by TLC for a linearisation (AgentApiTrace.tla: silent atomic steps placed between invocation and return) and judged by ApiHistMon "
            "(StartAtMostOnce, NoTornCredentials, NoUnknownError, ClosedIsFinal); (b) concurrent public Agent/Conn calls on two connected real agents and Restart "
            "at every point of a gather cycle under the Go race detector.",
            LOOP_NOTE, "TLA+ spec model-checked with TLC; whole-graph edge-cover replay on the real code through yield-point gates; traces validated and judged in TLC; "
            "linearisation search of recorded API histories in TLC; Go race detector"),
    "C11": ("model_checking", "5.C11",
            "Notifier.tla (producer, drainers, closer; handler call as an interval; handler behaviours fast / blocking / re-entrant / closing) model-checked "
            "exhaustively over all 4^3 behaviour assignments x {graceful, not}; an edge cover of the complete state graph is replayed through gates on the real "
            "handlerNotifier on all three streams, validated against the spec and judged by NotifierMon (Fifo, NoOverlap, ExactlyOnceAtQuiescence, GracefulMeansQuiet); "
            "agent-level runs through the public On* setters with slow / re-entrant / closing handlers judged by CallbackMon; gather cycles of a real agent with "
            "Restart at every gate of the cycle judged by GatherMon (OneNilLast, NoNilIfCancelled, UfragOfCycle).",
            LOOP_NOTE, "TLA+ spec model-checked with TLC; whole-graph edge-cover replay on the real code through yield-point gates; traces validated and judged in TLC"),
}


def replay(rp):
    """Re-run one recorded violation against the current tree and re-judge it (./check replay --replay <path>)."""
    prop = rp["property"]
    verdict = v.Verdict(prop, "quick", 0)
    stats = new_stats()
    with v.Work("replay-" + prop) as work:
        work.copy_specs(FAMILY)
        kind = rp.get("kind")
        if kind == "taskloop":
            binary = v.build_harness(work, pkg=FAMILY)
            pf = work.path("paths.jsonl")
            write_paths(pf, [[norm_label(x) for x in rp["labels"]]] * 20)   # Go's select is random: repeat
            trace = work.path("replay.ndjson")
            job = dict(rp["cfg"], paths=pf, walks=0, walkLen=0, seed=0, out=trace, stats=work.path("replay.stats.json"))
            jp = work.path("replay.job.json")
            json.dump(job, open(jp, "w"))
            drive(binary, "TestTaskLoop", jp, "replay", tolerate_failure=True)
            tl_judge(work, verdict, stats, trace, v.read_ndjson(trace), rp.get("cfgname", "replay"), rp["cfg"], "replay", "replay")
        elif kind == "notifier":
            binary = v.build_harness(work, pkg=FAMILY)
            recs = [{"kind": rp["handler_kinds"], "graceful": rp["graceful"], "path": [norm_label(x) for x in rp["labels"]]}]
            res = hn_stream(work, binary, verdict, stats, rp["stream"], recs, 0, 0, None, {}, alias=rp.get("alias", False))
            hn_account(verdict, stats, res)
        elif kind == "race":
            race_binary = v.build_harness(work, race=True, pkg=FAMILY)
            race_part(work, verdict, stats, race_binary, "quick", int(rp.get("job", {}).get("seed", 1)))
        elif kind == "apilin":
            binary = v.build_harness(work, pkg=FAMILY)
            sc = {k: rp["scenario"][k] for k in ("handler", "steps", "tag")}
            api_lin_run(work, verdict, stats, binary, [dict(sc) for _ in range(10)], "quick")
        elif kind == "callbacks":
            return PLANS[prop]("quick", 1)
        elif kind == "gather":
            binary = v.build_harness(work, pkg=FAMILY)
            trace = work.path("ga.ndjson")
            jp = work.path("ga.job.json")
            json.dump(dict(reps=12, seed=1, out=trace, stats=work.path("ga.stats.json")), open(jp, "w"))
            drive(binary, "TestGatherRestart", jp, "gather", tolerate_failure=True)
            judge_simple(work, verdict, stats, "GatherMon", GA_PREDS, trace, "ga", ga_features, "gather")
        else:
            raise v.Inconclusive("unknown replay kind %r" % kind)
    for feat, p in verdict.violations:
        print("VIOLATION property=%s replay=%s" % (prop, p))
    for kid, (what, cnt) in verdict.known_hits.items():
        print("KNOWN-FINDING: property=%s %s" % (prop, what))
    return 1 if verdict.violations else 0
