"""Shared machinery of /verif/check: work directories, TLC runs, harness builds, evidence, known findings."""
import glob
import json
import os
import re
import shutil
import subprocess
import sys
import time

ROOT = os.path.dirname(os.path.dirname(os.path.abspath(__file__)))
SPECS = os.path.join(ROOT, "specs")
HARNESS = os.path.join(ROOT, "harness")
EVID = os.environ.get("VERIF_EVIDENCE_DIR") or os.path.join(ROOT, "evidence")   # selftest/seed runs against a scratch tree write elsewhere
REPLAYS = os.path.join(ROOT, ".work", "replays")
KNOWN = os.path.join(ROOT, "known_findings.txt")
REPO = os.environ.get("VERIF_REPO", "/repo")
GO = "go1.26.8"
NCPU = os.cpu_count() or 4


class Inconclusive(Exception):
    """The machinery could not reach a verdict (build failure, dead driver, TLC timeout/OOM): exit 2."""


def goenv():
    e = dict(os.environ)
    e.update({"GOFLAGS": "-mod=mod", "GOPROXY": "off", "GOSUMDB": "off", "GOTOOLCHAIN": "local"})
    return e


class Work:
    """A scratch directory under /verif/.work, removed on exit unless keep is set."""

    def __init__(self, name):
        self.dir = os.path.join(ROOT, ".work", "%s-%d" % (name, os.getpid()))
        self.keep = False

    def __enter__(self):
        shutil.rmtree(self.dir, ignore_errors=True)
        os.makedirs(self.dir)
        return self

    def __exit__(self, *a):
        if not self.keep and not os.environ.get("VERIF_KEEP"):
            shutil.rmtree(self.dir, ignore_errors=True)

    def path(self, *p):
        return os.path.join(self.dir, *p)

    def copy_specs(self, *subdirs):
        for sd in subdirs:
            for f in glob.glob(os.path.join(SPECS, sd, "*.tla")) + glob.glob(os.path.join(SPECS, sd, "*.cfg")):
                shutil.copy(f, self.dir)


# ---------------------------------------------------------------- TLC

class TLCResult:
    def __init__(self, out, rc, wall):
        self.out, self.rc, self.wall = out, rc, wall
        m = re.findall(r"(\d[\d,]*) states generated, (\d[\d,]*) distinct states found", out)
        self.generated = int(m[-1][0].replace(",", "")) if m else 0
        self.distinct = int(m[-1][1].replace(",", "")) if m else 0
        m = re.search(r"depth of the complete state graph search is (\d+)", out)
        self.depth = int(m.group(1)) if m else 0
        self.invariants_violated = re.findall(r"Invariant (\w+) is violated", out)
        self.props_violated = re.findall(r"(?:Action property|Temporal properties?) (\w*) ?(?:is|were) violated", out)
        self.temporal_violated = "Temporal properties were violated" in out
        self.postcondition_failed = "ostcondition" in out and "violated" in out
        self.completed = "Model checking completed" in out or "Finished in" in out
        self.error = None
        if rc == 124:
            self.error = "timeout"
        elif "java.lang.OutOfMemoryError" in out:
            self.error = "oom"
        elif "StackOverflowError" in out:
            self.error = "stackoverflow"
        elif re.search(r"Parsing or semantic analysis failed|\*\*\* Errors:", out):
            self.error = "parse"
        elif re.search(r"Error: (?!Invariant|Postcondition|Temporal|Action property|The following behavior|The behavior up to)", out) and \
                not self.invariants_violated and not self.postcondition_failed and not self.temporal_violated:
            self.error = "tlc-error"

    @property
    def clean(self):
        return (self.error is None and not self.invariants_violated and not self.temporal_violated
                and not self.postcondition_failed and not self.props_violated
                and "No error has been found" in self.out)

    def prints(self, tag):
        """Tuples printed by PrintT(<<tag, ...>>)."""
        res = []
        for m in re.finditer(r"<<\s*\"%s\"\s*,\s*(.*?)>>" % re.escape(tag), self.out):
            parts = [p.strip().strip('"') for p in m.group(1).split(",")]
            res.append(parts)
        return res


def tlc(workdir, module, cfg=None, workers=None, timeout=600, simulate=None, depth=None, seed=None,
        dfs=False, extra=(), heap=None, coverage=False, dump=None):
    cfg = cfg or module + ".cfg"
    workers = workers or NCPU
    md = os.path.join(workdir, "md-%s-%d" % (module, int(time.time() * 1000) % 100000))
    jopts = []
    if dfs:
        jopts.append("-Dtlc2.tool.queue.IStateQueue=StateDeque")
    if heap:
        jopts.append("-Xmx%s" % heap)
    jopts.append("-Xss256m")
    cmd = ["timeout", str(timeout), "java", "-XX:+UseParallelGC"] + jopts + [
        "-cp", "/opt/veriftools/tla/tla2tools.jar:/opt/veriftools/tla/CommunityModules-deps.jar", "tlc2.TLC",
        "-workers", str(workers), "-metadir", md, "-config", cfg, "-noGenerateSpecTE"]
    if simulate:
        cmd += ["-simulate", simulate]
    if depth:
        cmd += ["-depth", str(depth)]
    if seed is not None:
        cmd += ["-seed", str(seed)]
    if coverage:
        cmd += ["-coverage", "1"]
    if dump:
        cmd += ["-dump", "dot,actionlabels", dump]
    cmd += list(extra) + [module + ".tla"]
    t0 = time.time()
    p = subprocess.run(cmd, cwd=workdir, stdout=subprocess.PIPE, stderr=subprocess.STDOUT, text=True, errors="replace")
    shutil.rmtree(md, ignore_errors=True)
    return TLCResult(p.stdout, p.returncode, time.time() - t0)


def require(res, what):
    """Raise Inconclusive if a TLC run did not produce a usable result."""
    if res.error:
        sys.stderr.write(res.out[-3000:])
        raise Inconclusive("%s: TLC %s" % (what, res.error))
    return res


# ---------------------------------------------------------------- harness

def build_harness(work, race=False, pkg="."):
    """Compile a harness test binary (package pkg of /verif/harness) against the current working tree of the repository."""
    tagname = pkg.strip("./").replace("/", "-") or "harness"
    out = work.path(tagname + ("-race.test" if race else ".test"))
    env = goenv()
    modargs = []
    if os.path.realpath(REPO) != "/repo":
        alt = work.path("alt.mod")
        src = open(os.path.join(HARNESS, "go.mod")).read().replace("=> /repo", "=> " + REPO)
        open(alt, "w").write(src)
        shutil.copy(os.path.join(HARNESS, "go.sum"), work.path("alt.sum"))
        modargs = ["-modfile=" + alt]
    cmd = [GO, "test", "-c", "-tags", "verif"] + (["-race"] if race else []) + modargs + ["-o", out, pkg if pkg.startswith(".") else "./" + pkg]
    p = subprocess.run(cmd, cwd=HARNESS, env=env, stdout=subprocess.PIPE, stderr=subprocess.STDOUT, text=True)
    if p.returncode != 0:
        sys.stderr.write(p.stdout[-4000:])
        raise Inconclusive("harness build failed")
    return out


def run_harness(binary, test, job=None, timeout=300, env_extra=None, cwd=None):
    env = goenv()
    if job:
        env["VERIF_JOB"] = job
    if env_extra:
        env.update(env_extra)
    cmd = ["timeout", str(timeout), binary, "-test.run", "^%s$" % test, "-test.count=1", "-test.timeout=%ds" % max(30, timeout - 5)]
    t0 = time.time()
    p = subprocess.run(cmd, cwd=cwd or HARNESS, env=env, stdout=subprocess.PIPE, stderr=subprocess.STDOUT, text=True, errors="replace")
    return p.returncode, p.stdout, time.time() - t0


# ---------------------------------------------------------------- known findings

def load_known(prop):
    """finding: lines for a property -> list of dicts {id, signature(dict), what}."""
    res = []
    if not os.path.exists(KNOWN):
        return res
    for line in open(KNOWN):
        line = line.strip()
        if not line.startswith("finding:"):
            continue
        m = re.match(r"finding:\s+property=(\w+)\s+id=(\S+)\s+signature=(\{.*?\})\s+what=(.*)$", line)
        if not m or m.group(1) != prop:
            continue
        res.append({"id": m.group(2), "signature": json.loads(m.group(3)), "what": m.group(4)})
    return res


def match_known(known, features):
    """First finding whose signature is a sub-dict of the violation's features."""
    for k in known:
        if all(features.get(a) == b for a, b in k["signature"].items()):
            return k
    return None


# ---------------------------------------------------------------- verdict / evidence

MAX_REPLAYS = 60      # replay files written per run


class Verdict:
    def __init__(self, prop, tier, seed):
        self.prop, self.tier, self.seed = prop, tier, seed
        self.t0 = time.time()
        self.violations = []   # (features, replay path)
        self.known_hits = {}   # id -> (what, count)
        self.known = load_known(prop)
        self.coverage = {}
        self.assumptions = []
        self.notes = []

    def report(self, features, replay_writer):
        """Record one violation of the property; replay_writer(path) stores the offending case."""
        k = match_known(self.known, features)
        if k:
            w, c = self.known_hits.get(k["id"], (k["what"], 0))
            self.known_hits[k["id"]] = (w, c + 1)
            return False
        if len(self.violations) >= MAX_REPLAYS:
            # a broken tree violates a predicate thousands of times; the verdict is settled, the check must still finish
            self.coverage["violations_not_written"] = self.coverage.get("violations_not_written", 0) + 1
            return True
        os.makedirs(REPLAYS, exist_ok=True)
        path = os.path.join(REPLAYS, "%s-%s-%d-%d.json" % (self.prop, self.tier, self.seed, len(self.violations)))
        try:
            replay_writer(path)
        except Exception as e:  # noqa
            open(path, "w").write(json.dumps({"features": features, "error": str(e)}))
        self.violations.append((features, path))
        return True

    def finish(self, level="model_checking"):
        wall = time.time() - self.t0
        cov = dict(self.coverage)
        cov.setdefault("known_findings_hit", {k: v[1] for k, v in self.known_hits.items()})
        ev = {"property_id": self.prop, "tier": self.tier, "seed": self.seed, "level": level, "coverage": cov,
              "assumptions": self.assumptions, "wall_s": round(wall, 2), "violations": len(self.violations)}
        if self.violations:
            ev["coverage"]["violation_features"] = [v[0] for v in self.violations[:10]]
        os.makedirs(EVID, exist_ok=True)
        with open(os.path.join(EVID, self.prop + ".json"), "w") as f:
            json.dump(ev, f, indent=1, sort_keys=True, default=str)
            f.write("\n")
        for kid, (what, n) in sorted(self.known_hits.items()):
            print("KNOWN-FINDING: property=%s %s (%s, %d occurrence%s in this run)" % (self.prop, what, kid, n, "" if n == 1 else "s"))
        seen = set()
        for feat, path in self.violations:
            key = json.dumps({k: v for k, v in feat.items() if k not in ("trace", "step")}, sort_keys=True)
            if key in seen:
                continue
            seen.add(key)
            print("VIOLATION property=%s replay=%s" % (self.prop, path))
            sys.stderr.write("  violation detail: %s\n" % json.dumps(feat, default=str))
        return 1 if self.violations else 0


def read_ndjson(path):
    return [json.loads(l) for l in open(path) if l.strip()]
