"""python3 lib/seedtable.py : markdown table of the stored seeded defects (seeded/<id>/meta.json, notes.md) for DESIGN.md 11.5;
rewrites the block between the markers <!-- seedtable:begin --> and <!-- seedtable:end --> of DESIGN.md."""
import json, os, re
ROOT = os.path.dirname(os.path.dirname(os.path.abspath(__file__)))
rows = []
for sid in sorted(os.listdir(os.path.join(ROOT, "seeded"))):
    d = os.path.join(ROOT, "seeded", sid)
    m = json.load(open(os.path.join(d, "meta.json")))
    title = ""
    np = os.path.join(d, "notes.md")
    if os.path.exists(np):
        for l in open(np):
            if l.startswith("#"):
                title = re.sub(r"^#+\s*", "", l.strip())
                title = re.sub(r"^(Seed(ed defect)?\s*)?([A-Z]\d\d-?[ab]?|[AB])\s*[:—–-]+\s*", "", title, flags=re.I)
                break
    chk = m.get("recheck") or m.get("check") or {}
    det = (chk.get("details") or [""])[0]
    pm = re.search(r'"predicate": "(\w+)"', det)
    pred = pm.group(1) if pm else "-"
    extra = ""
    for k in ("cfg", "part", "site", "shape", "kind", "mode"):
        mm = re.search(r'"%s": "([^"]+)"' % k, det)
        if mm:
            extra = " (%s %s)" % (k, mm.group(1)[:40])
            break
    caught = "quick" if m.get("caught_by_quick_check") else ("thorough" if m.get("caught_by_thorough_check") else "**missed**")
    rows.append("| %s | %s | %s | `%s`%s |" % (sid, title[:110].replace("|", "/"), caught, pred, extra))
table = "| seed | change | caught by tier | first predicate reported |\n|---|---|---|---|\n" + "\n".join(rows) + "\n"
p = os.path.join(ROOT, "DESIGN.md")
s = open(p).read()
b, e = "<!-- seedtable:begin -->", "<!-- seedtable:end -->"
if b in s:
    s = s[:s.index(b) + len(b)] + "\n" + table + s[s.index(e):]
    open(p, "w").write(s)
print(table)
