"""What each property's check explores, per tier."""
import json
import session

C06_PREDS = ["C06_RemoteFilter", "C06_UniqueIds", "C06_IdAddresses", "C06_NoDupPairs", "C06_PairsFromCurrent", "C06_SelListed", "C06_IdStable",
             "C06_RemotesDeduped", "C06_NoResidue", "C06_NoResidueNew", "C06_SupersessionPreserves"]
C02_PREDS = ["C02_BadRequestInert", "C02_BadResponseInert", "C02_ErrorInert", "C02_NonBindingInert", "C02_IndicationOnlyLiveness",
             "C02_UnmatchedResponse", "C02_MatchedOnly"]
C03_PREDS = ["C03_SelValidated", "C03_SelectedIsValid", "C03_LiteSelectsOnNomination", "C03_NoUCFromControlled", "C03_LiteNeverRequests", "C03_NoDowngrade"]
C04_PREDS = ["C04_TimingRule", "C04_CheckingDeadline", "C04_LifecycleStrict", "C04_NotifiedIsActual", "C04_SelWhileConnected",
             "C04_ReleasedOnFailed"]
C05_PREDS = ["C05_Rule", "C05_SwitchOnlyOnConflict"]
C01_PREDS = ["C01_Mirror", "C01_Converges", "C01_NeverWithoutPath"]
SESSION_ASSUME = ["UDP host/srflx/prflx candidates on a simulated datagram network (TCP candidates are covered by C14/C15)",
                  "ticks happen at harness-chosen points (hook H1), over-approximating the agent's timers",
                  "virtual clock of testing/synctest; HMAC-SHA1 treated as unforgeable"]


def n(tier, quick, thorough):
    return quick if tier == "quick" else thorough


def c01(tier, seed):
    w = n(tier, 150, 2000)
    # frozen clock => acceptance waits must be zero, or a controlling agent never nominates a srflx/prflx remote
    runs = [dict(cfg=c, traces=w, drain=True, notime=True, zerowait=True, preds=C01_PREDS) for c in ("p11", "pnat", "pnatc", "p21n", "prst", "p22")]
    runs[0]["scheds"] = ["c01_triggered_check_after_budget", "c01_late_answer_after_budget", "c01_peer_checks_are_not_my_timer"]
    # p22 has a pair that is the lower-priority one on BOTH sides (in p21n the controlling side's two local host candidates tie)
    runs[5]["scheds"] = ["c01_better_pair_validates_while_nominating"]
    runs.append(dict(cfg="poneway", traces=n(tier, 60, 500), drain=True, notime=True, preds=C01_PREDS))
    runs.append(dict(cfg="prole", traces=n(tier, 60, 500), drain=True, notime=True, preds=C01_PREDS))
    # a one-way link on the best pair while another pair works in both directions
    runs.append(dict(cfg="p21oneway", traces=n(tier, 100, 1000), drain=True, notime=True, zerowait=True, preds=C01_PREDS))
    # loss above the retry budget: what is excused is counted on the wire (WithinBudget), not read off the agents' pair states
    for c in ("plossy", "plossy21"):
        runs.append(dict(cfg=c, traces=n(tier, 150, 2000), drain=True, notime=True, zerowait=True, preds=C01_PREDS))
    # with the clock running (the random walks above freeze it): a restart later than the checking deadline after the first start
    runs.append(dict(cfg="prst", traces=0, drain=True, preds=C01_PREDS, scheds=["c01_restart_after_the_checking_deadline"]))
    plan = {"runs": runs,
            "mc": [("p11", ["Mirror", "SelValidated"], n(tier, {"MaxTicks": 2, "MaxLoss": 1, "MaxDup": 0}, {"MaxTicks": 2, "MaxLoss": 1, "MaxDup": 1})),
                   ("pnat", ["Mirror"], None)],
            "assumptions": SESSION_ASSUME + ["convergence is judged with a frozen clock after a bounded fair loss-free suffix"]}
    return session.run_property("C01", tier, seed, plan)


def c02(tier, seed):
    w = n(tier, 250, 4000)
    runs = [dict(cfg="pinj", traces=w, preds=C02_PREDS), dict(cfg="pall", traces=w, preds=C02_PREDS),
            dict(cfg="pinjnat", traces=n(tier, 100, 1500), preds=C02_PREDS),
            dict(cfg="p12", traces=n(tier, 50, 500), preds=C02_PREDS, scheds=["nm_respdst"]),
            dict(cfg="p11", traces=n(tier, 100, 1000), preds=C02_PREDS, scheds=["c02_expired_response"]),
            dict(cfg="prst", traces=n(tier, 100, 1000), preds=C02_PREDS + ["C06_NoResidue"], scheds=["c02_answer_from_ended_generation"])]
    plan = {"runs": runs, "mc": [("pinj", ["SelValidated", "NoDupPairs"], None)], "assumptions": SESSION_ASSUME}
    return session.run_property("C02", tier, seed, plan)


def c03(tier, seed):
    w = n(tier, 150, 2500)
    runs = [dict(cfg=c, traces=w, drain=True, preds=C03_PREDS) for c in ("p11", "p21n", "pnat", "plite", "plitecp", "p22")]
    runs[0]["scheds"] = ["nm_selvalid", "nm_ctlsel_uc"]
    runs[1]["scheds"] = ["nm_prioless", "c03_early_uc_low_then_high_selected"]
    runs.append(dict(cfg="pnatc", traces=w, drain=True, preds=C03_PREDS, scheds=["c03_supersede_while_nominating"]))
    runs[2]["scheds"] = ["c03_supersede_under_deferred_nomination"]       # runs[2] is pnat
    runs.append(dict(cfg="p21inj", traces=w, drain=True, zerowait=True, preds=C03_PREDS, scheds=["c03_plain_uc_after_valued"]))
    # a misbehaving peer that makes an agent switch role mid-session: what the old role left behind must not select anything
    for c in ("pinjrole", "p21injrole"):
        runs.append(dict(cfg=c, traces=w, drain=True, zerowait=True, preds=C03_PREDS))
    # the lifecycle: nominations that arrive while the agent is Disconnected (and after Failed) follow the same rules
    runs.append(dict(cfg="plife21", traces=n(tier, 100, 1500), preds=C03_PREDS, scheds=["c03_plain_uc_while_disconnected"]))
    plan = {"runs": runs, "mc": [("p11", ["SelValidated"], {"MaxTicks": 2, "MaxLoss": 1, "MaxDup": 0}), ("plite", ["SelListed"], None)],
            "assumptions": SESSION_ASSUME}
    return session.run_property("C03", tier, seed, plan)


def c04(tier, seed):
    w = n(tier, 200, 3000)
    runs = [dict(cfg=c, traces=w, preds=C04_PREDS) for c in ("p11", "prst", "pnat", "plife0", "plifeD0", "plifelite", "pclose", "plifeK", "plife0c", "plifeD0c")]
    runs[1]["scheds"] = ["fc04_failed_then_connected"]
    runs.append(dict(cfg="plife21", traces=n(tier, 100, 1500), preds=C04_PREDS, scheds=["c04_other_remote_keeps_talking"]))
    plan = {"runs": runs, "mc": [("plifemc", ["SelWhileConnected"], n(tier, {"MaxTicks": 2, "Steps": [2], "MaxTime": 6}, {"MaxTicks": 3, "Steps": [3], "MaxTime": 9}),
                   ["ReleasedOnFailed", "Lifecycle"]),
                  # a lite agent that keeps its default timeouts: disconnected timeout and checking deadline are different numbers
                  ("plifelitemc", ["SelWhileConnected"], n(tier, {"MaxTicks": 2, "Steps": [2], "MaxTime": 8}, {"MaxTicks": 3, "Steps": [2, 3], "MaxTime": 10}),
                   ["ReleasedOnFailed", "Lifecycle"])], "assumptions": SESSION_ASSUME}
    return session.run_property("C04", tier, seed, plan)


def c05(tier, seed):
    w = n(tier, 200, 3000)
    runs = [dict(cfg=c, traces=w, drain=True, notime=True, preds=C05_PREDS + ["C05_OppositeAtEnd", "C01_Mirror", "C01_Converges"])
            for c in ("prole", "prole0")]
    runs.append(dict(cfg="proleeq", traces=w, drain=True, notime=True, preds=C05_PREDS))
    runs.append(dict(cfg="proleeq0", traces=w, drain=True, notime=True, preds=C05_PREDS))
    for c in ("prolenat", "prolenat0", "prolenatw", "prolenat0w"):   # the conflicting check arrives from a not yet signalled (peer-reflexive) source
        runs.append(dict(cfg=c, traces=w, drain=True, notime=True, zerowait=True, preds=C05_PREDS + ["C05_OppositeAtEnd", "C01_Mirror", "C01_Converges"]))
    # the rule applied in the middle of a session (valid pairs, outstanding nominations): requests with the receiver's own role from a peer that misbehaves
    for c in ("pinjrole", "p21injrole", "pinjrolerst"):
        runs.append(dict(cfg=c, traces=w, preds=C05_PREDS))
    plan = {"runs": runs, "mc": [("prole", ["Mirror"], None), ("prole0", ["Mirror"], None)], "assumptions": SESSION_ASSUME}
    return session.run_property("C05", tier, seed, plan)


def c06(tier, seed):
    w = n(tier, 200, 3000)
    runs = [dict(cfg=c, traces=w, preds=C06_PREDS) for c in ("pnat", "pnatc", "prst", "p11", "p21n", "pall", "p22", "pnewrst", "pclose", "pfilter", "psame", "psamer")]
    runs[0]["scheds"] = ["nm_findpair"]
    plan = {"runs": runs, "mc": [("pnat", ["UniqueIds", "NoDupPairs", "PairsFromCurrent", "SelListed"], None),
                                 ("pfilter", ["UniqueIds", "NoDupPairs", "PairsFromCurrent", "SelListed", "FilterHolds"], None),
                                 ("prst", ["UniqueIds", "NoDupPairs", "PairsFromCurrent", "SelListed"], None),
                                 ("psame", ["UniqueIds", "NoDupPairs", "RemotesDeduped", "PairsFromCurrent", "SelListed"], None),
                                 ("pclose", ["UniqueIds", "NoDupPairs", "PairsFromCurrent", "SelListed", "SelWhileConnected"], None, ["Lifecycle", "ReleasedOnFailed"])],
            "assumptions": SESSION_ASSUME}
    return session.run_property("C06", tier, seed, plan)


C20_PREDS = ["C20_AcceptMonotone", "C20_StaleIgnored", "C20_SwitchOnValid", "C20_SwitchWhenValidated", "C20_ControllingKeepsNewest",
             "C20_QuiescentAgreement", "C20_ValueOnWire", "C20_OnlyControllingEnabled"]


def c20(tier, seed):
    w = n(tier, 250, 4000)
    runs = [dict(cfg="p21", traces=w, drain=True, notime=True, zerowait=True, preds=C20_PREDS,
                 scheds=["fc20a_deferred_ignores_value", "fc20b_responses_reversed", "fc20b_stale_request_answered", "fc20c_plain_after_valued_tlc", "c20_plain_uc_on_deferred_value"]),
            dict(cfg="p21big", traces=n(tier, 100, 1000), drain=True, notime=True, zerowait=True, preds=C20_PREDS),
            dict(cfg="p21", traces=n(tier, 100, 1000), preds=C20_PREDS),
            dict(cfg="p21step", traces=n(tier, 100, 1000), drain=True, notime=True, zerowait=True, preds=C20_PREDS),
            dict(cfg="p21n", traces=n(tier, 60, 500), preds=["C20_OnlyControllingEnabled"]),
            # renominations from an address known only as a peer-reflexive candidate, superseded while the value is deferred
            dict(cfg="p21nat", traces=n(tier, 150, 2000), drain=True, notime=True, zerowait=True, preds=C20_PREDS)]
    plan = {"runs": runs, "mc": [("p21", ["SelListed", "NoDupPairs", "RenomAgree"], n(tier, None, {"MaxRenom": 2}))], "mc_timeout": n(tier, 600, 7200),
            "assumptions": SESSION_ASSUME + [
        "quiescent agreement is judged on loss-free traces after the fair suffix, with a frozen clock"]}
    return session.run_property("C20", tier, seed, plan)


C07_PREDS = ["C07_WriteRoute", "C07_StunShapedConsistent", "C07_NoSTUNWrite", "C07_ReadOnlyKnown", "C07_DataInert", "C07_ConnCounters", "C07_PairCounters", "C07_ShortReadReported"]


def c07(tier, seed):
    w = n(tier, 200, 3000)
    runs = [dict(cfg=c, traces=w, drain=True, notime=True, preds=C07_PREDS) for c in ("pdata", "pdata21", "pdatanat", "pdatatcp", "pdatafilter")]
    runs.append(dict(cfg="pdata", traces=n(tier, 100, 1500), preds=C07_PREDS))
    runs[0]["scheds"] = ["c07_reader_falls_behind", "c07_short_read_buffer"]
    runs[1]["scheds"] = ["c07_early_writes_follow_the_valid_set", "c07_early_write_then_restart"]
    plan = {"runs": runs, "mc": [("pdata", ["DataOnlyOnValid", "SelListed"], None)], "assumptions": SESSION_ASSUME + [
        "payload sizes 5..8192 bytes; the application reader runs concurrently and is drained at every step"]}
    return session.run_property("C07", tier, seed, plan)


PLANS = {"C07": c07, "C20": c20, "C01": c01, "C02": c02, "C03": c03, "C04": c04, "C05": c05, "C06": c06}

# other families live in lib/plan_<family>.py, each exporting PLANS = {"Cnn": fn(tier, seed) -> exit code}
import glob as _glob
import importlib as _importlib
import os as _os
for _f in sorted(_glob.glob(_os.path.join(_os.path.dirname(_os.path.abspath(__file__)), "plan_*.py"))):
    _m = _importlib.import_module(_os.path.basename(_f)[:-3])
    PLANS.update(getattr(_m, "PLANS", {}))


def replay(path):
    """Re-run one recorded schedule against the current tree and re-judge it."""
    import vlib as v
    rp = json.load(open(path))
    if rp.get("family"):   # replay files of other families name their plan module
        mod = _importlib.import_module("plan_" + rp["family"])
        if hasattr(mod, "replay_file"):
            return mod.replay_file(path)
        if hasattr(mod, "replay"):
            import inspect
            first = list(inspect.signature(mod.replay).parameters)[0]
            return mod.replay(path if first == "path" else rp)
    prop = rp["property"]
    verdict = v.Verdict(prop, "quick", 0)
    stats = session.new_stats()
    with v.Work("replay") as work:
        work.copy_specs("session")
        binary = v.build_harness(work)
        sp = work.path("sched.json")
        json.dump(rp["schedule"], open(sp, "w"))
        run = dict(cfg=rp["cfg"], traces=0, scheds=[sp], preds=[rp["predicate"]], **rp.get("job", {}))
        session.run_batch(work, binary, verdict, run, 0, "replay", stats)
    for feat, p in verdict.violations:
        print("VIOLATION property=%s replay=%s" % (prop, p))
    for kid, (what, cnt) in verdict.known_hits.items():
        print("KNOWN-FINDING: property=%s %s" % (prop, what))
    return 1 if verdict.violations else 0
