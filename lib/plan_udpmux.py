"""Checks of the udpmux family: C12 (UDP mux routing, specs/udpmux/MuxRoute*.tla) and C13 (users of a shared mux cannot
disturb each other: write-abort state machine MuxWrite*.tla, reference-counted handles SharedConn*.tla).

Every check: TLC explores the model exhaustively and dumps its state graph; an edge cover of the graph (and TLC's
counterexamples) is replayed on the real code in /repo through the verifhook gates; the recorded ndjson is validated
against the specification (conformance evidence) and judged by the monitor specification (the verdict)."""
import bisect
import collections
import concurrent.futures
import glob
import json
import multiprocessing
import os
import random
import re
import shutil
import sys
import threading

import vlib as v

FAMILY = "udpmux"
LOCK = threading.RLock()   # stats / verdict are folded under this lock (sub-checks run in threads)
EDGE_RE = re.compile(r'^(-?\d+) -> (-?\d+) \[label="((?:[^"\\]|\\.)*)"')


# ---------------------------------------------------------------- state graph, edge cover, achieved coverage

class Graph:
    def __init__(self, dot, skip=("Next",)):
        self.edges = collections.defaultdict(list)   # src -> [(label, dst)]
        self.init = None
        seen = set()
        for line in open(dot, errors="replace"):
            m = EDGE_RE.match(line)
            if m:
                s, d, lab = m.group(1), m.group(2), m.group(3).replace('\\"', "").replace('"', "")
                if lab in skip or (s, lab, d) in seen:
                    continue
                seen.add((s, lab, d))
                self.edges[s].append((lab, d))
            elif self.init is None and "style = filled" in line:
                self.init = line.split(" ", 1)[0]
        self.all = seen
        self.nodes = set(self.edges) | {d for (_, _, d) in seen}

    def plan(self, seed, noplan=(), targets=None, max_steps=None, local=4):
        """Edge cover as a list of label paths from the initial state: every path takes the shortest route to the source
        of an edge not yet covered and then keeps walking, preferring uncovered edges and looking at most `local` steps
        ahead for the next one. Labels in noplan are never planned (the driver performs those actions by itself)."""
        rnd = random.Random(seed)
        usable = lambda lab: lab.split("(")[0] not in noplan  # noqa: E731
        out = {}
        for s, es in self.edges.items():
            es = [(lab, d) for (lab, d) in es if usable(lab)]
            rnd.shuffle(es)
            out[s] = es
        # shortest route from the initial state to every node
        pre = {self.init: None}
        order = [self.init]
        q = collections.deque(order)
        while q:
            u = q.popleft()
            for (lab, d) in out.get(u, ()):
                if d not in pre:
                    pre[d] = (u, lab)
                    order.append(d)
                    q.append(d)

        def route(n):
            r = []
            while pre[n] is not None:
                n, lab = pre[n]
                r.append(lab)
            r.reverse()
            return r
        want = set(e for e in (targets if targets is not None else self.all) if usable(e[1]) and e[0] in pre)
        unreachable = len([e for e in (targets if targets is not None else self.all) if usable(e[1])]) - len(want)
        left = collections.Counter(e[0] for e in want)    # node -> number of uncovered outgoing edges
        pending = [n for n in order if left[n]]
        rnd.shuffle(pending)
        paths, steps = [], 0
        while pending and (max_steps is None or steps < max_steps):
            n = pending[-1]
            if not left[n]:
                pending.pop()
                continue
            path, cur = route(n), n
            while True:
                nxt = None
                for (lab, d) in out.get(cur, ()):
                    if (cur, lab, d) in want:
                        nxt = [(cur, lab, d)]
                        break
                if nxt is None and local:
                    # bounded look-ahead for the nearest uncovered edge
                    seen = {cur: None}
                    fr = [cur]
                    for _ in range(local):
                        nf = []
                        for u in fr:
                            for (lab, d) in out.get(u, ()):
                                if d in seen:
                                    continue
                                seen[d] = (u, lab)
                                if left[d]:
                                    hop = []
                                    x = d
                                    while seen[x] is not None:
                                        pu, pl = seen[x]
                                        hop.append((pu, pl, x))
                                        x = pu
                                    nxt = list(reversed(hop))
                                    break
                                nf.append(d)
                            if nxt:
                                break
                        if nxt:
                            break
                        fr = nf
                if nxt is None:
                    break
                for (u, lab, d) in nxt:
                    if (u, lab, d) in want:
                        want.discard((u, lab, d))
                        left[u] -= 1
                    path.append(lab)
                    cur = d
            paths.append(path)
            steps += len(path)
        return paths, len(want) + unreachable

    def walk(self, traces):
        """Edges traversed by the recorded label sequences (each from the initial state); a label the graph does not
        offer in the current state ends the walk of that trace."""
        idx = {s: {} for s in self.edges}
        for s, es in self.edges.items():
            for lab, d in es:
                idx[s][lab] = d
        covered, lost = set(), 0
        for tr in traces:
            cur = self.init
            for lab in tr:
                d = idx.get(cur, {}).get(lab)
                if d is None:
                    lost += 1
                    break
                covered.add((cur, lab, d))
                cur = d
        return covered, lost


def write_paths(path, paths):
    with open(path, "w") as f:
        for p in paths:
            f.write(json.dumps(p) + "\n")


def cex_path(out):
    """Action labels of a TLC counterexample (the 'State n: <Action(args) line ...>' headers)."""
    res = []
    for m in re.finditer(r"^State \d+: <(\w+)(\((.*?)\))? line ", out, re.M):
        args = (m.group(3) or "").replace('"', "").replace(" ", "")
        res.append(m.group(1) + ("(" + args + ")" if m.group(2) else ""))
    return res


def write_cfg(work, name, lines):
    with open(work.path(name), "w") as f:
        f.write("\n".join(lines) + "\n")
    return name


def tla_set(xs):
    return "{" + ", ".join('"%s"' % x for x in xs) + "}"


def split_traces(lines):
    return [i for i, e in enumerate(lines) if e.get("ev") == "Reset"]


def trace_labels(lines, fmt):
    """Per trace, the labels fmt(event) of its events (None = not a graph edge)."""
    res, cur = [], None
    for e in lines:
        if e.get("ev") == "Reset":
            cur = []
            res.append(cur)
            continue
        lab = fmt(e)
        if lab is not None and cur is not None:
            cur.append(lab)
    return res


class Dir:
    """A directory with the family's specifications copied in (one per shard, so that parallel TLC runs never share files)."""

    def __init__(self, d):
        self.dir = d
        os.makedirs(d, exist_ok=True)
        for f in glob.glob(os.path.join(v.SPECS, FAMILY, "*.tla")):
            shutil.copy(f, d)

    def path(self, *p):
        return os.path.join(self.dir, *p)


def validate(work, module, cfg, lines, stats, what, timeout=900):
    """Trace validation (conformance evidence, never the verdict)."""
    r = v.tlc(work.dir, module, cfg=cfg, workers=1, timeout=timeout, heap="6g")
    if r.error:
        sys.stderr.write(r.out[-2000:])
        raise v.Inconclusive("trace validation %s: TLC %s" % (what, r.error))
    resets = split_traces(lines)
    stats["events_recorded"] = stats.get("events_recorded", 0) + len(lines)
    if r.clean:
        stats["traces_validated_against_impl"] += len(resets)
        return None
    rej = r.prints("TRACE_REJECTED_AT")
    at = int(rej[0][0]) if rej else r.depth + 1   # 1-based line that could not be explained
    ok = len([i for i in resets if i + 1 < at]) - 1
    stats["traces_validated_against_impl"] += max(ok, 0)
    stats["nonconforming_traces"] = stats.get("nonconforming_traces", 0) + 1
    e = lines[at - 1] if 0 < at <= len(lines) else {}
    msg = "NONCONFORMANCE spec=%s line=%d ev=%s p=%s" % (what, at, e.get("ev"), e.get("p"))
    stats.setdefault("nonconformance", []).append(msg)
    sys.stderr.write(msg + "\n")
    return at


def monitor(work, module, cfg, what, stats, npreds, timeout=900):
    r = v.tlc(work.dir, module, cfg=cfg, workers=1, timeout=timeout, heap="6g")
    if r.error or not r.clean:
        sys.stderr.write(r.out[-3000:])
        raise v.Inconclusive("monitor run %s did not complete (%s)" % (what, r.error))
    stats["monitor_states"] = stats.get("monitor_states", 0) + r.distinct
    stats["monitor_predicates_evaluated"] = stats.get("monitor_predicates_evaluated", 0) + r.distinct * npreds
    res = []
    for parts in r.prints("VIOL"):
        res.append((parts[0], int(parts[1])) + tuple(parts[2:]))
    return res


def drive(binary, test, job, work, tag, timeout):
    jp = work.path(tag + ".job.json")
    env = job.pop("_env", None) if isinstance(job, dict) else None
    json.dump(job, open(jp, "w"))
    rc, out, wall = v.run_harness(binary, test, jp, timeout=timeout, env_extra=env)
    if rc != 0:
        sys.stderr.write(out[-3000:])
        raise v.Inconclusive("driver %s failed (rc %d)" % (test, rc))
    return json.load(open(job["stats"])), wall


def shard_worker(sp):
    """One shard, in its own process: drive the real code along the shard's paths, validate the recorded trace against
    the specification, judge it with the monitor, describe every violation. Returns plain data."""
    try:
        d = Dir(sp["dir"])
        fam = FAMILIES[sp["family"]]
        trace = d.path("trace.ndjson")
        write_paths(d.path("paths"), sp["paths"])
        job = dict(sp["job"], paths=d.path("paths"), out=trace, stats=d.path("stats.json"))
        dst, wall = drive(sp["binary"], fam["test"], job, d, "drv", sp.get("timeout", 600))
        lines = v.read_ndjson(trace)
        st = {"traces_validated_against_impl": 0}
        cfg = write_cfg(d, "TR.cfg", ["SPECIFICATION TSpec", "CONSTANTS"] + sp["consts"] + ['TraceFile = "%s"' % trace] +
                        ["POSTCONDITION Accepted", "CHECK_DEADLOCK FALSE"])
        validate(d, fam["trace"], cfg, lines, st, sp["what"], timeout=sp.get("tlc_timeout", 900))
        preds = sp["preds"]
        cfg = write_cfg(d, "MON.cfg", ["SPECIFICATION Spec", "CONSTANTS", 'TraceFile = "%s"' % trace, "Check = " + tla_set(preds)] +
                        sp.get("mon_consts", []) + ["INVARIANT Report", "POSTCONDITION Done", "CHECK_DEADLOCK FALSE"])
        viols = monitor(d, fam["mon"], cfg, sp["what"], st, len(preds), timeout=sp.get("tlc_timeout", 900))
        reports = fam["describe"](lines, viols, sp)
        labels = trace_labels(lines, fam["label"])
        sample = None
        if sp.get("want_sample"):
            k = (split_traces(lines) + [len(lines)])[1] if len(split_traces(lines)) > 1 else len(lines)
            sample = {"what": sp["what"] + ": first path recorded from the real code (events; last post-state)",
                      "events": [fam["label"](e) or e["ev"] for e in lines[1:min(k, 40)]], "last_post": lines[min(k, 40) - 1].get("post")}
        return {"ok": True, "driver": dst, "driver_wall_s": wall, "stats": st, "reports": reports, "labels": labels, "sample": sample}
    except v.Inconclusive as e:
        return {"ok": False, "error": str(e)}


def replay(work, binary, family, paths, job, consts, preds, what, seed, stats, verdict, graph=None, cover_key=None, nshards=4,
           mon_consts=(), extra=None):
    """Replay paths on the real code in parallel shards; fold the results into stats / verdict; returns the per-trace labels."""
    nshards = max(1, min(nshards, len(paths) // 50 + 1))
    shards = [paths[i::nshards] for i in range(nshards)]
    specs = [dict(dir=work.path("%s-s%d" % (cover_key or family, i)), family=family, binary=binary, paths=sh, job=job, consts=list(consts),
                  preds=list(preds), what=what, mon_consts=list(mon_consts), want_sample=(i == 0), extra=extra or {})
             for i, sh in enumerate(shards)]
    if nshards == 1:
        results = [shard_worker(specs[0])]
    else:
        # spawn, not fork: sub-checks run in threads, and forking a multi-threaded process may copy a held lock
        with concurrent.futures.ProcessPoolExecutor(nshards, mp_context=multiprocessing.get_context("spawn")) as ex:
            results = list(ex.map(shard_worker, specs))
    labels = []
    agg = collections.Counter()
    wall = 0.0
    LOCK.acquire()
    try:
        return _fold(results, labels, agg, wall, stats, verdict, graph, cover_key, paths, nshards)
    finally:
        LOCK.release()


def _fold(results, labels, agg, wall, stats, verdict, graph, cover_key, paths, nshards):
    for r in results:
        if not r["ok"]:
            raise v.Inconclusive(r["error"])
        for k, n in r["driver"].get("counts", {}).items():
            agg[k] += n
        for k, n in r["stats"].items():
            if isinstance(n, int):
                stats[k] = stats.get(k, 0) + n
            else:
                stats.setdefault(k, []).extend(n)
        wall = max(wall, r["driver_wall_s"])
        labels.extend(r["labels"])
        if r["sample"] and len(stats["samples"]) < 6:
            stats["samples"].append(r["sample"])
        for rep in r["reports"]:
            payload = rep["replay"]
            verdict.report(rep["features"], lambda path, payload=payload: json.dump(payload, open(path, "w")))
    stats["real_traces"] += agg.get("paths", 0)
    stats["real_steps"] += agg.get("events", 0)
    stats["skipped_actions"] += agg.get("skipped", 0)
    if graph is not None:
        covered, lost = graph.walk(labels)
        stats["edge_cover"][cover_key] = {"edges_in_graph": len(graph.all), "edges_replayed": len(covered), "paths": len(paths),
                                          "planned_steps": agg.get("steps", 0), "skipped": agg.get("skipped", 0), "adapted": agg.get("adapted", 0),
                                          "walks_that_left_the_graph": lost, "driver_wall_s": round(wall, 1), "shards": nshards}
        for k in ("stuck_paths", "probes"):
            if k in agg:
                stats["edge_cover"][cover_key][k] = agg[k]
        return labels, covered
    return labels, None


def model_check(work, module, cfg, stats, what, timeout, dump=None, workers=None):
    r = v.tlc(work.dir, module, cfg=cfg, timeout=timeout, dump=dump, workers=workers, heap="12g")
    if r.error:
        sys.stderr.write(r.out[-2000:])
        raise v.Inconclusive("model check %s: TLC %s" % (what, r.error))
    with LOCK:
        stats["states"] += r.distinct
        stats["transitions"] += r.generated
    stats["model_runs"].append({"cfg": what, "distinct": r.distinct, "generated": r.generated, "depth": r.depth, "wall_s": round(r.wall, 1),
                                "invariants_violated": r.invariants_violated, "temporal_violated": r.temporal_violated})
    return r


def must_hold(r, what):
    if not r.clean:
        sys.stderr.write(r.out[-2000:])
        raise v.Inconclusive("%s: the model itself violates %s" % (what, r.invariants_violated or "a property"))


def new_stats():
    return {"states": 0, "transitions": 0, "traces_validated_against_impl": 0, "model_runs": [], "samples": [], "edge_cover": {},
            "real_traces": 0, "real_steps": 0, "skipped_actions": 0}


def onsets(viols, resets, state_preds):
    """(pred, line, trace start): for state predicates that stay false, only the step at which they become false."""
    bad = set((x[0], x[1]) for x in viols)
    res = []
    for pred, line in sorted(set((x[0], x[1]) for x in viols), key=lambda x: x[1]):
        idx = line - 1
        start = resets[bisect.bisect_right(resets, idx) - 1]
        if pred in state_preds and (pred, line - 1) in bad and idx - 1 > start:
            continue
        res.append((pred, idx, start))
    return res


# ================================================================ C13, part 1: write-abort state machine (MuxWrite)

MW_PREDS = ["Clean", "LaterWritesSucceed", "NoStuckWriter", "CountExact", "NoSpuriousTimeout"]


def mw_label(e):
    if e["ev"] == "Drain":
        return None
    return e["ev"] + ("(" + e["p"] + ")" if "p" in e else "")


def mw_features(pred, lines, idx, start):
    e = lines[idx]
    f = {"predicate": pred, "part": "write-abort", "ev": e.get("ev")}
    if pred == "CountExact":
        # shape of the onset: a writer that became the last one in an earlier abort generation (whose arm failed and
        # was rolled back by clearWriteAbortState) clears the deadline and zeroes the counter of a later generation
        p, shape = e.get("p"), "other"
        if e.get("ev") == "CStore":
            k = idx - 1
            xcas = False
            while k > start:
                if lines[k].get("p") == p and lines[k].get("ev") == "FCasLast":
                    break
                if lines[k].get("ev") == "XCas":
                    xcas = True
                k -= 1
            if k > start and xcas:
                shape = "stale clear after failed arm"
        f["shape"] = shape
    else:
        post = e.get("post", {})
        f["dl"] = post.get("dl")
        f["st"] = "n%d%s%s" % (post.get("st", {}).get("n", -1), "b" if post.get("st", {}).get("b") else "", "a" if post.get("st", {}).get("a") else "")
        f["probe"] = post.get("probe")
        if pred == "NoStuckWriter":
            f["stuck_at"] = sorted(set(s for s in post.get("pc", {}).values() if s != "done"))
    return f


def mw_describe(lines, viols, sp):
    resets = split_traces(lines)
    out, count = [], collections.Counter()
    for pred, idx, start in onsets(viols, resets, {"CountExact"}):
        if count[pred] >= 100:
            continue
        count[pred] += 1
        feat = mw_features(pred, lines, idx, start)
        feat["step"] = idx - start
        out.append({"features": feat, "replay": {
            "property": "C13", "family": FAMILY, "driver": "TestMuxWrite", "predicate": pred, "job": sp["job"],
            "path": [mw_label(e) for e in lines[start + 1:idx + 1] if mw_label(e) and e["ev"] != "Probe"],
            "events": lines[start:idx + 1][-40:]}})
    return out


def mw_consts(writers, aborters, rounds):
    return ["Writers = " + tla_set(writers), "Aborters = " + tla_set(aborters), "ArmMayFail = TRUE", "ClearMayFail = TRUE", "Rounds = %d" % rounds]


MW_INV = ["INVARIANTS Clean LaterWritesSucceed NoSpuriousTimeout ArmedOnlyBlocked", "PROPERTY NoStuckWriter"]


def mw_run(work, binary, verdict, stats, tier, seed):
    writers, aborters = ["w1", "w2"], ["a1", "a2"]
    consts = mw_consts(writers, aborters, 1)
    # 1. exhaustive model check with the state graph dumped
    d = Dir(work.path("mc-mw22"))
    cfg = write_cfg(d, "MC_mw22.cfg", ["SPECIFICATION Spec", "CONSTANTS"] + consts + MW_INV)
    r = model_check(d, "MuxWrite", cfg, stats, "MuxWrite 2 writers x 2 aborters, arm failure", 600, dump=d.path("mw22.dot"))
    must_hold(r, "MuxWrite 2x2")
    g = Graph(d.path("mw22.dot"))
    # 2. the model's counterexample to CountExact becomes a directed schedule for the real mux
    cfg = write_cfg(d, "MC_mw22_count.cfg", ["SPECIFICATION Spec", "CONSTANTS"] + consts + ["INVARIANT CountExact"])
    rc = v.require(v.tlc(d.dir, "MuxWrite", cfg=cfg, timeout=300), "MuxWrite CountExact")
    cex = cex_path(rc.out) if rc.invariants_violated else []
    stats["model_counterexamples"] = [{"spec": "MuxWrite", "invariant": "CountExact", "length": len(cex), "schedule": cex}] if cex else []
    # 3. edge cover of the complete graph, replayed through the gates
    paths, _ = g.plan(seed, noplan=("Probe",))
    if cex:
        paths.insert(0, cex)
    job = {"writers": writers, "aborters": aborters, "rounds": 1, "drain": 60}
    replay(work, binary, "mw", paths, job, consts, MW_PREDS, "MuxWrite 2x2", seed, stats, verdict, graph=g, cover_key="MuxWrite_2x2")
    if tier == "thorough":
        # 3 writers x 2 aborters exhaustively; writers that write twice, edge-covered on the real mux
        cfg = write_cfg(d, "MC_mw32.cfg", ["SPECIFICATION Spec", "CONSTANTS"] + mw_consts(["w1", "w2", "w3"], aborters, 1) + MW_INV)
        must_hold(model_check(d, "MuxWrite", cfg, stats, "MuxWrite 3 writers x 2 aborters, arm failure", 1500), "MuxWrite 3x2")
        c2 = mw_consts(writers, ["a1"], 2)
        cfg = write_cfg(d, "MC_mw21r2.cfg", ["SPECIFICATION Spec", "CONSTANTS"] + c2 + MW_INV)
        must_hold(model_check(d, "MuxWrite", cfg, stats, "MuxWrite 2 writers writing twice x 1 aborter", 900, dump=d.path("mw21r2.dot")),
                  "MuxWrite 2x1 rounds 2")
        g2 = Graph(d.path("mw21r2.dot"))
        paths, _ = g2.plan(seed, noplan=("Probe",))
        job = {"writers": writers, "aborters": ["a1"], "rounds": 2, "drain": 80}
        replay(work, binary, "mw", paths, job, c2, MW_PREDS, "MuxWrite 2x1 two writes each", seed, stats, verdict, graph=g2,
               cover_key="MuxWrite_2x1_rounds2")


# ================================================================ C13, part 2: reference-counted handles (SharedConn)

SC_PREDS = ["UnderlyingClosedOnce", "OwnIOFails", "SiblingsUsable"]
SC_NAMES = {"h": ["h1", "h2", "h3", "h4"], "k": ["k1", "k2", "k3", "k4"], "r": ["r1", "r2", "r3", "r4"]}


def sc_label(e):
    ev = e["ev"]
    if ev == "End":
        return None
    if ev in ("CloseStart", "RStart"):
        return "%s(%s,%s)" % (ev, e["p"], e["h"])
    if ev == "Write":
        return "Write(%s)" % e["h"]
    if ev == "SetRD":
        return "SetRD(%s,%s)" % (e["h"], "TRUE" if e["v"] else "FALSE")
    if "p" in e:
        return "%s(%s)" % (ev, e["p"])
    return ev


def sc_describe(lines, viols, sp):
    resets = split_traces(lines)
    out, count = [], collections.Counter()
    for pred, idx, start in onsets(viols, resets, set(SC_PREDS)):
        if count[pred] >= 100:
            continue
        count[pred] += 1
        e = lines[idx]
        post = e.get("post", {})
        feat = {"predicate": pred, "part": "handles", "mux": sp["job"]["kind"], "ev": e.get("ev"), "refs": post.get("refs"),
                "uclosed": post.get("uclosed"), "ucloses": post.get("ucloses"), "step": idx - start}
        out.append({"features": feat, "replay": {
            "property": "C13", "family": FAMILY, "driver": "TestSharedConn", "predicate": pred, "job": sp["job"],
            "path": [sc_label(x) for x in lines[start + 1:idx + 1] if sc_label(x)], "events": lines[start:idx + 1][-40:]}})
    return out


def sc_try_enter(path):
    """Near-miss steps: wherever a closer is inside the Once of a handle (after its CloseEnter, after its Cancel) and another
    closer of the SAME handle has started but not entered, insert TryEnter(other) - the step the model's guard forbids. The real
    sync.Once makes the other closer wait (nothing is logged); code that lets it in is seen entering."""
    out, started, entered, left = [], {}, set(), set()
    for lab in path:
        out.append(lab)
        m = re.match(r"(\w+)\((\w+)(?:, *(\w+))?\)", lab)
        if not m:
            continue
        name, a, b = m.groups()
        if name == "CloseStart":
            started[a] = b
        elif name == "CloseEnter":
            entered.add(a)
        if name in ("Unref", "UClose"):
            left.add(a)
        if name in ("CloseEnter", "Cancel") and a in started:
            for k2, h2 in started.items():
                if k2 != a and h2 == started[a] and k2 not in entered:
                    out.append("TryEnter(%s)" % k2)
                    entered.add(k2)      # tried once
    return out


def sc_config(work, binary, verdict, stats, seed, kind, nh, nk, nr, grams, writes, replay_it=True, timeout=900, tier="quick", dl=0):
    key = "SharedConn_%s_h%dk%dr%dg%dw%d%s" % (kind, nh, nk, nr, grams, writes, "d%d" % dl if dl else "")
    consts = ["NHandles = %d" % nh, "NClosers = %d" % nk, "NReaders = %d" % nr, "MaxGrams = %d" % grams, "MaxWrites = %d" % writes, "MaxDl = %d" % dl]
    d = Dir(work.path("mc-" + key))
    cfg = write_cfg(d, "MC_%s.cfg" % key, ["SPECIFICATION Spec", "CONSTANTS"] + consts +
                    ["INVARIANTS UnderlyingClosedOnce OwnIOFails SiblingsUsable", "CHECK_DEADLOCK FALSE"])
    dot = d.path(key + ".dot") if replay_it else None
    r = model_check(d, "SharedConn", cfg, stats, key, timeout, dump=dot)
    must_hold(r, key)
    if not replay_it:
        return
    g = Graph(dot)
    paths, _ = g.plan(seed)
    # near-miss variants of the covering paths (kept in addition to them, so the edge cover itself is undisturbed)
    tries = [q for p, q in ((p, sc_try_enter(p)) for p in paths) if len(q) != len(p)]
    random.Random(seed).shuffle(tries)
    tries = tries[:500 if tier == "quick" else 10000]
    with LOCK:
        stats["near_miss_paths"] = stats.get("near_miss_paths", 0) + len(tries)
    paths = paths + tries
    job = {"kind": kind, "handles": SC_NAMES["h"][:nh], "closers": SC_NAMES["k"][:nk], "readers": SC_NAMES["r"][:nr]}
    replay(work, binary, "sc", paths, job, consts, SC_PREDS, key, seed, stats, verdict, graph=g, cover_key=key)


def sc_run(work, binary, verdict, stats, tier, seed):
    if tier == "quick":
        cfgs = [("udp", 2, 3, 1, 1, 1, True), ("udp", 3, 3, 0, 0, 1, True), ("udp", 2, 2, 2, 1, 0, True), ("tcp", 2, 3, 2, 0, 0, True),
                ("udp", 2, 1, 2, 1, 0, True, 2)]      # read deadlines: a handle's own, whatever its siblings do
    else:
        cfgs = [("udp", 2, 3, 2, 1, 1, True), ("udp", 3, 3, 1, 0, 1, True), ("udp", 2, 2, 2, 2, 1, True), ("tcp", 3, 3, 2, 0, 0, True),
                ("udp", 3, 3, 2, 1, 1, False), ("udp", 2, 2, 2, 1, 1, True, 2), ("tcp", 2, 1, 2, 0, 0, True, 2)]
    parallel([lambda c=c: sc_config(work, binary, verdict, stats, seed, *c[:6], replay_it=c[6], timeout=1500, tier=tier, dl=(c[7] if len(c) > 7 else 0))
              for c in cfgs], 2)


def parallel(fns, n):
    """Run sub-checks in threads (the work is in subprocesses); the first exception wins."""
    with concurrent.futures.ThreadPoolExecutor(n) as ex:
        futs = [ex.submit(f) for f in fns]
        for f in futs:
            f.result()


# ================================================================ C12: routing (MuxRoute)

MR_SEQ_PREDS = ["AtMostOne", "RightOne", "Identical", "PerConnFifo", "NoForeignUfrag", "GoneAfterRemove"]
MR_CONC_PREDS = ["AtMostOne", "RightOneWeak", "RightOneAtQuiescence", "Identical", "PerConnFifo", "NoForeignUfrag", "GoneAfterRemove"]
CANON = {"m1": "s1", "m2": "s2"}


def canon(x):
    return CANON.get(x, x)


def mr_label(e):
    ev = e["ev"]
    if ev in ("Drain", "ProbeOp"):
        return None
    if ev == "GetConn":
        return "GetConn(%s,%s)" % (e["u"], e["f"])
    if ev == "WStart":
        return "WStart(%s,%d,%s)" % (e["p"], e["c"], e["x"])
    if ev in ("WCheck", "WContains", "WAppend", "WRegister"):
        return "%s(%s)" % (ev, e["p"])
    if ev in ("DRead", "DispatchOp"):
        return "%s(%s,%s)" % (ev, e["x"], e["kd"])
    if ev in ("RStart", "RemoveOp"):
        return "%s(%s)" % (ev, e["u"])
    if ev in ("CloseConn", "CloseOp"):
        return "%s(%d)" % (ev, e["c"])
    if ev == "WriteOp":
        return "WriteOp(%d,%s)" % (e["c"], e["x"])
    if ev == "URead":
        return "URead(%d,%s)" % (e["c"], e["form"])
    if ev == "GetStale":
        return "GetStale(%s,%s)" % (e["u"], e["f"])
    return ev


def listed_conns(post):
    return {c for f in post["listed"].values() for c in f.values() if c}


def mr_binding_shape(lines, start, idx, c, k):
    """How the binding k -> c that outlived the removal of c came about (shape of the history)."""
    ev = lambda i: lines[i]["ev"]  # noqa: E731
    # when c left the tables, when its removal completed
    t_unlist = next((i for i in range(start + 1, idx + 1) if c in listed_conns(lines[i - 1]["post"]) and c not in listed_conns(lines[i]["post"])), None)
    if t_unlist is None:
        return "binding to a connection that is still listed"
    t_gone = next((i for i in range(t_unlist, idx + 1) if ev(i) in ("RUnmap", "RemoveOp", "CloseOp", "CloseConn", "CloseMux")), idx)
    # the step that (last) bound k to c
    j = next((i for i in range(idx, start, -1) if lines[i]["post"]["amap"].get(k) == c and lines[i - 1]["post"]["amap"].get(k) != c), None)
    if j is None:
        return "other"
    if j <= t_gone:
        # the binding was there before the removal completed and was not deleted: the address list of c lacked the address
        for i in range(idx, start, -1):
            e = lines[i]
            if e["ev"] == "WRegister" and lines[i - 1]["post"]["wc"].get(e["p"]) == c and lines[i - 1]["post"]["amap"].get(k) == c \
                    and k in lines[i - 1]["post"]["caddrs"][c - 1] and k not in e["post"]["caddrs"][c - 1]:
                return "duplicate registration on one connection"
        return "binding survived removal"
    e = lines[j]
    if e["ev"] == "WriteOp":
        w_start, w_append = j, j
    else:
        p = e.get("p")
        w_start = next((i for i in range(j, start, -1) if lines[i]["ev"] == "WStart" and lines[i].get("p") == p), start)
        w_append = next((i for i in range(j, start, -1) if lines[i]["ev"] == "WAppend" and lines[i].get("p") == p), j)
    if w_start > t_unlist:
        return "write on an unlisted connection"
    if w_append < t_gone:
        return "removal between append and register"
    return "removal before the append of a write in progress"


def mr_features(pred, lines, idx, start, detail):
    e = lines[idx]
    post, pre = e["post"], lines[idx - 1]["post"] if idx > start else e["post"]
    f = {"predicate": pred, "ev": e["ev"], "mode": lines[start].get("mode")}
    made = min(post["made"], len(post["q"]), len(post["closed"]))    # a tree that creates more connections than the configuration has room for
    if pred == "GoneAfterRemove":
        shape = "other"
        unl = [c for c in range(1, made + 1) if c not in listed_conns(post)]
        bound = [(c, k) for k, c in post["amap"].items() if c in unl]
        delivered = [d["c"] for d in e.get("rx", [])] if e["ev"] == "DispatchOp" else \
            [c for c in range(1, min(made, len(post["q"]), len(pre["q"])) + 1) if len(post["q"][c - 1]) > len(pre["q"][c - 1])]
        if any(post["closed"][c - 1] and post["q"][c - 1] for c in range(1, made + 1)):
            shape = "closed connection holds datagrams"
        elif bound:
            c, k = sorted(bound)[0]
            shape = mr_binding_shape(lines, start, idx, c, k)
        elif any(c in unl for c in delivered):
            c = [c for c in delivered if c in unl][0]
            k = canon(e.get("x") or (post["q"][c - 1][-1]["src"] if post["q"][c - 1] else "-"))
            # the binding the dispatcher used: the one in place when it looked the source up
            at = next((i for i in range(idx, start, -1) if lines[i]["ev"] in ("DLookup", "DispatchOp")), idx)
            at = at - 1 if lines[at]["ev"] == "DispatchOp" else at
            if lines[at]["post"]["amap"].get(k) == c:
                shape = mr_binding_shape(lines, start, at, c, k)
            else:
                shape = "delivery to a removed connection"
        f["shape"] = shape
    elif pred == "RightOne":
        exp = int(detail[0]) if detail else -1
        got = sorted(d["c"] for d in e.get("rx", []))
        f.update({"expected": exp, "got": got, "x": e.get("x"), "kd": e.get("kd")})
        shape = "other"
        k = canon(e.get("x"))
        # connections that left the tables because a *different* connection was closed (its watcher removes by ufrag)
        victims = set()
        for i in range(start + 1, idx + 1):
            if lines[i]["ev"] in ("CloseOp", "CloseConn"):
                lost = listed_conns(lines[i - 1]["post"]) - listed_conns(lines[i]["post"]) - {lines[i].get("c")}
                victims |= lost
        bound = pre["amap"].get(k, 0)
        if victims & (set(got) | {exp}):
            shape = "close of one connection unlisted another connection of the same ufrag"
        elif bound and bound not in listed_conns(pre):
            # the dispatcher found a binding to a connection that is no longer listed: how did that binding come about?
            shape = mr_binding_shape(lines, start, idx - 1, bound, k)
        f["shape"] = shape
    else:
        f.update({k: e[k] for k in ("x", "kd", "c", "u") if k in e})
    return f


def mr_describe(lines, viols, sp):
    resets = split_traces(lines)
    details = {(x[0], x[1]): x[2:] for x in viols}
    out, count = [], collections.Counter()
    for pred, idx, start in onsets(viols, resets, {"GoneAfterRemove"}):
        feat = mr_features(pred, lines, idx, start, details.get((pred, idx + 1), ()))
        cls = (pred, feat.get("shape"), feat.get("ev"))
        count[cls] += 1
        if count[cls] > 5:       # enough cases of one shape from this shard
            continue
        feat["step"] = idx - start
        out.append({"features": feat, "replay": {
            "property": "C12", "family": FAMILY, "driver": "TestMuxRoute", "predicate": pred, "features": feat, "job": sp["job"],
            "path": [mr_label(x) for x in lines[start + 1:idx + 1] if mr_label(x)],
            "events": [{k: x[k] for k in x if k != "post"} for x in lines[start:idx + 1][-40:]], "last_post": lines[idx]["post"]}})
    return out


def mr_consts(c):
    return ["Ufrags = " + tla_set(c["ufrags"]), "Fams = " + tla_set(c["fams"]), "Srcs = " + tla_set(c["srcs"]), "Kinds = " + tla_set(c["kinds"]),
            "Writers = " + tla_set(c["writers"]), "MaxConns = %d" % c["maxconns"], "MaxGrams = %d" % c.get("grams", 1),
            "MaxWrites = %d" % c.get("writes", 1), "MaxRemoves = %d" % c.get("removes", 1), "MaxCloses = %d" % c.get("closes", 1),
            "MaxReads = %d" % c.get("reads", 0), "MaxStales = %d" % c.get("stales", 0),
            "StaleWrites = %s" % ("TRUE" if c.get("stale") else "FALSE"), "MuxClose = %s" % ("TRUE" if c.get("muxclose") else "FALSE"),
            "SetupFirst = %s" % ("TRUE" if c.get("setupfirst") else "FALSE"), "MaxOps = %d" % c.get("ops", 0),
            "Defects = " + tla_set(c.get("defects", []))]


def mr_job(c):
    # backlog configurations run on one P: the mux's sync.Pool then hands a returned holder to the next borrower, which is what
    # makes a holder that went back in a bad state matter
    return {"_env": {"GOMAXPROCS": "1"} if c.get("reads") and c.get("onep") else None, "mode": c["mode"], "ufrags": c["ufrags"], "fams": c["fams"], "keys": sorted({canon(x) for x in c["srcs"]}),
            "writers": c["writers"], "maxconns": c["maxconns"]}


def mr_config(work, binary, verdict, stats, seed, key, c, timeout=900):
    """Exhaustive TLC run of one MuxRoute configuration, then its complete graph edge-covered on the real mux."""
    seq = c["mode"] == "seq"
    consts = mr_consts(c)
    d = Dir(work.path("mc-" + key))    # every TLC run in a directory of its own (parallel runs must not share a metadir)
    cfg = write_cfg(d, "MC_%s.cfg" % key, ["SPECIFICATION %s" % ("SeqSpec" if seq else "Spec"), "CONSTANTS"] + consts +
                    (["CONSTRAINT SeqBound"] if seq else []) +
                    ["INVARIANTS TypeOK AtMostOne PerConnFifo ClosedEmpty GoneAfterRemove ListedUnlessGone", "CHECK_DEADLOCK FALSE"])
    r = model_check(d, "MuxRoute", cfg, stats, key, timeout, dump=d.path(key + ".dot"))
    must_hold(r, key)
    g = Graph(d.path(key + ".dot"))
    paths, _ = g.plan(seed)
    # the recorded traces end with one probe datagram per source (concurrent mode): room for them in the trace spec's budget
    tr_consts = consts if seq else mr_consts(dict(c, grams=c.get("grams", 1) + len(mr_job(c)["keys"])))
    replay(work, binary, "mr", paths, mr_job(c), tr_consts, MR_SEQ_PREDS if seq else MR_CONC_PREDS, key, seed, stats, verdict,
           graph=g, cover_key=key, nshards=c.get("shards", 4))


# generous bounds for directed schedules (the trace spec's guards must not get in the way of a schedule suggestion)
MR_FREE = {"grams": 8, "writes": 8, "removes": 8, "closes": 8, "reads": 8, "stales": 8, "stale": True, "muxclose": True, "setupfirst": False, "ops": 99, "defects": []}


def mr_cex(work, binary, verdict, stats, seed, key, c, invariant="GoneAfterRemove", suffix=()):
    """Regression scenario from TLC: the model with a pre-repair Defects switch on violates the invariant; TLC's
    counterexample (plus a suffix of dispatches that lets the monitor look at the result) is replayed on the real mux,
    recorded, validated against the *repaired* specification and judged by the monitor."""
    seq = c["mode"] == "seq"
    d = Dir(work.path("mc-" + key))
    cfg = write_cfg(d, "MC_%s.cfg" % key, ["SPECIFICATION %s" % ("SeqSpec" if seq else "Spec"), "CONSTANTS"] + mr_consts(c) +
                    (["CONSTRAINT SeqBound"] if seq else []) + ["INVARIANT " + invariant, "CHECK_DEADLOCK FALSE"])
    r = v.require(v.tlc(d.dir, "MuxRoute", cfg=cfg, timeout=600), key)
    cex = cex_path(r.out) if r.invariants_violated else []
    with LOCK:
        stats.setdefault("model_counterexamples", []).append({"spec": "MuxRoute", "cfg": key, "defects": c.get("defects", []), "invariant": invariant,
                                                              "found": bool(cex), "states": r.distinct, "schedule": cex + list(suffix)})
    if not cex:
        raise v.Inconclusive("%s: TLC found no counterexample to %s with Defects = %s" % (key, invariant, c.get("defects")))
    free = dict(c, **MR_FREE)
    replay(work, binary, "mr", [cex + list(suffix)], mr_job(free), mr_consts(free), MR_SEQ_PREDS if seq else MR_CONC_PREDS, key, seed, stats,
           verdict, cover_key=key, nshards=1)


def mr_regress(work, binary, verdict, stats, seed):
    """The recorded schedules of the repaired defects (specs/udpmux/regress.json), replayed in every run."""
    lib = json.load(open(os.path.join(v.SPECS, FAMILY, "regress.json")))["schedules"]
    for mode in ("seq", "conc"):
        paths = [x["path"] for x in lib if x["mode"] == mode]
        c = dict(MR_BASE, mode=mode, writers=["w1", "w2"] if mode == "conc" else ["w1"], **MR_FREE)
        replay(work, binary, "mr", paths, mr_job(c), mr_consts(c), MR_SEQ_PREDS if mode == "seq" else MR_CONC_PREDS,
               "MuxRoute_regress_" + mode, seed, stats, verdict, cover_key="MuxRoute_regress_" + mode, nshards=1)
    with LOCK:
        stats["regression_schedules"] = [x["id"] for x in lib]


def mr_nearmiss(work, binary, verdict, stats, seed):
    """Hand-written schedules around situations the edge covers reach only by luck (specs/udpmux/nearmiss.json)."""
    lib = json.load(open(os.path.join(v.SPECS, FAMILY, "nearmiss.json")))["schedules"]
    paths = [x["path"] for x in lib]
    c = dict(MR_BASE, mode="conc", writers=["w1", "w2"], onep=True, **MR_FREE)
    replay(work, binary, "mr", paths, mr_job(c), mr_consts(c), MR_CONC_PREDS, "MuxRoute_nearmiss", seed, stats, verdict,
           cover_key="MuxRoute_nearmiss", nshards=1)
    with LOCK:
        stats["near_miss_schedules"] = [x["id"] for x in lib]


MR_BASE = {"ufrags": ["u1", "u2"], "fams": ["4", "6"], "srcs": ["s1", "m1", "s6"], "kinds": ["data", "u1", "u2", "ux", "u1+"], "writers": ["w1"],
           "maxconns": 3, "stale": True, "muxclose": True, "mode": "seq"}


def mr_run(work, binary, verdict, stats, tier, seed):
    quick = tier == "quick"
    seqc = dict(MR_BASE, ops=6 if quick else 7)
    conc_a = {"mode": "conc", "ufrags": ["u1", "u2"], "fams": ["4"], "srcs": ["s1"], "kinds": ["data", "u1"], "writers": ["w1", "w2"],
              "maxconns": 2, "grams": 1 if quick else 2, "writes": 2, "removes": 1, "closes": 0, "stale": True, "setupfirst": True}
    conc_b = {"mode": "conc", "ufrags": ["u1"], "fams": ["4"], "srcs": ["s1"], "kinds": ["data", "u1"],
              "writers": ["w1", "w2"], "maxconns": 1, "grams": 2, "writes": 2, "removes": 1, "closes": 1, "stales": 1, "stale": True, "setupfirst": True}
    # (with the watcher goroutine of a closed connection as a process of its own, a second source form in conc_b makes the graph too
    # large to plan and replay within memory - one worker process of 9.5 GB; the source forms are varied in the sequential configuration)
    # the users read while the dispatcher works: a backlog, reads with a buffer that is too short, the holders going round the pool
    conc_c = {"mode": "conc", "ufrags": ["u1", "u2"], "fams": ["4"], "srcs": ["s1"], "kinds": ["u1", "u2"], "writers": ["w1"],
              "maxconns": 2, "grams": 3 if quick else 4, "writes": 0, "removes": 0, "closes": 0, "reads": 2 if quick else 3, "stale": False,
              "setupfirst": True, "onep": True}
    cex_a = dict(MR_BASE, ops=5, defects=["a"])
    cex_b = dict(conc_a, grams=1, defects=["a"])
    cex_a2 = dict(conc_a, grams=1, stale=True, ufrags=["u1"], maxconns=1, defects=["a"])     # the stale-handle form, through the gates
    cex_c = dict(MR_BASE, ops=5, defects=["c"])
    cex_d = dict(conc_b, srcs=["s1"], grams=1, closes=0, defects=["d"])
    probe_seq = ["DispatchOp(%s,%s)" % (x, k) for x in ("s1", "m1", "s6") for k in ("data", "u1", "u2", "u1+")]
    probe_conc = ["DRead(s1,data)", "DLookup", "DUfrag", "DEnq", "DPut", "DRead(s1,u1)", "DLookup", "DUfrag", "DEnq", "DPut"]
    jobs = [lambda: mr_config(work, binary, verdict, stats, seed, "MuxRoute_seq", seqc, 1500),
            lambda: mr_config(work, binary, verdict, stats, seed, "MuxRoute_conc_2conns", conc_a, 1500),
            lambda: mr_config(work, binary, verdict, stats, seed, "MuxRoute_conc_1conn", conc_b, 1500),
            lambda: mr_cex(work, binary, verdict, stats, seed, "MuxRoute_cex_stale_handle", cex_a, suffix=probe_seq),
            lambda: mr_cex(work, binary, verdict, stats, seed, "MuxRoute_cex_removal_race", cex_b, suffix=probe_conc),
            lambda: mr_cex(work, binary, verdict, stats, seed, "MuxRoute_cex_stale_handle_gated", cex_a2, suffix=probe_conc),
            lambda: mr_cex(work, binary, verdict, stats, seed, "MuxRoute_cex_close_sibling", cex_c, "ListedUnlessGone", suffix=probe_seq),
            lambda: mr_cex(work, binary, verdict, stats, seed, "MuxRoute_cex_duplicate_registration", cex_d, suffix=probe_conc),
            lambda: mr_config(work, binary, verdict, stats, seed, "MuxRoute_conc_backlog", conc_c, 1500),
            lambda: mr_nearmiss(work, binary, verdict, stats, seed),
            lambda: mr_regress(work, binary, verdict, stats, seed)]
    parallel(jobs, 3)


FAMILIES = {
    "mw": {"test": "TestMuxWrite", "trace": "MuxWriteTrace", "mon": "MuxWriteMon", "label": mw_label, "describe": mw_describe},
    "sc": {"test": "TestSharedConn", "trace": "SharedConnTrace", "mon": "SharedConnMon", "label": sc_label, "describe": sc_describe},
    "mr": {"test": "TestMuxRoute", "trace": "MuxRouteTrace", "mon": "MuxRouteMon", "label": mr_label, "describe": mr_describe},
}


# ================================================================ plans

C13_ASSUME = ["the shared socket is a fake net.PacketConn: a write fails with a timeout iff the write deadline is armed, arming "
              "(SetWriteDeadline(now)) may fail, clearing (SetWriteDeadline(zero)) never fails",
              "one step = the code between two verifhook yield points (every Load/CompareAndSwap/Store of writeState, every "
              "SetWriteDeadline and the socket write is its own step); Go's sync/atomic operations are sequentially consistent",
              "2 writers x 2 aborters replayed edge by edge; 3 writers x 2 aborters and two writes per writer model-checked (thorough)"]


def c13(tier, seed):
    verdict = v.Verdict("C13", tier, seed)
    stats = new_stats()
    with v.Work("C13") as work:
        work.copy_specs(FAMILY)
        binary = v.build_harness(work, pkg=FAMILY)
        parallel([lambda: mw_run(work, binary, verdict, stats, tier, seed), lambda: sc_run(work, binary, verdict, stats, tier, seed)], 2)
        # handles of a TCP mux with a TCP connection attached (driver and monitor of the tcp family): one of two handles is aborted
        # the way an agent drops a candidate, the sibling and the connection must not notice
        import plan_tcp
        with v.Work("C13tcp") as twork:
            plan_tcp.handle_abort_check(twork, verdict, stats, copies=4 if tier == "quick" else 40)
    verdict.coverage.update(stats)
    verdict.coverage["predicates"] = MW_PREDS + SC_PREDS + ["RoutedByFirstUfrag (TCP-mux handles: sibling of an aborted handle)"]
    verdict.assumptions = C13_ASSUME
    return verdict.finish()


C12_ASSUME = ["the shared socket is a fake net.PacketConn with an unspecified local address (both IP families served); source forms: "
              "IPv4, the IPv4-mapped IPv6 form of the same address, IPv6",
              "sequential histories: one whole operation at a time, each datagram read by the connection's user right after its dispatch; "
              "concurrent histories: one step = the code between two verifhook yield points, connections created before the race starts",
              "one handle per muxed connection (handle sharing is C13); STUN datagrams always carry a USERNAME"]


def c12(tier, seed):
    verdict = v.Verdict("C12", tier, seed)
    stats = new_stats()
    with v.Work("C12") as work:
        work.copy_specs(FAMILY)
        binary = v.build_harness(work, pkg=FAMILY)
        mr_run(work, binary, verdict, stats, tier, seed)
    verdict.coverage.update(stats)
    verdict.coverage["predicates"] = sorted(set(MR_SEQ_PREDS + MR_CONC_PREDS))
    verdict.assumptions = C12_ASSUME
    return verdict.finish()


PLANS = {"C12": c12, "C13": c13}
UDPMUX_NOTE = ("Trusted base: TLC; the Go drivers of harness/udpmux (gate scheduler over the verifhook yield points, fake shared socket, "
               "tagged read-only exports of verif_export_udpmux.go); testing/synctest's quiescence detection. The verdict is a TLA+ predicate "
               "of the monitor specification evaluated by TLC on what the real code in /repo's working tree did; conformance of the same "
               "traces to the model (trace validation) and the achieved edge coverage of the model's state graph are reported as evidence.")
UDPMUX_TECH = ("TLA+ specs model-checked exhaustively with TLC; an edge cover of the complete TLC state graph and TLC's counterexamples "
               "replayed on the real code step by step through verifhook gates (build tag verif); recorded traces validated against the "
               "spec and judged by a TLA+ monitor in TLC")
MANIFEST = {
    "C12": ("model_checking", "5.C12",
            "MuxRoute.tla (ufrag tables per IP family, addressMap, per-connection address lists, WriteTo as contains/append/register with "
            "takeover, dispatch as read/canonicalise/address lookup/USERNAME-ufrag lookup/enqueue, RemoveConnByUfrag as its two lock "
            "sections, connection and mux Close; IPv4, IPv4-mapped and IPv6 source forms) model-checked exhaustively: all sequential "
            "histories of up to 6 operations over 2 ufrags x 2 families x 3 source forms x {STUN u1, STUN u2, STUN unknown ufrag, non-STUN}, "
            "and all interleavings of 2 writers + dispatcher + remover (+ Close) at yield-point granularity. Every edge of these graphs is "
            "replayed on a real UDPMuxDefault over a fake socket (sequential ones directly, concurrent ones and TLC's counterexamples "
            "through gates); the monitor judges AtMostOne, RightOne (sequentially consistent reference), Identical, PerConnFifo, "
            "NoForeignUfrag, GoneAfterRemove on every recorded step. The counterexample schedules of the repaired defects F-C12a/a-r/b/b2/c/d "
            "(TLC runs with the spec's Defects switches, plus specs/udpmux/regress.json) are replayed in every run and must pass.", UDPMUX_NOTE, UDPMUX_TECH),
    "C13": ("model_checking", "5.C13",
            "MuxWrite.tla (write-abort state machine, every Load/CAS/Store/SetWriteDeadline/socket write its own action, arm-failure fault) "
            "model-checked exhaustively for 2 writers x 2 aborters (quick) and 3 x 2 plus two writes per writer (thorough) incl. liveness; "
            "every edge of the 2x2 graph is replayed through gates on the real UDPMuxDefault over a fake shared socket and judged by "
            "Quiescent=>Clean, LaterWritesSucceed (probe write), NoStuckWriter (bounded gated fair drain), CountExact, NoSpuriousTimeout. "
            "SharedConn.tla (reference-counted handles: refs, per-handle context, closeOnce, underlying close count; GetHandle/Read/Write/"
            "Close incl. repeated and concurrent Close) model-checked and edge-covered on real sharedPacketConn handles handed out by "
            "UDPMuxDefault.GetConn and TCPMuxDefault.GetConnByUfrag, judged by UnderlyingClosedOnce, OwnIOFails, SiblingsUsable.",
            UDPMUX_NOTE, UDPMUX_TECH),
}


def replay_file(path):
    """Re-run one recorded offending path against the current tree and re-judge it: python3 lib/plan_udpmux.py replay <path>."""
    rp = json.load(open(path))
    prop = rp["property"]
    fam = {"TestMuxWrite": "mw", "TestSharedConn": "sc", "TestMuxRoute": "mr"}[rp["driver"]]
    verdict = v.Verdict(prop, "quick", 0)
    stats = new_stats()
    job = {k: x for k, x in rp["job"].items() if k not in ("paths", "out", "stats")}
    with v.Work("replay-" + prop) as work:
        work.copy_specs(FAMILY)
        binary = v.build_harness(work, pkg=FAMILY)
        if fam == "mw":
            consts, preds = mw_consts(job["writers"], job["aborters"], job.get("rounds", 1)), MW_PREDS
        elif fam == "sc":
            consts = ["NHandles = %d" % len(job["handles"]), "NClosers = %d" % len(job["closers"]), "NReaders = %d" % len(job["readers"]),
                      "MaxGrams = 4", "MaxWrites = 4", "MaxDl = 8"]
            preds = SC_PREDS
        else:
            seq = job["mode"] == "seq"
            c = {"mode": job["mode"], "ufrags": job["ufrags"], "fams": job["fams"], "srcs": ["s1", "m1", "s2", "m2", "s6", "t6"],
                 "kinds": ["data", "ux"] + job["ufrags"], "writers": job["writers"], "maxconns": job["maxconns"], "grams": 8, "writes": 8,
                 "removes": 8, "closes": 8, "stale": True, "muxclose": True, "ops": 99, "defects": []}
            c["srcs"] = [x for x in c["srcs"] if canon(x) in job["keys"]]
            consts, preds = mr_consts(c), (MR_SEQ_PREDS if seq else MR_CONC_PREDS)
        replay(work, binary, fam, [rp["path"]], job, consts, preds, "replay", 0, stats, verdict, nshards=1)
    for feat, p in verdict.violations:
        print("VIOLATION property=%s replay=%s" % (prop, p))
    for kid, (what, cnt) in verdict.known_hits.items():
        print("KNOWN-FINDING: property=%s %s (%s)" % (prop, what, kid))
    return 1 if verdict.violations else 0


if __name__ == "__main__":
    if len(sys.argv) == 3 and sys.argv[1] == "replay":
        try:
            sys.exit(replay_file(sys.argv[2]))
        except v.Inconclusive as e:
            sys.stderr.write("INCONCLUSIVE: %s\n" % e)
            sys.exit(2)
    sys.exit("usage: plan_udpmux.py replay <path>")
