"""C08: Close / GracefulClose at every point (specs/close, harness/close_test.go)."""
import json
import os
import random
import sys

import vlib as v

GATHER_PREDS = ["CloseAtMostOnce", "NoLeakAfterClose", "ReleasedOnRemoval", "NoHang"]
PREDS = ["C08_NoLeak", "C08_CloseReturns", "C08_Unblocked", "C08_FinalPrompt", "C08_FinalClosedError", "C08_FinalCloseIdempotent",
         "C08_FinalNoTask", "C08_LastIsClosed", "C08_NothingAfterClosed", "C08_GracefulQuiet", "C08_CloseNoError"]


def scenarios(tier, seed):
    rng = random.Random(seed)
    scs = []

    def add(**kw):
        d = dict(k=0, closer="api", graceful=False, second="", blockWrite=False, slowState=False, restart=False, preGather=False, writer=False, tcp=False, viaConn=False, realMux=False)
        d.update(kw)
        d["id"] = len(scs) + 1
        scs.append(d)
    ks = range(0, 16) if tier == "quick" else range(0, 24)
    for k in ks:
        for graceful in (False, True):
            add(k=k, graceful=graceful)
            add(k=k, graceful=graceful, blockWrite=True)
            add(k=k, graceful=graceful, writer=True, slowState=True)
            add(k=k, graceful=graceful, second="close")
            add(k=k, graceful=graceful, second="graceful", writer=True)
            add(k=k, graceful=graceful, restart=True)
        for closer in ("cbstate", "cbcand", "cbpair"):
            add(k=k, closer=closer)
            add(k=k, closer=closer, writer=True, second="close")
        add(k=k, preGather=True)
        add(k=k, preGather=True, graceful=True)
        if k in (3, 6, 9, 12):   # the candidate on the production UDP mux: a blocked write comes back through the mux's write abort
            for graceful in (False, True):
                add(k=k, graceful=graceful, realMux=True)
                add(k=k, graceful=graceful, realMux=True, blockWrite=True)
                add(k=k, graceful=graceful, realMux=True, blockWrite=True, writer=True, second="close")
        if k >= 6:   # the application closes through the net.Conn it got from Dial, from its own goroutine or from a handler
            add(k=k, viaConn=True, writer=True)
            add(k=k, viaConn=True, second="graceful")
            for closer in ("cbstate", "cbcand", "cbpair"):
                add(k=k, closer=closer, viaConn=True)
    for k in (0, 1, 3):   # ICE-TCP: the agent's answer to the peer's check is (or is not) stuck in a blocked stream write
        for graceful in (False, True):
            for bw in (False, True):
                add(k=k, graceful=graceful, blockWrite=bw, tcp=True)
                add(k=k, graceful=graceful, blockWrite=bw, tcp=True, second="close", slowState=True)
    extra = 60 if tier == "quick" else 1500
    for _ in range(extra):
        closer = rng.choice(["api", "api", "cbstate", "cbcand", "cbpair"])
        bw = rng.random() < 0.3
        add(k=rng.randrange(0, 24), closer=closer, graceful=(closer == "api" and rng.random() < 0.5),
            second=rng.choice(["", "", "close", "graceful"]), blockWrite=bw, slowState=rng.random() < 0.3,
            restart=(not bw and rng.random() < 0.3), preGather=rng.random() < 0.1, writer=rng.random() < 0.5)
    return scs


def features(pred, lines, idx):
    e = lines[idx]
    cfg = {}
    for b in reversed(lines[:idx + 1]):
        if b["ev"] == "Begin":
            cfg = b.get("cfg", {})
            break
    f = {"predicate": pred, "ev": e["ev"], "who": e.get("who", ""), "err": e.get("err", "")[:60]}
    for k in ("closer", "graceful", "second", "blockWrite", "slowState", "restart", "preGather", "writer", "tcp", "viaConn", "realMux"):
        f["sc_" + k] = cfg.get(k)
    return f, cfg


INVS = ["RetImpliesLoopExited", "LoopExitedImpliesQuiet", "NoTaskAfterReturn", "GracefulQuiet", "ClosedLast"]
PROPS = ["CloseReturns", "Unblocked", "NoLeak"]


def model_check(work, stats, tier):
    """AgentClose for every combination of closers (1 or 2; Close/GracefulClose; API goroutine or inside the handler) and faults."""
    import itertools
    work.copy_specs("close")
    kinds = [("c", False, False), ("g", True, False), ("h", False, True)]   # close, graceful, close-from-handler
    combos = []
    for n in (1, 2):
        for ks in itertools.combinations_with_replacement(kinds, n):
            if sum(1 for k in ks if k[2]) > 1:
                continue   # one handler invocation at a time per stream
            for bw, ga, sh in itertools.product((False, True), repeat=3):
                combos.append((ks, bw, ga, sh))
    B = lambda x: "TRUE" if x else "FALSE"
    total_d = total_g = 0
    bad = []
    with open(work.path("MC_close_all.tla"), "w") as f:
        pass
    for idx, (ks, bw, ga, sh) in enumerate(combos):
        mod = "MCC_%d" % idx
        ids = ["k%d" % (i + 1) for i in range(len(ks))]
        with open(work.path(mod + ".tla"), "w") as f:
            f.write("---- MODULE %s ----\nEXTENDS AgentClose\n" % mod)
            f.write("c_Closers == {%s}\n" % ", ".join('"%s"' % i for i in ids))
            f.write("c_Graceful == [i \\in c_Closers |-> CASE %s]\n" % " [] ".join('i = "%s" -> %s' % (i, B(k[1])) for i, k in zip(ids, ks)))
            f.write("c_InCallback == [i \\in c_Closers |-> CASE %s]\n" % " [] ".join('i = "%s" -> %s' % (i, '"state"' if k[2] else '""') for i, k in zip(ids, ks)))
            f.write("====\n")
        with open(work.path(mod + ".cfg"), "w") as f:
            f.write("CONSTANTS\n Closers <- c_Closers\n Graceful <- c_Graceful\n InCallback <- c_InCallback\n BlockedWrite = %s\n Gathering = %s\n SlowHandler = %s\n"
                    % (B(bw), B(ga), B(sh)))
            f.write("SPECIFICATION Spec\nCHECK_DEADLOCK FALSE\n" + "".join("INVARIANT %s\n" % i for i in INVS) + "".join("PROPERTY %s\n" % p for p in PROPS))
    # TLC start-up dominates: run the tiny models in parallel, one worker each
    import concurrent.futures
    def run(idx):
        return idx, v.tlc(work.dir, "MCC_%d" % idx, workers=1, timeout=300)
    with concurrent.futures.ThreadPoolExecutor(max_workers=8) as ex:
        for idx, r in ex.map(run, range(len(combos))):
            if r.error:
                sys.stderr.write(r.out[-2000:])
                raise v.Inconclusive("AgentClose model check %d: TLC %s" % (idx, r.error))
            total_d += r.distinct
            total_g += r.generated
            if not r.clean:
                bad.append({"combo": str(combos[idx]), "invariants": r.invariants_violated, "temporal": r.temporal_violated})
    stats["states"] += total_d
    stats["transitions"] += total_g
    stats["model_runs"].append({"spec": "AgentClose", "configurations": len(combos), "distinct": total_d, "generated": total_g,
                                "invariants": INVS, "properties": PROPS, "violating_configurations": bad})
    if bad:
        stats.setdefault("model_counterexamples", []).extend(bad)


def trace_validate(work, lines, stats):
    """Conformance (evidence, never the verdict): the event log explained by AgentClose with its internal steps placed by TLC."""
    tp = work.path("close-tv.ndjson")
    with open(tp, "w") as f:
        for e in lines:
            e = dict(e)
            if e["ev"] in ("CloseStart", "CloseReturn") and e.get("graceful"):
                e["who"] = e["who"] + "G"      # closer ids carry the flavour of the call (Graceful is a constant of the model)
            f.write(json.dumps(e) + "\n")
    with open(work.path("TRC_close.tla"), "w") as f:
        f.write('---- MODULE TRC_close ----\nEXTENDS AgentCloseTrace\nc_TraceFile == "%s"\n====\n' % tp)
    with open(work.path("TRC_close.cfg"), "w") as f:
        f.write("CONSTANTS\n TraceFile <- c_TraceFile\n Closers <- TrClosers\n Graceful <- TrGraceful\n InCallback <- TrInCallback\n"
                " BlockedWrite = FALSE\n Gathering = FALSE\n SlowHandler = FALSE\n"
                "SPECIFICATION TSpec\nINVARIANT HWM\nPOSTCONDITION Accepted\nCHECK_DEADLOCK FALSE\n")
    r = v.tlc(work.dir, "TRC_close", workers=1, timeout=900, heap="8g")
    if r.error and "TRACE_REJECTED_AT" not in r.out:
        sys.stderr.write(r.out[-3000:])
        raise v.Inconclusive("close trace validation: TLC %s" % r.error)
    rej = r.prints("TRACE_REJECTED_AT")
    stats["trace_validation_states"] = r.distinct
    if not rej:
        stats["traces_validated_against_impl"] = sum(1 for e in lines if e["ev"] == "Begin")
        binding_demo(work, tp, stats)
        return
    at = int(rej[0][0])          # first line that could not be consumed (1-based)
    e = lines[at - 1] if 0 < at <= len(lines) else {}
    msg = "NONCONFORMANCE spec=AgentClose line=%d scenario=%s ev=%s who=%s" % (at, e.get("sc"), e.get("ev"), e.get("who"))
    print(msg)
    stats.setdefault("nonconformance", []).append(msg)
    stats["traces_validated_against_impl"] = sum(1 for x in lines[:at] if x["ev"] == "Begin") - 1


def binding_demo(work, tp, stats):
    """The trace specification is not vacuous: one accepted scenario (GracefulClose from an API goroutine, Closed notified),
    reordered or corrupted in six ways that the close protocol forbids, must be rejected each time."""
    L = v.read_ndjson(tp)
    pick = None
    for sc in sorted({e["sc"] for e in L}):
        S = [e for e in L if e["sc"] == sc]
        if (sum(1 for e in S if e["ev"] == "CloseStart") == 1 and any(e["ev"] == "CloseReturn" and e["who"] == "apiG" for e in S)
                and any(e["ev"] == "HEnd" and e["st"] == "Closed" for e in S) and any(e["ev"] == "HStart" and e["who"] == "cand" for e in S)):
            pick = S
            break
    if pick is None:
        return
    idx = lambda m, f: [k for k, e in enumerate(m) if f(e)][0]  # noqa: E731
    muts = {}
    m = list(pick); e = m.pop(idx(m, lambda e: e["ev"] == "CloseReturn")); m.insert(idx(m, lambda e: e["ev"] == "HEnd" and e["st"] == "Closed"), e)
    muts["GracefulClose returns before the Closed handler has ended"] = m
    m = list(pick); e = m.pop(idx(m, lambda e: e["ev"] == "HStart" and e["st"] == "Closed")); m.insert(idx(m, lambda e: e["ev"] == "CloseStart"), e)
    muts["Closed notified before any Close call started"] = m
    muts["a Close call returns that never started"] = [e for e in pick if e["ev"] != "CloseStart"]
    m = list(pick); k = idx(m, lambda e: e["ev"] == "CloseReturn"); h = idx(m, lambda e: e["ev"] == "HStart" and e["who"] == "cand")
    m[k + 1:k + 1] = [pick[h], pick[h + 1]]
    muts["a handler starts after GracefulClose has returned"] = m
    m = list(pick); k = idx(m, lambda e: e["ev"] == "HEnd" and e["st"] == "Closed"); m[k + 1:k + 1] = [m[k - 1], m[k]]
    muts["Closed notified twice"] = m
    m = list(pick); k = idx(m, lambda e: e["ev"] == "CloseReturn"); e = m.pop(idx(m, lambda e: e["ev"] == "CallReturn" and e["err"] != "")); m.insert(k, e)
    muts["(control) a blocked caller returns after Close has returned - allowed"] = m
    res = {}
    cfg = open(work.path("TRC_close.cfg")).read()
    for n, (what, seq) in enumerate(muts.items()):
        mp = work.path("mut%d.ndjson" % n)
        with open(mp, "w") as f:
            f.write("".join(json.dumps(e) + "\n" for e in seq))
        mod = "TRC_mut%d" % n
        with open(work.path(mod + ".tla"), "w") as f:
            f.write('---- MODULE %s ----\nEXTENDS AgentCloseTrace\nc_TraceFile == "%s"\n====\n' % (mod, mp))
        with open(work.path(mod + ".cfg"), "w") as f:
            f.write(cfg)
        r = v.tlc(work.dir, mod, workers=1, timeout=120)
        res[what] = "rejected" if r.prints("TRACE_REJECTED_AT") else ("accepted" if not r.error else "error: %s" % r.error)
    stats["binding_demonstration"] = res
    wrong = [w for w, o in res.items() if (o != "rejected") != w.startswith("(control)")]
    if wrong:
        print("WARNING: AgentCloseTrace binding demonstration: unexpected outcome for %s" % wrong)


def gather_batch(work, verdict, stats):
    """Close while gatherers of every kind (host, mux, server-reflexive, relay over UDP and TCP) are at every stage, with and
    without the fault "Close of a socket returns an error": driven by the gather family's harness (scripted STUN/TURN fakes,
    every acquired resource tallied), judged by GatherMon's predicates on what is left behind when Close has returned."""
    import plan_gather as pg
    gst = pg.new_stats()
    work.copy_specs("gather")
    gbin = v.build_harness(work, pkg="gather")
    scs = pg.close_family_scenarios()
    pg.judge_scenarios(work, gbin, verdict, gst, scs, ["CloseAtMostOnce", "NoLeakAfterClose", "ReleasedOnRemoval", "NoHang"], "c08g",
                       pg.c09_features, conform=False, prop="C08")
    stats["gatherer_close_scenarios"] = len(scs)
    stats["gatherer_close_monitor_states"] = gst.get("monitor_states", 0)
    stats["gatherer_close_hung"] = gst.get("hung_scenarios", 0)


def judge_close(work, binary, verdict, stats, scs, prop, preds, name):
    """Run the close driver over the scenarios and judge its event log with CloseMon in TLC; violations are reported under prop."""
    trace = work.path(name + ".ndjson")
    jp = work.path(name + ".job.json")
    json.dump({"scenarios": scs, "out": trace}, open(jp, "w"))
    rc, out, wall = v.run_harness(binary, "TestClose", jp, timeout=600)
    if rc == 3:
        stats["watchdog"] = "the driver stopped at a scenario that hung in real time; its End event carries the verdict"
    elif rc != 0:
        sys.stderr.write(out[-3000:])
        raise v.Inconclusive("close driver failed (rc %d)" % rc)
    lines = v.read_ndjson(trace)
    stats["scenarios"] = stats.get("scenarios", 0) + len(scs)
    stats["events"] = stats.get("events", 0) + len(lines)
    stats["close_points_clean"] = stats.get("close_points_clean", 0) + sum(1 for e in lines if e["ev"] == "End" and e["err"] == "")
    mod = "MON_" + name
    with open(work.path(mod + ".tla"), "w") as f:
        f.write('---- MODULE %s ----\nEXTENDS CloseMon\nc_TraceFile == "%s"\nc_Check == {%s}\n====\n'
                % (mod, trace, ", ".join('"%s"' % p for p in preds)))
    with open(work.path(mod + ".cfg"), "w") as f:
        f.write("CONSTANTS\n TraceFile <- c_TraceFile\n Check <- c_Check\nSPECIFICATION Spec\nINVARIANT Report\nPOSTCONDITION Done\nCHECK_DEADLOCK FALSE\n")
    r = v.tlc(work.dir, mod, workers=1, timeout=600)
    if r.error or not r.clean:
        sys.stderr.write(r.out[-3000:])
        raise v.Inconclusive("close monitor did not complete (%s)" % r.error)
    stats["monitor_states"] = stats.get("monitor_states", 0) + r.distinct
    stats["monitor_predicates_evaluated"] = stats.get("monitor_predicates_evaluated", 0) + r.distinct * len(preds)
    bad = set()
    for pred, line in r.prints("VIOL"):
        idx = int(line) - 1
        feat, cfg = features(pred, lines, idx)
        bad.add(lines[idx]["sc"])

        def writer(path, cfg=cfg, idx=idx, pred=pred):
            sc = lines[idx]["sc"]
            json.dump({"property": prop, "family": "close", "scenario": cfg, "predicate": pred,
                       "events": [e for e in lines if e["sc"] == sc]}, open(path, "w"))
        verdict.report(feat, writer)
    return lines, bad


def racing_closers(tier, seed):
    """Two closers of one agent (Close/Close, Close/GracefulClose, from API goroutines and from handlers) at every position of a history."""
    return [dict(sc, id=i + 1) for i, sc in enumerate(x for x in scenarios(tier, seed) if x["second"] and not x["tcp"] and not x["realMux"])]


def c08(tier, seed):
    verdict = v.Verdict("C08", tier, seed)
    stats = {"states": 0, "transitions": 0, "traces_validated_against_impl": 0, "model_runs": [], "samples": []}
    with v.Work("C08") as work:
        work.copy_specs("close")
        binary = v.build_harness(work)
        scs = scenarios(tier, seed)
        lines, bad = judge_close(work, binary, verdict, stats, scs, "C08", PREDS, "close")
        stats["scenarios_judged_clean_by_monitor"] = len(scs) - len(bad)
        trace_validate(work, lines, stats)
        stats["samples"] = [{"scenario": scs[0], "events": [{k: e[k] for k in ("ev", "who", "err", "st")} for e in lines if e["sc"] == scs[0]["id"]][:40]}]
        model_check(work, stats, tier)
        gather_batch(work, verdict, stats)
    verdict.coverage.update(stats)
    verdict.coverage["predicates"] = PREDS + ["GatherMon." + p for p in GATHER_PREDS]
    verdict.assumptions = ["bounded time is virtual-clock time of testing/synctest plus the bubble's deadlock verdict, not a wall-clock measurement",
                           "GracefulClose from inside a callback is documented as unsupported and is excluded",
                           "sockets are the simulated UDP mux sockets (a blocked WriteTo returns when the socket is closed)"]
    return verdict.finish()


def replay(rp):
    """Re-run the recorded close scenario against the current tree and re-judge its predicate (C08, or C10's racing closers)."""
    prop = rp["property"]
    if "scenario" not in rp:     # a violation of the gather-family batch of C08: its replay file belongs to plan_gather
        import plan_gather
        return plan_gather.replay(rp)
    verdict = v.Verdict(prop, "quick", 0)
    with v.Work("replay") as work:
        work.copy_specs("close")
        judge_close(work, v.build_harness(work), verdict, {}, [dict(rp["scenario"], id=1)], prop, [rp["predicate"]], "replay")
    for feat, p in verdict.violations:
        print("VIOLATION property=%s replay=%s" % (prop, p))
    for kid, (what, cnt) in verdict.known_hits.items():
        print("KNOWN-FINDING: property=%s %s" % (prop, what))
    return 1 if verdict.violations else 0


PLANS = {"C08": c08}
MANIFEST = {"C08": ("model_checking", "5.C08",
                    "Close/GracefulClose injected at every position of a connection history (0..15/23 pump steps) from an API goroutine, from inside each "
                    "of the three callbacks, twice concurrently and repeatedly, with a loop task blocked in a socket write, slow handlers, blocked "
                    "Dial/AwaitConnect/Read/Write callers, Restart and not-yet-gathered agents; every call start/return and notification is an event judged by "
                    "specs/close/CloseMon.tla in TLC; the synctest bubble's deadlock/leak verdict is the watchdog; AgentClose.tla model-checks the close protocol and the same event log is "
                    "validated against it (AgentCloseTrace.tla, internal steps placed by TLC).",
                    "Trusted base: TLC, the Go driver harness/close_test.go, testing/synctest (virtual time, durable-blocking detection). "
                    "Verdicts are TLA+ predicates over events recorded from the real agent.",
                    "TLA+ monitor evaluated by TLC on event traces of the real agent closed at every point; TLC model check of the close protocol")}
