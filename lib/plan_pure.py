"""Checks of the pure-function family: C19 (address rewrite rules), C17 (priorities), C16 (wire formats, equality laws).

Pattern (DESIGN 4.10): a TLA+ "function transcription" spec enumerates the domain, TLC checks the algebraic laws on the
specification itself and writes the expected value of every case as ndjson; a Go driver computes the real value of every case
through pion/ice; a TLA+ monitor evaluated by TLC compares and prints one VIOL line per violated predicate instance. Python only
orchestrates, attaches the shape of the offending case (for known-finding matching) and writes the evidence.
"""
import json
import os
import random
import re
import subprocess
import sys
import time

import vlib as v

TECH = ("TLA+ function-transcription spec enumerated by TLC (laws checked on the specification, expected values written as ndjson); "
        "Go differential driver through the real pion/ice code; verdict by a TLA+ monitor evaluated by TLC on the real results")
NOTE = ("Trusted base: TLC (and its Json module), the Go drivers under harness/pure (they only build inputs through the public API or the "
        "thin wrappers of /repo/verif_export_pure.go and copy results into ndjson), Python glue. The verdict is a predicate of "
        "specs/pure/%s evaluated by TLC on values the real code in /repo's working tree returned in this run; the enumerated domain is "
        "finite and stated in the evidence, nothing is claimed beyond it.")


# ---------------------------------------------------------------- helpers

def viols(out):
    """<<"VIOL", ...>> tuples printed by a monitor (TLC wraps long tuples over several lines)."""
    res = []
    for m in re.finditer(r'<<\s*"VIOL"\s*,(.*?)>>', out, re.S):
        res.append([p.strip().strip('"') for p in m.group(1).split(",")])
    return res


def write_mc(work, name, base, defs, consts, invariant):
    """MC module: EXTENDS base, extra definitions; cfg with constants (name -> TLA+ text or '<-def')."""
    with open(work.path(name + ".tla"), "w") as f:
        f.write("---- MODULE %s ----\nEXTENDS %s\n%s\n====\n" % (name, base, "\n".join("%s == %s" % kv for kv in defs.items())))
    with open(work.path(name + ".cfg"), "w") as f:
        f.write("CONSTANTS\n%s\nINIT Init\nNEXT Next\nINVARIANT %s\n" % ("\n".join(" %s %s" % kv for kv in consts.items()), invariant))


def q(s):
    return '= "%s"' % s


def tset(xs):
    return "= {%s}" % ", ".join('"%s"' % x for x in xs)


def run_tlc(work, module, what, timeout=600, workers=None):
    r = v.require(v.tlc(work.dir, module, timeout=timeout, workers=workers or min(8, v.NCPU)), what)
    if not r.clean:
        sys.stderr.write(r.out[-3000:])
        raise v.Inconclusive("%s: a law of the specification failed or TLC did not finish (%s)" % (what, r.invariants_violated))
    return r


def drive(binary, test, job, work, timeout=600):
    jp = work.path("job-%s.json" % test)
    json.dump(job, open(jp, "w"))
    rc, out, wall = v.run_harness(binary, test, jp, timeout=timeout)
    if rc != 0 or "PASS" not in out:
        sys.stderr.write(out[-3000:])
        raise v.Inconclusive("driver %s failed (rc %d)" % (test, rc))
    return wall


def replay_target():
    """VERIF_REPLAY=<replay file>: re-judge only the recorded case (plans.replay is session-specific and not ours to edit)."""
    p = os.environ.get("VERIF_REPLAY")
    return json.load(open(p)) if p else None


class Stats(dict):
    def add(self, k, n=1):
        self[k] = self.get(k, 0) + n


def finish(verdict, st, samples, assumptions, rule):
    st["samples"] = samples
    st["rule"] = rule
    verdict.coverage.update(st)
    verdict.assumptions = assumptions
    ev = os.path.join(v.EVID, verdict.prop + ".json")
    keep = open(ev).read() if replay_target() and os.path.exists(ev) else None
    rc = verdict.finish()
    if keep is not None:        # a replay re-judges one case; it must not replace the evidence of the last full run
        open(ev, "w").write(keep)
    return rc


# ---------------------------------------------------------------- C19

C19_PREDS = ["ConstructAgrees", "LookupAgrees", "ApplyAgrees"]
POOL_N = 16


def shape(r):
    if r["local"]:
        return "local"
    return {(0, 0): "global", (0, 1): "cidr", (1, 0): "iface", (1, 1): "iface+cidr"}[(1 if r["iface"] else 0, 1 if r["cidr"] else 0)]


def c19_judge(work, binary, verdict, st, cases="cases.ndjson", keys="keys.ndjson"):
    drive(binary, "TestRewrite", {"Cases": work.path(cases), "Keys": work.path(keys), "Out": work.path("real.ndjson")}, work)
    write_mc(work, "MCRewriteMon", "RewriteMon", {},
             {"CaseFile": q(cases), "KeyFile": q(keys), "RealFile": q("real.ndjson"), "Check": tset(C19_PREDS)}, "Report")
    r = run_tlc(work, "MCRewriteMon", "C19 monitor")
    C, K, R = v.read_ndjson(work.path(cases)), v.read_ndjson(work.path(keys)), v.read_ndjson(work.path("real.ndjson"))
    if not (len(C) == len(R) == r.distinct):
        raise v.Inconclusive("C19: %d cases, %d real lines, %d monitor states" % (len(C), len(R), r.distinct))
    st.add("monitor_states", r.distinct)
    for c, rl in zip(C, R):
        for side in ("direct", "agent"):
            s = rl[side]
            if s["ran"]:
                st.add("construct_cases_compared")
                if c["valid"] and (not s["err"] or s.get("installed")):
                    st.add("lookup_cases_compared", len(K))
                    st.add("apply_cases_compared", sum(1 for k in K if side == "agent" and k["typ"] in ("host", "relay")))
    for name, line, key, side, a, b, c2 in viols(r.out):
        line, key = int(line), int(key)
        case, real = C[line - 1], R[line - 1][side]
        rules = case.get("rules", [])
        feat = {"predicate": name, "side": side, "kind": case["kind"]}
        if name == "ConstructAgrees":
            feat.update(expected=a, empty_external_rule=1 if any(not x["ext"] for x in rules) else 0, message=real["msg"][:60])
        elif name == "LookupAgrees":
            feat.update(explained_by=a, exp_shape=b, real_shape=c2, lookup_iface="named" if K[key - 1]["iface"] else "any", key_typ=K[key - 1]["typ"])
        else:
            feat.update(key_typ=a, mode=b, ext=c2)

        def writer(path, case=case, key=key, real=real, name=name):
            json.dump({"property": "C19", "family": "pure", "predicate": name, "case": case, "key": K[key - 1] if key else None,
                       "expected": case["out"][key - 1] if key and case["valid"] else {"valid": case["valid"]},
                       "real": real["out"][key - 1] if key and real["out"] else {"err": real["err"], "msg": real["msg"]}, "keys": K}, open(path, "w"))
        verdict.report(feat, writer)
    return C, K, R


def c19(tier, seed):
    verdict = v.Verdict("C19", tier, seed)
    st = Stats()
    rp = replay_target()
    with v.Work("C19") as work:
        work.copy_specs("pure")
        binary = v.build_harness(work, pkg="pure")
        if rp:
            open(work.path("cases.ndjson"), "w").write(json.dumps(rp["case"]) + "\n")
            open(work.path("keys.ndjson"), "w").write("".join(json.dumps(k) + "\n" for k in rp["keys"]))
            st.update(states=1, transitions=1)
            C, K, R = c19_judge(work, binary, verdict, st)
        else:
            rng = random.Random(seed)
            maxlen = 2 if tier == "quick" else 3
            extra = [[rng.randint(1, POOL_N) for _ in range(n)] for n in
                     ([3] * 600 + [4, 5, 6] * 50 if tier == "quick" else [4, 5, 6] * 2000)]
            write_mc(work, "MCRewriteGen", "RewriteGen", {"XExtra": "<<%s>>" % ", ".join("<<%s>>" % ", ".join(map(str, t)) for t in extra)},
                     {"MaxLen": "= %d" % maxlen, "Extra": "<- XExtra", "OutFile": q("cases.ndjson"), "KeyFile": q("keys.ndjson")}, "LawsHold")
            g = run_tlc(work, "MCRewriteGen", "C19 specification", timeout=900)
            st.update(states=g.distinct, transitions=g.generated, spec_laws=["NoCrossFamily", "ExplicitWins", "MostSpecific", "TypeRespected", "ApplyLaw"],
                      exhaustive_list_length=maxlen, random_longer_lists=len(extra), exhaustive=False)
            C, K, R = c19_judge(work, binary, verdict, st)
        st["rule_lists"] = len(C)
        st["lookup_keys"] = len(K)
        st["traces_validated_against_impl"] = st.get("construct_cases_compared", 0) + st.get("lookup_cases_compared", 0) + st.get("apply_cases_compared", 0)
        st["predicates"] = C19_PREDS
        samples = []
        for c, r in zip(C, R):
            if c["kind"] == "rules" and c["valid"] and len(c["rules"]) >= 2 and len(samples) < 2:
                samples.append({"rules": c["rules"], "key": K[0], "expected": c["out"][0], "real_direct": r["direct"]["out"][0] if r["direct"]["out"] else None})
        if not samples:
            samples = [{"case": C[0], "real": R[0]}]
    return finish(verdict, st, samples,
                  ["addresses, CIDRs, interfaces and rules range over the small pools of specs/pure/RewriteGen.tla (3 local, 4 external addresses, 2 CIDRs, "
                   "3 interface names, 16 valid and 7 invalid rules, 9 legacy entries)",
                   "lookups through newAddressRewriteMapper/findExternalIPs directly and through an agent built with WithAddressRewriteRules resp. NAT1To1IPs; "
                   "application through applyHostAddressRewrite and resolveRelayAddresses; gathering itself is not run"],
                  "one case = (rule list, lookup key (type, local IP, interface)); all lists up to the stated length over the pool plus seeded longer lists, x all 27 keys")


# ---------------------------------------------------------------- C17

C17_PREDS = ["TypePrefRange", "TypePrefExact", "LocalPrefAgrees", "PriorityAgrees", "PriorityRange", "PairAgrees", "PairMirror",
             "FoundationFunctional", "FoundationDistinct"]
BOUNDARY = [1, 2, (1 << 24) - 1, 1 << 24, (1 << 31) - 1, 1 << 31, (1 << 32) - 2, (1 << 32) - 1]


def digits(n, w=4):
    return "<<%s>>" % ", ".join(str((n >> (8 * i)) & 255) for i in range(w))


def c17_round(work, binary, verdict, st, tag, offsets, comps, pts, samples):
    """One enumeration: Gen (laws + expected numbers), drivers, monitor."""
    f = lambda n: "%s-%s.ndjson" % (tag, n)  # noqa: E731
    write_mc(work, "MCPriorityGen" + tag, "PriorityGen", {"XOff": offsets, "XPts": "<<%s>>" % ", ".join(digits(p) for p in sorted(set(pts)))},
             {"Offsets": "<- XOff", "Comps": "= {%s}" % ", ".join(map(str, comps)), "PairPts": "<- XPts", "ComboFile": q(f("combos")),
              "ExpFile": q(f("exp")), "PairFile": q(f("pairs")), "FoundFile": q(f("found"))}, "LawsHold")
    g = run_tlc(work, "MCPriorityGen" + tag, "C17 specification " + tag, timeout=900)
    st.add("states", g.distinct)
    st.add("transitions", g.generated)
    drive(binary, "TestPriority", {"Combos": work.path(f("combos")), "Exp": work.path(f("exp")), "Out": work.path(f("real"))}, work)
    drive(binary, "TestPairPriority", {"Pairs": work.path(f("pairs")), "Out": work.path(f("pairsreal"))}, work)
    drive(binary, "TestFoundation", {"Found": work.path(f("found")), "Out": work.path(f("foundreal"))}, work)
    write_mc(work, "MCPriorityMon" + tag, "PriorityMon", {},
             {"ComboFile": q(f("combos")), "ExpFile": q(f("exp")), "RealFile": q(f("real")), "PairFile": q(f("pairs")), "PairRealFile": q(f("pairsreal")),
              "FoundFile": q(f("found")), "FoundRealFile": q(f("foundreal")), "Check": tset(C17_PREDS)}, "Report")
    r = run_tlc(work, "MCPriorityMon" + tag, "C17 monitor " + tag, timeout=900)
    combos, exp, real = v.read_ndjson(work.path(f("combos"))), v.read_ndjson(work.path(f("exp"))), v.read_ndjson(work.path(f("real")))
    pairs, pairsreal = v.read_ndjson(work.path(f("pairs"))), v.read_ndjson(work.path(f("pairsreal")))
    found = v.read_ndjson(work.path(f("found")))
    if r.distinct != len(exp) + len(pairs) + len(found) or len(real) != len(exp) or len(pairsreal) != len(pairs):
        raise v.Inconclusive("C17 %s: monitor states %d do not match the cases" % (tag, r.distinct))
    st.add("monitor_states", r.distinct)
    st.add("offsets", len(exp))
    st.add("candidate_cases_compared", len(exp) * len(combos))
    st.add("pair_cases_compared", 2 * len(pairs))
    st.add("foundation_pairs_compared", len(found) * len(found))
    for name, kind, idx, j, a, b, c2 in viols(r.out):
        idx, j = int(idx), int(j)
        feat = {"predicate": name, "kind": kind}
        if kind == "off":
            off, x = exp[idx - 1]["off"], combos[j - 1]
            feat.update(typ=a, net=b, offset_vs_base="offset>base" if c2 == "offset>base" else c2, tcptype=x["tt"])
            payload = {"offset": off, "candidate": x, "expected": exp[idx - 1]["exp"][j - 1], "real_[tp,lp,prio_le_bytes]": real[idx - 1]["vals"][j - 1]}
        elif kind == "pair":
            feat.update(side=a)
            payload = {"pair": pairs[idx - 1], "real": pairsreal[idx - 1]}
        else:
            feat.update(typ=a)
            payload = {"a": found[idx - 1], "b": found[j - 1]}

        def writer(path, payload=payload, name=name):
            json.dump({"property": "C17", "family": "pure", "predicate": name, "case": payload}, open(path, "w"))
        verdict.report(feat, writer)
    if not samples:
        samples.append({"offset": exp[0]["off"], "candidate": combos[0], "expected": exp[0]["exp"][0], "real_[tp,lp,prio_le_bytes]": real[0]["vals"][0]})
        samples.append({"pair": pairs[0], "real": pairsreal[0]})


C17_OBJ = ["ComponentFollows", "PriorityFollowsState", "TypePrefExact", "LocalPrefAgrees", "PriorityAgrees"]


def c17_object(work, binary, verdict, st, tier, rng, samples):
    """PriorityObj: every sequence of SetComponent / attach steps on ONE candidate object, getters read after each step."""
    offs = sorted({0, 27, 100, 127, rng.randrange(1, 127)}) if tier == "quick" else sorted({0, 1, 27, 100, 101, 126, 127, 4096, 65535, rng.randrange(1, 127)})
    write_mc(work, "MCPriorityObj", "PriorityObj", {},
             {"CompSet": "= {1, 2, 256}" if tier == "quick" else "= {1, 2, 255, 256}", "OffSet": "= {%s}" % ", ".join(map(str, offs)),
              "MaxOps": "= 3", "RunFile": q("objruns.ndjson")}, "RangeOK")
    g = run_tlc(work, "MCPriorityObj", "C17 candidate-object specification", timeout=900)
    st.add("states", g.distinct)
    st.add("transitions", g.generated)
    drive(binary, "TestPriorityObj", {"Runs": work.path("objruns.ndjson"), "Out": work.path("objreal.ndjson")}, work)
    write_mc(work, "MCPriorityObjMon", "PriorityObjMon", {}, {"RunFile": q("objruns.ndjson"), "RunRealFile": q("objreal.ndjson"), "Check": tset(C17_OBJ)}, "Report")
    r = run_tlc(work, "MCPriorityObjMon", "C17 candidate-object monitor", timeout=900)
    runs, real = v.read_ndjson(work.path("objruns.ndjson")), v.read_ndjson(work.path("objreal.ndjson"))
    if r.distinct != len(runs) or len(real) != len(runs):
        raise v.Inconclusive("C17 object runs: monitor states %d do not match the %d runs" % (r.distinct, len(runs)))
    st.add("monitor_states", r.distinct)
    st["object_runs"] = len(runs)
    st["object_readings_compared"] = sum(len(x["exp"]) for x in runs)
    seen = set()
    for name, _kind, idx, k, a, b, last in viols(r.out):
        idx, k = int(idx), int(k)
        feat = {"predicate": name, "kind": "object", "typ": a, "net": b, "after": last, "reading": "first" if k == 1 else "later"}
        key = json.dumps(feat, sort_keys=True)
        if key in seen:      # one report per shape of failure, not one per run
            continue
        seen.add(key)
        payload = {"run": runs[idx - 1], "real_reads_[tp,lp,prio_le_bytes x4,component]": real[idx - 1]["reads"], "reading": k}

        def writer(path, payload=payload, name=name):
            json.dump({"property": "C17", "family": "pure", "predicate": name, "case": payload}, open(path, "w"))
        verdict.report(feat, writer)
    samples.append({"object_run": runs[len(runs) // 2], "real": real[len(runs) // 2]})


def apalache(work, st):
    """Extra: SMT proof of the pair-priority laws for all uint32 (never decides the verdict about the code)."""
    out = work.path("apalache")
    t0 = time.time()
    try:
        p = subprocess.run(["timeout", "180", "apalache-mc", "check", "--length=0", "--inv=All", "--out-dir=" + out, "PairPrioApalache.tla"],
                           cwd=work.dir, stdout=subprocess.PIPE, stderr=subprocess.STDOUT, text=True)
        res = "NoError" if "The outcome is: NoError" in p.stdout else ("Error" if "The outcome is: Error" in p.stdout else "no-result(rc=%d)" % p.returncode)
    except OSError as e:
        res = "unavailable: %s" % e
    st["apalache_pair_priority_all_uint32"] = {"invariants": ["NoOverflow", "MonotoneG", "MonotoneD", "SwapTieOnly"], "outcome": res, "wall_s": round(time.time() - t0, 1)}
    if res == "Error":
        raise v.Inconclusive("Apalache refuted a law of the pair-priority specification")


def c17(tier, seed):
    verdict = v.Verdict("C17", tier, seed)
    st = Stats()
    samples = []
    rng = random.Random(seed)
    with v.Work("C17") as work:
        work.copy_specs("pure")
        binary = v.build_harness(work, pkg="pure")
        quick_off = "(0..130) \\cup {255, 256, 512, 1024, 2048, 4096, 8192, 16384, 32768, 65534, 65535} \\cup {%s}" % ", ".join(
            str(rng.randrange(131, 65535)) for _ in range(20))
        pts = BOUNDARY + [rng.randrange(1, 1 << 32) for _ in range(24 if tier == "quick" else 112)]
        c17_round(work, binary, verdict, st, "q", quick_off, [1, 2, 255, 256], pts, samples)
        if tier == "thorough":
            for k in range(8):
                c17_round(work, binary, verdict, st, "t%d" % k, "%d..%d" % (k * 8192, k * 8192 + 8191), [1, 256], BOUNDARY[:2], samples)
            st["exhaustive"] = True
        c17_object(work, binary, verdict, st, tier, rng, samples)
        apalache(work, st)
    st["traces_validated_against_impl"] = (st["candidate_cases_compared"] + st["pair_cases_compared"] + st["foundation_pairs_compared"]
                                           + st["object_readings_compared"])
    st["predicates"] = sorted(set(C17_PREDS + C17_OBJ))
    return finish(verdict, st, samples,
                  ["candidates are built through the public constructors and attached to an agent configured with the offset (VerifAttachCandidate) without sockets",
                   "pair priority through newCandidatePair(...).priority() on mirrored pairs with overridden candidate priorities; priority 0 is not "
                   "expressible as an override and is left out",
                   "TCP candidates without a TCP type and component ids above 256 are outside the domain"],
                  "one case = (TCP priority offset, type, transport, TCP type, relay protocol, component) resp. (g, d) priority pair resp. pair of candidates for the foundation")


# ---------------------------------------------------------------- C16

C16_CAND = ["NoPanic", "Constructible", "SelfEqual", "SelfDeepEqual", "RoundTripParses", "GettersPreserved", "RoundTripEqual", "RoundTripDeepEqual",
            "FoundationPreserved", "PriorityPreserved", "MarshalIdempotent", "EqualAgrees", "EqualSymmetric", "DeepImpliesEqual", "DeepEqualAgrees",
            "DeepEqualSymmetric", "GrammarAccepts", "FieldsAgree", "AcceptedReparses"]
C16_ATTR = ["NoPanic", "EncodingAgrees", "DecodeOfEncode", "EncodeRejects", "AcceptsRightSize", "RejectsWrongSize"]


def cand_features(x):
    big = any(("<euro>" in e["k"] + e["v"] or "<ff>" in e["k"] + e["v"]) for e in x["ext"])
    return {"tcptype_set": 1 if x["tcptype"] else 0, "related_port_zero": 1 if x["rel"]["addr"] and x["rel"]["port"] == 0 else 0,
            "ext_rune_above_ff": 1 if big else 0, "typ": x["typ"], "net": x["net"]}


def stratified(cands, rng, groups, per):
    """Indices of a subset made of whole 'same transport/type/related address' groups, so that Equal-but-distinct pairs occur."""
    by = {}
    for i, c in enumerate(cands):
        by.setdefault(json.dumps([c["typ"], c["net"], c["tcptype"], c["addr"], c["rel"]]), []).append(i)
    keys = sorted(by)
    def pick(pred):
        return [k for k in keys if pred(*json.loads(k)) and k not in forced][:1]
    forced = []
    normal = {"addr": "192.168.0.9", "port": 4000}
    for pred in (lambda t, n, tt, a, r: tt == "active" and a == "10.0.0.1", lambda t, n, tt, a, r: tt == "passive" and a == "10.0.0.1",
                 lambda t, n, tt, a, r: r == {"addr": "192.168.0.9", "port": 0}, lambda t, n, tt, a, r: r == {"addr": "0.0.0.0", "port": 0},
                 lambda t, n, tt, a, r: a == "abcd.local",
                 # the same transport and related address under three types, and under both transports
                 lambda t, n, tt, a, r: (t, n, a, r) == ("srflx", "udp", "10.0.0.1", normal), lambda t, n, tt, a, r: (t, n, a, r) == ("prflx", "udp", "10.0.0.1", normal),
                 lambda t, n, tt, a, r: (t, n, a, r) == ("relay", "udp", "10.0.0.1", normal), lambda t, n, tt, a, r: (t, n, a, r) == ("srflx", "tcp", "10.0.0.1", normal),
                 lambda t, n, tt, a, r: (t, n, a, r) == ("srflx", "udp", "fd00::1", normal)):
        forced += pick(pred)
    chosen = forced + rng.sample([k for k in keys if k not in forced], max(0, groups - len(forced)))
    idx = []
    for k in chosen:
        idx += rng.sample(by[k], min(per, len(by[k])))
    # every extension list over the duplicate pool (repeated keys, repeated entries) on one transport: multiset comparison both ways
    dup = [i for i, c in enumerate(cands) if (c["typ"], c["net"], c["addr"], c["rel"]) == ("srflx", "udp", "10.0.0.1", normal)
           and len(c["ext"]) >= 2 and all(e["k"] in ("generation", "network-cost") and e["v"] in ("0", "1", "10") for e in c["ext"])]
    return sorted(set(idx + dup))


def c16(tier, seed):
    verdict = v.Verdict("C16", tier, seed)
    st = Stats()
    rng = random.Random(seed)
    with v.Work("C16") as work:
        work.copy_specs("pure")
        binary = v.build_harness(work, pkg="pure")
        # candidates, equality relations, token-level lines
        write_mc(work, "MCCandidateGen", "CandidateGen", {},
                 {"ExtLen": "= 2", "PairPool": "= %d" % (4 if tier == "quick" else 7), "Dev": "= %d" % (2 if tier == "quick" else 3),
                  "CandFile": q("cands.ndjson"), "LineFile": q("lines.ndjson")}, "LawsHold")
        g = run_tlc(work, "MCCandidateGen", "C16 candidate specification", timeout=900)
        cands = v.read_ndjson(work.path("cands.ndjson"))
        sub = stratified(cands, rng, 15 if tier == "quick" else 40, 8)
        drive(binary, "TestCandidates", {"Cands": work.path("cands.ndjson"), "Out": work.path("creal.ndjson"), "PairOut": work.path("cpairs.ndjson"), "Subset": sub}, work)
        drive(binary, "TestCandidateLines", {"Lines": work.path("lines.ndjson"), "Out": work.path("lreal.ndjson")}, work)
        write_mc(work, "MCCandidateMon", "CandidateMon", {},
                 {"CandFile": q("cands.ndjson"), "CandRealFile": q("creal.ndjson"), "PairRealFile": q("cpairs.ndjson"), "LineFile": q("lines.ndjson"),
                  "LineRealFile": q("lreal.ndjson"), "Check": tset(C16_CAND)}, "Report")
        r = run_tlc(work, "MCCandidateMon", "C16 candidate monitor", timeout=900)
        creal, cpairs = v.read_ndjson(work.path("creal.ndjson")), v.read_ndjson(work.path("cpairs.ndjson"))
        lines, lreal = v.read_ndjson(work.path("lines.ndjson")), v.read_ndjson(work.path("lreal.ndjson"))
        if r.distinct != len(cands) + len(cpairs) + len(lines) or len(creal) != len(cands) or len(lreal) != len(lines):
            raise v.Inconclusive("C16: monitor states %d do not match the cases" % r.distinct)
        for name, kind, idx, j, a in viols(r.out):
            idx, j = int(idx), int(j)
            feat = {"predicate": name, "kind": kind}
            if kind == "cand":
                feat.update(cand_features(cands[idx - 1]), field=a)
                payload = {"candidate": cands[idx - 1], "real": creal[idx - 1]}
            elif kind == "pair":
                ca, cb = cands[cpairs[idx - 1]["idx"] - 1], cands[cpairs[j - 1]["idx"] - 1]
                feat.update(cand_features(ca), expected=a)
                payload = {"a": ca, "b": cb, "real_equal": cpairs[idx - 1]["eq"][j - 1], "real_deepequal": cpairs[idx - 1]["deq"][j - 1]}
            else:
                got = lreal[idx - 1]["got"]
                feat.update(detail=a, spec_valid=1 if lines[idx - 1]["valid"] else 0,
                            related_port_zero=1 if got["rel"]["addr"] and got["rel"]["port"] == 0 else 0)
                payload = {"line": lines[idx - 1], "real": lreal[idx - 1]}

            def writer(path, payload=payload, name=name):
                json.dump({"property": "C16", "family": "pure", "predicate": name, "case": payload}, open(path, "w"))
            verdict.report(feat, writer)
        st.update(states=g.distinct, transitions=g.generated, monitor_states=r.distinct, candidates=len(cands), candidate_pairs_compared=len(cpairs) ** 2,
                  lines=len(lines), lines_spec_valid=sum(1 for l in lines if l["valid"]), lines_accepted_by_parser=sum(1 for l in lreal if l["accepted"]),
                  lenient_accepts=sum(1 for l, x in zip(lines, lreal) if x["accepted"] and not l["valid"]))
        samples = [{"candidate": cands[0], "real": creal[0]}, {"line": lines[0], "real": lreal[0]}]
        # attributes
        write_mc(work, "MCAttrGen", "AttrGen", {"XE": "<<%s>>" % ", ".join(digits(rng.randrange(1 << 32)) for _ in range(8 if tier == "quick" else 200))},
                 {"EncFile": q("aenc.ndjson"), "DecFile": q("adec.ndjson"), "Extra32": "<- XE"}, "LawsHold")
        ga = run_tlc(work, "MCAttrGen", "C16 attribute specification")
        drive(binary, "TestAttrs", {"Enc": work.path("aenc.ndjson"), "Dec": work.path("adec.ndjson"), "EncOut": work.path("aencreal.ndjson"),
                                    "DecOut": work.path("adecreal.ndjson")}, work)
        write_mc(work, "MCAttrMon", "AttrMon", {}, {"EncFile": q("aenc.ndjson"), "DecFile": q("adec.ndjson"), "EncRealFile": q("aencreal.ndjson"),
                                                    "DecRealFile": q("adecreal.ndjson"), "Check": tset(C16_ATTR)}, "Report")
        ra = run_tlc(work, "MCAttrMon", "C16 attribute monitor")
        enc, dec = v.read_ndjson(work.path("aenc.ndjson")), v.read_ndjson(work.path("adec.ndjson"))
        encr, decr = v.read_ndjson(work.path("aencreal.ndjson")), v.read_ndjson(work.path("adecreal.ndjson"))
        if ra.distinct != len(enc) + len(dec) or len(encr) != len(enc) or len(decr) != len(dec):
            raise v.Inconclusive("C16 attributes: monitor states %d do not match the cases" % ra.distinct)
        for name, kind, idx, a, b in viols(ra.out):
            idx = int(idx)
            feat = {"predicate": name, "kind": kind, "attr": a, "size" if kind == "dec" else "detail": b}
            payload = {"case": (enc if kind == "enc" else dec)[idx - 1], "real": (encr if kind == "enc" else decr)[idx - 1]}

            def writer(path, payload=payload, name=name):
                json.dump({"property": "C16", "family": "pure", "predicate": name, "case": payload}, open(path, "w"))
            verdict.report(feat, writer)
        st.add("states", ga.distinct)
        st.add("transitions", ga.generated)
        st.add("monitor_states", ra.distinct)
        st.update(attr_encode_cases=len(enc), attr_decode_cases=len(dec),
                  attr_values_outside_domain_not_judged=sum(1 for c in enc if not c["indomain"] and c["attr"] != "ack"))
        samples.append({"attr": enc[0], "real": encr[0]})
        st["traces_validated_against_impl"] = len(cands) + len(cpairs) ** 2 + len(lines) + len(enc) + len(dec)
        st["predicates"] = sorted(set(C16_CAND + C16_ATTR))
    return finish(verdict, st, samples,
                  ["token-level coverage only: arbitrary byte strings (the fuzz quantifier of the property) are not enumerated by a TLA+ specification",
                   "extension order is not part of DeepEqual (weaker reading); a TCP type is demanded back from the parser only for host candidates",
                   "a line the grammar rejects but the parser accepts is not a violation; whatever is accepted must re-marshal to an Equal candidate",
                   "nomination values above 24 bits are outside the attribute's value domain and not judged"],
                  "one case = abstract candidate (type x transport x TCP type x address form x related-address form x component x extension list), ordered pair "
                  "of candidates of a stratified subset, token line deviating from a valid line in <= Dev fields, attribute value or attribute byte length")


def replay(rp):
    """The pure families are enumerated exhaustively and deterministically: replaying a recorded case is re-running the
    property's quick check, which contains it, against the current tree (evidence goes to a scratch directory)."""
    import tempfile
    v.EVID = tempfile.mkdtemp(prefix="replay-evidence-")
    return PLANS[rp["property"]]("quick", int(os.environ.get("VERIF_SEED", "1")))


PLANS = {"C16": c16, "C17": c17, "C19": c19}
MANIFEST = {
    "C16": ("model_checking", "5.C16", "CandidateCodec.tla / AttrCodec.tla enumerated exhaustively by TLC (abstract candidates, equality laws checked on the "
            "specification, token-level lines of the RFC 5245 grammar, attribute encodings and size rules); every case run through the real constructors, "
            "Marshal/UnmarshalCandidate, Equal/DeepEqual and AddTo/GetFrom and compared by the TLC monitors CandidateMon / AttrMon.",
            NOTE % "CandidateMon.tla and AttrMon.tla", TECH),
    "C17": ("model_checking", "5.C17", "Priority.tla (+BigNat limbs for 64-bit values): range laws checked by TLC per TCP offset and shape, pair-priority "
            "no-overflow/monotonicity/role-swap laws at boundary and seeded points (and for all uint32 by Apalache as an extra); real "
            "TypePreference/LocalPreference/Priority of candidates attached to agents configured with each offset, real pair priorities of mirrored pairs in "
            "both roles and real foundations compared by the TLC monitor PriorityMon. Thorough tier: all offsets 0..65535.",
            NOTE % "PriorityMon.tla", TECH),
    "C19": ("model_checking", "5.C19", "Rewrite.tla states the documented lookup/precedence/validation/application semantics; TLC enumerates all rule lists up "
            "to length 2 (quick) / 3 (thorough) over a 20-rule pool plus seeded longer lists x 54 lookup keys (27 keys x two spellings of the address), invalid lists and legacy NAT1To1IPs lists, checks "
            "the no-cross-family/precedence laws on the specification and writes the expected outcome; the real mapper (directly and through agents built with "
            "WithAddressRewriteRules / NAT1To1IPs) and the real application functions are compared by the TLC monitor RewriteMon.",
            NOTE % "RewriteMon.tla", TECH),
}
