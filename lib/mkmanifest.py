"""Regenerate /verif/MANIFEST.json from the table below (python3 lib/mkmanifest.py)."""
import json, os
ROOT = os.path.dirname(os.path.dirname(os.path.abspath(__file__)))
SESSION_NOTE = ("Trusted base: TLC; the Go harness (simulated datagram network, decoder of real STUN datagrams into model records, "
                "snapshot export under build tag verif); testing/synctest's virtual clock. The verdict is a TLA+ predicate of "
                "specs/session/IceSessionMon.tla evaluated by TLC on traces recorded from the real agents in /repo's working tree; "
                "conformance of the same traces to specs/session/IceSession.tla (trace validation) is reported as evidence.")
CHECKS = {
 "C01": ("model_checking", "5.C01", "IceSession.tla model-checked exhaustively (1x1, NAT) for Mirror/SelValidated over all tick/deliver/drop/dup interleavings within budgets; "
         "seeded random walks over two real agents (1x1, 2x1, 2x2, NAT, restart, one-way links, same-role start) each ended by a fair loss-free suffix, validated against the spec and judged by the monitor predicates Mirror, Converges, NeverWithoutPath."),
 "C02": ("model_checking", "5.C02", "Forged STUN datagrams (all four classes, wrong/empty USERNAME halves, integrity under own/peer/empty/garbage keys, replayed and unknown transaction ids, known and unknown sources, also after Restart) injected into real agents at random points; monitor demands snapshot-before = snapshot-after, nothing emitted, no callback."),
 "C03": ("model_checking", "5.C03", "Ledger of authenticated, transaction-matched, symmetric success responses and of received nominations kept by the monitor; every change of the selected pair on full and lite agents is checked against it; USE-CANDIDATE never from a controlled agent; no downgrade on plain USE-CANDIDATE."),
 "C04": ("model_checking", "5.C04", "Virtual-clock walks with silence at/below/above the thresholds (D,F in {0,2000,3000} ms) incl. Restart; monitor checks the documented transition graph, notified = actual, timing rule after every tick, checking deadline, release on Failed; lifecycle model with clock model-checked exhaustively."),
 "C05": ("model_checking", "5.C05", "Same-role starts with tie-breaker orders <,>,= ; monitor applies RFC 8445 7.3.1.1 to every delivered conflicting request (487 vs silent switch, never treated as a check) and demands opposite roles + convergence after the fair suffix."),
 "C07": ("model_checking", "5.C07", "Application writes of 5..8192 bytes (and STUN-framed payloads) before/after selection, across re-selection and Restart, with injected data datagrams from known and foreign sources; monitor checks the route of every written datagram (selected pair, else a best validated pair, else error), byte-identical single delivery, reader sees exactly the datagrams from known remote addresses, Conn and selected-pair counters equal the harness tallies; data actions are part of IceSession and every trace is validated against it."),
 "C20": ("model_checking", "5.C20", "Renomination API driven on two real agents (2 pairs, values 1..3 and values near 2^24, reordering/loss/duplication, target pair valid or not yet valid on the controlled side); monitor keeps the highest value a controlled agent had to accept and the highest value the controlling agent saw acknowledged and checks AcceptMonotone, StaleIgnored, SwitchOnValid, SwitchWhenValidated, ControllingKeepsNewest, QuiescentAgreement, ValueOnWire, OnlyControllingEnabled; three directed schedules reproduce the known findings F-C20a/b in every run."),
 "C06": ("model_checking", "5.C06", "Snapshot invariants (unique ids, no duplicate pairs, pairs from current candidates, selection listed, id stability history, dedup, supersession preserves, no residue after Restart/Failed) on every recorded state of NAT/trickle/restart/injection walks; same invariants model-checked on IceSession."),
}
TODO = {
 "C08": "check not built yet (AgentClose model and close-point driver pending)",
 "C09": "check not built yet (Gather model and tallying fake Net pending)",
 "C10": "check not built yet (TaskLoop gates pending)",
 "C11": "check not built yet (Notifier gates pending)",
 "C12": "check not built yet (MuxRoute pending)",
 "C13": "check not built yet (MuxWrite gates pending)",
 "C14": "check not built yet (TcpFraming pending)",
 "C15": "check not built yet (TcpMux pending)",
 "C16": "check not built yet (CandidateCodec pending)",
 "C17": "check not built yet (Priority pending)",
 "C18": "check not built yet (Gather set oracle pending)",
 "C19": "check not built yet (Rewrite pending)",
}
def build(checks=CHECKS, todo=TODO, notes=None, extra=None):
    m = {"version": 1,
         "setup_cmd": "cd /verif && ./setup.sh",
         "hooks": {"guard": "verif (Go build tag)", "enable": "the harness is compiled with `go1.26.8 test -c -tags verif` against /repo (replace directive)",
                   "baseline_off_cmd": "cd /repo && go test -mod=mod -json -vet=off -count=1 -timeout 25m ./...",
                   "source_commits": json.load(open(os.path.join(ROOT, "hooks.json")))["source_commits"], "add_only": True},
         "engines": [{"name": "tlc", "path": "/opt/veriftools/tla/tla2tools.jar", "serves_properties": sorted(checks), "kind_free_text": "explicit-state model checker for the TLA+ specifications under /verif/specs; also evaluates the monitor and trace specifications on recorded ndjson traces"},
                     {"name": "harness", "path": "/verif/harness", "serves_properties": sorted(checks), "kind_free_text": "Go test binary (go1.26.8, testing/synctest) that drives the real pion/ice code through TLC-chosen and seeded behaviours and records traces"}],
         "checks": [], "not_applicable": [{"property_id": k, "reason": v} for k, v in sorted(todo.items())],
         "notes": notes or "See DESIGN.md. ./check <id> exits 0/1/2 = held / violation / no verdict."}
    for pid in sorted(checks):
        level, ref, text = checks[pid][:3]
        note = checks[pid][3] if len(checks[pid]) > 3 else SESSION_NOTE
        tech = checks[pid][4] if len(checks[pid]) > 4 else "TLA+ spec model-checked with TLC; real-code traces validated against the spec and judged by a TLA+ monitor in TLC"
        m["checks"].append({"property_id": pid, "quick_cmd": "./check %s --tier quick" % pid, "thorough_cmd": "./check %s --tier thorough" % pid,
                            "evidence_file": "/verif/evidence/%s.json" % pid, "replay_cmd_template": "./check replay --replay {path}", "engine": "tlc",
                            "level_claimed": {"category": level, "text": text, "design_ref": ref}, "level_note": note, "technique": tech})
    return m
def collect():
    """Checks declared by lib/plan_<family>.py modules: MANIFEST = {"Cnn": (level, design_ref, text, level_note, technique)}."""
    import glob, importlib, sys
    sys.path.insert(0, os.path.join(ROOT, "lib"))
    checks, todo = dict(CHECKS), dict(TODO)
    for f in sorted(glob.glob(os.path.join(ROOT, "lib", "plan_*.py"))):
        m = importlib.import_module(os.path.basename(f)[:-3])
        for pid, ent in getattr(m, "MANIFEST", {}).items():
            checks[pid] = ent
            todo.pop(pid, None)
    return checks, todo


if __name__ == "__main__":
    CHECKS, TODO = collect()
    import sys
    sys.modules[__name__].CHECKS, sys.modules[__name__].TODO = CHECKS, TODO
    json.dump(build(CHECKS, TODO), open(os.path.join(ROOT, "MANIFEST.json"), "w"), indent=1)
    print("MANIFEST.json written")
