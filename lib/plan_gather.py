"""Checks of the gather family: C09 (every socket opened is closed) and C18 (gathering produces exactly what the
configuration allows; gathering-state cycle control).

Technique: specs/gather/Gather.tla (cycle control + one gatherer per acquisition site with a tally of its resources;
the edges where the pinned tree departs from the property are switched by the constant Defects) is model-checked
exhaustively by TLC; TLC also enumerates every sequence of driver-controlled events (GatherCandidates, the fake
Net / mux / TURN client letting an acquisition through, STUN/TURN reply or expiry, Restart, Failed, Close, time passing)
up to a bound. Each sequence is replayed in its own testing/synctest bubble through the public API of a real agent on
tallying fakes (harness/gather). TLC then (a) validates the recorded counts against Gather.tla (conformance evidence)
and (b) evaluates the property predicates of GatherMon.tla on them: the verdict. For the candidate-set half of C18,
TLC enumerates configurations x interface tables with GatherSet.tla, the driver runs each through a real agent, and
TLC (GatherSetMon.tla) judges Sound / Complete on what was published.
"""
import collections
import json
import os
import random
import shutil
import sys

import vlib as v

SITES = ["host-udp", "host-udpmux", "host-tcpmux", "srflx-own", "srflx-mux", "srflx-mapped", "relay"]
FAULTS = ["none", "listen-error", "dup", "filtered"]
# edges where the tree (as of the fix: commits 8a84c13 and 264d3f6) still departs from the property; the three repaired ones
# ("srflxNoCloseOnReject" F-C09, "srflxWatcherCloses" F-C09b, "handoffRace" F-C18c) stay available in Gather.tla
# edges where the tree under test still departs from the property (Gather.tla, AllDefects); VERIF_GATHER_DEFECTS overrides
# it when a proposed repair is tried out (e.g. VERIF_GATHER_DEFECTS= for a tree with proposed-fix-F-C09c applied)
ALL_DEFECTS = [d for d in os.environ.get("VERIF_GATHER_DEFECTS", "").split(",") if d]
C09_PREDS = ["CloseAtMostOnce", "NoLeakAfterClose", "NoLeakAfterRestart", "ImmediateOnReject", "ReleasedOnRemoval", "NoHang"]
C18_CYCLE_PREDS = ["OnceNewGatheringComplete", "NilIffComplete", "RefusedUnlessNew", "NoOverlap", "RestartIsolates", "NoHang"]
C18_SET_PREDS = ["SoundType", "SoundNet", "SoundAddr", "SoundPort", "SoundMDNS", "Complete", "NoError"]
MODEL_INVS_C09 = ["TypeOK", "CloseAtMostOnce", "NoLeakAfterClose", "NoLeakAfterRestart", "ImmediateOnReject"]
MODEL_INVS_C18 = ["TypeOK", "NoOverlap", "OneNilPerGeneration", "NilIffComplete", "RestartIsolates"]
FLIGHT = {"srflx-own", "srflx-mux", "relay", "relay-tcp"}
ASSUME_COMMON = [
    "sockets, mux handles, the TURN client and its allocation are fakes that tally acquisition and Close calls (fake transport.Net, "
    "fake UDPMux / UniversalUDPMux / TCPMux, TURN client through the tagged factory export); real TLS/DTLS relay transports are not opened",
    "STUN/TURN replies and expiries happen at driver-chosen points (the driver holds the reply datagram); virtual clock of testing/synctest",
    "mDNS multicast sockets (port 5353) are scoped out: they are handed out by the fake Net but not tallied, and no mDNS traffic is exchanged",
]


def tla_set(xs):
    return "{" + ", ".join('"%s"' % x for x in xs) + "}"


def consts_text(sites=SITES, faults=FAULTS, defects=(), cycles=2, restarts=1, refused=1, fail=True, maxenv=0, nowait=False):
    return ("CONSTANTS\n  Sites = %s\n  Faults = %s\n  Defects = %s\n  MaxCycles = %d\n  MaxRestarts = %d\n  MaxRefused = %d\n"
            "  AllowFail = %s\n  MaxEnv = %d\n  NoWaitPairs = %s\n" %
            (tla_set(sites), tla_set(faults), tla_set(defects), cycles, restarts, refused, "TRUE" if fail else "FALSE", maxenv,
             "TRUE" if nowait else "FALSE"))


def put(work, name, text):
    with open(work.path(name), "w") as f:
        f.write(text)
    return name


def steps_str(sc):
    return " ".join(s["a"] + (str(s["k"]) if s.get("k") else "") + ("!" if s.get("nowait") else "") for s in sc["steps"])


# ---------------------------------------------------------------- model checking

def model_check(work, stats, tag, defects, invariants, timeout=600, **kw):
    cfg = put(work, "MC_%s.cfg" % tag, "SPECIFICATION Spec\n" + consts_text(defects=defects, **kw) + "VIEW view\nINVARIANTS " +
              " ".join(invariants) + "\nCHECK_DEADLOCK FALSE\n")
    r = v.tlc(work.dir, "Gather", cfg=cfg, timeout=timeout)
    v.require(r, "model check " + tag)
    stats["states"] += r.distinct
    stats["transitions"] += r.generated
    stats["model_runs"].append({"cfg": tag, "defects": list(defects), "distinct": r.distinct, "generated": r.generated, "depth": r.depth,
                                "wall_s": round(r.wall, 1), "invariants": invariants, "invariants_violated": sorted(set(r.invariants_violated))})
    return r


def gen_scenarios(work, stats, tag, **kw):
    """Every sequence of driver events of Gather!SpecQ that ends closed and settled, as a list of dicts."""
    cfg = put(work, "MC_scn_%s.cfg" % tag, "SPECIFICATION SpecQ\n" + consts_text(defects=ALL_DEFECTS, **kw) +
              "INVARIANT Emit\nPOSTCONDITION Post\nCHECK_DEADLOCK FALSE\n")
    out = work.path("scenarios.ndjson")
    if os.path.exists(out):
        os.remove(out)
    r = v.tlc(work.dir, "GatherScn", cfg=cfg, workers=1, timeout=900)
    v.require(r, "scenario generation " + tag)
    if not r.clean or not os.path.exists(out):
        sys.stderr.write(r.out[-2000:])
        raise v.Inconclusive("scenario generation %s did not complete" % tag)
    scs = [json.loads(l) for l in open(out) if l.strip()]
    for s in scs:
        s["steps"] = [{"a": x["a"], "k": x["k"], "nowait": bool(x["nowait"])} for x in s["steps"]]
    scs.sort(key=lambda s: (s["site"], s["fault"], steps_str(s)))
    stats["states"] += r.distinct
    stats["transitions"] += r.generated
    stats["scenario_runs"].append({"cfg": tag, "distinct": r.distinct, "generated": r.generated, "scenarios": len(scs),
                                   "wall_s": round(r.wall, 1), "constants": {k: kw[k] for k in sorted(kw) if k not in ("sites", "faults")}})
    return scs


# ---------------------------------------------------------------- real runs

def run_driver(work, binary, scenarios, tag, stats):
    sp = work.path("scn-%s.ndjson" % tag)
    with open(sp, "w") as f:
        for s in scenarios:
            f.write(json.dumps(s) + "\n")
    job = {"scenarios": sp, "out": work.path("trace-%s.ndjson" % tag), "stats": work.path("stats-%s.json" % tag)}
    jp = work.path("job-%s.json" % tag)
    json.dump(job, open(jp, "w"))
    rc, out, wall = v.run_harness(binary, "TestScenarios", jp, timeout=600)
    if rc != 0 or not os.path.exists(job["stats"]):
        sys.stderr.write(out[-3000:])
        raise v.Inconclusive("gather scenario driver failed (rc %d)" % rc)
    st = json.load(open(job["stats"]))
    stats["real_traces"] += st.get("scenarios", 0)
    stats["real_steps"] += st.get("events", 0)
    stats["skipped_actions"] += st.get("skipped", 0)
    stats["hung_scenarios"] += st.get("hung", 0)
    stats["driver_wall_s"] = round(stats.get("driver_wall_s", 0) + wall, 1)
    return job["out"]


def validate(work, trace, stats, tag):
    """Conformance of the recorded scenarios to Gather.tla as written (Defects = all): ids of the accepted scenarios."""
    slim = work.path("slim-%s.ndjson" % tag)
    ids = []
    with open(slim, "w") as f:
        for l in open(trace):
            o = json.loads(l)
            if o["ev"] == "Reset":
                ids.append(o["scn"])
            o.pop("res", None)
            o.pop("pub", None)
            f.write(json.dumps(o) + "\n")
    cfg = put(work, "GatherTrace-%s.cfg" % tag, "SPECIFICATION TSpec\n" + consts_text(defects=ALL_DEFECTS, cycles=4, restarts=3, refused=4) +
              '  TraceFile = "%s"\nCHECK_DEADLOCK FALSE\n' % os.path.basename(slim))
    r = v.tlc(work.dir, "GatherTrace", cfg=cfg, workers=min(8, v.NCPU), timeout=900)
    v.require(r, "trace validation " + tag)
    acc = {int(x[0]) for x in r.prints("ACC")}
    bad = [i for i in ids if i not in acc]
    stats["traces_validated_against_impl"] += len(ids) - len(bad)
    stats["nonconforming_traces"] += len(bad)
    stats["trace_validation_states"] += r.distinct
    return bad


def monitor(work, trace, preds, stats, tag):
    cfg = put(work, "GatherMon-%s.cfg" % tag, 'SPECIFICATION Spec\nCONSTANTS\n  TraceFile = "%s"\n  Check = %s\nINVARIANT Report\nCHECK_DEADLOCK FALSE\n' %
              (os.path.basename(trace), tla_set(preds)))
    r = v.tlc(work.dir, "GatherMon", cfg=cfg, workers=1, timeout=900)
    if r.error or not r.clean:
        sys.stderr.write(r.out[-3000:])
        raise v.Inconclusive("monitor run %s did not complete (%s)" % (tag, r.error))
    stats["monitor_states"] += r.distinct
    stats["monitor_predicates_evaluated"] += r.distinct * len(preds)
    return [(x[0], int(x[1]), int(x[2])) for x in r.prints("VIOL")]


# ---------------------------------------------------------------- shapes (features) of a violation

def timeline(sc, recs, g):
    """Where gatherer g was created, let through, answered and cancelled, as indices into the recorded lines."""
    t = {"gather": None, "open": None, "answer": None, "akind": "none", "cancel": None, "canceller": "none", "close": None}
    for i, o in enumerate(recs):
        if o["ev"] in ("Reset", "End", "Hang"):
            continue
        if g in o.get("arrived", []) and t["gather"] is None:
            t["gather"] = i
        ok = o.get("ret") == "ok"
        if o["ev"] == "Open" and o["k"] == g and ok and t["open"] is None:
            t["open"] = i
        if o["ev"] in ("Reply", "Timeout") and o["k"] == g and ok and t["answer"] is None:
            t["answer"], t["akind"] = i, o["ev"].lower()
        if o["ev"] == "Close" and t["close"] is None:
            t["close"] = i
    if t["gather"] is None:
        # no-wait events: the arrival is observed with the next quiescent line; fall back to the first accepted Gather
        for i, o in enumerate(recs):
            if o["ev"] == "Gather" and o.get("ret") == "ok":
                t["gather"] = i
                break
    start = t["gather"] if t["gather"] is not None else 0
    # the Gather line that created g: the last accepted Gather at or before its arrival line
    for i in range(start, 0, -1):
        if recs[i]["ev"] == "Gather" and recs[i].get("ret") == "ok":
            start = i
            break
    for i in range(start + 1, len(recs)):
        o = recs[i]
        if o.get("ret") == "ok" and o["ev"] in ("Restart", "Close", "Gather"):
            t["cancel"], t["canceller"] = i, o["ev"]
            break
    return t


def c09_features(pred, sc, recs, li, rid):
    o = recs[li]
    r = o["res"][rid - 1] if 0 < rid <= len(o["res"]) else {"kind": "?", "gen": 0, "g": 0}
    last = recs[-1]
    f = {"predicate": pred, "site": sc["site"], "fault": sc["fault"], "kind": r["kind"], "ev": o["ev"],
         "class": "leak" if pred in ("NoLeakAfterClose", "NoLeakAfterRestart", "ImmediateOnReject", "ReleasedOnRemoval") else
         ("double-close" if pred == "CloseAtMostOnce" else "hang"),
         "variant": "two" if sc.get("two") else ("multi" if sc.get("multi") else "plain")}
    if pred == "NoHang":
        return f
    g = r.get("g", 0)
    f["gatherer"] = "scripted" if g else "companion"
    f["owned"] = "yes" if r.get("owned") else "no"
    lr = last["res"][rid - 1] if 0 < rid <= len(last["res"]) else r
    f["persistence"] = "transient" if (lr["rel"] >= 1 or lr["removed"]) else "forever"
    if g:
        t = timeline(sc, recs, g)
    else:
        # a companion is created and answered by the driver within the quiescence of one step
        first = next((i for i, x in enumerate(recs) if len(x.get("res", [])) >= rid), li)
        t = {"gather": first, "open": first, "answer": lr.get("ai") or None, "akind": "reply" if lr.get("ai") else "none",
             "cancel": None, "canceller": "none", "close": next((i for i, x in enumerate(recs) if x["ev"] == "Close"), None)}
        start = first
        while start > 0 and not (recs[start]["ev"] == "Gather" and recs[start].get("ret") == "ok"):
            start -= 1
        for i in range(start + 1, len(recs)):
            if recs[i].get("ret") == "ok" and recs[i]["ev"] in ("Restart", "Close", "Gather"):
                t["cancel"], t["canceller"] = i, recs[i]["ev"]
                break
    c, a = t["cancel"], t["answer"]
    if c is None:
        f["answer"] = t["akind"]
        f["timing"] = "no-cancel"
    else:
        before_answer = a is None or c < a or (not g and c == a) or (abs(c - a) == 1 and bool(recs[min(c, a)].get("nowait")))
        f["answer"] = (t["akind"] + "-after-cancel") if (a is not None and before_answer) else t["akind"]
        if sc["site"] in FLIGHT:
            f["timing"] = "cancel-before-reply" if before_answer else "cancel-after-reply"
        else:
            f["timing"] = "cancel-before-open" if (t["open"] is None or c < t["open"]) else "cancel-after-open"
    f["canceller"] = t["canceller"]
    f["superseded"] = "yes" if t["canceller"] in ("Restart", "Gather") and (t["close"] is None or t["cancel"] < t["close"]) else "no"
    cl = t["close"]
    f["close"] = "none" if cl is None else ("before-answer" if (a is None or cl < a or (not g and cl == a) or (abs(cl - a) == 1 and bool(recs[min(cl, a)].get("nowait")))) else "after-answer")
    return f


def c18c_features(pred, sc, recs, li):
    o = recs[li]
    f = {"predicate": pred, "site": sc["site"], "fault": sc["fault"], "ev": o["ev"],
         "nowait": "yes" if any(s.get("nowait") for s in sc["steps"]) else "no"}
    if pred == "RestartIsolates":
        mixed = [p for p in o["pub"] if not p["nil"] and p["res"] > 0 and p["rgen"] != p["ugen"]]
        f["shape"] = "old-cycle-candidate-in-new-generation" if mixed and all(p["rgen"] < p["ugen"] for p in mixed) else "other"
    return f


def split(trace):
    """scenario id -> list of recorded lines; plus line index -> (scenario id, index within scenario)."""
    per, where, cur = {}, [], None
    for l in open(trace):
        o = json.loads(l)
        if o["ev"] == "Reset":
            cur = o["scn"]
            per[cur] = []
        where.append((cur, len(per[cur])))
        per[cur].append(o)
    return per, where


def grid_label(sc):
    """(site, fault, what happened to gatherer 1, terminator) for the coverage table."""
    steps = sc["steps"]
    names = [s["a"] + (str(s["k"]) if s.get("k") else "") for s in steps]

    def pos(n):
        return names.index(n) if n in names else None
    term = next((s["a"] for s in steps if s["a"] in ("Restart", "Close", "Fail")), "none")
    tp = next((i for i, s in enumerate(steps) if s["a"] in ("Restart", "Close", "Fail")), None)
    op, rp, tm = pos("Open1"), pos("Reply1"), pos("Timeout1")
    ans = rp if rp is not None else tm
    if tp is None:
        when = "none"
    elif op is not None and tp < op or (op is None and sc["site"] != "srflx-mux"):
        when = "before-open"
    elif ans is None or tp < ans:
        when = "before-answer" if sc["site"] in FLIGHT else "after-open"
    elif tp == ans + 1 and steps[ans].get("nowait"):
        when = "at-answer"
    else:
        when = "after-answer"
    return (sc["site"], sc["fault"], "reply" if rp is not None else ("timeout" if tm is not None else "no-answer"), when, term)


def new_stats():
    return {"states": 0, "transitions": 0, "traces_validated_against_impl": 0, "real_traces": 0, "real_steps": 0, "skipped_actions": 0,
            "hung_scenarios": 0, "nonconforming_traces": 0, "trace_validation_states": 0, "monitor_states": 0, "monitor_predicates_evaluated": 0,
            "model_runs": [], "scenario_runs": [], "samples": [], "nonconforming_samples": []}


def variants(scs, tier):
    """Two-URL / two-interface configurations, rewrite rules in append mode on shared handles, TURN over TCP
    (quick: the short scenarios only)."""
    out = []
    for s in scs:
        if s["fault"] != "none" or any(x.get("nowait") for x in s["steps"]):
            continue
        if tier != "thorough" and len(s["steps"]) > 6:
            continue
        if s["site"] in ("srflx-own", "srflx-mux", "relay", "host-udp", "host-udpmux", "host-tcpmux"):
            out.append(dict(s, two=True))
        if s["site"] in ("host-udpmux", "srflx-mapped", "relay", "host-tcpmux"):
            out.append(dict(s, multi=True))
        if s["site"] == "relay":
            out.append(dict(s, site="relay-tcp"))
    return out


def close_error_scenarios(scs, tier):
    """The same scenarios under the socket fault "Close returns an error": every socket-like resource (socket, mux handle, relayed
    allocation) reports an error from its effective Close. The descriptor is gone all the same, and whoever owns further resources
    behind it (a relay candidate: the TURN client and its base socket) still has to release them."""
    out = []
    for s in scs:
        if s["fault"] != "none" or any(x.get("nowait") for x in s["steps"]):
            continue
        if tier != "thorough" and len(s["steps"]) > 6:
            continue
        out.append(dict(s, fault="close-error"))
        if s["site"] == "relay":
            out.append(dict(s, fault="close-error", site="relay-tcp"))
    return out


def close_family_scenarios():
    """For C08 (plan_close): the agent is closed while gatherers of every kind are at every stage, with and without the fault
    "Close returns an error"; judged by what is left behind."""
    def st(*names):
        out = []
        for n in names:
            a = n.rstrip("0123456789")
            out.append({"a": a, "k": int(n[len(a):] or 0), "nowait": False})
        return out
    shapes = [st("Gather", "Close", "Settle"), st("Gather", "Open1", "Close", "Settle"), st("Gather", "Open1", "Reply1", "Close", "Settle"),
              st("Gather", "Open1", "Reply1", "Settle", "Close", "Settle"), st("Gather", "Open1", "Timeout1", "Close", "Settle"),
              st("Gather", "Open1", "Reply1", "Settle", "Restart", "Gather", "Open2", "Close", "Settle"),
              st("Gather", "Open1", "Reply1", "Settle", "Restart", "Gather", "Open2", "Reply2", "Settle", "Close", "Settle"),
              st("Gather", "Open1", "Reply1", "Settle", "Fail", "Close", "Settle")]
    one = [{"site": site, "fault": fault, "steps": steps} for site in SITES + ["relay-tcp"] for fault in ("none", "close-error") for steps in shapes]
    # several candidates of a kind (two server URLs / two interfaces): one candidate's failing Close must not end the teardown of the others
    two = [dict(s, two=True) for s in one if s["site"] in ("relay", "relay-tcp", "host-udp", "srflx-own")]
    # candidates of different kinds in one agent: a host candidate (whose socket fails to close) ahead of a relay candidate, which owns
    # a TURN client and a control socket behind its own connection
    mixed = [dict(s, hostToo=True) for s in one if s["site"] in ("relay", "relay-tcp")]
    return one + two + mixed


def regression_scenarios(copies=16):
    """Directed cases for the repaired race between addCandidate and Restart (F-C18c, 264d3f6): the gather goroutine is held at
    the task loop's yield point just before loop.Run's select (its context check already passed), Restart runs, then it is let go.
    Go's select picks at random between the cancelled context and the hand-off, hence several copies."""
    def st(*names):
        out = []
        for n in names:
            a = n.rstrip("0123456789")
            out.append({"a": a, "k": int(n[len(a):] or 0), "nowait": False})
        return out
    shapes = [("srflx-own", st("Gather", "Open1", "Hold", "Reply1", "Restart", "Free", "Settle", "Close", "Settle")),
              ("host-udp", st("Gather", "Hold", "Open1", "Restart", "Free", "Settle", "Close", "Settle")),
              ("relay", st("Gather", "Open1", "Hold", "Reply1", "Restart", "Free", "Settle", "Close", "Settle"))]
    return [{"site": site, "fault": "none", "steps": steps} for _ in range(copies) for site, steps in shapes]


def judge_scenarios(work, binary, verdict, stats, scs, preds, tag, featfn, conform=True, prop=None):
    for i, s in enumerate(scs):
        s["id"] = i + 1
    trace = run_driver(work, binary, scs, tag, stats)
    per, where = split(trace)
    byid = {s["id"]: s for s in scs}
    if conform:
        bad = validate(work, trace, stats, tag)
        for b in bad[:3]:
            stats["nonconforming_samples"].append({"scenario": steps_str(byid[b]), "site": byid[b]["site"], "fault": byid[b]["fault"]})
        if bad:
            sys.stderr.write("NONCONFORMANCE spec=Gather traces=%d first=%s/%s: %s\n" % (len(bad), byid[bad[0]]["site"], byid[bad[0]]["fault"], steps_str(byid[bad[0]])))
    viols = monitor(work, trace, preds, stats, tag)
    for pred, line, rid in viols:
        sid, li = where[line - 1]
        sc, recs = byid[sid], per[sid]
        feat = featfn(pred, sc, recs, li, rid)
        feat["scenario"] = steps_str(sc)

        def writer(path, sc=sc, recs=recs, pred=pred, feat=feat):
            json.dump({"property": verdict.prop, "family": "gather", "predicate": pred, "scenario": sc, "features": feat,
                       "events": [{k: o[k] for k in o if k not in ("res", "pub")} for o in recs]}, open(path, "w"))
        verdict.report(feat, writer)
    if not stats["samples"] and scs:
        pick = [s for s in scs if s["site"] == "srflx-own" and len(s["steps"]) >= 5][:1] or scs[:1]
        for s in pick:
            stats["samples"].append({"scenario": {"site": s["site"], "fault": s["fault"], "steps": steps_str(s)},
                                     "recorded": [{k: o[k] for k in ("ev", "k", "ret", "gs", "opened", "released", "dbl", "owned", "nils", "npub", "closed")}
                                                  for o in per[s["id"]][1:]]})
    return per


# ---------------------------------------------------------------- C09

def c09(tier, seed):
    verdict = v.Verdict("C09", tier, seed)
    stats = new_stats()
    quick = tier == "quick"
    with v.Work("C09") as work:
        work.copy_specs("gather")
        binary = v.build_harness(work, pkg="gather")
        # the repaired design satisfies the property in every interleaving; the code as written does not (replayed below)
        model_check(work, stats, "ideal", [], MODEL_INVS_C09 + ["NoOverlap", "OneNilPerGeneration", "RestartIsolates"], cycles=2, restarts=1 if quick else 2, refused=1)
        r = model_check(work, stats, "ascoded", ALL_DEFECTS, MODEL_INVS_C09, cycles=2, restarts=1, refused=0)
        stats["model_counterexamples"] = sorted(set(r.invariants_violated))
        scs = gen_scenarios(work, stats, "quiescent", cycles=2, restarts=1, refused=0, fail=True, maxenv=7 if quick else 10, nowait=False)
        nw = [s for s in gen_scenarios(work, stats, "nowait", cycles=2, restarts=1, refused=0, fail=True, maxenv=6 if quick else 8, nowait=True)
              if any(x["nowait"] for x in s["steps"])]
        rnd = random.Random(seed)
        rnd.shuffle(nw)
        if quick:
            nw = nw[:1200]
        stats["scenarios_quiescent"], stats["scenarios_nowait"] = len(scs), len(nw)
        grid = collections.Counter(grid_label(s) for s in scs + nw)
        stats["grid_cells"] = len(grid)
        stats["grid_sites_x_timings_x_terminators"] = sorted({"%s|%s|%s|%s|%s" % k for k in grid})[:400]
        judge_scenarios(work, binary, verdict, stats, scs + nw, C09_PREDS, "main", c09_features)
        reg = regression_scenarios()
        stats["scenarios_regression_handoff_race"] = len(reg)
        judge_scenarios(work, binary, verdict, stats, reg, C09_PREDS, "regress", c09_features, conform=False)
        var = variants(scs, tier)
        if var:
            stats["scenarios_variants"] = len(var)
            judge_scenarios(work, binary, verdict, stats, var, C09_PREDS, "variants", c09_features, conform=False)
        ce = close_error_scenarios(scs, tier)
        if ce:
            stats["scenarios_close_error"] = len(ce)
            judge_scenarios(work, binary, verdict, stats, ce, C09_PREDS, "closeerr", c09_features, conform=False)
        if stats["hung_scenarios"]:
            stats["note_hang"] = "a scenario left a goroutine blocked for ever (reported through NoHang)"
    verdict.coverage.update(stats)
    verdict.coverage["predicates"] = C09_PREDS
    verdict.coverage["exhaustive"] = False
    verdict.assumptions = ASSUME_COMMON + [
        "one scripted gatherer per cycle (plus, for duplicate / two-URL scenarios, a companion that completes at once); "
        "scenario length bounded (see scenario_runs); no-wait pairs (reply at cancel, back-to-back calls) are real races judged as they fall",
        "NoLeakAfterClose is judged at the first quiescent point after Close returned; NoLeakAfterRestart and ImmediateOnReject at wind-down "
        "points (time advanced beyond every STUN/TURN timeout, no acquisition held by the driver)"]
    return verdict.finish()


# ---------------------------------------------------------------- C18

def set_features(pred, res, args):
    c = res["cfg"]
    nets = set(c["nets"]) or {"udp4", "udp6", "tcp4", "tcp6"}
    fams = {n[-1] for n in nets}
    trs = {n[:3] for n in nets}
    f = {"predicate": pred, "nets": ",".join(c["nets"]) if c["nets"] else "empty", "nets_rect": "yes" if len(nets) == len(fams) * len(trs) else "no",
         "types": ",".join(c["types"]) if c["types"] else "empty", "mux": c["mux"], "mdns": c["mdns"], "ports": c["ports"],
         "ifilter": c["ifilter"], "ipfilter": c["ipfilter"], "loopback": "yes" if c["loopback"] else "no", "rewrite": c.get("rewrite", "none"),
         "case": res["id"]}
    if pred == "Complete":
        f["ip"], f["transport"] = args[0], args[1]
        f["cls"] = next((a["cls"] for i in res["table"] for a in i["addrs"] if a["ip"] == args[0]), "?")
    elif pred != "NoError":
        p = res["pub"][int(args[0]) - 1]
        f.update({"type": p["type"], "net": p["net"], "kind": p["kind"], "base": p["base"]})
        f["cls"] = next((a["cls"] for i in res["table"] for a in i["addrs"] if a["ip"] == p["base"]), "other")
    else:
        f["err"] = res["err"][:120]
    return f


def set_check(work, binary, verdict, stats, tier, seed, only=None):
    rnd = random.Random(seed)
    ncfg, ntab = 82944, 513
    n_rich, n_rand = (5000, 3000) if tier == "quick" else (82944, 50000)
    rich = list(range(ncfg))
    if n_rich < ncfg:
        off = rnd.randrange(8)
        rich = [c for c in rich if c % 8 == off]     # a stride over the mixed-radix digits: every option of every dimension occurs
        rich = sorted(rnd.sample(rich, n_rich))
    picks = rich + [rnd.randrange(ncfg) + ncfg * rnd.randrange(1, ntab) for _ in range(n_rand)]
    picks = sorted(set(picks)) if only is None else list(only)
    put(work, "GatherSetRun.tla", "---- MODULE GatherSetRun ----\nEXTENDS GatherSetGen\nPicksDef == <<%s>>\n====\n" % ", ".join(map(str, picks)))
    put(work, "GatherSetRun.cfg", 'CONSTANTS\n  Picks <- PicksDef\n  OutFile = "cases.ndjson"\nINIT Init\nNEXT Next\n')
    tmo = 900 if tier == "quick" else 2400
    r = v.tlc(work.dir, "GatherSetRun", cfg="GatherSetRun.cfg", workers=1, timeout=tmo, heap="6g")
    v.require(r, "case enumeration")
    space = r.prints("SPACE")
    if not r.clean or r.prints("LAWBROKEN") or not space or [int(x) for x in space[0][:2]] != [ncfg, ntab]:
        sys.stderr.write(r.out[-2000:])
        raise v.Inconclusive("GatherSet enumeration failed or an oracle law is broken: %s" % r.prints("LAWBROKEN")[:3])
    stats["set_cases"] = len(picks)
    stats["set_space"] = {"configurations": ncfg, "interface_tables": ntab}
    stats["oracle_laws_checked_on_cases"] = len(picks)
    job = {"cases": work.path("cases.ndjson"), "out": work.path("results.ndjson"), "stats": work.path("setstats.json")}
    json.dump(job, open(work.path("setjob.json"), "w"))
    rc, out, wall = v.run_harness(binary, "TestGatherSet", work.path("setjob.json"), timeout=tmo)
    if rc != 0 or not os.path.exists(job["stats"]):
        sys.stderr.write(out[-3000:])
        raise v.Inconclusive("gather set driver failed (rc %d)" % rc)
    st = json.load(open(job["stats"]))
    stats["set_published_candidates"] = st.get("published", 0)
    stats["real_traces"] += st.get("cases", 0)
    put(work, "GatherSetMon-run.cfg", 'SPECIFICATION Spec\nCONSTANTS\n  ResultFile = "results.ndjson"\n  Check = %s\nINVARIANT Report\nCHECK_DEADLOCK FALSE\n' % tla_set(C18_SET_PREDS))
    r = v.tlc(work.dir, "GatherSetMon", cfg="GatherSetMon-run.cfg", workers=1, timeout=tmo, heap="6g")
    if r.error or not r.clean:
        sys.stderr.write(r.out[-3000:])
        raise v.Inconclusive("set monitor did not complete (%s)" % r.error)
    stats["monitor_states"] += r.distinct
    stats["monitor_predicates_evaluated"] += r.distinct * len(C18_SET_PREDS)
    results = [json.loads(l) for l in open(job["out"])]
    for x in r.prints("VIOL"):
        pred, line, args = x[0], int(x[1]), x[2:]
        res = results[line - 1]
        feat = set_features(pred, res, args)

        def writer(path, res=res, feat=feat):
            json.dump({"property": "C18", "family": "gather", "predicate": feat["predicate"], "case": res, "features": feat}, open(path, "w"))
        verdict.report(feat, writer)
    ok = next((x for x in results if len(x["pub"]) >= 3), results[0])
    stats["samples"].append({"case": ok["id"], "cfg": ok["cfg"], "table": [[i["name"], i["up"], i["lo"], [a["ip"] for a in i["addrs"]]] for i in ok["table"]],
                             "published": [[p["type"], p["net"], p["addr"], p["base"]] for p in ok["pub"]]})


def c18(tier, seed):
    verdict = v.Verdict("C18", tier, seed)
    stats = new_stats()
    quick = tier == "quick"
    with v.Work("C18") as work:
        work.copy_specs("gather")
        binary = v.build_harness(work, pkg="gather")
        set_check(work, binary, verdict, stats, tier, seed)
        # cycle control
        model_check(work, stats, "cycle-ideal", [], MODEL_INVS_C18, sites=["host-udp", "srflx-own", "relay"], faults=["none"],
                    cycles=3, restarts=2, refused=1, fail=False)
        r = model_check(work, stats, "cycle-ascoded", ALL_DEFECTS, MODEL_INVS_C18, sites=["host-udp", "srflx-own"], faults=["none"],
                        cycles=2, restarts=1, refused=1, fail=False)
        stats["model_counterexamples"] = sorted(set(r.invariants_violated))
        sites = ["host-udp", "srflx-own", "srflx-mux"] if quick else SITES
        scs = gen_scenarios(work, stats, "cycle", sites=sites, faults=["none"], cycles=3, restarts=2, refused=2, fail=False,
                            maxenv=7 if quick else 9, nowait=False)
        nw = [s for s in gen_scenarios(work, stats, "cycle-nowait", sites=sites, faults=["none"], cycles=3, restarts=2, refused=1, fail=False,
                                       maxenv=6 if quick else 7, nowait=True) if any(x["nowait"] for x in s["steps"])]
        rnd = random.Random(seed)
        rnd.shuffle(nw)
        # back-to-back GatherCandidates calls (the second arrives while the state is still New) are real races, decided by the Go
        # scheduler: these scenarios are always in, three copies each, so that a loaded machine does not decide what is looked at
        b2b = [s for s in nw if len(s["steps"]) >= 2 and s["steps"][0]["a"] == "Gather" and s["steps"][0]["nowait"] and s["steps"][1]["a"] == "Gather"]
        if quick:
            nw = nw[:1500]
        nw = nw + [json.loads(json.dumps(s)) for s in b2b for _ in range(3)]
        stats["scenarios_quiescent"], stats["scenarios_nowait"] = len(scs), len(nw)
        stats["scenarios_back_to_back_gather"] = len(b2b)
        judge_scenarios(work, binary, verdict, stats, scs + nw, C18_CYCLE_PREDS, "cycle", lambda p, sc, recs, li, rid: c18c_features(p, sc, recs, li))
        reg = regression_scenarios()
        stats["scenarios_regression_handoff_race"] = len(reg)
        judge_scenarios(work, binary, verdict, stats, reg, C18_CYCLE_PREDS, "regress", lambda p, sc, recs, li, rid: c18c_features(p, sc, recs, li), conform=False)
    verdict.coverage.update(stats)
    verdict.coverage["predicates"] = C18_SET_PREDS + C18_CYCLE_PREDS
    verdict.coverage["exhaustive"] = False
    verdict.assumptions = ASSUME_COMMON + [
        "candidate-set half: addresses of every class (global v4/v6, link-local, site-local, IPv4-compatible, v4/v6 loopback; for the IPv6 "
        "link-local and site-local prefixes both edges of the /10 and the last ordinary address below them), up to three interfaces "
        "(ordinary, loopback, down); the scripted STUN server answers every Binding request; relay candidates are not part of the set comparison",
        "an empty network-type list means all four network types, an empty candidate-type list means host+srflx+relay (agent_options.go / agent_config.go)",
        "the mDNS-gather clause is checked through the candidate address (name instead of IP); mDNS multicast traffic itself is scoped out",
        "with a single-port range and server-reflexive gathering enabled no UDP host candidate is required (the agent's own sockets compete for the port)"]
    return verdict.finish()


def replay(rp):
    """Re-run one recorded scenario (C09, C18 cycle half, C08 gather batch) or one candidate-set case (C18) and re-judge its predicate."""
    prop = rp["property"]
    verdict = v.Verdict(prop, "quick", 0)
    stats = new_stats()
    with v.Work("replay") as work:
        work.copy_specs("gather")
        binary = v.build_harness(work, pkg="gather")
        if "scenario" in rp:
            judge_scenarios(work, binary, verdict, stats, [dict(rp["scenario"])], [rp["predicate"]], "replay",
                            lambda p, sc, recs, li, rid: {"predicate": p}, conform=False)
        else:
            set_check(work, binary, verdict, stats, "quick", 0, only=[rp["case"]["id"]])
    for feat, p in verdict.violations:
        print("VIOLATION property=%s replay=%s" % (prop, p))
    for kid, (what, cnt) in verdict.known_hits.items():
        print("KNOWN-FINDING: property=%s %s" % (prop, what))
    return 1 if verdict.violations else 0


PLANS = {"C09": c09, "C18": c18}

_NOTE = ("Trusted base: TLC; the Go harness (tallying fake transport.Net / muxes / TURN client, scripted STUN server, tagged export "
         "verif_export_gather.go); testing/synctest. The verdict is a TLA+ predicate (specs/gather/GatherMon.tla, GatherSetMon.tla) "
         "evaluated by TLC on what the fakes recorded while the real agent in /repo's working tree ran TLC-generated scenarios / "
         "configurations; conformance of the recorded scenarios to specs/gather/Gather.tla is reported as evidence.")
_TECH = "TLA+ spec model-checked with TLC; TLC-enumerated scenarios replayed on the real code; recorded tallies validated against the spec and judged by a TLA+ monitor in TLC"
MANIFEST = {
    "C09": ("model_checking", "5.C09", "Gather.tla (seven acquisition sites x listen error / duplicate / none, cycle control, Restart / Failed / Close) model-checked "
            "exhaustively for CloseAtMostOnce, NoLeakAfterClose, NoLeakAfterRestart, ImmediateOnReject; every bounded sequence of driver-controlled events "
            "(acquisition let through, STUN/TURN reply or expiry before / at / after cancellation, Restart, Failed, Close) replayed on a real agent over tallying "
            "fakes and judged by the monitor.", _NOTE, _TECH),
    "C18": ("model_checking", "5.C18", "GatherSet.tla gives the allowed / required candidate set per configuration x interface table; TLC enumerates a stride over all "
            "27 648 configurations on the rich table plus seeded random configuration x table pairs, checks the oracle laws and judges Sound / Complete on what a real "
            "agent published; cycle control (once New->Gathering->Complete, refused unless New, no overlap / second nil, Restart isolates) model-checked on Gather.tla "
            "and judged on replayed scenarios incl. back-to-back calls.", _NOTE, _TECH),
}
