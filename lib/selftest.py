"""python3 lib/selftest.py [patch ...]: apply each mutant patch to a scratch worktree of /repo (never to /repo itself),
run the quick check of the property named by the patch's prefix with VERIF_REPO pointing at it, and report the exit codes.
Expected: exit 1 (VIOLATION) for Cnn-*.patch, exit 0 for patches with "benign" in their name."""
import glob, os, subprocess, sys, re, shutil
ROOT = os.path.dirname(os.path.dirname(os.path.abspath(__file__)))
WT = "/var/tmp/vs/selftest-wt"
patches = sys.argv[1:] or sorted(glob.glob(os.path.join(ROOT, "mutants", "*.patch")))
subprocess.run(["git", "-C", "/repo", "worktree", "remove", "--force", WT], capture_output=True)
subprocess.run(["git", "-C", "/repo", "worktree", "add", "-q", WT, "HEAD"], check=True)
res = []
try:
    for p in patches:
        name = os.path.basename(p)
        m = re.match(r"(benign-)?(C\d+)-", name)
        if not m:
            continue
        prop, benign = m.group(2), "benign" in name
        subprocess.run(["git", "-C", WT, "checkout", "-q", "--", "."], check=True)
        a = subprocess.run(["git", "-C", WT, "apply", os.path.abspath(p)], capture_output=True, text=True)
        if a.returncode != 0:
            res.append((name, "apply-failed", a.stderr.strip()[:100])); continue
        env = dict(os.environ, VERIF_REPO=WT)
        r = subprocess.run([os.path.join(ROOT, "check"), prop, "--tier", "quick"], env=env, capture_output=True, text=True, cwd=ROOT)
        v = [l for l in r.stdout.splitlines() if l.startswith("VIOLATION")]
        want = 0 if benign else 1
        res.append((name, "rc=%d %s" % (r.returncode, "OK" if r.returncode == want else "UNEXPECTED"), (v[0] if v else "") + " " + " ".join(
            l.strip()[:160] for l in r.stderr.splitlines() if "violation detail" in l)[:330]))
        print(res[-1], flush=True)
finally:
    subprocess.run(["git", "-C", "/repo", "worktree", "remove", "--force", WT], capture_output=True)
    # evidence files were rewritten by mutant runs: restore the committed ones
    subprocess.run(["git", "-C", ROOT, "checkout", "--", "evidence"], capture_output=True)
