"""python3 lib/runsched.py <cfg> <schedule.json> <pred,pred> [drain] [notime] [zerowait]: replay one schedule on the real agents,
validate against the spec and judge with the monitor."""
import json, sys, os
sys.path.insert(0, os.path.dirname(os.path.abspath(__file__)))
import vlib as v, session
name, sched, preds = sys.argv[1], os.path.abspath(sys.argv[2]), sys.argv[3].split(",")
flags = sys.argv[4:]
verdict = v.Verdict("DBG", "quick", 0); verdict.known = []
stats = session.new_stats()
with v.Work("runsched") as w:
    w.copy_specs("session")
    b = v.build_harness(w)
    d = json.load(open(sched))
    if isinstance(d, dict): d = d["schedule"]
    sp = w.path("s.json"); json.dump(d, open(sp, "w"))
    run = dict(cfg=name, traces=0, scheds=[sp], preds=preds, drain="drain" in flags, notime="notime" in flags, zerowait="zerowait" in flags)
    lines = session.run_batch(w, b, verdict, run, 0, "x", stats)
    import subprocess
    print("conforming:", stats["traces_validated_against_impl"], "nonconf:", stats["nonconformance"], "skipped:", stats["skipped_actions"])
    for f, p in verdict.violations: print("VIOL", {k: f[k] for k in f if k not in ("cfg",)})
    last = lines[-1]["post"]
    for a in "AB": print(a, last[a]["role"], last[a]["conn"], "sel", last[a]["sel"], "lastNom", last[a]["lastNom"], [(p["id"], p["l"], p["r"], p["st"]) for p in last[a]["pairs"]])
