"""python3 lib/dbgmon.py <cfg> <seed> <traces> <pred,pred> [drain] [notime] -> run driver + monitor, print VIOL lines summary."""
import json, sys, os, collections
sys.path.insert(0, os.path.dirname(os.path.abspath(__file__)))
import vlib as v, sessiongen as g, session
name, seed, n, preds = sys.argv[1], int(sys.argv[2]), int(sys.argv[3]), sys.argv[4].split(",")
flags = sys.argv[5:]
with v.Work("dbgmon") as w:
    w.copy_specs("session")
    b = v.build_harness(w)
    cfg = g.load(name, session.CONFIGS)
    trace = w.path("t.ndjson")
    job = {"configs": session.CONFIGS, "cfg": name, "seed": seed, "traces": n, "out": trace, "drain": "drain" in flags,
           "notime": "notime" in flags, "stats": w.path("st.json")}
    json.dump(job, open(w.path("job.json"), "w"))
    rc, out, wall = v.run_harness(b, "TestSession", w.path("job.json"))
    print("driver rc", rc, out[-500:] if rc else "", open(w.path("st.json")).read()[:400])
    m = g.gen_mon(w.dir, name, cfg, trace, preds)
    r = v.tlc(w.dir, m, workers=1)
    print("clean", r.clean, r.error, r.distinct)
    if not r.clean: print(r.out[-1500:])
    lines = v.read_ndjson(trace)
    cnt = collections.Counter()
    for pred, line in r.prints("VIOL"):
        f = session.features_of(pred, lines, int(line) - 1, name)
        cnt[json.dumps(f, sort_keys=True)] += 1
    for k, c in cnt.most_common(): print(c, k)
