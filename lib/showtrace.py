"""python3 lib/showtrace.py <ndjson> <trace#> : compact view of one recorded session trace."""
import json, sys
lines=[json.loads(l) for l in open(sys.argv[1])]
resets=[i for i,e in enumerate(lines) if e['ev']=='Reset']
k=int(sys.argv[2]); st=resets[k]; en=resets[k+1] if k+1<len(resets) else len(lines)
def ag(p): return "%s/%s sel=%s nomP=%s lastNom=%s %s"%(p['role'][:4],p['conn'][:4],p['sel'],p['nomPair'],p['lastNom'],[(x['id'],x['l'],x['r'],x['st'],'n' if x['nom'] else '', 'd' if x['nos'] else '') for x in p['pairs']])
for i,e in enumerate(lines[st:en]):
    d={k:e[k] for k in e if k not in('post','pre','cfg')}
    if 'm' in d: m=d['m']; d['m']="%s %s %s>%s t%s%s%s"%(m['from'],m['kind'],m['src'],m['dst'],m['tid'],' UC' if m['uc'] else '',' nom%d'%m['nom'] if m['nom'] else '')
    p=e['post']; print(i,json.dumps(d)[:110],'| A',ag(p['A']),'| B',ag(p['B']))
