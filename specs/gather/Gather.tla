---- MODULE Gather ----
(* Candidate gathering of a pion/ice agent (C09, C18, nil-candidate part of C11).                     *)
(*                                                                                                    *)
(* (a) Cycle control: gathering state New -> Gathering -> Complete, accepted GatherCandidates calls    *)
(*     start a cycle (cancelling the previous one), Restart/Close cancel, Complete enqueues the nil   *)
(*     candidate, GatherCandidates is refused unless the state is New.                                *)
(* (b) One gatherer per cycle for a chosen acquisition site; its resources (socket, mux handle, TURN  *)
(*     client, allocation) are tallied: opened, number of Close calls, removed from the mux by ufrag,  *)
(*     owned by a candidate. Every failure edge says whether the code closes the resource; the edges  *)
(*     where the pinned tree does not follow the property are switched by the constant Defects, so    *)
(*     the same module is the repaired design (Defects = {}) and the code as written.                  *)
(* (c) The candidate-set function Expected(cfg, ifaces) is defined in GatherSet (extended here).      *)
(*                                                                                                    *)
(* Driver-controlled events (environment): Gather, Open(k) (the fake Net / mux / TURN client lets the  *)
(* k-th arrived gatherer acquire its resource), Reply(k), Timeout(k) (STUN / TURN answer or expiry),  *)
(* Restart, Fail (connection state Failed), Close, Settle (time passes beyond every timeout).          *)
(* Everything else is a step of the agent.                                                            *)
EXTENDS GatherSet

CONSTANTS Sites,        \* acquisition sites explored
          Faults,       \* "none", "listen-error", "dup"
          Defects,      \* subset of AllDefects; the pinned tree = AllDefects
          MaxCycles,    \* accepted GatherCandidates calls
          MaxRestarts,
          MaxRefused,   \* refused GatherCandidates calls
          AllowFail,
          MaxEnv,       \* environment events per behaviour (scenario generation)
          NoWaitPairs   \* scenario generation: allow two environment events without quiescence in between

AllSites == {"host-udp", "host-udpmux", "host-tcpmux", "srflx-own", "srflx-mux", "srflx-mapped", "relay"}
AllDefects == {"srflxNoCloseOnReject",  \* gatherCandidatesSrflx: addCandidate error path does not close conn (F-C09)
               "srflxWatcherCloses",    \* ... the loop.Done() watcher closes conn and the error path closes it again (F-C09b);
                                        \* without it (repaired tree, 8a84c13) watcher and error paths share one sync.Once closer
               "handoffRace",           \* addCandidate checks ctx before loop.Run only; Run's select may still hand off (F-C18c)
               "closeSkipsOld",         \* Close waits for the latest cycle only; superseded cycles may still hold resources
               "watcherOutlivesExchange",  \* the watcher stays armed after the STUN exchange, while the socket is handed to addCandidate: a
                                        \* closing agent makes it close a socket that a candidate (or a duplicate's clean-up) already closes;
                                        \* repaired: the gatherer retires the watcher (and waits for it) as soon as the exchange is over
               "watcherFollowsCycle"}   \* the loop.Done() watcher of the srflx gatherer gives up when its cycle is cancelled, so the closing
                                        \* agent no longer unblocks a superseded exchange (before 258732c); repaired: it lives until the
                                        \* gatherer returns
HasGate(s) == s # "srflx-mux"
HasFlight(s) == s \in {"srflx-own", "srflx-mux", "relay"}
IsMux(s) == s \in {"host-udpmux", "host-tcpmux", "srflx-mux"}
ResNames(s) == IF s = "relay" THEN {"conn", "cli", "loc"} ELSE {"conn"}
AllNames == {"conn", "cli", "loc"}
\* "filtered": the socket is opened, then the candidate is refused before it is ever handed to addCandidate (every external address
\* of the srflx-mapped gatherer is one that must not be published) - the gatherer still owns the socket and must close it
\* "dup" on host-udpmux: two listen addresses of the mux map to one host configuration; the gatherer notices before it takes a
\* second reference from the mux, so nothing is acquired for the duplicate (no companion: the scenario equals "none" for a correct tree)
FaultOK(s, f) == f \in {"none", "listen-error"} \/ (f = "dup" /\ s \in {"host-udp", "host-udpmux", "host-tcpmux", "srflx-own", "srflx-mux", "relay"})
                 \/ (f = "filtered" /\ s = "srflx-mapped")

C == 1..MaxCycles
NoRes == [o |-> FALSE, cl |-> 0, rm |-> FALSE, ug |-> 0]

VARIABLES site, fault,
          gs, gen, closing, closeDone, conn,
          ncyc, nref, cur, cancelled,
          pc, cgen, aid, narr,
          res, own, comp, wf,
          nils, nilg, npub, pubmix,
          hist, nenv, hold, fin
vars == <<site, fault, gs, gen, closing, closeDone, conn, ncyc, nref, cur, cancelled, pc, cgen, aid, narr,
          res, own, comp, wf, nils, nilg, npub, pubmix, hist, nenv, hold, fin>>
view == <<site, fault, gs, gen, closing, closeDone, conn, ncyc, nref, cur, cancelled, pc, cgen, aid, narr,
          res, own, comp, wf, nils, nilg, npub, pubmix>>

InitWith(s, f) ==
  /\ site = s /\ fault = f
  /\ gs = "New" /\ gen = 0 /\ closing = FALSE /\ closeDone = FALSE /\ conn = "New"
  /\ ncyc = 0 /\ nref = 0 /\ cur = 0 /\ cancelled = {}
  /\ pc = [c \in C |-> "idle"] /\ cgen = [c \in C |-> 0] /\ aid = [c \in C |-> 0] /\ narr = 0
  /\ res = [c \in C |-> [n \in AllNames |-> NoRes]]
  /\ own = [c \in C |-> "no"] /\ comp = [c \in C |-> "none"] /\ wf = [c \in C |-> "off"]
  /\ nils = 0 /\ nilg = [g \in 0..MaxRestarts |-> 0] /\ npub = 0 /\ pubmix = FALSE
  /\ hist = <<>> /\ nenv = 0 /\ hold = 0 /\ fin = FALSE
Init == \E s \in Sites, f \in Faults : FaultOK(s, f) /\ InitWith(s, f)

Dead(c) == closing \/ c \in cancelled          \* the cycle's context is done
Opn(c, ns) == [n \in AllNames |-> IF n \in ns THEN [o |-> TRUE, cl |-> 0, rm |-> FALSE, ug |-> gen] ELSE res[c][n]]
ClsR(r, ns) == [n \in AllNames |-> IF n \in ns /\ r[n].o THEN [r[n] EXCEPT !.cl = @ + 1] ELSE r[n]]
Cls(c, ns) == ClsR(res[c], ns)
\* gatherCandidatesSrflx after the repair: whoever of the watcher and the error paths comes first closes, the others find the Once done
OnceMode == "srflxWatcherCloses" \notin Defects
ClsS(r) == IF OnceMode /\ r["conn"].cl >= 1 THEN r ELSE ClsR(r, {"conn"})
Released(r) == r.cl >= 1 \/ r.rm
UNCH_ENV == UNCHANGED <<hist, nenv, hold, fin>>
UNCH_CYC == UNCHANGED <<site, fault, gen, closing, closeDone, conn, ncyc, nref, cur, cancelled, cgen>>

\* ---------------------------------------------------------------- steps of the agent
\* gatherCandidates: setGatheringState(Gathering) through the loop, re-checking the cycle's context
Start(c) ==
  /\ pc[c] = "start"
  /\ IF Dead(c)
       THEN /\ pc' = [pc EXCEPT ![c] = "done"]
            /\ UNCHANGED <<gs, aid, narr, comp, npub>>
       ELSE /\ gs' = "Gathering"
            /\ narr' = narr + 1 /\ aid' = [aid EXCEPT ![c] = narr + 1]
            /\ pc' = [pc EXCEPT ![c] = IF HasGate(site) THEN "gate" ELSE "flight"]
            \* duplicate scenarios: an equal candidate of the same cycle is gathered first (second interface, second URL)
            /\ IF fault = "dup" /\ site # "host-udpmux" THEN comp' = [comp EXCEPT ![c] = "owned"] /\ npub' = npub + 1
                                ELSE UNCHANGED <<comp, npub>>
  /\ UNCH_CYC /\ UNCH_ENV /\ UNCHANGED <<res, own, wf, nils, nilg, pubmix>>

\* the loop.Done() watcher of gatherCandidatesSrflx (armed while the STUN exchange and addCandidate run)
WatcherOn(c) == site = "srflx-own" /\ wf[c] = "armed"
WatcherFire(c) ==
  /\ WatcherOn(c) /\ closing
  /\ pc[c] \in (IF "watcherOutlivesExchange" \in Defects THEN {"flight", "built", "handoff", "reject"} ELSE {"flight"})
  /\ wf' = [wf EXCEPT ![c] = "fired"]
  /\ res' = [res EXCEPT ![c] = ClsS(res[c])]
  /\ pc' = [pc EXCEPT ![c] = IF pc[c] = "flight" THEN "ferr" ELSE pc[c]]   \* the pending read is aborted
  /\ UNCH_CYC /\ UNCH_ENV /\ UNCHANGED <<gs, aid, narr, own, comp, nils, nilg, npub, pubmix>>
WatcherExit(c) ==
  /\ WatcherOn(c) /\ \/ "watcherFollowsCycle" \in Defects /\ Dead(c)
                     \/ pc[c] \in {"finish", "done"}
                     \/ "watcherOutlivesExchange" \notin Defects /\ pc[c] # "flight"      \* retired by the gatherer after the exchange
  /\ wf' = [wf EXCEPT ![c] = "exited"]
  /\ UNCH_CYC /\ UNCH_ENV /\ UNCHANGED <<gs, pc, aid, narr, res, own, comp, nils, nilg, npub, pubmix>>
\* GetXORMappedAddr returned an error: closeConnAndLog
FlightErr(c) ==
  /\ pc[c] = "ferr"
  /\ res' = [res EXCEPT ![c] = ClsS(res[c])]
  /\ pc' = [pc EXCEPT ![c] = "finish"]
  /\ UNCH_CYC /\ UNCH_ENV /\ UNCHANGED <<gs, aid, narr, own, comp, wf, nils, nilg, npub, pubmix>>

\* addCandidate, first half: ctx.Err()
Check(c) ==
  /\ pc[c] = "built"
  /\ "watcherOutlivesExchange" \in Defects \/ ~WatcherOn(c)      \* the gatherer waits until the watcher has gone
  /\ pc' = [pc EXCEPT ![c] = IF Dead(c) THEN "reject" ELSE "handoff"]
  /\ UNCH_CYC /\ UNCH_ENV /\ UNCHANGED <<gs, aid, narr, res, own, comp, wf, nils, nilg, npub, pubmix>>
\* addCandidate, second half: loop.Run's select, then the task
Accept(c) ==
  /\ IF fault = "dup" /\ comp[c] = "owned"
       THEN \* duplicate: the task closes the candidate and its connection, addCandidate returns nil
            /\ res' = [res EXCEPT ![c] = Cls(c, ResNames(site))]
            /\ UNCHANGED <<own, npub, pubmix>>
       ELSE /\ own' = [own EXCEPT ![c] = "yes"]
            /\ npub' = npub + 1
            /\ pubmix' = (pubmix \/ cgen[c] # gen)
            /\ UNCHANGED res
  /\ pc' = [pc EXCEPT ![c] = "finish"]
Handoff(c) ==
  /\ pc[c] = "handoff"
  /\ \/ /\ ~Dead(c) \/ ("handoffRace" \in Defects /\ ~closeDone)
        /\ Accept(c)
     \/ /\ Dead(c)
        /\ pc' = [pc EXCEPT ![c] = "reject"]
        /\ UNCHANGED <<res, own, npub, pubmix>>
  /\ UNCH_CYC /\ UNCH_ENV /\ UNCHANGED <<gs, aid, narr, comp, wf, nils, nilg>>
\* the error path after addCandidate at each call site
Reject(c) ==
  /\ pc[c] = "reject"
  /\ res' = [res EXCEPT ![c] = IF site = "srflx-own" THEN (IF "srflxNoCloseOnReject" \in Defects THEN res[c] ELSE ClsS(res[c]))
                                ELSE IF site = "host-udpmux" /\ fault = "dup"
                                  \* the configuration was not recorded (its candidate was refused), so the second listen address that maps to
                                  \* it is tried as well: one more reference is taken from the mux, refused and given back
                                  THEN [Cls(c, ResNames(site)) EXCEPT !["loc"] = [o |-> TRUE, cl |-> 1, rm |-> FALSE, ug |-> gen]]
                                  ELSE Cls(c, ResNames(site))]
  /\ pc' = [pc EXCEPT ![c] = "finish"]
  /\ UNCH_CYC /\ UNCH_ENV /\ UNCHANGED <<gs, aid, narr, own, comp, wf, nils, nilg, npub, pubmix>>
\* setGatheringState(Complete): dropped for a dead cycle, otherwise enqueues the nil candidate once
Finish(c) ==
  /\ pc[c] = "finish"
  /\ pc' = [pc EXCEPT ![c] = "done"]
  /\ IF Dead(c) THEN UNCHANGED <<gs, nils, nilg>>
     ELSE /\ gs' = "Complete"
          /\ IF gs # "Complete" THEN nils' = nils + 1 /\ nilg' = [nilg EXCEPT ![gen] = @ + 1] ELSE UNCHANGED <<nils, nilg>>
  /\ UNCH_CYC /\ UNCH_ENV /\ UNCHANGED <<aid, narr, res, own, comp, wf, npub, pubmix>>

\* candidates leave the agent: Restart, Failed, Close (deleteAllCandidates; removeUfragFromMux)
RelOwned(r, c) == IF own[c] = "yes" THEN [n \in AllNames |-> IF n \in ResNames(site) /\ r[n].o THEN [r[n] EXCEPT !.cl = @ + 1] ELSE r[n]]
                  ELSE IF own[c] = "aborted" THEN [n \in AllNames |-> IF n \in ResNames(site) \ {"conn"} /\ r[n].o THEN [r[n] EXCEPT !.cl = @ + 1] ELSE r[n]]
                  ELSE r
RmMux(r) == [n \in AllNames |-> IF IsMux(site) /\ r[n].o /\ r[n].ug = gen THEN [r[n] EXCEPT !.rm = TRUE] ELSE r[n]]
RelRes == [c \in C |-> RmMux(RelOwned(res[c], c))]
ReleaseAll == /\ res' = RelRes
              /\ own' = [c \in C |-> "no"]
              /\ comp' = [c \in C |-> IF comp[c] \in {"owned", "aborted"} THEN "released" ELSE comp[c]]
\* the end of Close: the loop's onClose has waited for the latest cycle
AllDone == \A c \in C : pc[c] \in {"idle", "done"}
CloseEnd ==
  /\ closing /\ ~closeDone
  /\ IF "closeSkipsOld" \in Defects THEN (IF cur = 0 THEN TRUE ELSE pc[cur] = "done") ELSE AllDone
  /\ ReleaseAll /\ closeDone' = TRUE
  /\ UNCH_ENV /\ UNCHANGED <<site, fault, gs, gen, closing, conn, ncyc, nref, cur, cancelled, pc, cgen, aid, narr, wf, nils, nilg, npub, pubmix>>

Internal == \/ \E c \in C : Start(c) \/ WatcherFire(c) \/ WatcherExit(c) \/ FlightErr(c) \/ Check(c) \/ Handoff(c) \/ Reject(c) \/ Finish(c)
            \/ CloseEnd
InternalEnabled == ENABLED Internal

\* ---------------------------------------------------------------- events the driver controls
Log(e) == hist' = Append(hist, e) /\ nenv' = nenv + 1
ByAid(k) == CHOOSE c \in C : aid[c] = k
Gather ==
  /\ ~closing
  /\ IF gs = "New"
       THEN /\ ncyc < MaxCycles
            /\ ncyc' = ncyc + 1 /\ cur' = ncyc + 1
            /\ cancelled' = IF cur = 0 THEN cancelled ELSE cancelled \cup {cur}
            /\ pc' = [pc EXCEPT ![ncyc + 1] = "start"] /\ cgen' = [cgen EXCEPT ![ncyc + 1] = gen]
            /\ UNCHANGED nref
       ELSE /\ nref < MaxRefused /\ nref' = nref + 1
            /\ UNCHANGED <<ncyc, cur, cancelled, pc, cgen>>
  /\ UNCHANGED <<site, fault, gs, gen, closing, closeDone, conn, aid, narr, res, own, comp, wf, nils, nilg, npub, pubmix>>
Open(k) ==
  /\ \E c \in C : aid[c] = k /\ pc[c] = "gate"
  /\ LET c == ByAid(k) IN
       IF fault = "listen-error"
         THEN pc' = [pc EXCEPT ![c] = "finish"] /\ UNCHANGED <<res, wf>>
         ELSE CASE site = "srflx-own" -> /\ res' = [res EXCEPT ![c] = Opn(c, {"conn"})] /\ pc' = [pc EXCEPT ![c] = "flight"]
                                         /\ wf' = [wf EXCEPT ![c] = "armed"]
                [] site = "relay" -> res' = [res EXCEPT ![c] = Opn(c, {"loc", "cli"})] /\ pc' = [pc EXCEPT ![c] = "flight"] /\ UNCHANGED wf
                [] OTHER -> res' = [res EXCEPT ![c] = Opn(c, {"conn"})] /\ UNCHANGED wf
                            /\ pc' = [pc EXCEPT ![c] = IF fault = "filtered" THEN "reject" ELSE "built"]
  /\ UNCH_CYC /\ UNCHANGED <<gs, aid, narr, own, comp, nils, nilg, npub, pubmix>>
Reply(k) ==
  /\ \E c \in C : aid[c] = k /\ pc[c] = "flight"
  /\ LET c == ByAid(k) IN
       CASE site = "srflx-mux" -> IF fault = "listen-error" THEN pc' = [pc EXCEPT ![c] = "finish"] /\ UNCHANGED res
                                  ELSE res' = [res EXCEPT ![c] = Opn(c, {"conn"})] /\ pc' = [pc EXCEPT ![c] = "built"]
         [] site = "relay" -> res' = [res EXCEPT ![c] = Opn(c, {"conn"})] /\ pc' = [pc EXCEPT ![c] = "built"]
         [] OTHER -> pc' = [pc EXCEPT ![c] = "built"] /\ UNCHANGED res
  /\ UNCH_CYC /\ UNCHANGED <<gs, aid, narr, own, comp, wf, nils, nilg, npub, pubmix>>
TimeoutOf(r) == CASE site = "srflx-own" -> ClsS(r) [] site = "relay" -> ClsR(r, {"cli", "loc"}) [] OTHER -> r
Timeout(k) ==
  /\ \E c \in C : aid[c] = k /\ pc[c] = "flight"
  /\ LET c == ByAid(k) IN res' = [res EXCEPT ![c] = TimeoutOf(res[c])] /\ pc' = [pc EXCEPT ![c] = "finish"]
  /\ UNCH_CYC /\ UNCHANGED <<gs, aid, narr, own, comp, wf, nils, nilg, npub, pubmix>>
Restart ==
  /\ ~closing /\ gen < MaxRestarts
  /\ gen' = gen + 1 /\ gs' = "New"
  /\ cancelled' = IF cur = 0 THEN cancelled ELSE cancelled \cup {cur}
  /\ conn' = IF conn = "New" THEN "New" ELSE "Checking"
  /\ ReleaseAll
  /\ UNCHANGED <<site, fault, closing, closeDone, ncyc, nref, cur, pc, cgen, aid, narr, wf, nils, nilg, npub, pubmix>>
\* the connection state becomes Failed (the driver starts connectivity checks with no peer and lets the timeouts pass)
Fail ==
  /\ AllowFail /\ ~closing /\ conn # "Failed"
  /\ conn' = "Failed" /\ ReleaseAll
  /\ UNCHANGED <<site, fault, gs, gen, closing, closeDone, ncyc, nref, cur, cancelled, pc, cgen, aid, narr, wf, nils, nilg, npub, pubmix>>
\* Close is called: the loop stops accepting tasks, started candidates get their I/O aborted
CloseBegin ==
  /\ ~closing /\ closing' = TRUE
  /\ res' = [c \in C |-> IF own[c] = "yes" THEN Cls(c, {"conn"}) ELSE res[c]]
  /\ own' = [c \in C |-> IF own[c] = "yes" THEN "aborted" ELSE own[c]]
  /\ comp' = [c \in C |-> IF comp[c] = "owned" THEN "aborted" ELSE comp[c]]
  /\ UNCHANGED <<site, fault, gs, gen, closeDone, conn, ncyc, nref, cur, cancelled, pc, cgen, aid, narr, wf, nils, nilg, npub, pubmix>>
\* time passes beyond every STUN / TURN timeout (a wind-down point if the driver holds no gate)
Settle ==
  /\ LET refail == conn = "Checking" /\ ~closing     \* checks restarted by Restart fail again
         base == IF refail THEN RelRes ELSE res IN
       /\ res' = [c \in C |-> IF pc[c] = "flight" THEN TimeoutOf(base[c]) ELSE base[c]]
       /\ IF refail THEN /\ conn' = "Failed" /\ own' = [c \in C |-> "no"]
                          /\ comp' = [c \in C |-> IF comp[c] \in {"owned", "aborted"} THEN "released" ELSE comp[c]]
                     ELSE UNCHANGED <<conn, own, comp>>
  /\ pc' = [c \in C |-> IF pc[c] = "flight" THEN "finish" ELSE pc[c]]
  /\ UNCHANGED <<site, fault, gen, closing, closeDone, ncyc, nref, cur, cancelled, cgen, gs, aid, narr, wf, nils, nilg, npub, pubmix>>

K == 1..MaxCycles
EnvAct(e) == CASE e.a = "Gather" -> Gather [] e.a = "Open" -> Open(e.k) [] e.a = "Reply" -> Reply(e.k) [] e.a = "Timeout" -> Timeout(e.k)
               [] e.a = "Restart" -> Restart [] e.a = "Fail" -> Fail [] e.a = "Close" -> CloseBegin [] e.a = "Settle" -> Settle
Ev(a, k, nw) == [a |-> a, k |-> k, nowait |-> nw]
EnvEvents == {Ev(a, 0, FALSE) : a \in {"Gather", "Restart", "Fail", "Close", "Settle"}} \cup {Ev(a, k, FALSE) : a \in {"Open", "Reply", "Timeout"}, k \in K}

\* ---------------------------------------------------------------- (1) every interleaving: exhaustive model checking
EnvAny == \E e \in EnvEvents : EnvAct(e) /\ UNCH_ENV
Next == Internal \/ EnvAny
Spec == Init /\ [][Next]_vars

\* ---------------------------------------------------------------- (2) scenario generation: events at quiescence (+ chosen no-wait pairs)
Second(e) == \* what may follow immediately, without letting the agent quiesce
  CASE e.a = "Reply" -> {"Restart", "Close"} [] e.a = "Gather" -> {"Gather", "Restart", "Close"} [] OTHER -> {}
LastEv == hist[Len(hist)]
Useful(e) == \* prune sequences that add nothing: Settle only when something can time out or just before the end
  /\ (e.a = "Settle" => \A c \in C : pc[c] # "gate")
  /\ (e.a = "Settle" => (closing /\ \A c \in C : pc[c] # "gate") \/ (\E c \in C : pc[c] = "flight") \/ (gen > 0 /\ Len(hist) > 0 /\ LastEv.a # "Settle"))
EnvQ ==
  /\ ~fin /\ nenv < MaxEnv
  /\ IF hold = 1
       THEN \E a \in Second(LastEv) : EnvAct(Ev(a, 0, FALSE)) /\ Log(Ev(a, 0, FALSE)) /\ hold' = 0 /\ UNCHANGED fin
       ELSE /\ ~InternalEnabled
            /\ \E e \in EnvEvents :
                 /\ Useful(e) /\ EnvAct(e)
                 /\ \/ /\ Log(e) /\ hold' = 0
                       /\ fin' = (e.a = "Settle" /\ closing /\ \A c \in C : pc[c] \notin {"gate"})
                    \/ /\ NoWaitPairs /\ Second(e) # {} /\ Log(Ev(e.a, e.k, TRUE)) /\ hold' = 1 /\ UNCHANGED fin
NextQ == (hold = 0 /\ Internal) \/ EnvQ
SpecQ == Init /\ [][NextQ]_vars
\* a finished scenario: closed, settled, quiescent
Finished == fin /\ ~InternalEnabled

\* ---------------------------------------------------------------- observation (what the driver can count)
Cnt(P(_, _)) == Cardinality({<<c, n>> \in C \X AllNames : res[c][n].o /\ P(c, n)})
NComp(S) == Cardinality({c \in C : comp[c] \in S}) * Cardinality(ResNames(site))
ObsOpened == Cnt(LAMBDA c, n : TRUE) + NComp({"owned", "aborted", "released"})
ObsReleased == Cnt(LAMBDA c, n : Released(res[c][n])) + NComp({"released"}) + Cardinality({c \in C : comp[c] = "aborted"})
ObsDbl == Cnt(LAMBDA c, n : res[c][n].cl >= 2)
ObsOwned == IF closing THEN 0 ELSE Cardinality({c \in C : own[c] = "yes"}) * Cardinality(ResNames(site)) + NComp({"owned"})
ObsGS == IF closing THEN "Closed" ELSE gs
ObsParked == Cardinality({c \in C : pc[c] = "gate"})

\* ---------------------------------------------------------------- the properties on the model
CloseAtMostOnce == \A c \in C, n \in AllNames : res[c][n].cl <= 1
NoLeakAfterClose == closeDone => \A c \in C, n \in AllNames : res[c][n].o => Released(res[c][n])
NoLeakAfterRestart == \A c \in C : (pc[c] = "done" /\ cgen[c] < gen) => \A n \in AllNames : res[c][n].o => Released(res[c][n])
ImmediateOnReject == \A c \in C : pc[c] = "done" => \A n \in AllNames : res[c][n].o => (Released(res[c][n]) \/ own[c] # "no")
NoOverlap == Cardinality({c \in C : pc[c] \notin {"idle", "done"} /\ ~Dead(c)}) <= 1
OneNilPerGeneration == \A g \in 0..MaxRestarts : nilg[g] <= 1
NilIffComplete == (gs = "Complete") = (nilg[gen] = 1)
RestartIsolates == ~pubmix
TypeOK == /\ gs \in {"New", "Gathering", "Complete"} /\ gen \in 0..MaxRestarts /\ cur \in 0..MaxCycles
          /\ \A c \in C : pc[c] \in {"idle", "start", "gate", "flight", "ferr", "built", "handoff", "reject", "finish", "done"}
====
