SPECIFICATION SpecQ
CONSTANTS
  Sites = {"host-udp", "host-udpmux", "host-tcpmux", "srflx-own", "srflx-mux", "srflx-mapped", "relay"}
  Faults = {"none", "listen-error", "dup"}
  Defects = {}
  MaxCycles = 2
  MaxRestarts = 1
  MaxRefused = 1
  AllowFail = TRUE
  MaxEnv = 8
  NoWaitPairs = FALSE
INVARIANT Emit
POSTCONDITION Post
CHECK_DEADLOCK FALSE
