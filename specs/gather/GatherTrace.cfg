SPECIFICATION TSpec
CONSTANTS
  Sites = {"host-udp", "host-udpmux", "host-tcpmux", "srflx-own", "srflx-mux", "srflx-mapped", "relay"}
  Faults = {"none", "listen-error", "dup"}
  Defects = {}
  MaxCycles = 3
  MaxRestarts = 2
  MaxRefused = 3
  AllowFail = TRUE
  MaxEnv = 0
  NoWaitPairs = FALSE
  TraceFile = "trace.ndjson"
CHECK_DEADLOCK FALSE
