---- MODULE GatherMon ----
(* Verdicts for C09 and for the cycle-control half of C18 from what the tallying fakes recorded while a real  *)
(* agent ran the scenarios. No dependence on Gather!Next: every predicate is a statement about counts of      *)
(* Close calls per resource, ownership by current local candidates, published candidates and the gathering    *)
(* state observed at quiescent points.                                                                         *)
(*                                                                                                             *)
(* One line per driver event: ev, i (position in its scenario, 0 = Reset), nowait (the next event followed     *)
(* without letting the agent quiesce: nothing was observed), ret, gs / gspre (gathering state after / before),  *)
(* gen (Restarts so far), closing / closed (Close called / returned), settled (time passed beyond every        *)
(* timeout and the driver holds no gate: no gather goroutine of any cycle can still be running),               *)
(* res (every resource ever acquired: id, kind, gen at acquisition, rel = Close calls, removed = its ufrag was  *)
(* removed from the mux, owned = a current local candidate sits on it), pub (candidates published since the    *)
(* previous observation).                                                                                      *)
EXTENDS Naturals, Integers, Sequences, FiniteSets, TLC, Json
CONSTANTS TraceFile, Check
Tr == ndJsonDeserialize(TraceFile)
VARIABLE l
Init == l = 1
Step == l < Len(Tr) /\ l' = l + 1
Spec == Init /\ [][Step]_l

E == Tr[l]
Start == l - E.i                                   \* the Reset line of this scenario
Observed(k) == ~Tr[k].nowait /\ Tr[k].ev # "Hang"
\* previous observed line of the scenario (the Reset line is observed)
PrevObs == LET RECURSIVE Back(_)
               Back(k) == IF k <= Start \/ Observed(k) THEN k ELSE Back(k - 1)
           IN Back(l - 1)
Pre == Tr[PrevObs]
\* events applied since the previous observation
Evs == {Tr[k].ev : k \in (PrevObs + 1)..l}
Released(r) == r.rel >= 1 \/ r.removed
PreRes(id) == IF id <= Len(Pre.res) THEN Pre.res[id] ELSE [id |-> id, kind |-> "", gen |-> 0, rel |-> 0, removed |-> FALSE, owned |-> FALSE, g |-> 0]
Ids == 1..Len(E.res)
Live == E.i > 0 /\ Observed(l)

\* ---------------------------------------------------------------- C09
\* a resource is closed at most once (reported when the second Close shows up)
CloseAtMostOnce(id) == E.res[id].rel > 1 => PreRes(id).rel > 1
\* when Close has returned nothing acquired by the agent is still open (judged at the first observation after the return)
NoLeakAfterClose(id) == (E.closed /\ ~Pre.closed) => Released(E.res[id])
\* once the superseded gathering has wound down, nothing acquired before the Restart is still open
NoLeakAfterRestart(id) == (E.settled /\ E.res[id].gen < E.gen) => Released(E.res[id])
\* a resource whose candidate was rejected, duplicate or cancelled is released by the end of its gather goroutine:
\* at a wound-down point every open resource carries a current local candidate
ImmediateOnReject(id) == (E.settled /\ ~E.closing /\ E.res[id].gen = E.gen) => (Released(E.res[id]) \/ E.res[id].owned)
\* Restart and Failed release what the removed candidates owned
ReleasedOnRemoval(id) ==
  (Evs = {E.ev} /\ PreRes(id).owned /\ ((E.ev = "Restart" /\ E.ret = "ok") \/ (E.ev = "Fail" /\ E.conn = "Failed" /\ Pre.conn # "Failed")))
     => Released(E.res[id])
\* nothing is left blocked for ever (the bubble could be left)
NoHang == E.ev # "Hang"

\* ---------------------------------------------------------------- C18, cycle control
Rank(s) == CASE s = "New" -> 0 [] s = "Gathering" -> 1 [] s = "Complete" -> 2 [] OTHER -> 3
\* New -> Gathering -> Complete, back to New only through Restart
OnceNewGatheringComplete ==
  (Observed(l) /\ E.i > 0 /\ E.gs # "Closed" /\ Pre.gs # "Closed") =>
     /\ "Restart" \in Evs \/ Rank(E.gs) >= Rank(Pre.gs)
     /\ E.gs \in {"New", "Gathering", "Complete"}
\* nil candidates of generation g seen up to this line: a nil that surfaces while Restart runs belongs to the old generation
NilGen(k) == IF Tr[k].ev = "Restart" /\ Tr[k].ret = "ok" THEN Tr[k].gen - 1 ELSE Tr[k].gen
NilsAt(k) == Cardinality({j \in 1..Len(Tr[k].pub) : Tr[k].pub[j].nil})
RECURSIVE NilsUpTo(_, _)
NilsUpTo(k, g) == IF k <= Start THEN 0 ELSE NilsUpTo(k - 1, g) + (IF Observed(k) /\ NilGen(k) = g THEN NilsAt(k) ELSE 0)
\* the Complete edge enqueues exactly one nil candidate, and only that edge does
NilIffComplete ==
  (Live /\ ~E.closing /\ ~(\E k \in (Start + 1)..l : Tr[k].nowait)) => ((E.gs = "Complete") <=> (NilsUpTo(l, E.gen) = 1))
\* a GatherCandidates call is accepted exactly when the state is New
RefusedUnlessNew ==
  (E.ev = "Gather" /\ E.i > 0 /\ Evs = {"Gather"} /\ PrevObs = l - 1) =>
     (E.ret = (IF Pre.closing THEN "closed" ELSE IF Pre.gs = "New" THEN "ok" ELSE "refused"))
\* never two cycles' worth of results in one generation: at most one nil, and no candidate published twice while the
\* first one can still be there (Restart, Failed and time passing in a restarted agent remove candidates)
PubsUpTo == UNION {{<<k, j>> : j \in 1..Len(Tr[k].pub)} : k \in (Start + 1)..l}
PubAt(x) == Tr[x[1]].pub[x[2]]
Epoch(k) == Cardinality({j \in (Start + 1)..k : Tr[j].ev \in {"Restart", "Fail", "Settle"}})
SamePub(p, q) == p.ugen = q.ugen /\ p.type = q.type /\ p.net = q.net /\ p.addr = q.addr /\ p.port = q.port
NoOverlap ==
  Live => /\ \A g \in 0..E.gen : NilsUpTo(l, g) <= 1
          /\ \A x, y \in PubsUpTo : (x # y /\ ~PubAt(x).nil /\ ~PubAt(y).nil /\ Epoch(x[1]) = Epoch(y[1])) => ~SamePub(PubAt(x), PubAt(y))
\* Restart returns to New, and what is published afterwards stems from the new generation only
RestartIsolates ==
  /\ (Live /\ E.ev = "Restart" /\ E.ret = "ok") => E.gs = "New"
  /\ Live => \A j \in 1..Len(E.pub) : (~E.pub[j].nil /\ E.pub[j].res > 0) => (E.pub[j].ugen >= 0 /\ E.pub[j].rgen = E.pub[j].ugen)

\* ---------------------------------------------------------------- reporting
PerRes == {"CloseAtMostOnce", "NoLeakAfterClose", "NoLeakAfterRestart", "ImmediateOnReject", "ReleasedOnRemoval"}
Q(n, id) == CASE n = "CloseAtMostOnce" -> CloseAtMostOnce(id) [] n = "NoLeakAfterClose" -> NoLeakAfterClose(id)
              [] n = "NoLeakAfterRestart" -> NoLeakAfterRestart(id) [] n = "ImmediateOnReject" -> ImmediateOnReject(id)
              [] n = "ReleasedOnRemoval" -> ReleasedOnRemoval(id)
G(n) == CASE n = "NoHang" -> NoHang [] n = "OnceNewGatheringComplete" -> OnceNewGatheringComplete [] n = "NilIffComplete" -> NilIffComplete
          [] n = "RefusedUnlessNew" -> RefusedUnlessNew [] n = "NoOverlap" -> NoOverlap [] n = "RestartIsolates" -> RestartIsolates
\* Every violated predicate is printed with the trace line (and resource); the invariant itself never fails.
Report == \A n \in Check :
            IF n \in PerRes THEN (~Live \/ \A id \in Ids : Q(n, id) \/ PrintT(<<"VIOL", n, l, id>>))
            ELSE G(n) \/ PrintT(<<"VIOL", n, l, 0>>)
AllPredicates == PerRes \cup {"NoHang", "OnceNewGatheringComplete", "NilIffComplete", "RefusedUnlessNew", "NoOverlap", "RestartIsolates"}
====
