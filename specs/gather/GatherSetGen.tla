---- MODULE GatherSetGen ----
(* Enumerates the picked cases of GatherSet (case number <-> configuration x interface table), checks the    *)
(* laws of the oracle on each, and writes the cases with their expectations as ndjson for the driver.          *)
EXTENDS GatherSet, Json, SequencesExt
CONSTANT Picks, OutFile
CaseRec(n) == LET cfg == CaseCfg(n)
                  T == CaseTab(n) IN
  [id |-> n, cfg |-> cfg, table |-> T, must |-> SetToSeq(MustHost(cfg, T)), may |-> SetToSeq(MayHost(cfg, T)),
   srflxbase |-> SetToSeq(MaySrflxBase(cfg, T)), muxaddrs |-> SetToSeq({a.ip : a \in MuxAddrs(T)}),
   rw |-> IF RewriteOn(cfg) THEN <<RwLocal(cfg), RwExt(cfg)>> ELSE <<>>, portmin |-> PortMin, portmax |-> PortMaxOf(cfg.ports)]
ASSUME PrintT(<<"SPACE", NCfg, NTab, NCases>>)
ASSUME \A k \in DOMAIN Picks : Picks[k] \in 0..(NCases - 1)
ASSUME \A k \in DOMAIN Picks : OracleLaws(CaseCfg(Picks[k]), CaseTab(Picks[k])) \/ PrintT(<<"LAWBROKEN", Picks[k]>>)
ASSUME ndJsonSerialize(OutFile, [k \in DOMAIN Picks |-> CaseRec(Picks[k])])
ASSUME PrintT(<<"CASES", Len(Picks), Cardinality({Picks[k] : k \in DOMAIN Picks})>>)
VARIABLE x
Init == x = 0
Next == x' = x
====
