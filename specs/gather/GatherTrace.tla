---- MODULE GatherTrace ----
(* Conformance of recorded scenarios to Gather (the code as written: Defects = AllDefects).                 *)
(* Every scenario of the ndjson file starts at its own initial state (its Reset line); a driver event is      *)
(* applied when the model is quiescent (or immediately, after a no-wait event), and before the next event     *)
(* the counts the driver observed (opened / released / closed twice / owned resources, published candidates,  *)
(* nil candidates, gathering state, Close returned, acquisitions held at the gate) must equal the model's.    *)
(* A scenario is accepted when some branch of the agent's internal nondeterminism explains all its lines.      *)
EXTENDS Gather, Json
CONSTANT TraceFile
Tr == ndJsonDeserialize(TraceFile)
VARIABLE i
tvars == <<vars, i>>
ResetIdx == {k \in 1..Len(Tr) : Tr[k].ev = "Reset"}
TInit == \E k \in ResetIdx : i = k + 1 /\ InitWith(Tr[k].site, Tr[k].fault)
ObsOK(o) == /\ o.gs = ObsGS /\ o.nils = nils /\ o.npub = npub /\ o.opened = ObsOpened /\ o.released = ObsReleased
            /\ o.dbl = ObsDbl /\ o.owned = ObsOwned /\ o.closed = closeDone /\ o.parked = ObsParked
PrevOK == Tr[i - 1].ev = "Reset" \/ Tr[i - 1].nowait \/ ObsOK(Tr[i - 1])
ModelUnch == UNCHANGED <<site, fault, gs, gen, closing, closeDone, conn, ncyc, nref, cur, cancelled, pc, cgen, aid, narr,
                         res, own, comp, wf, nils, nilg, npub, pubmix>>
TEvent ==
  /\ i <= Len(Tr) /\ Tr[i].ev \notin {"Reset", "End", "Hang"}
  /\ hold = 1 \/ (~InternalEnabled /\ PrevOK)
  /\ LET e == Tr[i] IN
       /\ IF e.ret = "skipped" THEN ModelUnch /\ ~ENABLED EnvAct(Ev(e.ev, e.k, FALSE))
          ELSE /\ EnvAct(Ev(e.ev, e.k, FALSE))
               /\ e.ev = "Gather" => e.ret = (IF gs = "New" THEN "ok" ELSE "refused")
       /\ hold' = IF e.nowait THEN 1 ELSE 0
  /\ i' = i + 1 /\ UNCHANGED <<hist, nenv, fin>>
TEnd ==
  /\ i <= Len(Tr) /\ Tr[i].ev = "End" /\ hold = 0 /\ ~InternalEnabled
  /\ PrevOK /\ ObsOK(Tr[i])
  /\ PrintT(<<"ACC", Tr[i].scn>>)
  /\ i' = Len(Tr) + 2 /\ ModelUnch /\ UNCHANGED <<hist, nenv, fin, hold>>
TNext == (Internal /\ UNCHANGED i) \/ TEvent \/ TEnd
TSpec == TInit /\ [][TNext]_tvars
====
