SPECIFICATION Spec
CONSTANTS
  Sites = {"host-udp", "host-udpmux", "host-tcpmux", "srflx-own", "srflx-mux", "srflx-mapped", "relay"}
  Faults = {"none", "listen-error", "dup"}
  Defects = {}
  MaxCycles = 2
  MaxRestarts = 1
  MaxRefused = 1
  AllowFail = TRUE
  MaxEnv = 0
  NoWaitPairs = FALSE
VIEW view
INVARIANTS TypeOK CloseAtMostOnce NoLeakAfterClose NoLeakAfterRestart ImmediateOnReject NoOverlap OneNilPerGeneration RestartIsolates
CHECK_DEADLOCK FALSE
