SPECIFICATION Spec
CONSTANTS
  TraceFile = "trace.ndjson"
  Check = {"CloseAtMostOnce", "NoLeakAfterClose", "NoLeakAfterRestart", "ImmediateOnReject", "ReleasedOnRemoval", "NoHang", "OnceNewGatheringComplete", "NilIffComplete", "RefusedUnlessNew", "NoOverlap", "RestartIsolates"}
INVARIANT Report
CHECK_DEADLOCK FALSE
