SPECIFICATION Spec
CONSTANTS
  ResultFile = "results.ndjson"
  Check = {"SoundType", "SoundNet", "SoundAddr", "SoundPort", "SoundMDNS", "Complete", "NoError"}
INVARIANT Report
CHECK_DEADLOCK FALSE
