---- MODULE GatherScn ----
(* Scenario generation: every sequence of driver events of Gather!SpecQ that ends closed and settled is   *)
(* collected (register 7) and written as ndjson when the exploration is over.                              *)
EXTENDS Gather, Json, SequencesExt
ASSUME TLCSet(7, {})
Emit == Finished => TLCSet(7, TLCGet(7) \cup {[site |-> site, fault |-> fault, steps |-> hist]})
Post == /\ PrintT(<<"SCENARIOS", Cardinality(TLCGet(7))>>)
        /\ ndJsonSerialize("scenarios.ndjson", SetToSeq(TLCGet(7)))
====
