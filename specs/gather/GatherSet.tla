---- MODULE GatherSet ----
(* C18, first sentence: which local candidates a configuration allows (May) and requires (Must), as a   *)
(* function of the configuration and the interface table.                                               *)
(*                                                                                                      *)
(* Readings fixed here (the weaker one wherever the statement leaves a choice):                         *)
(*  - an EMPTY network-type list means ALL four network types (agent_options.go WithNetworkTypes: "By   *)
(*    default, all network types are enabled"; agent_config.go NetworkTypes); an empty candidate-type   *)
(*    list means host, srflx and relay.                                                                 *)
(*  - filters, loopback setting and port range bind only sockets the agent opens itself; a candidate on *)
(*    a borrowed mux handle may sit on any address the mux listens on, but its network type must still  *)
(*    be enabled.                                                                                       *)
(*  - in mDNS gather mode the published address is the mDNS name; a candidate whose socket sits on a    *)
(*    link-local address is then allowed (the address is hidden) but not required.                      *)
(*  - "has a listener": UDP always (own socket or UDP mux) unless the port range is exhausted; TCP only  *)
(*    with a TCP mux.                                                                                   *)
EXTENDS Naturals, Sequences, FiniteSets, TLC

Rng(s) == {s[k] : k \in DOMAIN s}
A(ip, fam, cls) == [ip |-> ip, fam |-> fam, cls |-> cls]
I(name, up, lo, addrs) == [name |-> name, up |-> up, lo |-> lo, addrs |-> addrs]

\* ---------------------------------------------------------------- option lists (case n <-> mixed-radix digits)
Pool == << A("10.1.0.1", "v4", "global"), A("10.2.0.1", "v4", "global"), A("fd00::1", "v6", "global"), A("2001:db8::2", "v6", "global"),
           A("fe80::1", "v6", "linklocal"), A("fec0::1", "v6", "sitelocal"), A("::10.1.0.9", "v6", "v4compat"),
           A("127.0.0.1", "v4", "loopback"), A("::1", "v6", "loopback"),
           \* the edges of the excluded IPv6 prefixes: site-local is fec0::/10 (second byte 0xc0..0xff), link-local fe80::/10 (0x80..0xbf),
           \* and the last address block below them, which is an ordinary address
           A("fed0::5", "v6", "sitelocal"), A("feff::9", "v6", "sitelocal"), A("febf::3", "v6", "linklocal"), A("fe7f::7", "v6", "global") >>
Pa(k) == Pool[k]
\* the class tags of the fe00::/8 addresses above are not hand-waved: they follow from the two leading bytes (RFC 4291 2.4, RFC 3879)
Lead == "fe80::1" :> <<254, 128>> @@ "febf::3" :> <<254, 191>> @@ "fec0::1" :> <<254, 192>> @@ "fed0::5" :> <<254, 208>> @@ "feff::9" :> <<254, 255>>
        @@ "fe7f::7" :> <<254, 127>> @@ "fd00::1" :> <<253, 0>> @@ "2001:db8::2" :> <<32, 1>>
ClassByLead(b) == IF b[1] = 254 /\ b[2] \in 128..191 THEN "linklocal" ELSE IF b[1] = 254 /\ b[2] \in 192..255 THEN "sitelocal" ELSE "global"
ASSUME \A k \in 1..Len(Pool) : Pool[k].ip \in DOMAIN Lead => Pool[k].cls = ClassByLead(Lead[Pool[k].ip])
ASSUME \A k \in 1..Len(Pool) : (Pool[k].fam = "v6" /\ Pool[k].cls \in {"global", "linklocal", "sitelocal"}) => Pool[k].ip \in DOMAIN Lead
\* first interface: an ordinary one with two addresses of every mix of classes
Slot1 == << I("if1", TRUE, FALSE, <<Pa(1), Pa(3)>>), I("if1", TRUE, FALSE, <<Pa(1), Pa(5)>>), I("if1", TRUE, FALSE, <<Pa(1), Pa(6)>>),
            I("if1", TRUE, FALSE, <<Pa(1), Pa(7)>>), I("if1", TRUE, FALSE, <<Pa(3), Pa(5)>>), I("if1", TRUE, FALSE, <<Pa(1), Pa(2)>>),
            I("if1", TRUE, FALSE, <<Pa(3), Pa(4)>>), I("if1", TRUE, FALSE, <<Pa(1)>>), I("if1", TRUE, FALSE, <<Pa(3)>>),
            I("if1", TRUE, FALSE, <<Pa(6), Pa(7)>>), I("if1", TRUE, FALSE, <<Pa(1), Pa(9)>>), I("if1", TRUE, FALSE, <<Pa(8), Pa(3)>>),
            I("if1", TRUE, FALSE, <<Pa(1), Pa(10)>>), I("if1", TRUE, FALSE, <<Pa(3), Pa(11)>>), I("if1", TRUE, FALSE, <<Pa(1), Pa(12)>>),
            I("if1", TRUE, FALSE, <<Pa(13), Pa(11)>>) >>
\* second interface: absent, loopback, down, or another ordinary one
Slot2 == << <<>>, <<I("if2", TRUE, TRUE, <<Pa(8), Pa(9)>>)>>, <<I("if2", TRUE, TRUE, <<Pa(8)>>)>>, <<I("if2", TRUE, TRUE, <<Pa(9), Pa(2)>>)>>,
            <<I("if2", FALSE, FALSE, <<Pa(2), Pa(4)>>)>>, <<I("if2", TRUE, FALSE, <<Pa(2), Pa(4)>>)>>, <<I("if2", TRUE, FALSE, <<Pa(5), Pa(6)>>)>>,
            <<I("if2", FALSE, TRUE, <<Pa(8)>>)>> >>
Slot3 == << <<>>, <<I("if3", TRUE, FALSE, <<Pa(4), Pa(7)>>)>>, <<I("if3", TRUE, FALSE, <<Pa(2)>>)>>, <<I("if3", FALSE, FALSE, <<Pa(4)>>)>> >>
\* the table of the design prototype: one address of every awkward class
RichTable == << I("if1", TRUE, FALSE, <<Pa(1), Pa(3), Pa(5), Pa(6), Pa(7), Pa(10), Pa(11), Pa(12), Pa(13)>>), I("if2", TRUE, TRUE, <<Pa(8), Pa(9)>>), I("if3", FALSE, FALSE, <<Pa(2)>>) >>

NetsOpts == << <<>>, <<"udp4">>, <<"udp6">>, <<"udp4", "udp6">>, <<"udp4", "tcp4">>, <<"tcp4", "tcp6">>, <<"udp4", "udp6", "tcp4", "tcp6">>, <<"udp4", "tcp6">> >>
TypesOpts == << <<"host">>, <<"host", "srflx">>, <<>>, <<"srflx">> >>
LoopOpts == << FALSE, TRUE >>
IfilterOpts == << "none", "first", "notfirst" >>
IpfilterOpts == << "none", "v4only", "notA" >>
PortsOpts == << "none", "range", "single", "exhausted" >>
MdnsOpts == << "off", "gather", "query" >>
MuxOpts == << "none", "udp", "tcp", "both" >>
\* an address rewrite rule (replace mode) for host candidates that maps ONE local address to an external address of the OTHER
\* family ("x6": 10.1.0.1 -> 2001:db8::77, "x4": fd00::1 -> 1.2.3.4): the candidate is published with the external address,
\* and it is the PUBLISHED address whose network type has to be enabled
RewriteOpts == << "none", "x6", "x4" >>
PortMin == 5000
PortMaxOf(p) == IF p = "single" THEN 5000 ELSE IF p = "exhausted" THEN 5001 ELSE 5003

Radix == << Len(NetsOpts), Len(TypesOpts), Len(LoopOpts), Len(IfilterOpts), Len(IpfilterOpts), Len(PortsOpts), Len(MdnsOpts), Len(MuxOpts), Len(RewriteOpts) >>
NCfg == Radix[1] * Radix[2] * Radix[3] * Radix[4] * Radix[5] * Radix[6] * Radix[7] * Radix[8] * Radix[9]
NTab == 1 + Len(Slot1) * Len(Slot2) * Len(Slot3)
NCases == NCfg * NTab
Digit(n, k) == LET RECURSIVE Div(_, _)
                   Div(m, j) == IF j = 1 THEN m ELSE Div(m \div Radix[j - 1], j - 1)
               IN Div(n, k) % Radix[k]
CfgOf(n) == [nets |-> NetsOpts[Digit(n, 1) + 1], types |-> TypesOpts[Digit(n, 2) + 1], loopback |-> LoopOpts[Digit(n, 3) + 1],
             ifilter |-> IfilterOpts[Digit(n, 4) + 1], ipfilter |-> IpfilterOpts[Digit(n, 5) + 1], ports |-> PortsOpts[Digit(n, 6) + 1],
             mdns |-> MdnsOpts[Digit(n, 7) + 1], mux |-> MuxOpts[Digit(n, 8) + 1], rewrite |-> RewriteOpts[Digit(n, 9) + 1]]
TabOf(t) == IF t = 0 THEN RichTable
            ELSE LET u == t - 1 IN <<Slot1[(u % Len(Slot1)) + 1]>> \o Slot2[((u \div Len(Slot1)) % Len(Slot2)) + 1]
                                   \o Slot3[((u \div (Len(Slot1) * Len(Slot2))) % Len(Slot3)) + 1]
\* case number n in 0..NCases-1
CaseCfg(n) == CfgOf(n % NCfg)
CaseTab(n) == TabOf(n \div NCfg)

\* ---------------------------------------------------------------- the oracle
AllNets == {"udp4", "udp6", "tcp4", "tcp6"}
NetsOf(cfg) == IF Len(cfg.nets) = 0 THEN AllNets ELSE Rng(cfg.nets)
TypesOf(cfg) == IF Len(cfg.types) = 0 THEN {"host", "srflx", "relay"} ELSE Rng(cfg.types)
NetName(tr, fam) == IF tr = "udp" THEN (IF fam = "v4" THEN "udp4" ELSE "udp6") ELSE (IF fam = "v4" THEN "tcp4" ELSE "tcp6")
IfaceFilterOK(cfg, name) == CASE cfg.ifilter = "none" -> TRUE [] cfg.ifilter = "first" -> name = "if1" [] OTHER -> name # "if1"
IpFilterOK(cfg, a) == CASE cfg.ipfilter = "none" -> TRUE [] cfg.ipfilter = "v4only" -> a.fam = "v4" [] OTHER -> a.ip # "10.1.0.1"
IfaceOK(cfg, i) == i.up /\ (~i.lo \/ cfg.loopback) /\ IfaceFilterOK(cfg, i.name)
Excluded == {"linklocal", "sitelocal", "v4compat"}
AddrOK(cfg, a) == (a.cls # "loopback" \/ cfg.loopback) /\ a.cls \notin Excluded /\ IpFilterOK(cfg, a)
AddrMay(cfg, a) == (a.cls # "loopback" \/ cfg.loopback) /\ IpFilterOK(cfg, a)
                   /\ (a.cls \notin Excluded \/ (a.cls = "linklocal" /\ cfg.mdns = "gather"))
AddrsOn(cfg, T) == UNION {Rng(i.addrs) : i \in {x \in Rng(T) : IfaceOK(cfg, x)}}
AllAddrs(T) == UNION {Rng(i.addrs) : i \in Rng(T)}
Accepted(cfg, T) == {a \in AddrsOn(cfg, T) : AddrOK(cfg, a)}
AcceptedMay(cfg, T) == {a \in AddrsOn(cfg, T) : AddrMay(cfg, a)}
\* the fake UDP mux listens on the ordinary addresses of the interfaces that are up
MuxAddrs(T) == {a \in UNION {Rng(i.addrs) : i \in {x \in Rng(T) : x.up /\ ~x.lo}} : a.cls = "global"}
UdpMux(cfg) == cfg.mux \in {"udp", "both"}
TcpMux(cfg) == cfg.mux \in {"tcp", "both"}
\* the rule is configured only where nothing else decides the published address: the agent's own sockets (no mux), no mDNS
\* name in place of the address, host candidates enabled
RewriteOn(cfg) == cfg.rewrite # "none" /\ cfg.mux = "none" /\ cfg.mdns # "gather" /\ "host" \in TypesOf(cfg)
RwLocal(cfg) == IF cfg.rewrite = "x6" THEN "10.1.0.1" ELSE "fd00::1"
RwExt(cfg) == IF cfg.rewrite = "x6" THEN "2001:db8::77" ELSE "1.2.3.4"
Rewritten(cfg, ip) == RewriteOn(cfg) /\ ip = RwLocal(cfg)
PubIP(cfg, ip) == IF Rewritten(cfg, ip) THEN RwExt(cfg) ELSE ip
PubFam(cfg, a) == IF Rewritten(cfg, a.ip) THEN (IF cfg.rewrite = "x6" THEN "v6" ELSE "v4") ELSE a.fam
\* required only if both the family of the socket and the family of the published address are enabled (the weaker reading)
En(cfg, tr, a) == NetName(tr, a.fam) \in NetsOf(cfg) /\ NetName(tr, PubFam(cfg, a)) \in NetsOf(cfg)

\* the agent's own sockets compete for the ports of the range: with a single port and reflexive gathering enabled the
\* host gatherer may find its port taken ("has a listener" fails), so nothing is required then
NoUdpListener(cfg) == cfg.ports = "exhausted" \/ (cfg.ports = "single" /\ "srflx" \in TypesOf(cfg))
\* host candidates that must be published: <<ip, transport>>
MustHost(cfg, T) ==
  IF "host" \notin TypesOf(cfg) THEN {}
  ELSE (IF UdpMux(cfg) THEN {<<a.ip, "udp">> : a \in {b \in Accepted(cfg, T) \cap MuxAddrs(T) : En(cfg, "udp", b)}}
        ELSE IF NoUdpListener(cfg) THEN {}
        ELSE {<<a.ip, "udp">> : a \in {b \in Accepted(cfg, T) : En(cfg, "udp", b)}})
       \cup (IF TcpMux(cfg) THEN {<<a.ip, "tcp">> : a \in {b \in Accepted(cfg, T) : En(cfg, "tcp", b)}} ELSE {})
\* addresses a published host candidate may sit on (its network type is judged separately)
MayHost(cfg, T) ==
  IF "host" \notin TypesOf(cfg) THEN {}
  ELSE (IF UdpMux(cfg) THEN {<<a.ip, "udp">> : a \in MuxAddrs(T)}
        ELSE IF cfg.ports = "exhausted" THEN {}
        ELSE {<<a.ip, "udp">> : a \in AcceptedMay(cfg, T)})
       \cup (IF TcpMux(cfg) THEN {<<a.ip, "tcp">> : a \in {b \in AllAddrs(T) : b.cls \notin Excluded \/ (b.cls = "linklocal" /\ cfg.mdns = "gather")}} ELSE {})
\* bases a server-reflexive candidate (own socket) may sit on: an address of an accepted interface that passes the IP filter
\* and the loopback setting; "*" is the wildcard address, used when no filter is configured
MaySrflxBase(cfg, T) ==
  IF "srflx" \notin TypesOf(cfg) \/ cfg.ports = "exhausted" THEN {}
  ELSE {a.ip : a \in {b \in AddrsOn(cfg, T) : (b.cls # "loopback" \/ cfg.loopback) /\ IpFilterOK(cfg, b)}}
       \cup (IF cfg.ifilter = "none" /\ cfg.ipfilter = "none" THEN {"*"} ELSE {})
PortOK(cfg, p) == cfg.ports = "none" \/ (p >= PortMin /\ p <= PortMaxOf(cfg.ports))
ClassOf(T, ip) == IF \E a \in AllAddrs(T) : a.ip = ip THEN (CHOOSE a \in AllAddrs(T) : a.ip = ip).cls ELSE "unknown"

\* laws of the oracle itself (checked by TLC for every enumerated case)
OracleLaws(cfg, T) ==
  /\ MustHost(cfg, T) \subseteq MayHost(cfg, T)
  /\ \A x \in MayHost(cfg, T) : ClassOf(T, x[1]) \notin {"sitelocal", "v4compat", "unknown"}
  /\ \A x \in MayHost(cfg, T) : ClassOf(T, x[1]) = "linklocal" => cfg.mdns = "gather"
  /\ \A x \in MustHost(cfg, T) : ClassOf(T, x[1]) \notin Excluded
  /\ \A x \in MustHost(cfg, T) : ClassOf(T, x[1]) = "loopback" => cfg.loopback
  /\ \A x \in MustHost(cfg, T) : \E i \in Rng(T) : i.up /\ \E a \in Rng(i.addrs) : a.ip = x[1] /\ NetName(x[2], a.fam) \in NetsOf(cfg)
  /\ (Len(cfg.nets) = 0 /\ ~NoUdpListener(cfg) /\ ~UdpMux(cfg) /\ "host" \in TypesOf(cfg)) =>
        \A a \in Accepted(cfg, T) : <<a.ip, "udp">> \in MustHost(cfg, T)     \* the default configuration gathers every eligible address
====
