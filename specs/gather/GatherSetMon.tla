---- MODULE GatherSetMon ----
(* C18, first sentence, judged on what a real agent published for each configuration x interface table:       *)
(* Sound (everything published is allowed by GatherSet) and Complete (everything GatherSet requires is        *)
(* published). The expectations are recomputed here from the configuration and table echoed by the driver.     *)
EXTENDS GatherSet, Json
CONSTANTS ResultFile, Check
Rs == ndJsonDeserialize(ResultFile)
VARIABLE l
Init == l = 1
Step == l < Len(Rs) /\ l' = l + 1
Spec == Init /\ [][Step]_l
R == Rs[l]
cfg == R.cfg
T == R.table
TrOf(net) == IF net \in {"udp4", "udp6"} THEN "udp" ELSE "tcp"
Pubs == 1..Len(R.pub)
OwnSocket(p) == p.kind = "udp"
\* the candidate type and the network type are enabled
SoundType(j) == R.pub[j].type \in TypesOf(cfg)
SoundNet(j) == R.pub[j].net \in NetsOf(cfg)
\* a host candidate sits on an address the configuration allows (never site-local / IPv4-compatible, link-local only hidden behind the mDNS name)
SoundAddr(j) == LET p == R.pub[j] IN
  CASE p.type = "host" -> <<p.base, TrOf(p.net)>> \in MayHost(cfg, T)
    [] p.type = "srflx" -> (OwnSocket(p) => p.rbase \in MaySrflxBase(cfg, T))
    [] OTHER -> TRUE
\* own sockets: port inside the configured range (host candidates and the base of reflexive ones)
SoundPort(j) == LET p == R.pub[j] IN
  CASE p.type = "host" -> (OwnSocket(p) => PortOK(cfg, p.port))
    [] p.type = "srflx" -> (OwnSocket(p) => PortOK(cfg, p.rport))
    [] OTHER -> TRUE
\* mDNS gather mode: the name instead of the IP; otherwise the address of the socket
SoundMDNS(j) == LET p == R.pub[j] IN
  p.type = "host" => IF cfg.mdns = "gather" THEN p.isname /\ p.addr # p.base ELSE ~p.isname /\ p.addr = PubIP(cfg, p.base)
\* every eligible interface address yields a host candidate for each enabled transport that has a listener
Complete(x) == \E j \in Pubs : R.pub[j].type = "host" /\ R.pub[j].base = x[1] /\ TrOf(R.pub[j].net) = x[2]
NoError == R.err = ""
S(n, j) == CASE n = "SoundType" -> SoundType(j) [] n = "SoundNet" -> SoundNet(j) [] n = "SoundAddr" -> SoundAddr(j)
             [] n = "SoundPort" -> SoundPort(j) [] n = "SoundMDNS" -> SoundMDNS(j)
Report == \A n \in Check :
            CASE n = "Complete" -> \A x \in MustHost(cfg, T) : Complete(x) \/ PrintT(<<"VIOL", n, l, x[1], x[2]>>)
              [] n = "NoError" -> NoError \/ PrintT(<<"VIOL", n, l, 0, 0>>)
              [] OTHER -> \A j \in Pubs : S(n, j) \/ PrintT(<<"VIOL", n, l, j, 0>>)
AllPredicates == {"SoundType", "SoundNet", "SoundAddr", "SoundPort", "SoundMDNS", "Complete", "NoError"}
====
