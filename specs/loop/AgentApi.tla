---- MODULE AgentApi ----
(* C10, second sentence: "any public Agent/Conn method may be called from any goroutine concurrently with any  *)
(* other ... and each call observes a state produced by whole preceding operations."                           *)
(*                                                                                                             *)
(* The public control API of one Agent as atomic steps. Every call is ONE atomic step on the abstract state    *)
(* (its task on the agent's loop) between its invocation and its return - except where the code documents      *)
(* more: StartDial/StartAccept are two tasks under one mutex (remote credentials first, then the start),       *)
(* GatherCandidates spawns a cycle whose "gathering" / "complete" marks are later tasks of their own, and      *)
(* AddRemoteCandidate returns before its candidate is added (a task of a goroutine it spawns). Those later     *)
(* tasks are internal steps. Results are abstract: ok / the error class / the value read.                      *)
(*                                                                                                             *)
(* Abstract state: closed, started (+role), the Start mutex, local and remote credentials (ids; a pair that    *)
(* mixes two ids is "torn" and never a value of this state), gathering state and the live cycles, the set of   *)
(* remote candidates.                                                                                          *)
EXTENDS Naturals, Sequences, FiniteSets, TLC
CONSTANTS Procs,        \* one-shot callers
          OpSet,        \* the calls a caller may make (records [op, arg]); the trace spec binds them from the log instead
          MaxCycles,
          Defects       \* {} = the repaired tree; "lateAdd": the add task of AddRemoteCandidate lands whatever happened since the call
                        \* (a candidate handed over before a Restart appears in the session the Restart began; repaired by 3ea211f)
VARIABLES pc,        \* pc[p]: "idle" | "called" | "mid" (Start between its two tasks) | "ret" | "done"
          op,        \* op[p]: the call
          res,       \* res[p]: its result
          closed, started, role, startMu,    \* startMu: the caller inside startConnectivityChecks, or "free"
          lcred, rcred,                     \* credential ids; rcred = "" when unset
          gstate,                           \* "new" | "gathering" | "complete"
          cyc,                              \* cyc[k]: "spawned" | "begun" | "ended" | "cancelled" for k in 1..ncyc
          remotes, pendAdd,                 \* remote candidates present / handed to AddRemoteCandidate and not yet added: <<id, restarts at the call>>
          restarts,                         \* number of Restarts that have taken effect
          conn,                             \* connection state: "New" | "Checking" | "Closed"
          handler                           \* an OnCandidate handler is registered
vars == <<pc, op, res, closed, started, role, startMu, lcred, rcred, gstate, cyc, remotes, pendAdd, conn, handler, restarts>>
NoOp == [op |-> "none", arg |-> ""]
Init == /\ pc = [p \in Procs |-> "idle"] /\ op = [p \in Procs |-> NoOp] /\ res = [p \in Procs |-> "none"]
        /\ closed = FALSE /\ started = FALSE /\ role = "none" /\ startMu = "free"
        /\ lcred = "c0" /\ rcred = "" /\ gstate = "new" /\ cyc = <<>> /\ remotes = {} /\ pendAdd = {} /\ conn = "New" /\ handler \in BOOLEAN /\ restarts = 0

\* ---- invocation and return (observable)
Call(p, o) == /\ pc[p] = "idle" /\ pc' = [pc EXCEPT ![p] = "called"] /\ op' = [op EXCEPT ![p] = o]
              /\ UNCHANGED <<res, closed, started, role, startMu, lcred, rcred, gstate, cyc, remotes, pendAdd, conn, handler, restarts>>
Return(p) == /\ pc[p] = "ret" /\ pc' = [pc EXCEPT ![p] = "done"]
             /\ UNCHANGED <<op, res, closed, started, role, startMu, lcred, rcred, gstate, cyc, remotes, pendAdd, conn, handler, restarts>>

\* ---- the atomic step of each call
Fin(p, r) == pc' = [pc EXCEPT ![p] = "ret"] /\ res' = [res EXCEPT ![p] = r]
CancelAll(c) == [k \in DOMAIN c |-> IF c[k] \in {"spawned", "begun"} THEN "cancelled" ELSE c[k]]
\* argument forms: a credential id, "" (empty ufrag or password), "short" (local credentials with too few bits)
DoRestart(p) == LET a == op[p].arg IN
  IF a = "short" THEN Fin(p, "invalid") /\ UNCHANGED <<closed, started, role, startMu, lcred, rcred, gstate, cyc, remotes, pendAdd, conn, handler, restarts>>
  ELSE IF closed THEN Fin(p, "closed") /\ UNCHANGED <<closed, started, role, startMu, lcred, rcred, gstate, cyc, remotes, pendAdd, conn, handler, restarts>>
  ELSE /\ Fin(p, "ok") /\ lcred' = a /\ rcred' = "" /\ gstate' = "new" /\ cyc' = CancelAll(cyc) /\ remotes' = {}
       /\ conn' = (IF conn = "New" THEN "New" ELSE "Checking")
       /\ restarts' = restarts + 1
       /\ UNCHANGED <<closed, started, role, startMu, pendAdd, handler>>
DoSetRemote(p) == LET a == op[p].arg IN
  IF a = "" THEN Fin(p, "empty") /\ UNCHANGED <<closed, started, role, startMu, lcred, rcred, gstate, cyc, remotes, pendAdd, conn, handler, restarts>>
  ELSE IF closed THEN Fin(p, "closed") /\ UNCHANGED <<closed, started, role, startMu, lcred, rcred, gstate, cyc, remotes, pendAdd, conn, handler, restarts>>
  ELSE Fin(p, "ok") /\ rcred' = a /\ UNCHANGED <<closed, started, role, startMu, lcred, gstate, cyc, remotes, pendAdd, conn, handler, restarts>>
DoGet(p, val) == /\ Fin(p, IF closed THEN "closed" ELSE val)
                 /\ UNCHANGED <<closed, started, role, startMu, lcred, rcred, gstate, cyc, remotes, pendAdd, conn, handler, restarts>>
DoGather(p) ==
  IF closed THEN Fin(p, "closed") /\ UNCHANGED <<closed, started, role, startMu, lcred, rcred, gstate, cyc, remotes, pendAdd, conn, handler, restarts>>
  ELSE IF gstate # "new" THEN Fin(p, "multi") /\ UNCHANGED <<closed, started, role, startMu, lcred, rcred, gstate, cyc, remotes, pendAdd, conn, handler, restarts>>
  ELSE IF ~handler THEN Fin(p, "nohandler") /\ UNCHANGED <<closed, started, role, startMu, lcred, rcred, gstate, cyc, remotes, pendAdd, conn, handler, restarts>>
  ELSE /\ Len(cyc) < MaxCycles /\ Fin(p, "ok") /\ cyc' = Append(CancelAll(cyc), "spawned")     \* a new cycle cancels the previous one
       /\ UNCHANGED <<closed, started, role, startMu, lcred, rcred, gstate, remotes, pendAdd, conn, handler, restarts>>
DoAddRemote(p) == /\ Fin(p, "ok") /\ pendAdd' = pendAdd \cup {<<op[p].arg, restarts>>}
                  /\ UNCHANGED <<closed, started, role, startMu, lcred, rcred, gstate, cyc, remotes, conn, handler, restarts>>
DoClose(p) == /\ Fin(p, "ok") /\ closed' = TRUE /\ conn' = "Closed" /\ cyc' = CancelAll(cyc)
              /\ UNCHANGED <<started, role, startMu, lcred, rcred, gstate, remotes, pendAdd, handler, restarts>>
\* StartDial / StartAccept begin by asking whether the loop is closed (before the mutex): a closed agent reports so whatever else holds
DoStart0(p) == /\ closed /\ Fin(p, "closed")
               /\ UNCHANGED <<closed, started, role, startMu, lcred, rcred, gstate, cyc, remotes, pendAdd, conn, handler, restarts>>
\* first task (under the Start mutex): refuse a second start, set the remote credentials
DoStart1(p) == /\ startMu = "free"
  /\ LET a == op[p].arg IN
     IF started THEN Fin(p, "multi") /\ UNCHANGED <<closed, started, role, startMu, lcred, rcred, gstate, cyc, remotes, pendAdd, conn, handler, restarts>>
     ELSE IF a = "" THEN Fin(p, "empty") /\ UNCHANGED <<closed, started, role, startMu, lcred, rcred, gstate, cyc, remotes, pendAdd, conn, handler, restarts>>
     ELSE IF closed THEN Fin(p, "closed") /\ UNCHANGED <<closed, started, role, startMu, lcred, rcred, gstate, cyc, remotes, pendAdd, conn, handler, restarts>>
     ELSE /\ pc' = [pc EXCEPT ![p] = "mid"] /\ rcred' = a /\ startMu' = p
          /\ UNCHANGED <<res, closed, started, role, lcred, gstate, cyc, remotes, pendAdd, conn, handler, restarts>>
\* second task: the start proper
DoStart2(p) == /\ pc[p] = "mid" /\ startMu' = "free"
  /\ IF closed THEN Fin(p, "closed") /\ UNCHANGED <<closed, started, role, lcred, rcred, gstate, cyc, remotes, pendAdd, conn, handler, restarts>>
     ELSE /\ Fin(p, "ok") /\ started' = TRUE /\ role' = (IF op[p].op = "StartDial" THEN "controlling" ELSE "controlled")
          /\ rcred' = op[p].arg /\ conn' = "Checking"
          /\ UNCHANGED <<closed, lcred, gstate, cyc, remotes, pendAdd, handler, restarts>>
\* OnCandidate stores the handler (no task: an atomic store)
DoSetHandler(p) == /\ Fin(p, "ok") /\ handler' = TRUE
                   /\ UNCHANGED <<closed, started, role, startMu, lcred, rcred, gstate, cyc, remotes, pendAdd, conn, restarts>>
\* results are strings: the set of remote candidates (ids r1, r2) is named
SetName(S) == CASE S = {} -> "rc:" [] S = {"r1"} -> "rc:r1" [] S = {"r2"} -> "rc:r2" [] S = {"r1", "r2"} -> "rc:r1,r2" [] OTHER -> "rc:?"
Step(p) == /\ pc[p] = "called" /\ UNCHANGED op
           /\ CASE op[p].op = "Restart" -> DoRestart(p)
                [] op[p].op = "SetRemoteCredentials" -> DoSetRemote(p)
                [] op[p].op = "GetLocalUserCredentials" -> DoGet(p, lcred)
                [] op[p].op = "GetRemoteUserCredentials" -> DoGet(p, rcred)
                [] op[p].op = "GetGatheringState" -> DoGet(p, gstate)
                [] op[p].op = "GetRemoteCandidates" -> DoGet(p, SetName(remotes))
                [] op[p].op = "OnCandidate" -> DoSetHandler(p)
                [] op[p].op = "GatherCandidates" -> DoGather(p)
                [] op[p].op = "AddRemoteCandidate" -> DoAddRemote(p)
                [] op[p].op = "Close" -> DoClose(p)
                [] op[p].op \in {"StartDial", "StartAccept"} -> (DoStart0(p) \/ DoStart1(p))
Step2(p) == DoStart2(p) /\ UNCHANGED op

\* ---- internal steps: the later tasks of spawned goroutines
CycleBegin(k) == /\ k \in DOMAIN cyc /\ cyc[k] = "spawned" /\ ~closed /\ cyc' = [cyc EXCEPT ![k] = "begun"] /\ gstate' = "gathering"
                 /\ UNCHANGED <<pc, op, res, closed, started, role, startMu, lcred, rcred, remotes, pendAdd, conn, handler, restarts>>
CycleEnd(k) == /\ k \in DOMAIN cyc /\ cyc[k] = "begun" /\ ~closed /\ cyc' = [cyc EXCEPT ![k] = "ended"] /\ gstate' = "complete"
               /\ UNCHANGED <<pc, op, res, closed, started, role, startMu, lcred, rcred, remotes, pendAdd, conn, handler, restarts>>
\* the add task: nothing once the agent is closed, nothing if a Restart has taken effect since the call
AsyncAdd(c) == /\ c \in pendAdd /\ pendAdd' = pendAdd \ {c}
               /\ remotes' = (IF closed \/ (c[2] # restarts /\ "lateAdd" \notin Defects) THEN remotes ELSE remotes \cup {c[1]})
               /\ UNCHANGED <<pc, op, res, closed, started, role, startMu, lcred, rcred, gstate, cyc, conn, handler, restarts>>
Internal == (\E k \in 1..MaxCycles : CycleBegin(k) \/ CycleEnd(k)) \/ (\E c \in pendAdd : AsyncAdd(c))
\* Restart leaves no remote candidate of the ended session behind: whatever is present was handed over since the last Restart
NoLateAdd == \A c \in pendAdd : c[2] <= restarts
Next == \/ \E p \in Procs : (\E o \in OpSet : Call(p, o)) \/ Step(p) \/ Step2(p) \/ Return(p)
        \/ Internal
Spec == Init /\ [][Next]_vars

\* ---- what the atomicity gives the application (checked on the model; the monitor checks the same on recorded histories)
Starts == {p \in Procs : op[p].op \in {"StartDial", "StartAccept"}}
AtMostOneStartSucceeds == Cardinality({p \in Starts : pc[p] \in {"ret", "done"} /\ res[p] = "ok"}) <= 1
StartedIffAStartSucceeded == started <=> \E p \in Starts : pc[p] \in {"ret", "done"} /\ res[p] = "ok"
RoleOfTheWinner == \A p \in Starts : (pc[p] \in {"ret", "done"} /\ res[p] = "ok") =>
                      role = (IF op[p].op = "StartDial" THEN "controlling" ELSE "controlled")
GatheringNeedsACycle == gstate # "new" => Len(cyc) > 0
ClosedIsFinal == closed => conn = "Closed"
TypeOK == /\ pc \in [Procs -> {"idle", "called", "mid", "ret", "done"}] /\ startMu \in Procs \cup {"free"}
          /\ (startMu # "free" <=> \E p \in Procs : pc[p] = "mid") /\ Len(cyc) <= MaxCycles
          /\ Cardinality({k \in DOMAIN cyc : cyc[k] \in {"spawned", "begun"}}) <= 1
====
