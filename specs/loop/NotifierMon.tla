---- MODULE NotifierMon ----
(* C11 verdicts (one callback stream) from observations alone -- no dependence on Notifier!Next.
   Observation `post` after every recorded step:
     delivered   event ids in the order the application handler was entered
     inh, maxInh handler invocations currently running / most ever running at once (counted by the handlers)
     lateStart   a handler found, when it started, that a graceful Close had already returned
     cpc         where the external closer is ("ret" = Close returned)
   Steps that matter to the history kept here: Produce / HReenter carry `e`, the event id handed to Enqueue;
   CClose / HClose are calls of Close.  An event counts as having occurred iff its Enqueue ran before every Close
   (under the gates both are atomic and totally ordered).  Drain ends a run: everybody has returned (stuck = {}). *)
EXTENDS Integers, Sequences, FiniteSets, TLC, Json
CONSTANTS TraceFile, Check
Tr == ndJsonDeserialize(TraceFile)
VARIABLES l, obs, ev, enq, closedSeen, graceful, lenAtRet
vars == <<l, obs, ev, enq, closedSeen, graceful, lenAtRet>>
Init == l = 2 /\ obs = Tr[1].post /\ ev = Tr[1] /\ enq = <<>> /\ closedSeen = FALSE /\ graceful = Tr[1].graceful /\ lenAtRet = -1
Step == /\ l <= Len(Tr) /\ l' = l + 1 /\ ev' = Tr[l] /\ obs' = Tr[l].post
        /\ LET e == Tr[l] IN
           IF e.ev = "Reset" THEN enq' = <<>> /\ closedSeen' = FALSE /\ graceful' = e.graceful /\ lenAtRet' = -1
           ELSE /\ enq' = (IF e.ev \in {"Produce", "HReenter"} /\ ~closedSeen THEN Append(enq, e.e) ELSE enq)
                /\ closedSeen' = (closedSeen \/ e.ev \in {"CClose", "HClose"})
                /\ graceful' = graceful
                /\ lenAtRet' = (IF lenAtRet < 0 /\ graceful /\ e.post.cpc = "ret" THEN Len(e.post.delivered) ELSE lenAtRet)
Spec == Init /\ [][Step]_vars
IsPrefix(s, t) == Len(s) <= Len(t) /\ \A k \in 1..Len(s) : s[k] = t[k]
\* the handler is invoked once per event in the order the events occurred ...
Fifo == IsPrefix(obs.delivered, enq)
\* ... and never concurrently with itself
NoOverlap == obs.maxInh <= 1 /\ obs.inh <= 1
\* at quiescence every event that occurred has been delivered exactly once
AtEnd == ev.ev = "Drain"
ExactlyOnceAtQuiescence == (AtEnd /\ ev.stuck = <<>>) => obs.delivered = enq
\* after GracefulClose has returned no handler is running and none will be invoked
GracefulMeansQuiet == /\ ~obs.lateStart
                      /\ lenAtRet >= 0 => (obs.inh = 0 /\ Len(obs.delivered) = lenAtRet)
\* bounded-drain liveness: Close returned, the producer returned, every drainer goroutine is gone
AllReturn == AtEnd => ev.stuck = <<>>
P(n) == CASE n = "Fifo" -> Fifo [] n = "NoOverlap" -> NoOverlap [] n = "ExactlyOnceAtQuiescence" -> ExactlyOnceAtQuiescence
          [] n = "GracefulMeansQuiet" -> GracefulMeansQuiet [] n = "AllReturn" -> AllReturn
AllPredicates == {"Fifo", "NoOverlap", "ExactlyOnceAtQuiescence", "GracefulMeansQuiet", "AllReturn"}
Report == \A n \in Check : P(n) \/ PrintT(<<"VIOL", n, l - 1>>)
Done == IF TLCGet("stats").diameter = Len(Tr) THEN TRUE
        ELSE Print(<<"MONITOR_STOPPED_AT", TLCGet("stats").diameter, Len(Tr)>>, FALSE)
====
