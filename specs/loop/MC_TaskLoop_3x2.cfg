CONSTANTS
  Subs = {"s1","s2","s3"}
  Cancellable = {"s3"}
  Closers = {"c1","c2"}
  BlockingTask = {}
SPECIFICATION Spec
INVARIANTS TypeOK Mutex OkIffRanOnce ErrIffNever NoStartAfterClose OnCloseOnceLast CloseRetImpliesQuiet
PROPERTY AllReturn
