---- MODULE AgentApiTrace ----
(* Linearisability of recorded call/return histories of the real Agent API against AgentApi: the invocation and  *)
(* the return of every call are lines of the log (in real-time order: an invocation is logged before the call      *)
(* starts, a return after the call came back), the atomic step(s) of the call and the internal steps are silent   *)
(* and placed by TLC anywhere between them. A history is accepted iff all of its lines are consumed, i.e. iff      *)
(* some placement explains every result. Several histories per file, separated by Reset lines.                    *)
EXTENDS AgentApi, Json, TLCExt
CONSTANT TraceFile
Tr == ndJsonDeserialize(TraceFile)
VARIABLE l
tv == <<vars, l>>
TInit == /\ Init /\ handler = Tr[1].handler /\ l = 2
Ev(e) == l <= Len(Tr) /\ Tr[l].ev = e /\ l' = l + 1
TInv == Ev("inv") /\ Call(Tr[l].p, [op |-> Tr[l].op, arg |-> Tr[l].arg])
TRet == Ev("ret") /\ res[Tr[l].p] = Tr[l].res /\ Return(Tr[l].p)
TReset == /\ Ev("Reset")
          /\ pc' = [p \in Procs |-> "idle"] /\ op' = [p \in Procs |-> NoOp] /\ res' = [p \in Procs |-> "none"]
          /\ closed' = FALSE /\ started' = FALSE /\ role' = "none" /\ startMu' = "free"
          /\ lcred' = "c0" /\ rcred' = "" /\ gstate' = "new" /\ cyc' = <<>> /\ remotes' = {} /\ pendAdd' = {} /\ conn' = "New"
          /\ handler' = Tr[l].handler /\ restarts' = 0
\* The driver logs a line "task" for every task the agent's loop runs (it holds the loop and lets it take one task at a time). The
\* steps of the model that ARE loop tasks happen at such a line and nowhere else; a task line may also stand for a task the
\* model does not describe (stutter). Steps that are no loop task - storing a handler, Close, the closed-loop pre-check of a
\* start - stay silent and are placed by TLC.
NoTask(p) == op[p].op \in {"OnCandidate", "Close", "AddRemoteCandidate"}       \* a store, the close of the loop, the spawn of the adder
ErrRes == {"closed", "empty", "invalid", "multi", "nohandler"}                   \* refusals: argument checks, the start mutex, a closed loop
TaskStep == (\E p \in Procs : Step(p) \/ Step2(p)) \/ Internal
TTask == Ev("task") /\ (TaskStep \/ UNCHANGED vars)
\* what may happen between two lines without the loop running a task: the steps that are no loop task, and refusals (they read
\* or change nothing of the agent's state, or - "closed" - come from a loop that runs nothing any more)
Silent == /\ UNCHANGED l /\ l <= Len(Tr) /\ Tr[l].ev # "Reset"
          /\ \E p \in Procs : /\ (Step(p) \/ Step2(p))
                              /\ NoTask(p) \/ (pc'[p] = "ret" /\ res'[p] \in ErrRes)
TNext == TInv \/ TRet \/ TReset \/ TTask \/ Silent
TSpec == TInit /\ [][TNext]_tv
\* high-water mark of the consumed prefix (silent steps make the diameter useless); needs -workers 1
HWM == IF l > TLCGet(1) THEN TLCSet(1, l) ELSE TRUE
ASSUME TLCSet(1, 0)
Accepted == IF TLCGet(1) = Len(Tr) + 1 THEN TRUE
            ELSE Print(<<"TRACE_REJECTED_AT", TLCGet(1), Len(Tr)>>, FALSE)
====
