CONSTANTS
  NEvents = 3
  Kinds = {"fast", "block", "reenter", "close"}
  Drainers = {"d1", "d2", "d3"}
SPECIFICATION Spec
INVARIANTS TypeOK Fifo NoOverlap GracefulMeansQuiet ExactlyOnceAtQuiescence SlotsSuffice
