---- MODULE ApiHistMon ----
(* C10, second sentence, judged on recorded invocation/return histories of the real Agent API alone (no model):  *)
(* consequences of "each call observes a state produced by whole preceding operations" that need no search.       *)
(* Lines: Reset, inv (p, op, arg), ret (p, res). The full statement - the history has a linearisation - is        *)
(* decided by AgentApiTrace.                                                                                      *)
EXTENDS Naturals, Sequences, FiniteSets, TLC, Json
CONSTANTS TraceFile, Check
Tr == ndJsonDeserialize(TraceFile)
VARIABLES l, ev, ops, startsOk, closeRet, invAfterClose
vars == <<l, ev, ops, startsOk, closeRet, invAfterClose>>
NoOps == [p \in {} |-> ""]
Init == l = 2 /\ ev = Tr[1] /\ ops = NoOps /\ startsOk = 0 /\ closeRet = FALSE /\ invAfterClose = {}
IsStart(o) == o.op \in {"StartDial", "StartAccept"}
Step == /\ l <= Len(Tr) /\ l' = l + 1 /\ ev' = Tr[l]
        /\ LET e == Tr[l] IN
           CASE e.ev = "Reset" -> ops' = NoOps /\ startsOk' = 0 /\ closeRet' = FALSE /\ invAfterClose' = {}
             [] e.ev = "inv" -> /\ ops' = (e.p :> [op |-> e.op, arg |-> e.arg]) @@ ops /\ UNCHANGED <<startsOk, closeRet>>
                                /\ invAfterClose' = (IF closeRet THEN invAfterClose \cup {e.p} ELSE invAfterClose)
             [] e.ev = "ret" -> /\ startsOk' = (IF IsStart(ops[e.p]) /\ e.res = "ok" THEN startsOk + 1 ELSE startsOk)
                                /\ closeRet' = (closeRet \/ ops[e.p].op = "Close") /\ UNCHANGED <<ops, invAfterClose>>
             [] OTHER -> UNCHANGED <<ops, startsOk, closeRet, invAfterClose>>
Spec == Init /\ [][Step]_vars
\* at most one of all StartDial/StartAccept calls on an agent succeeds
StartAtMostOnce == startsOk <= 1
\* a credential pair that was read was written as a pair
NoTornCredentials == ev.ev = "ret" => ev.res # "torn"
\* every result is one the API documents
NoUnknownError == ev.ev = "ret" => ev.res # "error"
\* calls invoked after a Close has returned whose result depends on the agent's state report that it is closed
StateDependent(o) == \/ o.op \in {"GetLocalUserCredentials", "GetRemoteUserCredentials", "GetGatheringState", "GetRemoteCandidates", "GatherCandidates"}
                     \/ (o.op = "Restart" /\ o.arg # "short") \/ (o.op = "SetRemoteCredentials" /\ o.arg # "")
ClosedIsFinal == (ev.ev = "ret" /\ ev.p \in invAfterClose) =>
                    /\ StateDependent(ops[ev.p]) => ev.res = "closed"
                    /\ IsStart(ops[ev.p]) => ev.res # "ok"
P(n) == CASE n = "StartAtMostOnce" -> StartAtMostOnce [] n = "NoTornCredentials" -> NoTornCredentials
          [] n = "NoUnknownError" -> NoUnknownError [] n = "ClosedIsFinal" -> ClosedIsFinal
Report == \A n \in Check : P(n) \/ PrintT(<<"VIOL", n, l - 1>>)
Done == IF TLCGet("stats").diameter = Len(Tr) THEN TRUE
        ELSE Print(<<"MONITOR_STOPPED_AT", TLCGet("stats").diameter, Len(Tr)>>, FALSE)
====
