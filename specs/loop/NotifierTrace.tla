---- MODULE NotifierTrace ----
(* Trace validation of the real handlerNotifier (one stream per trace file) against Notifier.  A Reset record
   carries the handler behaviours and the closer's mode of the run that follows.  The popped event of a drainer
   becomes observable when its handler starts, so dev is compared from then on. *)
EXTENDS Notifier, Json
CONSTANT TraceFile
Tr == ndJsonDeserialize(TraceFile)
VARIABLE l
tv == <<vars, l>>
PostOK(j) == /\ Len(q') = j.post.qlen /\ running' = j.post.running /\ closed' = j.post.closed
             /\ \A d \in Drainers : /\ dpc'[d] = j.post.dpc[d]
                                    /\ (dpc'[d] = "h" => dev'[d] = j.post.dev[d])
             /\ next' = j.post.next /\ cpc' = j.post.cpc
             /\ delivered' = j.post.delivered /\ enq' = j.post.enq
             /\ overlap' = j.post.overlap /\ lateStart' = j.post.lateStart
ResetTo(j) == /\ kind' = j.kind /\ graceful' = j.graceful
              /\ q' = <<>> /\ running' = FALSE /\ closed' = FALSE /\ wg' = 0
              /\ dpc' = [d \in Drainers |-> "idle"] /\ dev' = [d \in Drainers |-> 0] /\ released' = {}
              /\ next' = 1 /\ cpc' = "start" /\ enq' = <<>> /\ delivered' = <<>> /\ overlap' = FALSE /\ lateStart' = FALSE
TInit == Init /\ kind = Tr[1].kind /\ graceful = Tr[1].graceful /\ l = 2
Ev(e) == l <= Len(Tr) /\ Tr[l].ev = e /\ l' = l + 1
P == Tr[l].p
TNext == \/ Ev("Produce") /\ Produce /\ PostOK(Tr[l])
         \/ Ev("DLockPop") /\ DLockPop(P) /\ PostOK(Tr[l])
         \/ Ev("DLockEmpty") /\ DLockEmpty(P) /\ PostOK(Tr[l])
         \/ Ev("DExit") /\ DExit(P) /\ PostOK(Tr[l])
         \/ Ev("HStart") /\ HStart(P) /\ PostOK(Tr[l])
         \/ Ev("HFast") /\ HFast(P) /\ PostOK(Tr[l])
         \/ Ev("HBlock") /\ HBlock(P) /\ PostOK(Tr[l])
         \/ Ev("HReenter") /\ HReenter(P) /\ PostOK(Tr[l])
         \/ Ev("HClose") /\ HClose(P) /\ PostOK(Tr[l])
         \/ Ev("Release") /\ Release(P) /\ PostOK(Tr[l])
         \/ Ev("CClose") /\ CClose /\ PostOK(Tr[l])
         \/ Ev("CWait") /\ CWait /\ PostOK(Tr[l])
         \/ Ev("Drain") /\ UNCHANGED vars /\ PostOK(Tr[l])
         \/ Ev("Reset") /\ ResetTo(Tr[l]) /\ PostOK(Tr[l])
TSpec == TInit /\ [][TNext]_tv
Accepted == IF TLCGet("stats").diameter = Len(Tr) THEN TRUE
            ELSE Print(<<"TRACE_REJECTED_AT", TLCGet("stats").diameter + 1, Len(Tr)>>, FALSE)
====
