CONSTANTS
  Subs = {"s1","s2"}
  Cancellable = {"s2"}
  Closers = {"c1"}
  BlockingTask = {"s1"}
SPECIFICATION Spec
INVARIANTS TypeOK Mutex OkIffRanOnce ErrIffNever NoStartAfterClose OnCloseOnceLast CloseRetImpliesQuiet
PROPERTY AllReturn
