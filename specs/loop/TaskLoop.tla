---- MODULE TaskLoop ----
(* internal/taskloop of pion/ice: Run / runLoop / CloseWithPreStop.
   One action = the code between two yield points (verifhook.Yield sites, hook H2):

     submitter i   r_err  (run.errcheck)  l.Err() pre-check
                   r_sel  (run.select)    select { ctx.Done | l.done | l.tasks <- t }
                   r_wait (run.sent)      <-t.done
                   ret_ok | ret_closed | ret_ctx
     loop          l_sel  (loop.select)   select { l.done | <-l.tasks }
                   l_run  (loop.got, task.mid)  t.fn(l): body start ... body end
                   l_close (loop.ran)     close(t.done)
                   l_onclose (loop.onclose)  onClose()
                   l_exit (loop.exit)     close(taskLoopDone)
                   l_done
     closer c      c_once (close.once)    closeOnce.Do{ err.Store; close(done); ...
                   c_in_once (preStop)        ... preStop() }
                   c_wait (close.wait)    <-taskLoopDone
                   ret

   The unbuffered hand-off is one joint action of a submitter and the loop.  sync.Once is a guard:
   a closer that finds the Once taken proceeds only after the winner left it.
   Lifted from the design prototype (DESIGN.md A.2); process ids are strings so that traces need no renaming. *)
EXTENDS Naturals, FiniteSets, Sequences, TLC
CONSTANTS Subs,        \* submitter ids (strings)
          Cancellable, \* subset of Subs whose ctx may be cancelled
          Closers,
          BlockingTask \* subset of Subs whose task body blocks until preStop ran
VARIABLES spc, ctxDone, lpc, cur, tdone, done, loopDone, once, prestop, cpc, ran, fin, onCloseRuns,
          startedAfterCloseRet, maxActive
vars == <<spc, ctxDone, lpc, cur, tdone, done, loopDone, once, prestop, cpc, ran, fin, onCloseRuns, startedAfterCloseRet, maxActive>>

Init == /\ spc = [i \in Subs |-> "r_err"] /\ ctxDone = {} /\ lpc = "l_sel" /\ cur = "none" /\ tdone = {}
        /\ done = FALSE /\ loopDone = FALSE /\ once = "free" /\ prestop = FALSE
        /\ cpc = [c \in Closers |-> "c_once"] /\ ran = [i \in Subs |-> 0] /\ fin = [i \in Subs |-> FALSE]
        /\ onCloseRuns = 0 /\ startedAfterCloseRet = FALSE /\ maxActive = 0

\* --- submitter
RErr(i) == spc[i] = "r_err" /\ spc' = [spc EXCEPT ![i] = IF done THEN "ret_closed" ELSE "r_sel"]
           /\ UNCHANGED <<ctxDone, lpc, cur, tdone, done, loopDone, once, prestop, cpc, ran, fin, onCloseRuns, startedAfterCloseRet, maxActive>>
RSelCtx(i) == spc[i] = "r_sel" /\ i \in ctxDone /\ spc' = [spc EXCEPT ![i] = "ret_ctx"]
           /\ UNCHANGED <<ctxDone, lpc, cur, tdone, done, loopDone, once, prestop, cpc, ran, fin, onCloseRuns, startedAfterCloseRet, maxActive>>
RSelDone(i) == spc[i] = "r_sel" /\ done /\ spc' = [spc EXCEPT ![i] = "ret_closed"]
           /\ UNCHANGED <<ctxDone, lpc, cur, tdone, done, loopDone, once, prestop, cpc, ran, fin, onCloseRuns, startedAfterCloseRet, maxActive>>
\* rendezvous on the unbuffered tasks channel: submitter in select, loop in select.
\* NOTE: enabled even when i \in ctxDone or done holds -- Go's select picks among ready cases at random.
Handoff(i) == spc[i] = "r_sel" /\ lpc = "l_sel" /\ spc' = [spc EXCEPT ![i] = "r_wait"] /\ lpc' = "l_run" /\ cur' = i
           /\ UNCHANGED <<ctxDone, tdone, done, loopDone, once, prestop, cpc, ran, fin, onCloseRuns, startedAfterCloseRet, maxActive>>
RWait(i) == spc[i] = "r_wait" /\ i \in tdone /\ spc' = [spc EXCEPT ![i] = "ret_ok"]
           /\ UNCHANGED <<ctxDone, lpc, cur, tdone, done, loopDone, once, prestop, cpc, ran, fin, onCloseRuns, startedAfterCloseRet, maxActive>>
Cancel(i) == i \in Cancellable /\ i \notin ctxDone /\ ctxDone' = ctxDone \cup {i}
           /\ UNCHANGED <<spc, lpc, cur, tdone, done, loopDone, once, prestop, cpc, ran, fin, onCloseRuns, startedAfterCloseRet, maxActive>>
\* --- loop
Active == {i \in Subs : ran[i] > 0 /\ ~fin[i]}
LSelDone == lpc = "l_sel" /\ done /\ lpc' = "l_onclose"
           /\ UNCHANGED <<spc, ctxDone, cur, tdone, done, loopDone, once, prestop, cpc, ran, fin, onCloseRuns, startedAfterCloseRet, maxActive>>
LRunStart == lpc = "l_run" /\ ran[cur] = 0 /\ ran' = [ran EXCEPT ![cur] = 1]
           /\ startedAfterCloseRet' = (startedAfterCloseRet \/ \E c \in Closers : cpc[c] = "ret")
           /\ maxActive' = (IF Cardinality(Active) + 1 > maxActive THEN Cardinality(Active) + 1 ELSE maxActive)
           /\ UNCHANGED <<spc, ctxDone, lpc, cur, tdone, done, loopDone, once, prestop, cpc, fin, onCloseRuns>>
LRunEnd == lpc = "l_run" /\ ran[cur] = 1 /\ ~fin[cur] /\ (cur \in BlockingTask => prestop)
           /\ fin' = [fin EXCEPT ![cur] = TRUE] /\ lpc' = "l_close"
           /\ UNCHANGED <<spc, ctxDone, cur, tdone, done, loopDone, once, prestop, cpc, ran, onCloseRuns, startedAfterCloseRet, maxActive>>
LCloseDone == lpc = "l_close" /\ tdone' = tdone \cup {cur} /\ cur' = "none" /\ lpc' = "l_sel"
           /\ UNCHANGED <<spc, ctxDone, done, loopDone, once, prestop, cpc, ran, fin, onCloseRuns, startedAfterCloseRet, maxActive>>
LOnClose == lpc = "l_onclose" /\ onCloseRuns' = onCloseRuns + 1 /\ lpc' = "l_exit"
           /\ UNCHANGED <<spc, ctxDone, cur, tdone, done, loopDone, once, prestop, cpc, ran, fin, startedAfterCloseRet, maxActive>>
LExit == lpc = "l_exit" /\ loopDone' = TRUE /\ lpc' = "l_done"
           /\ UNCHANGED <<spc, ctxDone, cur, tdone, done, once, prestop, cpc, ran, fin, onCloseRuns, startedAfterCloseRet, maxActive>>
\* --- closer (sync.Once: the first caller runs f, later callers wait until f returned)
COnceWin(c) == cpc[c] = "c_once" /\ once = "free" /\ once' = "running" /\ done' = TRUE /\ cpc' = [cpc EXCEPT ![c] = "c_in_once"]
           /\ UNCHANGED <<spc, ctxDone, lpc, cur, tdone, loopDone, prestop, ran, fin, onCloseRuns, startedAfterCloseRet, maxActive>>
CPreStop(c) == cpc[c] = "c_in_once" /\ prestop' = TRUE /\ once' = "finished" /\ cpc' = [cpc EXCEPT ![c] = "c_wait"]
           /\ UNCHANGED <<spc, ctxDone, lpc, cur, tdone, done, loopDone, ran, fin, onCloseRuns, startedAfterCloseRet, maxActive>>
COnceLose(c) == cpc[c] = "c_once" /\ once = "finished" /\ cpc' = [cpc EXCEPT ![c] = "c_wait"]
           /\ UNCHANGED <<spc, ctxDone, lpc, cur, tdone, done, loopDone, once, prestop, ran, fin, onCloseRuns, startedAfterCloseRet, maxActive>>
CWait(c) == cpc[c] = "c_wait" /\ loopDone /\ cpc' = [cpc EXCEPT ![c] = "ret"]
           /\ UNCHANGED <<spc, ctxDone, lpc, cur, tdone, done, loopDone, once, prestop, ran, fin, onCloseRuns, startedAfterCloseRet, maxActive>>

SubStep(i) == RErr(i) \/ RSelCtx(i) \/ RSelDone(i) \/ RWait(i)
LoopStep == LSelDone \/ LRunStart \/ LRunEnd \/ LCloseDone \/ LOnClose \/ LExit
CloserStep(c) == COnceWin(c) \/ CPreStop(c) \/ COnceLose(c) \/ CWait(c)
Terminal == (\A i \in Subs : spc[i] \in {"ret_ok","ret_closed","ret_ctx"}) /\ (\A c \in Closers : cpc[c] = "ret")
Next == (\E i \in Subs : SubStep(i) \/ Handoff(i) \/ Cancel(i)) \/ LoopStep \/ (\E c \in Closers : CloserStep(c))
        \/ (Terminal /\ UNCHANGED vars)
Spec == Init /\ [][Next]_vars /\ WF_vars(LoopStep) /\ (\A i \in Subs : WF_vars(SubStep(i)) /\ SF_vars(Handoff(i)))
        /\ (\A c \in Closers : WF_vars(CloserStep(c)))

\* ---- C10, first sentence (the same predicates are evaluated on real observations by TaskLoopMon)
Mutex == maxActive <= 1 /\ Cardinality(Active) <= 1
OkIffRanOnce == \A i \in Subs : spc[i] = "ret_ok" => (ran[i] = 1 /\ fin[i])
ErrIffNever  == \A i \in Subs : spc[i] \in {"ret_closed","ret_ctx"} => ran[i] = 0
NoStartAfterClose == ~startedAfterCloseRet
OnCloseOnceLast == onCloseRuns <= 1 /\ (onCloseRuns = 1 => (cur = "none" /\ lpc \in {"l_exit","l_done"}))
CloseRetImpliesQuiet == (\E c \in Closers : cpc[c] = "ret") => (lpc = "l_done" /\ onCloseRuns = 1)
TypeOK == /\ spc \in [Subs -> {"r_err","r_sel","r_wait","ret_ok","ret_closed","ret_ctx"}]
          /\ lpc \in {"l_sel","l_run","l_close","l_onclose","l_exit","l_done"}
          /\ cpc \in [Closers -> {"c_once","c_in_once","c_wait","ret"}]
\* liveness: every Run and every Close returns (fairness as in Spec)
AllReturn == <>Terminal
====
