---- MODULE TaskLoopTrace ----
(* Trace validation: every event recorded from the real internal/taskloop (gate scheduler, harness/loop) must be
   explained by the TaskLoop action of the same name with the same process, and the observable part of the
   successor state must equal the recorded observation.  One TLC run validates a batch: a Reset record starts
   a new behaviour.  Accepted iff the whole file was consumed (conformance evidence, not the verdict). *)
EXTENDS TaskLoop, Json
CONSTANT TraceFile
Tr == ndJsonDeserialize(TraceFile)
VARIABLE l
tv == <<vars, l>>
PostOK(j) == /\ \A i \in Subs : spc'[i] = j.post.spc[i] /\ ran'[i] = j.post.ran[i] /\ fin'[i] = j.post.fin[i]
             /\ lpc' = j.post.lpc /\ onCloseRuns' = j.post.onCloseRuns
             /\ \A c \in Closers : cpc'[c] = j.post.cpc[c]
             /\ maxActive' = j.post.maxActive /\ startedAfterCloseRet' = j.post.startedAfterClose
TInit == Init /\ l = 2
Ev(e) == l <= Len(Tr) /\ Tr[l].ev = e /\ l' = l + 1
P == Tr[l].p
TNext == \/ Ev("RErr") /\ RErr(P) /\ PostOK(Tr[l])
         \/ Ev("RSelCtx") /\ RSelCtx(P) /\ PostOK(Tr[l])
         \/ Ev("RSelDone") /\ RSelDone(P) /\ PostOK(Tr[l])
         \/ Ev("RWait") /\ RWait(P) /\ PostOK(Tr[l])
         \/ Ev("Handoff") /\ Handoff(P) /\ PostOK(Tr[l])
         \/ Ev("Cancel") /\ Cancel(P) /\ PostOK(Tr[l])
         \/ Ev("LSelDone") /\ LSelDone /\ PostOK(Tr[l])
         \/ Ev("LRunStart") /\ LRunStart /\ PostOK(Tr[l])
         \/ Ev("LRunEnd") /\ LRunEnd /\ PostOK(Tr[l])
         \/ Ev("LCloseDone") /\ LCloseDone /\ PostOK(Tr[l])
         \/ Ev("LOnClose") /\ LOnClose /\ PostOK(Tr[l])
         \/ Ev("LExit") /\ LExit /\ PostOK(Tr[l])
         \/ Ev("COnceWin") /\ COnceWin(P) /\ PostOK(Tr[l])
         \/ Ev("COnceLose") /\ COnceLose(P) /\ PostOK(Tr[l])
         \/ Ev("CPreStop") /\ CPreStop(P) /\ PostOK(Tr[l])
         \/ Ev("CWait") /\ CWait(P) /\ PostOK(Tr[l])
         \/ Ev("Drain") /\ UNCHANGED vars /\ PostOK(Tr[l])
         \/ Ev("Reset")
              /\ spc' = [i \in Subs |-> "r_err"] /\ ctxDone' = {} /\ lpc' = "l_sel" /\ cur' = "none" /\ tdone' = {}
              /\ done' = FALSE /\ loopDone' = FALSE /\ once' = "free" /\ prestop' = FALSE
              /\ cpc' = [c \in Closers |-> "c_once"] /\ ran' = [i \in Subs |-> 0] /\ fin' = [i \in Subs |-> FALSE]
              /\ onCloseRuns' = 0 /\ startedAfterCloseRet' = FALSE /\ maxActive' = 0
              /\ PostOK(Tr[l])
TSpec == TInit /\ [][TNext]_tv
Accepted == IF TLCGet("stats").diameter = Len(Tr) THEN TRUE
            ELSE Print(<<"TRACE_REJECTED_AT", TLCGet("stats").diameter + 1, Len(Tr)>>, FALSE)
====
