---- MODULE ApiRaceMon ----
(* C10, second sentence: any public Agent/Conn method may be called from any goroutine concurrently with any other
   and with inbound traffic without data races.  The drivers (harness/loop TestApiRace: seeded concurrent public
   calls on two connected real agents; TestGatherRace: Restart at every 5 ms of a gather cycle
   stretched by delays at the yield points) run in a binary
   built with the Go race detector; every report of the detector whose stacks touch pion/ice code becomes a Race
   record (via = how the side outside the task loop got there, against = top frame of the other side).
   Records: Reset, Run (one per driver run, with call counts), Race, End. *)
EXTENDS Integers, Sequences, TLC, Json
CONSTANTS TraceFile, Check
Tr == ndJsonDeserialize(TraceFile)
VARIABLES l, ev
vars == <<l, ev>>
Init == l = 2 /\ ev = Tr[1]
Step == l <= Len(Tr) /\ l' = l + 1 /\ ev' = Tr[l]
Spec == Init /\ [][Step]_vars
RaceFree == ev.ev # "Race"
DriversCompleted == ev.ev = "Run" => ev.done
P(n) == CASE n = "RaceFree" -> RaceFree [] n = "DriversCompleted" -> DriversCompleted
AllPredicates == {"RaceFree", "DriversCompleted"}
Report == \A n \in Check : P(n) \/ PrintT(<<"VIOL", n, l - 1>>)
Done == IF TLCGet("stats").diameter = Len(Tr) THEN TRUE
        ELSE Print(<<"MONITOR_STOPPED_AT", TLCGet("stats").diameter, Len(Tr)>>, FALSE)
====
