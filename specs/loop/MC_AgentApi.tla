---- MODULE MC_AgentApi ----
EXTENDS AgentApi
O(o, a) == [op |-> o, arg |-> a]
MCOps == {O("StartDial", "c1"), O("StartAccept", "c2"), O("StartDial", ""), O("Restart", "c3"), O("Restart", "short"), O("SetRemoteCredentials", "c4"),
          O("SetRemoteCredentials", ""), O("GetRemoteUserCredentials", ""), O("GetLocalUserCredentials", ""), O("GatherCandidates", ""),
          O("GetGatheringState", ""), O("AddRemoteCandidate", "r1"), O("GetRemoteCandidates", ""), O("Close", ""), O("OnCandidate", "")}
MCProcs == {"p1", "p2", "p3"}
====
