SPECIFICATION Spec
CONSTANTS
 Procs <- MCProcs
 OpSet <- MCOps
 MaxCycles = 2
 Defects = {}
INVARIANTS TypeOK AtMostOneStartSucceeds StartedIffAStartSucceeded RoleOfTheWinner GatheringNeedsACycle ClosedIsFinal
CHECK_DEADLOCK FALSE
