CONSTANTS
  NEvents = 2
  Kinds = {"fast", "block", "reenter", "close"}
  Drainers = {"d1", "d2"}
SPECIFICATION Spec
INVARIANTS TypeOK Fifo NoOverlap GracefulMeansQuiet ExactlyOnceAtQuiescence SlotsSuffice
PROPERTY Live
