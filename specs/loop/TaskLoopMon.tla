---- MODULE TaskLoopMon ----
(* C10 (first sentence) verdicts from observations of the real task loop alone -- no dependence on
   TaskLoop!Next.  Each record of the trace carries the observation `post` taken after the step:
     spc[i]  where submitter i is (r_err, r_sel, r_wait, ret_ok, ret_closed, ret_ctx)
     ran[i], fin[i]   how often i's task body started / whether it finished (counted by the task body itself)
     lpc     where the loop goroutine is;  cpc[c] where closer c is ("ret" = Close returned)
     onCloseRuns      calls of the close callback;   maxActive  most task bodies ever inside start..end at once
     startedAfterClose   a task body found, when it started, that some Close had already returned
     closeSnap[c]     (free-running runs) what closer c saw right after Close returned
   Records: Reset (new run), model-named steps, Drain (end of the bounded gated drain: everybody must have
   returned), Final (end of a free-running jitter run).
   Predicates never make TLC fail; Report prints <<"VIOL", name, line>> for every violated one. *)
EXTENDS Naturals, Sequences, FiniteSets, TLC, Json
CONSTANTS TraceFile, Check
Tr == ndJsonDeserialize(TraceFile)
VARIABLES l, pre, obs, ev, closeRetBefore, onCloseBefore
vars == <<l, pre, obs, ev, closeRetBefore, onCloseBefore>>
SomeCloseRet(o) == \E c \in DOMAIN o.cpc : o.cpc[c] = "ret"
Init == l = 2 /\ pre = Tr[1].post /\ obs = Tr[1].post /\ ev = Tr[1] /\ closeRetBefore = FALSE /\ onCloseBefore = FALSE
Step == /\ l <= Len(Tr) /\ l' = l + 1 /\ ev' = Tr[l] /\ obs' = Tr[l].post
        /\ pre' = (IF Tr[l].ev = "Reset" THEN Tr[l].post ELSE obs)
        /\ closeRetBefore' = (IF Tr[l].ev = "Reset" THEN FALSE ELSE SomeCloseRet(obs))
        /\ onCloseBefore' = (IF Tr[l].ev = "Reset" THEN FALSE ELSE obs.onCloseRuns >= 1)
Spec == Init /\ [][Step]_vars
Subs == DOMAIN obs.spc
Closers == DOMAIN obs.cpc
Active == {i \in Subs : obs.ran[i] > 0 /\ ~obs.fin[i]}
Started == {i \in Subs : obs.ran[i] > pre.ran[i]}     \* task bodies that started in this step
Returned(i) == obs.spc[i] \in {"ret_ok", "ret_closed", "ret_ctx"}
\* all work submitted to the loop runs one task at a time
Mutex == obs.maxActive <= 1 /\ Cardinality(Active) <= 1
\* a submission returns success exactly when its task ran once to completion before the return ...
OkIffRanOnce == \A i \in Subs : /\ obs.ran[i] <= 1
                                /\ obs.spc[i] = "ret_ok" => (obs.ran[i] = 1 /\ obs.fin[i])
\* ... and returns an error exactly when the task never ran (neither before nor after the return)
ErrIffNever == \A i \in Subs : obs.spc[i] \in {"ret_closed", "ret_ctx"} => obs.ran[i] = 0
\* no task starts after Close has returned
NoStartAfterClose == ~obs.startedAfterClose /\ (closeRetBefore => Started = {})
\* the close callback runs once, after the last task
OnCloseOnceLast == /\ obs.onCloseRuns <= 1
                   /\ (obs.onCloseRuns = 1 /\ pre.onCloseRuns = 0) => Active = {}
                   /\ onCloseBefore => Started = {}
\* when Close returns the loop goroutine is gone and the close callback has run
CloseRetImpliesQuiet == /\ SomeCloseRet(obs) => (obs.lpc = "l_done" /\ obs.onCloseRuns = 1 /\ Active = {})
                        /\ \A c \in DOMAIN obs.closeSnap : obs.closeSnap[c].onClose = 1 /\ obs.closeSnap[c].active = 0
\* liveness as a bounded-drain verdict: at the end of the gated drain / of a free run everybody has returned
AtEnd == ev.ev \in {"Drain", "Final"}
RunReturns == AtEnd => \A i \in Subs : Returned(i)
CloseReturns == AtEnd => \A c \in Closers : obs.cpc[c] = "ret"
P(n) == CASE n = "Mutex" -> Mutex [] n = "OkIffRanOnce" -> OkIffRanOnce [] n = "ErrIffNever" -> ErrIffNever
          [] n = "NoStartAfterClose" -> NoStartAfterClose [] n = "OnCloseOnceLast" -> OnCloseOnceLast
          [] n = "CloseRetImpliesQuiet" -> CloseRetImpliesQuiet [] n = "RunReturns" -> RunReturns
          [] n = "CloseReturns" -> CloseReturns
AllPredicates == {"Mutex", "OkIffRanOnce", "ErrIffNever", "NoStartAfterClose", "OnCloseOnceLast", "CloseRetImpliesQuiet", "RunReturns", "CloseReturns"}
Report == \A n \in Check : P(n) \/ PrintT(<<"VIOL", n, l - 1>>)
Done == IF TLCGet("stats").diameter = Len(Tr) THEN TRUE
        ELSE Print(<<"MONITOR_STOPPED_AT", TLCGet("stats").diameter, Len(Tr)>>, FALSE)
====
