---- MODULE CallbackMon ----
(* C11 at agent level: verdicts on the handler invocation log of two real, connected agents whose handlers were
   installed through the public On* setters and are slow (sleep), re-entrant (call back into the agent) or closing
   (call Agent.Close).  Records, in the order they were appended under one lock:
     Reset
     HStart ag, st, v     handler of stream st ("cs" | "cand" | "pair") of agent ag entered with value v
     HEnd   ag, st        ... returned
     CloseCall / CloseRet ag, graceful
     End    actual, open  quiescence: connection state of every agent that is still open, per VerifSnapshot
   Weak reading where the order of occurrence is not observable from outside: per stream no overlap, no event
   twice (consecutive equal states, a candidate id twice, a second nil without a new cycle is left to GatherMon),
   the last state delivered is the actual one at quiescence, nothing runs or starts after GracefulClose returned. *)
EXTENDS Integers, Sequences, FiniteSets, TLC, Json
CONSTANTS TraceFile, Check
Tr == ndJsonDeserialize(TraceFile)
Agents == {"A", "B"}
Streams == {"cs", "cand", "pair"}
VARIABLES l, ev, inh, last, seen, gracRet
vars == <<l, ev, inh, last, seen, gracRet>>
Z == [a \in Agents |-> [s \in Streams |-> 0]]
L0 == [a \in Agents |-> "New"]
Init == l = 2 /\ ev = Tr[1] /\ inh = Z /\ last = L0 /\ seen = {} /\ gracRet = {}
Step == /\ l <= Len(Tr) /\ l' = l + 1 /\ ev' = Tr[l]
        /\ LET e == ev IN
           CASE e.ev = "Reset" -> inh' = Z /\ last' = L0 /\ seen' = {} /\ gracRet' = {}
             [] e.ev = "HStart" -> /\ inh' = [inh EXCEPT ![e.ag][e.st] = @ + 1]
                                   /\ last' = (IF e.st = "cs" THEN [last EXCEPT ![e.ag] = e.v] ELSE last)
                                   /\ seen' = (IF e.st = "cand" THEN seen \cup {<<e.ag, e.v>>} ELSE seen)
                                   /\ UNCHANGED gracRet
             [] e.ev = "HEnd" -> inh' = [inh EXCEPT ![e.ag][e.st] = @ - 1] /\ UNCHANGED <<last, seen, gracRet>>
             [] e.ev = "CloseRet" /\ e.graceful -> gracRet' = gracRet \cup {e.ag} /\ UNCHANGED <<inh, last, seen>>
             [] OTHER -> UNCHANGED <<inh, last, seen, gracRet>>
Spec == Init /\ [][Step]_vars
\* never concurrently with itself
NoOverlap == ev.ev = "HStart" => inh[ev.ag][ev.st] = 0
\* once per event
NoDuplicate == /\ (ev.ev = "HStart" /\ ev.st = "cs") => ev.v # last[ev.ag]
               /\ (ev.ev = "HStart" /\ ev.st = "cand" /\ ev.v # "nil") => <<ev.ag, ev.v>> \notin seen
\* after GracefulClose has returned no handler is running and none will be invoked
GracefulMeansQuiet == /\ (ev.ev = "CloseRet" /\ ev.graceful) => \A s \in Streams : inh[ev.ag][s] = 0
                      /\ ev.ev = "HStart" => ev.ag \notin gracRet
\* at quiescence the application has been told the state the agent is actually in
LastIsActual == ev.ev = "End" => \A k \in 1..Len(ev.open) : last[ev.open[k]] = ev.actual[ev.open[k]]
\* handlers all returned at quiescence
HandlersReturn == ev.ev = "End" => \A a \in Agents : \A s \in Streams : inh[a][s] = 0
P(n) == CASE n = "NoOverlap" -> NoOverlap [] n = "NoDuplicate" -> NoDuplicate [] n = "GracefulMeansQuiet" -> GracefulMeansQuiet
          [] n = "LastIsActual" -> LastIsActual [] n = "HandlersReturn" -> HandlersReturn
AllPredicates == {"NoOverlap", "NoDuplicate", "GracefulMeansQuiet", "LastIsActual", "HandlersReturn"}
Report == \A n \in Check : P(n) \/ PrintT(<<"VIOL", n, l - 1>>)
Done == IF TLCGet("stats").diameter = Len(Tr) THEN TRUE
        ELSE Print(<<"MONITOR_STOPPED_AT", TLCGet("stats").diameter, Len(Tr)>>, FALSE)
====
