---- MODULE Notifier ----
(* handlerNotifier of pion/ice (agent_handlers.go): one callback stream.  The three streams (connection state,
   candidates, selected pair) are copies of one algorithm; it is specified once and replayed on all three.
   One action = the code between two yield points (verifhook.Yield sites "hn.<stream>.*", "hn.close*"):

     producer      Enqueue: lock; closed? drop : append, start a drainer iff !running; unlock        (Produce)
     drainer d     lock; empty -> running = false, unlock, exit : pop, unlock                       (DLockEmpty / DLockPop)
                   handler call as an interval HStart ... (HFast | HBlock | HReenter | HClose) = end
                   deferred notifiers.Done()                                                          (DExit)
     closer        Close(graceful): lock; close(done); unlock   [graceful: notifiers.Wait()]          (CClose, CWait)

   Handler behaviours per event: "fast", "block" (until the environment releases it), "reenter" (calls Enqueue on
   the same stream), "close" (calls Close(false), as Agent.Close does).  The assignment of behaviours to events and
   whether the closer is graceful are chosen in the initial state, so one TLC run covers all of them.
   Lifted from the design prototype (DESIGN.md A.3); the handler start is a separate step because there is a yield
   point between the pop and the call. *)
EXTENDS Naturals, FiniteSets, Sequences, TLC
CONSTANTS NEvents,     \* the producer enqueues 1..NEvents in order
          Kinds,       \* handler behaviours to choose from
          Drainers     \* drainer goroutine slots (strings "d1", "d2", ...; a new drainer takes the lowest idle slot)
VARIABLES kind, graceful,
          q, running, closed, wg,
          dpc,        \* drainer: "idle" | "lock" | "call" | "h" | "exit"
          dev,        \* event a drainer popped
          released,   \* blocked handlers released by the environment
          next,       \* next event the producer enqueues
          cpc,        \* external closer: "start" | "wait" | "ret"
          enq, delivered, \* history: accepted enqueues, handler starts
          overlap, lateStart
vars == <<kind, graceful, q, running, closed, wg, dpc, dev, released, next, cpc, enq, delivered, overlap, lateStart>>
Extra == NEvents + 1   \* the event a re-entrant handler enqueues (its own handler is fast)
KindOf(e) == IF e = Extra THEN "fast" ELSE kind[e]
Init == /\ kind \in [1..NEvents -> Kinds] /\ graceful \in BOOLEAN
        /\ q = <<>> /\ running = FALSE /\ closed = FALSE /\ wg = 0
        /\ dpc = [d \in Drainers |-> "idle"] /\ dev = [d \in Drainers |-> 0] /\ released = {}
        /\ next = 1 /\ cpc = "start" /\ enq = <<>> /\ delivered = <<>> /\ overlap = FALSE /\ lateStart = FALSE

Idle == {d \in Drainers : dpc[d] = "idle"}
Lowest(S) == CHOOSE d \in S : \A o \in S : d = o \/ <<d, o>> \in {<<"d1","d2">>, <<"d1","d3">>, <<"d1","d4">>, <<"d2","d3">>, <<"d2","d4">>, <<"d3","d4">>}
\* Enqueue critical section, called by the producer or by a handler; pcs is the drainer pc map to extend
EnqueueEff(e, pcs) ==
  IF closed THEN /\ UNCHANGED <<q, running, wg, enq>> /\ dpc' = pcs
  ELSE /\ q' = Append(q, e) /\ enq' = Append(enq, e)
       /\ IF running THEN /\ UNCHANGED <<running, wg>> /\ dpc' = pcs
          ELSE /\ running' = TRUE /\ wg' = wg + 1
               /\ {d \in Drainers : pcs[d] = "idle"} # {}
               /\ dpc' = [pcs EXCEPT ![Lowest({d \in Drainers : pcs[d] = "idle"})] = "lock"]
Produce == next <= NEvents /\ next' = next + 1 /\ EnqueueEff(next, dpc)
           /\ UNCHANGED <<kind, graceful, closed, dev, released, cpc, delivered, overlap, lateStart>>
\* drainer critical section
DLockPop(d) == dpc[d] = "lock" /\ Len(q) > 0 /\ dev' = [dev EXCEPT ![d] = Head(q)] /\ q' = Tail(q)
            /\ dpc' = [dpc EXCEPT ![d] = "call"]
            /\ UNCHANGED <<kind, graceful, running, closed, wg, released, next, cpc, enq, delivered, overlap, lateStart>>
DLockEmpty(d) == dpc[d] = "lock" /\ Len(q) = 0 /\ running' = FALSE /\ dpc' = [dpc EXCEPT ![d] = "exit"]
            /\ UNCHANGED <<kind, graceful, q, closed, wg, dev, released, next, cpc, enq, delivered, overlap, lateStart>>
DExit(d) == dpc[d] = "exit" /\ wg' = wg - 1 /\ dpc' = [dpc EXCEPT ![d] = "idle"] /\ dev' = [dev EXCEPT ![d] = 0]
            /\ UNCHANGED <<kind, graceful, q, running, closed, released, next, cpc, enq, delivered, overlap, lateStart>>
\* the application handler is entered
HStart(d) == dpc[d] = "call" /\ dpc' = [dpc EXCEPT ![d] = "h"] /\ delivered' = Append(delivered, dev[d])
            /\ overlap' = (overlap \/ \E o \in Drainers \ {d} : dpc[o] = "h")
            /\ lateStart' = (lateStart \/ (graceful /\ cpc = "ret"))
            /\ UNCHANGED <<kind, graceful, q, running, closed, wg, dev, released, next, cpc, enq>>
\* handler bodies; each ends with the handler returning
HFast(d) == dpc[d] = "h" /\ KindOf(dev[d]) = "fast" /\ dpc' = [dpc EXCEPT ![d] = "lock"]
            /\ UNCHANGED <<kind, graceful, q, running, closed, wg, dev, released, next, cpc, enq, delivered, overlap, lateStart>>
HBlock(d) == dpc[d] = "h" /\ KindOf(dev[d]) = "block" /\ dev[d] \in released /\ dpc' = [dpc EXCEPT ![d] = "lock"]
            /\ UNCHANGED <<kind, graceful, q, running, closed, wg, dev, released, next, cpc, enq, delivered, overlap, lateStart>>
Release(e) == e \in 1..NEvents /\ kind[e] = "block" /\ e \notin released /\ released' = released \cup {e}
            /\ (\E d \in Drainers : dpc[d] = "h" /\ dev[d] = e)   \* released while its handler waits (an earlier release makes it a fast handler)
            /\ UNCHANGED <<kind, graceful, q, running, closed, wg, dpc, dev, next, cpc, enq, delivered, overlap, lateStart>>
HReenter(d) == dpc[d] = "h" /\ KindOf(dev[d]) = "reenter"
            /\ EnqueueEff(Extra, [dpc EXCEPT ![d] = "lock"])
            /\ UNCHANGED <<kind, graceful, closed, dev, released, next, cpc, delivered, overlap, lateStart>>
HClose(d) == dpc[d] = "h" /\ KindOf(dev[d]) = "close" /\ closed' = TRUE /\ dpc' = [dpc EXCEPT ![d] = "lock"]
            /\ UNCHANGED <<kind, graceful, q, running, wg, dev, released, next, cpc, enq, delivered, overlap, lateStart>>
\* external closer
CClose == cpc = "start" /\ closed' = TRUE /\ cpc' = (IF graceful THEN "wait" ELSE "ret")
            /\ UNCHANGED <<kind, graceful, q, running, wg, dpc, dev, released, next, enq, delivered, overlap, lateStart>>
CWait == cpc = "wait" /\ wg = 0 /\ cpc' = "ret"
            /\ UNCHANGED <<kind, graceful, q, running, closed, wg, dpc, dev, released, next, enq, delivered, overlap, lateStart>>
DStep(d) == DLockPop(d) \/ DLockEmpty(d) \/ DExit(d) \/ HStart(d) \/ HFast(d) \/ HBlock(d) \/ HReenter(d) \/ HClose(d)
Quiet == next > NEvents /\ cpc = "ret" /\ \A d \in Drainers : dpc[d] = "idle"
Next == Produce \/ (\E d \in Drainers : DStep(d)) \/ (\E e \in 1..NEvents : Release(e)) \/ CClose \/ CWait
        \/ (Quiet /\ UNCHANGED vars)
Spec == Init /\ [][Next]_vars /\ WF_vars(Produce) /\ (\A d \in Drainers : WF_vars(DStep(d)))
        /\ WF_vars(CClose \/ CWait) /\ (\A e \in 1..NEvents : WF_vars(Release(e)))

\* ---- C11 (the same predicates are evaluated on real observations by NotifierMon)
IsPrefix(s, t) == Len(s) <= Len(t) /\ \A k \in 1..Len(s) : s[k] = t[k]
Fifo == IsPrefix(delivered, enq)
NoOverlap == ~overlap /\ Cardinality({d \in Drainers : dpc[d] = "h"}) <= 1
GracefulMeansQuiet == ~lateStart /\ ((graceful /\ cpc = "ret") => \A d \in Drainers : dpc[d] = "idle")
ExactlyOnceAtQuiescence == Quiet => delivered = enq
SlotsSuffice == running \/ closed \/ next > NEvents \/ Idle # {}   \* the model never lacks a drainer slot
TypeOK == wg \in 0..Cardinality(Drainers) /\ Len(q) <= NEvents + 1
Live == <>Quiet
====
