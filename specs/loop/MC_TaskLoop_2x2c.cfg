CONSTANTS
  Subs = {"s1","s2"}
  Cancellable = {"s1","s2"}
  Closers = {"c1","c2"}
  BlockingTask = {}
SPECIFICATION Spec
INVARIANTS TypeOK Mutex OkIffRanOnce ErrIffNever NoStartAfterClose OnCloseOnceLast CloseRetImpliesQuiet
PROPERTY AllReturn
