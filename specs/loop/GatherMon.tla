---- MODULE GatherMon ----
(* C11, gathering part: verdicts on what the OnCandidate handler of a real agent saw while gather cycles were
   started (GatherCandidates) and cancelled (Restart) at every gate of the cycle.  Records, in real order (the
   driver waits for quiescence after every step, so callbacks are complete before its next record):
     Reset                         new run
     Gather  cyc, ok               GatherCandidates returned (ok: a cycle was started); cyc numbers the cycle
     Cand    cyc, uf               OnCandidate(c): c was produced by cycle cyc (the listen addresses differ per cycle)
                                   and carries the ufrag of generation uf in its "ufrag" extension (0: none/unknown)
     Nil                           OnCandidate(nil)
     Restart completed             Restart returned; completed: the agent said GatheringStateComplete just before
     End     complete              everything drained; complete: the agent says GatheringStateComplete
   History kept here: win ("none" | "cycle" | "between"), the current cycle, nils seen in the current window. *)
EXTENDS Integers, Sequences, FiniteSets, TLC, Json
CONSTANTS TraceFile, Check
Tr == ndJsonDeserialize(TraceFile)
VARIABLES l, ev, win, cyc, nils,
          held   \* the run in which the application's handler sits on the first candidate until the Restart is over: what the log
                 \* shows then is the order of DELIVERY, not of publication, so only what a candidate carries is judged there
vars == <<l, ev, win, cyc, nils, held>>
Init == l = 2 /\ ev = Tr[1] /\ win = "none" /\ cyc = 0 /\ nils = 0 /\ held = (Tr[1].mode = "held")
\* the predicates look at the event about to be absorbed (ev) and the history before it
Step == /\ l <= Len(Tr) /\ l' = l + 1 /\ ev' = Tr[l]
        /\ held' = (IF Tr[l].ev = "Reset" THEN Tr[l].mode = "held" ELSE held)
        /\ LET e == ev IN
           CASE e.ev = "Reset" -> win' = "none" /\ cyc' = 0 /\ nils' = 0
             [] e.ev = "Gather" /\ e.ok -> win' = "cycle" /\ cyc' = e.cyc /\ nils' = 0
             [] e.ev = "Restart" -> win' = "between" /\ nils' = 0 /\ UNCHANGED cyc
             [] e.ev = "Nil" -> nils' = nils + 1 /\ UNCHANGED <<win, cyc>>
             [] OTHER -> UNCHANGED <<win, cyc, nils>>
Spec == Init /\ [][Step]_vars
\* each candidate carries the ufrag of the cycle that produced it
UfragOfCycle == ev.ev = "Cand" => ev.uf = ev.cyc
\* a cycle that runs to completion emits exactly one nil, after all of its candidates
OneNilLast == held \/
              /\ (ev.ev = "Cand" /\ win = "cycle" /\ ev.cyc = cyc) => nils = 0
              /\ (ev.ev = "Nil" /\ win = "cycle") => nils = 0
              /\ (ev.ev = "Restart" /\ ev.completed) => nils = 1
              /\ (ev.ev = "End" /\ ev.complete /\ win = "cycle") => nils = 1
\* a cycle cancelled by Restart emits none (neither before the Restart nor later)
NoNilIfCancelled == held \/
                    /\ ev.ev = "Nil" => win = "cycle"
                    /\ (ev.ev = "Restart" /\ ~ev.completed) => nils = 0
\* an undisturbed cycle completes
GatherCompletes == held \/ ((ev.ev = "End" /\ win = "cycle") => ev.complete)
P(n) == CASE n = "UfragOfCycle" -> UfragOfCycle [] n = "OneNilLast" -> OneNilLast
          [] n = "NoNilIfCancelled" -> NoNilIfCancelled [] n = "GatherCompletes" -> GatherCompletes
AllPredicates == {"UfragOfCycle", "OneNilLast", "NoNilIfCancelled", "GatherCompletes"}
\* ev is record l-1 of the file
Report == \A n \in Check : P(n) \/ PrintT(<<"VIOL", n, l - 1>>)
Done == IF TLCGet("stats").diameter = Len(Tr) THEN TRUE
        ELSE Print(<<"MONITOR_STOPPED_AT", TLCGet("stats").diameter, Len(Tr)>>, FALSE)
====
