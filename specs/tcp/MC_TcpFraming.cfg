CONSTANTS
  HB = 2
  N = 2
  Lens = {0,1,2,3,4,5}
  Caps = {0,1,2,3}
  Truncs = {0,1,2,3}
  Configs <- MCConfigs
  Truncating = FALSE
SPECIFICATION Spec
INVARIANTS NoTruncHeader ErrNotGarbage RoundTrip BoundedRead
CHECK_DEADLOCK FALSE
