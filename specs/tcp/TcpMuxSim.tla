---- MODULE TcpMuxSim ----
(* TcpMux with a history of the environment's actions, for TLC's simulation mode: every       *)
(* behaviour ends by printing that history as JSON; the harness replays it on the real mux.   *)
(* "w" on an action: the mux was idle when the action was taken (the replay waits for         *)
(* quiescence before it); otherwise the action raced with goroutines still under way.         *)
EXTENDS TcpMux, Json
VARIABLE hist
\* first handle the application obtained for packet conn i
HandleOf(i) == CHOOSE h \in 1..Len(handles) : handles[h] = i /\ \A g \in 1..(h - 1) : handles[g] # i
Rec(ev, c, u, h) == [ev |-> ev, c |-> c, u |-> u, h |-> h, w |-> Quiet]
Log(r) == hist' = Append(hist, r)
SimInit == Init /\ hist = <<>>
SimNext == \/ MuxStep /\ UNCHANGED hist
           \/ \E c \in Clients : \/ EDial(c) /\ Log(Rec("Dial", c, "", 0))
                                 \/ EClientSend(c) /\ Log(Rec("Send", c, "", 0))
                                 \/ EClientClose(c) /\ Log(Rec("CClose", c, "", 0))
           \/ \E u \in Ufrags : \/ EGet(u) /\ Log(Rec("Get", 0, u, 0))
                                \/ ERemove(u) /\ Log(Rec("Remove", 0, u, 0))
           \/ \E i \in Ids, c \in Clients : EReply(i, c) /\ Log(Rec("Reply", c, "", HandleOf(i)))
           \/ EClose /\ Log(Rec("Close", 0, "", 0))
           \/ EClose2 /\ Log(Rec("Close", 0, "", 0))
           \/ EAdvance /\ Log(Rec("Advance", 0, "", 0))
SimSpec == SimInit /\ [][SimNext]_<<vars, hist>>
\* prints the history wherever a watcher goroutine has removed a packet conn that was not its own
StaleDump == ~stale \/ PrintT(<<"BEH", ToJson([beh |-> beh, acts |-> hist])>>)
Dump == ENABLED SimNext \/ PrintT(<<"BEH", ToJson([beh |-> beh, acts |-> hist])>>)
====
