---- MODULE TcpFraming ----
(* RFC 4571 framing as used by pion/ice for ICE-TCP (property C14).                      *)
(*                                                                                        *)
(* A writer puts packets on a byte stream, each preceded by a two-byte big-endian length  *)
(* (writeStreamingPacket); a reader takes them off again (readStreamingPacket) although   *)
(* every conn.Read may return any non-empty prefix of what was asked for: ReadChunk(n)    *)
(* is one conn.Read returning n bytes.  The stream is never materialised: a byte is       *)
(* addressed by its offset and its value is computed from the frames on the wire, so the  *)
(* same module is model-checked with two-valued header bytes (HB = 2: lengths 0..3 fit    *)
(* the header, 4 and 5 are "too long for the length field") over all chunkings, and       *)
(* validates traces of the real code with HB = 256 and lengths up to 70000.               *)
EXTENDS Naturals, Sequences, TLC
CONSTANTS HB,         \* number of values of one header byte (256 on the real wire)
          Configs,    \* set of [pk : sequence of packet lengths, cap : reader buffer, trunc : bytes cut off the end]
          Truncating  \* FALSE: the writer refuses packets longer than MaxLen (the specification);
                      \* TRUE: near-miss writer that stores the length modulo HB*HB (what uint16(len) does)
MaxLen == HB * HB - 1
\* value of body byte j (1-based) of packet i; the Go drivers fill packets with the same function
Fill(i, j) == ((i * 37 + j * 11) % 251) % HB

VARIABLES cfg,    \* the configuration of this run
          wire,   \* frames on the wire: [hdr : value of the two header bytes, blen : body bytes that follow, pkt : index in cfg.pk]
          wres,   \* per packet offered to the writer: "ok" or "refused"
          pos,    \* stream offset of the next unread byte
          phase, hgot, hval, need, got, start,   \* the reader's two-phase state
          out,    \* packets returned: [n : length, at : stream offset of the first body byte]
          res     \* "writing", "reading", "eof" (conn.Read failed), "short" (io.ErrShortBuffer)
vars == <<cfg, wire, wres, pos, phase, hgot, hval, need, got, start, out, res>>
rvars == <<pos, phase, hgot, hval, need, got, start, out>>

RECURSIVE FrameStart(_, _)
FrameStart(w, f) == IF f <= 1 THEN 0 ELSE FrameStart(w, f - 1) + 2 + w[f - 1].blen
TotalLen == FrameStart(wire, Len(wire) + 1)
StreamLen == IF cfg.trunc > TotalLen THEN 0 ELSE TotalLen - cfg.trunc
FrameOf(p) == CHOOSE f \in 1..Len(wire) : FrameStart(wire, f) <= p /\ p < FrameStart(wire, f + 1)
ByteAt(p) == LET f == FrameOf(p)  o == p - FrameStart(wire, f) IN
             IF o = 0 THEN wire[f].hdr \div HB ELSE IF o = 1 THEN wire[f].hdr % HB ELSE Fill(wire[f].pkt, o - 1)
\* end of the header or body that contains offset p
RegionEnd(p) == LET f == FrameOf(p)  o == p - FrameStart(wire, f) IN
                IF o < 2 THEN FrameStart(wire, f) + 2 ELSE FrameStart(wire, f + 1)

Init == /\ cfg \in Configs /\ wire = <<>> /\ wres = <<>> /\ pos = 0 /\ phase = "hdr" /\ hgot = 0 /\ hval = 0
        /\ need = 0 /\ got = 0 /\ start = 0 /\ out = <<>> /\ res = "writing"

\* writeStreamingPacket for the next packet
Write ==
  /\ res = "writing" /\ Len(wres) < Len(cfg.pk)
  /\ LET i == Len(wres) + 1  len == cfg.pk[i] IN
       IF len > MaxLen /\ ~Truncating
       THEN wres' = Append(wres, "refused") /\ UNCHANGED wire
       ELSE wres' = Append(wres, "ok") /\ wire' = Append(wire, [hdr |-> len % (MaxLen + 1), blen |-> len, pkt |-> i])
  /\ UNCHANGED <<cfg, rvars, res>>
WriterDone == res = "writing" /\ Len(wres) = Len(cfg.pk) /\ res' = "reading" /\ UNCHANGED <<cfg, wire, wres, rvars>>

Avail == StreamLen - pos
Want == IF phase = "hdr" THEN 2 - hgot ELSE need - got
\* one conn.Read that returns n bytes
ReadChunk(n) ==
  /\ res = "reading" /\ n \in 1..Want /\ n <= Avail /\ pos' = pos + n
  /\ IF phase = "hdr" THEN
       LET v == IF n = 2 THEN ByteAt(pos) * HB + ByteAt(pos + 1) ELSE hval * HB + ByteAt(pos) IN
       IF hgot + n < 2 THEN hgot' = hgot + n /\ hval' = v /\ UNCHANGED <<phase, need, got, start, out, res>>
       ELSE /\ hgot' = 0 /\ hval' = 0
            /\ IF v > cfg.cap THEN res' = "short" /\ UNCHANGED <<phase, need, got, start, out>>
               ELSE IF v = 0 THEN out' = Append(out, [n |-> 0, at |-> pos + n]) /\ UNCHANGED <<phase, need, got, start, res>>
               ELSE phase' = "body" /\ need' = v /\ got' = 0 /\ start' = pos + n /\ UNCHANGED <<out, res>>
     ELSE
       IF got + n < need THEN got' = got + n /\ UNCHANGED <<phase, hgot, hval, need, start, out, res>>
       ELSE out' = Append(out, [n |-> need, at |-> start]) /\ phase' = "hdr" /\ got' = 0 /\ need' = 0
            /\ UNCHANGED <<hgot, hval, start, res>>
  /\ UNCHANGED <<cfg, wire, wres>>
\* conn.Read at the end of the (possibly truncated) stream
ReadEOF == res = "reading" /\ Avail = 0 /\ res' = "eof" /\ UNCHANGED <<cfg, wire, wres, rvars>>
MaxChunk == 6
Next == Write \/ WriterDone \/ (\E n \in 1..MaxChunk : ReadChunk(n)) \/ ReadEOF
Spec == Init /\ [][Next]_vars

\* ---------------------------------------------------------------- properties (C14)
IsPrefix(s, t) == Len(s) <= Len(t) /\ \A k \in 1..Len(s) : s[k] = t[k]
\* what a correct reader may return, in order: the body of every frame the writer accepted
Expected == [f \in 1..Len(wire) |-> [n |-> cfg.pk[wire[f].pkt], at |-> FrameStart(wire, f) + 2]]
\* ... as far as frames are complete and fit the buffer
RECURSIVE Deliverable(_)
Deliverable(f) == IF f > Len(wire) THEN 0
                  ELSE IF Expected[f].n > cfg.cap \/ Expected[f].at + Expected[f].n > StreamLen THEN 0
                  ELSE 1 + Deliverable(f + 1)
\* the header on the wire always says how many body bytes follow; packets that do not fit the header are refused
NoTruncHeader == /\ \A f \in 1..Len(wire) : wire[f].hdr = wire[f].blen /\ wire[f].blen = cfg.pk[wire[f].pkt]
                 /\ \A i \in 1..Len(wres) : (wres[i] = "refused") <=> (cfg.pk[i] > MaxLen)
\* whatever happens, what was returned is a prefix of what was written: nothing merged, split or fabricated
ErrNotGarbage == res # "writing" => IsPrefix(out, Expected) /\ Len(out) <= Deliverable(1)
\* and once the reader has stopped, everything deliverable was returned - for every chunking
RoundTrip == res \in {"eof", "short"} => Len(out) >= Deliverable(1)
\* the reader never asks for bytes beyond the header or body it is reading
BoundedRead == (res = "reading" /\ pos < TotalLen) => pos + Want <= RegionEnd(pos)
\* the reader stops with an error exactly where the stream stops being deliverable
StopsWithError == (res = "reading" /\ Avail = 0) => ENABLED ReadEOF
====
