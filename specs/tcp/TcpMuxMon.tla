---- MODULE TcpMuxMon ----
(* Verdicts for C15 from what clients and application observed of the real TCPMuxDefault.     *)
(* No dependence on TcpMux!Next.  One line per environment action; "pre" is the observation    *)
(* taken before the action after waiting for quiescence (when "w").  The monitor keeps, as    *)
(* history variables, what the statement of C15 lets the environment expect: which ufrag has  *)
(* a packet connection (claimed by GetConnByUfrag, or provisional since when), which TCP      *)
(* connection belongs to which of them, and for which connections there is a reason to be    *)
(* closed by now.  Predicates whose expectation depends on how a race came out are judged     *)
(* only as long as no action was started while a client action or Close was still in flight   *)
(* ("gf"); the safety predicates and the final ones are judged on every trace.                *)
EXTENDS Naturals, Integers, Sequences, FiniteSets, TLC, Json
CONSTANTS TraceFile, MaxClients,
          Check      \* names of the predicates this run judges
Tr == ndJsonDeserialize(TraceFile)
CIds == 1..MaxClients
Ufrags == {"u1", "u9", "u1/6", "u9/6"}     \* registration keys: a ufrag in the IPv4 table, or ("/6") in the IPv6 table
K6(u) == u \o "/6"
Valid == {"known", "unknown", "late"}
UfragOf(b) == IF b = "unknown" THEN "u9" ELSE "u1"
Rng(s) == {s[k] : k \in 1..Len(s)}
Period == 2          \* a 30 s timer fires during the second 16 s Advance after it was armed

VARIABLES l, ev, pre, pv,   \* next line to load; the line being judged, its observation, the line before it
          beh,     \* behaviours of this trace's clients
          advN,    \* Advance steps so far
          cs,      \* client -> [st, since, gen, must, cause, first]
          reg,     \* ufrag -> [st : "none" | "claimed" | "prov", since, gen]
          hs,      \* handles: [u, gen, live, afterRemove]
          rep,     \* client -> replies successfully written to its address
          gen,     \* packet-connection generations handed out so far
          closeAt, \* Advance count when Close was called, -1 before
          gf       \* an action did not wait for a client action or Close before it: races possible
vars == <<l, ev, pre, pv, beh, advN, cs, reg, hs, rep, gen, closeAt, gf>>
NoC == [st |-> "idle", since |-> 0, gen |-> 0, must |-> "", cause |-> FALSE, first |-> FALSE]
NoR == [st |-> "none", since |-> 0, gen |-> 0]
EmptyObs == [cl |-> <<>>, h |-> <<>>, cret |-> FALSE, lc |-> FALSE]

Init == /\ l = 1 /\ ev = [ev |-> "None", w |-> TRUE] /\ pv = [ev |-> "None", w |-> TRUE] /\ pre = EmptyObs /\ beh = <<>> /\ advN = 0
        /\ cs = [c \in CIds |-> NoC] /\ reg = [u \in Ufrags |-> NoR] /\ hs = <<>> /\ rep = [c \in CIds |-> <<>>]
        /\ gen = 0 /\ closeAt = 0 - 1 /\ gf = FALSE

\* ---------------------------------------------------------------- what the environment may expect (history)
\* the first frame of client c reaches a mux whose handleConn is still waiting for it
FirstFrame(c, C, R, G) ==
  IF C[c].st # "wait" THEN <<C, R, G>>
  ELSE IF beh[c] \notin Valid THEN <<[C EXCEPT ![c].st = "gone", ![c].must = "bad", ![c].cause = TRUE, ![c].first = TRUE], R, G>>
  ELSE LET u == UfragOf(beh[c]) IN
       IF R[u].st = "none"
       THEN <<[C EXCEPT ![c].st = "att", ![c].gen = G + 1, ![c].first = TRUE],
              [R EXCEPT ![u] = [st |-> "prov", since |-> advN, gen |-> G + 1]], G + 1>>
       ELSE <<[C EXCEPT ![c].st = "att", ![c].gen = R[u].gen, ![c].first = TRUE], R, G>>
\* everything attached to generation g is now closed for a stated reason
Drop(C, g, why) == [c \in CIds |-> IF C[c].st = "att" /\ C[c].gen = g THEN [C[c] EXCEPT !.st = "gone", !.must = why, !.cause = TRUE] ELSE C[c]]
Kill(H, g) == [h \in 1..Len(H) |-> IF H[h].gen = g THEN [H[h] EXCEPT !.live = FALSE] ELSE H[h]]

\* Loading line l makes it the line under judgement (ev, pre); the history variables then hold what was expected
\* BEFORE that line, i.e. they are advanced by the previously judged line e.
Step ==
  /\ l <= Len(Tr) /\ l' = l + 1 /\ ev' = Tr[l] /\ pre' = Tr[l].pre /\ pv' = ev
  /\ LET e == ev
         racy == (~Tr[l].w /\ ev.ev \in {"Dial", "Send", "CClose", "Close", "Skipped"}) \/ ev.ev = "HoldAdd" IN   \* a held gate: not a quiescent trace any more
     IF e.ev \in {"None", "Exit", "End"}
     THEN UNCHANGED <<beh, advN, cs, reg, hs, rep, gen, closeAt, gf>>
     ELSE IF e.ev = "Reset"
     THEN /\ beh' = e.beh /\ advN' = 0 /\ cs' = [c \in CIds |-> NoC] /\ reg' = [u \in Ufrags |-> NoR] /\ hs' = <<>>
          /\ rep' = [c \in CIds |-> <<>>] /\ gen' = 0 /\ closeAt' = 0 - 1 /\ gf' = racy
     ELSE
       /\ beh' = beh /\ gf' = (gf \/ racy)
       /\ advN' = IF e.ev = "Advance" THEN advN + 1 ELSE advN
       /\ closeAt' = IF e.ev = "Close" /\ closeAt < 0 THEN advN ELSE closeAt     \* a second Close call changes nothing
       /\ rep' = IF e.ev = "Reply" /\ e.ok THEN [rep EXCEPT ![e.c] = Append(@, e.r)] ELSE rep
       /\ CASE e.ev = "Dial" ->
                 LET C1 == [cs EXCEPT ![e.c] = [NoC EXCEPT !.st = "wait", !.since = advN]]
                     r == IF beh[e.c] = "earlyclose"
                          THEN <<[C1 EXCEPT ![e.c].st = "gone", ![e.c].must = "eof", ![e.c].cause = TRUE], reg, gen>>
                          ELSE IF beh[e.c] \in {"silent", "stalled", "late"} THEN <<C1, reg, gen>>
                          ELSE FirstFrame(e.c, C1, reg, gen) IN
                 cs' = r[1] /\ reg' = r[2] /\ gen' = r[3] /\ hs' = hs
            [] e.ev = "Send" ->
                 LET r == IF e.k = 1 THEN FirstFrame(e.c, cs, reg, gen) ELSE <<cs, reg, gen>> IN
                 cs' = r[1] /\ reg' = r[2] /\ gen' = r[3] /\ hs' = hs
            [] e.ev = "CClose" ->
                 \* handleConn still waiting for the first frame sees the end of the stream at once; a reader goroutine may be
                 \* blocked handing a packet to the application and notice later (no demand then, only a reason)
                 /\ cs' = [cs EXCEPT ![e.c].must = IF @ = "" /\ cs[e.c].st = "wait" THEN "eof" ELSE @, ![e.c].cause = TRUE, ![e.c].st = "gone"]
                 /\ UNCHANGED <<reg, gen, hs>>
            [] e.ev = "Get" /\ e.ok ->
                 LET fresh == reg[e.u].st = "none"
                     g == IF fresh THEN gen + 1 ELSE reg[e.u].gen IN
                 /\ reg' = [reg EXCEPT ![e.u] = [st |-> "claimed", since |-> advN, gen |-> g]]
                 /\ gen' = IF fresh THEN gen + 1 ELSE gen
                 /\ hs' = Append(hs, [u |-> e.u, gen |-> g, live |-> TRUE,
                                      afterRemove |-> (~e.w /\ pv.ev = "Remove" /\ pv.u = e.u)])
                 /\ cs' = cs
            [] e.ev = "Remove" ->      \* RemoveConnByUfrag removes what is registered under the ufrag in both tables
                 LET gs == {reg[k].gen : k \in {x \in {e.u, K6(e.u)} : reg[x].st # "none"}} IN
                 /\ cs' = [c \in CIds |-> IF cs[c].st = "att" /\ cs[c].gen \in gs THEN [cs[c] EXCEPT !.st = "gone", !.must = "removed", !.cause = TRUE] ELSE cs[c]]
                 /\ hs' = [h \in 1..Len(hs) |-> IF hs[h].gen \in gs THEN [hs[h] EXCEPT !.live = FALSE] ELSE hs[h]]
                 /\ reg' = [k \in Ufrags |-> IF k \in {e.u, K6(e.u)} THEN NoR ELSE reg[k]] /\ gen' = gen
            [] e.ev = "Close" ->
                 /\ cs' = [c \in CIds |-> IF cs[c].st = "att" THEN [cs[c] EXCEPT !.st = "gone", !.must = "closed", !.cause = TRUE]
                                          ELSE IF cs[c].st = "wait" THEN [cs[c] EXCEPT !.cause = TRUE] ELSE cs[c]]
                 /\ hs' = [h \in 1..Len(hs) |-> [hs[h] EXCEPT !.live = FALSE]]
                 /\ reg' = [u \in Ufrags |-> NoR] /\ gen' = gen
            [] e.ev = "Advance" ->
                 \* first-frame deadlines and alive timers that expire during this step
                 LET late == {c \in CIds : cs[c].st = "wait" /\ advN + 1 >= cs[c].since + Period}
                     dead == {u \in Ufrags : reg[u].st = "prov" /\ advN + 1 >= reg[u].since + Period}
                     C1 == [c \in CIds |-> IF c \in late THEN [cs[c] EXCEPT !.st = "gone", !.must = "late", !.cause = TRUE] ELSE cs[c]] IN
                 /\ cs' = [c \in CIds |-> IF C1[c].st = "att" /\ \E u \in dead : reg[u].gen = C1[c].gen
                                          THEN [C1[c] EXCEPT !.st = "gone", !.must = "expired", !.cause = TRUE] ELSE C1[c]]
                 /\ reg' = [u \in Ufrags |-> IF u \in dead THEN NoR ELSE reg[u]]
                 /\ UNCHANGED <<gen, hs>>
            [] OTHER -> UNCHANGED <<cs, reg, gen, hs>>
Spec == Init /\ [][Step]_vars

\* ---------------------------------------------------------------- predicates over the observation "pre" (state after line l-2, before ev)
NC == Len(beh)
Judge == ev.ev \notin {"None", "Reset", "Exit"} /\ ev.w      \* the observation before ev was taken at quiescence
Calm == Judge /\ ~gf
From(del, c) == SelectSeq(del, LAMBDA x : x[1] = c)
InOrder(s) == \A k \in 1..Len(s) : s[k][2] = k \/ (k = Len(s) /\ s[k][2] = 0)
\* the handle through which the driver reads generation g
ReaderOf(g) == IF \E h \in 1..Len(pre.h) : hs[h].gen = g /\ pre.h[h].reads
               THEN CHOOSE h \in 1..Len(pre.h) : hs[h].gen = g /\ pre.h[h].reads ELSE 0
NH == IF Len(pre.h) < Len(hs) THEN Len(pre.h) ELSE Len(hs)

\* what is read from a packet connection came from a connection whose first frame named that ufrag, with that
\* connection's address, each connection's packets in order, none twice, none invented
RoutedSafe == Judge => \A h \in 1..Len(pre.h) : \A x \in Rng(pre.h[h].del) :
                          /\ x[1] \in 1..NC /\ beh[x[1]] \in Valid /\ UfragOf(beh[x[1]]) = pre.h[h].u /\ x[2] # 99
                          /\ InOrder(From(pre.h[h].del, x[1]))
\* a reply reaches exactly the client it was addressed to
RepliesRouted == Calm => \A c \in 1..NC : pre.cl[c].rx = rep[c]
\* a reply written through a live handle to the address of a connection that is attached to that handle's packet connection and
\* still open is accepted (whatever was done to other handles of the same packet connection)
ReplyAccepted == (Calm /\ ev.ev = "Reply" /\ ev.h \in 1..Len(hs) /\ ev.c \in 1..NC) =>
                   ((hs[ev.h].live /\ cs[ev.c].st = "att" /\ cs[ev.c].gen = hs[ev.h].gen /\ ~pre.cl[ev.c].sc) => ev.ok)
\* first frame and all later packets of a connection are delivered on the packet connection of its ufrag
RoutedComplete == Calm => \A c \in 1..NC :
                     (cs[c].st = "att" /\ ~pre.cl[c].sc /\ reg[UfragOf(beh[c])].st = "claimed" /\ reg[UfragOf(beh[c])].gen = cs[c].gen)
                       => LET h == ReaderOf(cs[c].gen) IN
                          h # 0 /\ h <= NH /\ From(pre.h[h].del, c) = [k \in 1..pre.cl[c].wr |-> <<c, k>>]
\* the packet connection the application holds for a ufrag stays open until Remove or Close
HandleAlive == Calm => \A h \in 1..NH : hs[h].live => ~pre.h[h].closed
\* the mux closes a TCP connection only for a reason the statement gives
NoSpuriousClose == Calm => \A c \in 1..NC : pre.cl[c].sc => cs[c].cause
RoutedByFirstUfrag == RoutedSafe /\ RepliesRouted /\ ReplyAccepted /\ RoutedComplete /\ HandleAlive /\ NoSpuriousClose
\* bad, missing or late first frame: closed
MustBy(reasons) == Calm => \A c \in 1..NC : cs[c].must \in reasons => pre.cl[c].sc
BadFirstFrameClosed == MustBy({"bad", "late", "eof"})
ProvisionalExpires == MustBy({"expired"})
\* Remove / Close close the TCP connections; once Close has returned the listener and every connection are closed;
\* at the end of every trace (Close called, every timer given time) Close has returned and nothing is open;
\* no goroutine is left when the bubble is left
Dialled(c) == cs[c].st # "idle"
CloseCompletes ==
  /\ MustBy({"removed", "closed"})
  /\ Judge => (pre.cret => pre.lc /\ \A c \in 1..NC : Dialled(c) => pre.cl[c].sc)
  /\ (ev.ev = "End") => pre.cret /\ pre.lc /\ \A c \in 1..NC : Dialled(c) => pre.cl[c].sc
  /\ (ev.ev = "Exit") => ~ev.leak
\* GetConnByUfrag fails exactly after Close
GetAfterClose == (ev.ev = "Get" /\ ~gf) => (ev.ok <=> closeAt < 0)

P(n) == CASE n = "RoutedByFirstUfrag" -> RoutedByFirstUfrag []
             n = "RoutedSafe" -> RoutedSafe [] n = "RepliesRouted" -> RepliesRouted [] n = "ReplyAccepted" -> ReplyAccepted [] n = "RoutedComplete" -> RoutedComplete []
             n = "HandleAlive" -> HandleAlive [] n = "NoSpuriousClose" -> NoSpuriousClose []
             n = "BadFirstFrameClosed" -> BadFirstFrameClosed []
             n = "ProvisionalExpires" -> ProvisionalExpires []
             n = "CloseCompletes" -> CloseCompletes []
             n = "GetAfterClose" -> GetAfterClose
\* line l-1 is under judgement
Report == \A n \in Check : P(n) \/ PrintT(<<"VIOL", n, l - 1>>)
====
