---- MODULE MC_TcpFraming ----
(* Small-scale instance: header bytes with two values, so lengths 0..3 fit the header and *)
(* 4, 5 stand for "65536 and more"; every sequence of up to N packets, buffers 0..3,     *)
(* 0..3 bytes cut off the end.                                                            *)
EXTENDS TcpFraming
CONSTANTS N, Lens, Caps, Truncs
SeqsUpTo(n) == UNION {[1..k -> Lens] : k \in 1..n}
MCConfigs == {[pk |-> s, cap |-> c, trunc |-> t] : s \in SeqsUpTo(N), c \in Caps, t \in Truncs}
====
