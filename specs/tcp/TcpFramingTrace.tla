---- MODULE TcpFramingTrace ----
(* Conformance: every step recorded from the real writer and reader (calls of the writer, *)
(* every conn.Read with the number of bytes asked and given, every return of the reader)  *)
(* must be an action of TcpFraming with the same parameters and the same visible result.  *)
EXTENDS TcpFraming, Json
CONSTANT TraceFile
Tr == ndJsonDeserialize(TraceFile)
VARIABLE l
tv == <<vars, l>>
J == Tr[l]
Ev(e) == l <= Len(Tr) /\ J.ev = e /\ l' = l + 1
Dummy == {[pk |-> <<>>, cap |-> 0, trunc |-> 0]}
TInit == Init /\ l = 1
TReset == /\ Ev("Reset")
          /\ cfg' = [pk |-> J.pk, cap |-> J.cap, trunc |-> J.trunc]
          /\ wire' = <<>> /\ wres' = <<>> /\ pos' = 0 /\ phase' = "hdr" /\ hgot' = 0 /\ hval' = 0
          /\ need' = 0 /\ got' = 0 /\ start' = 0 /\ out' = <<>> /\ res' = "writing"
TWrite == /\ Ev("W") /\ Write
          /\ J.ok <=> wres'[Len(wres')] = "ok"
          /\ J.ok => wire'[Len(wire')].hdr = J.hdr /\ wire'[Len(wire')].blen = J.blen
TDone == Ev("WD") /\ WriterDone
TRead == Ev("R") /\ Want = J.a /\ (IF J.g > 0 THEN ReadChunk(J.g) ELSE ReadEOF)
TRet == /\ Ev("Ret") /\ UNCHANGED vars
        /\ IF J.err = "" THEN res = "reading" /\ Len(out) = J.k /\ out[J.k].n = J.n /\ out[J.k].at = J.at
           ELSE res = J.err /\ Len(out) = J.k
TNext == TReset \/ TWrite \/ TDone \/ TRead \/ TRet
TSpec == TInit /\ [][TNext]_tv
Accepted == IF TLCGet("stats").diameter = Len(Tr) + 1 THEN TRUE
            ELSE Print(<<"TRACE_REJECTED_AT", TLCGet("stats").diameter, Len(Tr)>>, FALSE)
====
