---- MODULE TcpMuxTrace ----
(* Conformance: what clients and application observed of the real TCPMuxDefault must be       *)
(* explained by TcpMux.  The driver logs the environment's actions; the goroutines of the mux *)
(* cannot be logged, so between two logged actions any number of the model's internal steps   *)
(* may happen.  Where the driver waited for quiescence before an action ("w"), the model must *)
(* be idle there and its visible state must equal the logged observation.                     *)
EXTENDS TcpMux, Json
CONSTANT TraceFile
Tr == ndJsonDeserialize(TraceFile)
VARIABLES l,
          cc,   \* the driver has started Close on a goroutine of its own, which has not reached m.mu.Lock() yet
          held  \* the driver holds the gate at AddConn's yield point: a handleConn that has found its packet conn stays at "add"
tv == <<vars, l, cc, held>>
\* the mux's own steps while the gate is held: everything but the AddConn step
InternalT == Internal /\ (held => \A c \in Clients : hc[c] = "add" => hc'[c] = "add")
QuietT == IF held THEN ~ENABLED InternalT ELSE Quiet
J == Tr[l]
FirstFor(h) == \A g \in 1..(h - 1) : handles[g] # handles[h]
ObsOK(o) ==
  /\ \A c \in Clients : c <= Len(o.cl) => o.cl[c].sc = sclosed[c] /\ o.cl[c].rx = rx[c]
  /\ Len(o.h) = Len(handles)
  /\ \A h \in 1..Len(handles) :
        /\ o.h[h].del = (IF FirstFor(h) THEN delivered[handles[h]] ELSE <<>>)
        /\ o.h[h].closed = (FirstFor(h) /\ seenClosed[handles[h]])
  /\ o.cret = (clS = "ret" \/ c2S = "ret") /\ o.lc = lclosed      \* "a Close call has returned"
\* the driver is between two calls: not inside RemoveConnByUfrag; if it waited, the mux is idle and looks as logged
Ready == /\ l <= Len(Tr) /\ rmS = "idle"
         /\ J.w => QuietT /\ ~cc /\ ObsOK(J.pre)
Ev1(e) == Ready /\ J.ev = e /\ l' = l + 1 /\ UNCHANGED <<races, c2S>>
Ev0(e) == Ev1(e) /\ UNCHANGED held
Ev(e) == Ev0(e) /\ UNCHANGED rmTodo
TInit == Init /\ l = 1 /\ cc = FALSE /\ held = FALSE
TReset == /\ l <= Len(Tr) /\ J.ev = "Reset" /\ l' = l + 1 /\ held' = FALSE
          /\ beh' = [c \in Clients |-> IF c <= Len(J.beh) THEN J.beh[c] ELSE "silent"]
          /\ cst' = [c \in Clients |-> "idle"] /\ sent' = [c \in Clients |-> 0] /\ pipe' = [c \in Clients |-> <<>>]
          /\ sclosed' = [c \in Clients |-> FALSE] /\ rx' = [c \in Clients |-> <<>>]
          /\ hc' = [c \in Clients |-> "none"] /\ hcT' = [c \in Clients |-> Off] /\ hcP' = [c \in Clients |-> 0]
          /\ rd' = [c \in Clients |-> "none"] /\ rdK' = [c \in Clients |-> 0] /\ att' = [c \in Clients |-> 0]
          /\ pcs' = [i \in Ids |-> NoPc] /\ npc' = 0 /\ map' = [u \in MKeys |-> 0]
          /\ mu' = "free" /\ mclosed' = FALSE /\ lclosed' = FALSE /\ acc' = "run" /\ wg' = 1
          /\ wat' = [i \in Ids |-> "none"] /\ tim' = [i \in Ids |-> "none"] /\ closers' = [s \in Slots |-> Idle]
          /\ rmS' = "idle" /\ clS' = "idle" /\ clTodo' = {} /\ c2S' = "idle" /\ rmTodo' = {}
          /\ handles' = <<>> /\ delivered' = [i \in Ids |-> <<>>] /\ seenClosed' = [i \in Ids |-> FALSE]
          /\ stale' = FALSE /\ gets' = 0 /\ rms' = 0 /\ adv' = 0 /\ reps' = 0 /\ races' = 0 /\ cc' = FALSE
TNext == \/ InternalT /\ UNCHANGED <<l, races, cc, held>>
         \/ cc /\ CloseLock /\ cc' = FALSE /\ UNCHANGED <<l, races, c2S, rmTodo, held>>
         \/ Ev1("HoldAdd") /\ held' = TRUE /\ UNCHANGED <<mvars, rmTodo, cc>>
         \/ Ev1("FreeAdd") /\ held' = FALSE /\ UNCHANGED <<mvars, rmTodo, cc>>
         \/ TReset
         \/ Ev("Dial") /\ UNCHANGED cc /\ Dial(J.c)
         \/ Ev("Send") /\ UNCHANGED cc /\ ClientSend(J.c) /\ sent'[J.c] = J.k
         \/ Ev("CClose") /\ UNCHANGED cc /\ ClientClose(J.c)
         \/ Ev("Get") /\ UNCHANGED cc /\ Get(J.u) /\ (J.ok <=> ~mclosed)
         \/ Ev0("Remove") /\ UNCHANGED cc /\ RemoveBegin(J.u)
         \/ Ev("Close") /\ clS = "idle" /\ ~cc /\ cc' = TRUE /\ UNCHANGED mvars
         \* a second Close call while the first is under way (or has not reached the lock yet)
         \/ Ready /\ J.ev = "Close" /\ (cc \/ clS # "idle") /\ c2S = "idle" /\ c2S' = "want" /\ l' = l + 1 /\ UNCHANGED <<mvars, races, cc, rmTodo, held>>
         \/ Ev("Advance") /\ UNCHANGED cc /\ Advance
         \/ Ev("Reply") /\ UNCHANGED cc /\ Reply(handles[J.h], J.c) /\ reps' = J.r
                        /\ (J.ok <=> (J.c \in pcs[handles[J.h]].conns /\ ~sclosed[J.c] /\ cst[J.c] = "open"))
         \/ Ev("Skipped") /\ UNCHANGED cc /\ UNCHANGED mvars
         \/ Ev("HAbort") /\ UNCHANGED cc /\ UNCHANGED mvars     \* deadline + Close on one of several handles: private to that handle
         \/ Ev("End") /\ UNCHANGED cc /\ UNCHANGED mvars
         \/ l <= Len(Tr) /\ J.ev = "Exit" /\ l' = l + 1 /\ UNCHANGED <<vars, cc, held>>
TSpec == TInit /\ [][TNext]_tv
\* high-water mark of the trace position (one worker)
HWM == IF l > TLCGet(1) THEN TLCSet(1, l) ELSE TRUE
HWMInit == TLCSet(1, 0)
ASSUME HWMInit
Accepted == IF TLCGet(1) = Len(Tr) + 1 THEN TRUE
            ELSE Print(<<"TRACE_REJECTED_AT", TLCGet(1), Len(Tr)>>, FALSE)
====
