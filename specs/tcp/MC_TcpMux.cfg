CONSTANTS
  c1 = c1
  c2 = c2
  Clients <- MCClients
  Behaviours = {"known", "unknown", "garbage", "silent", "earlyclose"}
  MaxPc = 4
  RB = 1
  MaxLater = 1
  MaxGet = 2
  MaxRm = 1
  MaxAdv = 2
  MaxReply = 0
  MaxRaces = 1
  StaleWatcher = FALSE
  MaxExt = 7
SYMMETRY MCSym
SPECIFICATION Spec
INVARIANTS TypeOK RoutedByFirstUfrag RepliesOnSameConn BadFirstFrameClosed ProvisionalExpires WgCounts CloseCompletes CloseProgress NoStaleRemoval
CHECK_DEADLOCK FALSE
