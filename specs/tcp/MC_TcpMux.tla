---- MODULE MC_TcpMux ----
EXTENDS TcpMux
CONSTANTS c1, c2
MCClients == {c1, c2}
MCSym == Permutations(MCClients)
====
