---- MODULE TcpMux ----
(* TCPMuxDefault of pion/ice (property C15): accepted TCP connections are routed to the     *)
(* packet connection of the ufrag in the USERNAME of their first framed STUN Binding        *)
(* message; bad first frames, silence and unclaimed provisional packet connections are      *)
(* cleaned up by timers; Close stops everything and waits for the mux's goroutines.          *)
(*                                                                                            *)
(* Grain: one action = one critical section or one blocking point of one goroutine           *)
(* (handleConn, the per-connection reader of tcpPacketConn, the watcher goroutine started    *)
(* by createConn, the alive timer, and the API callers GetConnByUfrag / RemoveConnByUfrag /  *)
(* Close).  m.mu is a lock variable because Close holds it across blocking calls; t.mu       *)
(* sections are atomic.  The WaitGroup m.wg is a counter.  Time is a countdown per armed     *)
(* timer: Advance is a step of a little more than half the 30 s period, so a timer fires     *)
(* during the second Advance after it was armed.                                              *)
EXTENDS Naturals, Sequences, FiniteSets, TLC
CONSTANTS Clients,      \* e.g. {1, 2}
          Behaviours,   \* subset of AllBehaviours the clients may show
          MaxPc,        \* packet connections that may ever be created
          RB,           \* capacity of recvChan (TCPMuxParams.ReadBufferSize), >= 1
          MaxLater,     \* packets a well-behaved client sends after its first frame
          MaxGet, MaxRm, MaxAdv, MaxReply,
          StaleWatcher, \* FALSE: a watcher goroutine unlists only its own packet conn (the specification);
                        \* TRUE: near miss - it unlists whatever is registered under its ufrag when it runs (F-C15a, repaired)
          MaxExt,       \* environment actions per behaviour (bounded exploration)
          MaxRaces      \* how many calls/client actions may start while the mux is still busy with earlier ones

AllBehaviours == {"known", "unknown", "late", "garbage", "nonbinding", "nouser", "oversize", "silent", "stalled", "earlyclose"}
\* "stalled": the client writes the length prefix and a part of the frame, and nothing more: no frame ever arrives (like "silent" at
\* the grain of frames; the mux reads bytes, and its first-frame deadline has to cover all of them)
Valid == {"known", "unknown", "late"}       \* "late": like "known", but the first frame is not written when connecting
Ufrags == {"u1", "u9"}                 \* u1: the ufrag the application asks for; u9: nobody asked (yet)
UfragOf(b) == IF b = "unknown" THEN "u9" ELSE "u1"
\* the mux keeps one table per IP family; a packet conn is registered under (ufrag, family). Accepted connections arrive over
\* IPv4 here; the IPv6 table only ever holds packet conns the application asked for. Key of (u, IPv6): the ufrag followed by "/6".
WithV6 == TRUE
K6(u) == u \o "/6"
MKeys == Ufrags \cup (IF WithV6 THEN {K6(u) : u \in Ufrags} ELSE {})
\* frames a client sends, by behaviour: frame 1 is the first frame, later ones are data packets
NFrames(b) == IF b \in Valid THEN 1 + MaxLater ELSE IF b \in {"silent", "stalled", "earlyclose"} THEN 0 ELSE 1
Ids == 1..MaxPc
NoPc == [uf |-> "", prov |-> FALSE, timer |-> 0, closed |-> FALSE, rclosed |-> FALSE, q |-> <<>>, conns |-> {}]
Slots == {"cl", "rm"} \cup {"w" \o ToString(i) : i \in Ids} \cup {"t" \o ToString(i) : i \in Ids}
WSlot(i) == "w" \o ToString(i)
TSlot(i) == "t" \o ToString(i)
Idle == [ph |-> "idle", tgt |-> 0, fst |-> FALSE]

VARIABLES beh,       \* client -> behaviour
          cst,       \* client side: "idle" (not dialled), "open", "closed" (client closed its end)
          sent,      \* frames the client has offered so far
          pipe,      \* frames offered and not yet read by the server (sequence of frame numbers)
          sclosed,   \* the server closed this TCP connection (what the client observes as EOF)
          rx,        \* replies the client received (sequence of numbers)
          hc, hcT, hcP,   \* handleConn goroutine: pc, first-frame deadline countdown (0 - 1 + 1 = disarmed is 9), chosen packet conn
          rd, rdK, att,   \* reader goroutine of tcpPacketConn: pc, frame in hand, packet conn the connection is attached to
          pcs, npc, map,  \* packet connections by id, ids allocated, ufrag -> id (0: none)
          mu, mclosed, lclosed, acc, wg,
          wat,       \* watcher goroutine per packet conn: "none", "wait", "lock", "closing", "done"
          tim,       \* alive-timer goroutine per packet conn: "none", "closing", "done"
          closers,   \* who is inside tcpPacketConn.Close: slot -> [ph, tgt, fst]
          rmS, clS, clTodo,
          rmTodo,    \* RemoveConnByUfrag: the packet conns it has unlisted and still has to close (one after the other, outside m.mu)
          c2S,       \* a second Close call made while the first is under way: "idle", "want" (before m.mu.Lock()), "wait" (in wg.Wait()), "ret"
          handles,   \* packet conn ids returned by GetConnByUfrag, in call order
          delivered, \* id -> what the application has read from it: <<client, frame>> (frame 0: an error)
          seenClosed,\* id -> the application's ReadFrom reported the connection closed
          stale,     \* history: a watcher removed a packet conn other than its own
          gets, rms, adv, reps,
          races      \* environment actions so far that did not wait for the mux to become idle
vars == <<beh, cst, sent, pipe, sclosed, rx, hc, hcT, hcP, rd, rdK, att, pcs, npc, map, mu, mclosed, lclosed, acc, wg,
          wat, tim, closers, rmS, clS, clTodo, handles, delivered, seenClosed, stale, gets, rms, adv, reps, races, c2S, rmTodo>>
\* everything but races, c2S and rmTodo
mvars == <<beh, cst, sent, pipe, sclosed, rx, hc, hcT, hcP, rd, rdK, att, pcs, npc, map, mu, mclosed, lclosed, acc, wg,
           wat, tim, closers, rmS, clS, clTodo, handles, delivered, seenClosed, stale, gets, rms, adv, reps>>
cvars == <<beh, cst, sent, pipe, rx>>
Off == 9   \* a disarmed countdown

Init ==
  /\ beh \in [Clients -> Behaviours]
  /\ cst = [c \in Clients |-> "idle"] /\ sent = [c \in Clients |-> 0] /\ pipe = [c \in Clients |-> <<>>]
  /\ sclosed = [c \in Clients |-> FALSE] /\ rx = [c \in Clients |-> <<>>]
  /\ hc = [c \in Clients |-> "none"] /\ hcT = [c \in Clients |-> Off] /\ hcP = [c \in Clients |-> 0]
  /\ rd = [c \in Clients |-> "none"] /\ rdK = [c \in Clients |-> 0] /\ att = [c \in Clients |-> 0]
  /\ pcs = [i \in Ids |-> NoPc] /\ npc = 0 /\ map = [u \in MKeys |-> 0]
  /\ mu = "free" /\ mclosed = FALSE /\ lclosed = FALSE /\ acc = "run" /\ wg = 1
  /\ wat = [i \in Ids |-> "none"] /\ tim = [i \in Ids |-> "none"]
  /\ closers = [s \in Slots |-> Idle]
  /\ rmS = "idle" /\ clS = "idle" /\ clTodo = {} /\ c2S = "idle" /\ rmTodo = {}
  /\ handles = <<>> /\ delivered = [i \in Ids |-> <<>>] /\ seenClosed = [i \in Ids |-> FALSE]
  /\ stale = FALSE /\ gets = 0 /\ rms = 0 /\ adv = 0 /\ reps = 0 /\ races = 0

\* reader goroutines of packet conn i that have not ended (t.wg)
Pwg(i) == Cardinality({c \in Clients : att[c] = i /\ rd[c] \notin {"none", "done"}})
Claimed(i) == \E h \in 1..Len(handles) : handles[h] = i

\* ---------------------------------------------------------------- clients (the environment)
\* connect; every client except "silent" and "late" writes its first frame at once, "earlyclose" closes instead
Dial(c) == /\ cst[c] = "idle" /\ ~lclosed
           /\ cst' = [cst EXCEPT ![c] = IF beh[c] = "earlyclose" THEN "closed" ELSE "open"]
           /\ LET f == IF NFrames(beh[c]) > 0 /\ beh[c] # "late" THEN 1 ELSE 0 IN
                sent' = [sent EXCEPT ![c] = f] /\ pipe' = [pipe EXCEPT ![c] = IF f = 1 THEN <<1>> ELSE <<>>]
           /\ hc' = [hc EXCEPT ![c] = "wait"] /\ hcT' = [hcT EXCEPT ![c] = 2]
           /\ wg' = wg + 1
           /\ UNCHANGED <<beh, sclosed, rx, hcP, rd, rdK, att, pcs, npc, map, mu, mclosed, lclosed, acc, wat, tim,
                          closers, rmS, clS, clTodo, handles, delivered, seenClosed, stale, gets, rms, adv, reps>>
ClientSend(c) == /\ cst[c] = "open" /\ sent[c] < NFrames(beh[c]) /\ ~sclosed[c]
                 /\ sent' = [sent EXCEPT ![c] = @ + 1] /\ pipe' = [pipe EXCEPT ![c] = Append(@, sent[c] + 1)]
                 /\ UNCHANGED <<beh, cst, sclosed, rx, hc, hcT, hcP, rd, rdK, att, pcs, npc, map, mu, mclosed, lclosed, acc, wg, wat, tim,
                                closers, rmS, clS, clTodo, handles, delivered, seenClosed, stale, gets, rms, adv, reps>>
\* the client closes its end (only when everything it wrote has been read: a pending net.Pipe write would be lost)
ClientClose(c) == /\ cst[c] = "open" /\ pipe[c] = <<>> /\ beh[c] \in Valid
                  /\ cst' = [cst EXCEPT ![c] = "closed"]
                  /\ UNCHANGED <<beh, sent, pipe, sclosed, rx, hc, hcT, hcP, rd, rdK, att, pcs, npc, map, mu, mclosed, lclosed, acc, wg, wat, tim,
                                 closers, rmS, clS, clTodo, handles, delivered, seenClosed, stale, gets, rms, adv, reps>>

\* ---------------------------------------------------------------- accept loop
AcceptExit == /\ acc = "run" /\ lclosed /\ acc' = "done" /\ wg' = wg - 1
              /\ UNCHANGED <<cvars, sclosed, hc, hcT, hcP, rd, rdK, att, pcs, npc, map, mu, mclosed, lclosed, wat, tim,
                             closers, rmS, clS, clTodo, handles, delivered, seenClosed, stale, gets, rms, adv, reps>>

\* ---------------------------------------------------------------- handleConn
HcEnd(c, closeIt) == /\ hc' = [hc EXCEPT ![c] = "done"] /\ hcT' = [hcT EXCEPT ![c] = Off] /\ wg' = wg - 1
                     /\ sclosed' = [sclosed EXCEPT ![c] = @ \/ closeIt]
\* the first frame arrives: a valid one is kept, anything else closes the connection
HcRead(c) == /\ hc[c] = "wait" /\ pipe[c] # <<>>
             /\ pipe' = [pipe EXCEPT ![c] = Tail(@)]
             /\ IF beh[c] \in Valid
                THEN hc' = [hc EXCEPT ![c] = "got"] /\ hcT' = [hcT EXCEPT ![c] = Off] /\ UNCHANGED <<wg, sclosed>>
                ELSE HcEnd(c, TRUE)
             /\ UNCHANGED <<beh, cst, sent, rx, hcP, rd, rdK, att, pcs, npc, map, mu, mclosed, lclosed, acc, wat, tim,
                            closers, rmS, clS, clTodo, handles, delivered, seenClosed, stale, gets, rms, adv, reps>>
\* end of stream or first-frame deadline before a complete first frame
HcFail(c) == /\ hc[c] = "wait" /\ pipe[c] = <<>> /\ (cst[c] = "closed" \/ hcT[c] = 0)
             /\ HcEnd(c, TRUE)
             /\ UNCHANGED <<cvars, hcP, rd, rdK, att, pcs, npc, map, mu, mclosed, lclosed, acc, wat, tim,
                            closers, rmS, clS, clTodo, handles, delivered, seenClosed, stale, gets, rms, adv, reps>>
\* createConn (under m.mu): a new packet conn with its watcher goroutine; provisional ones carry the alive timer
Create(u, prov) == /\ npc < MaxPc /\ npc' = npc + 1
                   /\ pcs' = [pcs EXCEPT ![npc + 1] = [NoPc EXCEPT !.uf = u, !.prov = prov, !.timer = IF prov THEN 2 ELSE Off]]
                   /\ map' = [map EXCEPT ![u] = npc + 1] /\ wat' = [wat EXCEPT ![npc + 1] = "wait"]
\* lookup or create under m.mu (also after Close: nothing checks m.closed here)
HcLookup(c) == /\ hc[c] = "got" /\ mu = "free"
               /\ LET u == UfragOf(beh[c]) IN
                    IF map[u] # 0 THEN hcP' = [hcP EXCEPT ![c] = map[u]] /\ UNCHANGED <<pcs, npc, map, wat, wg>>
                    ELSE Create(u, TRUE) /\ hcP' = [hcP EXCEPT ![c] = npc + 1] /\ wg' = wg + 1
               /\ hc' = [hc EXCEPT ![c] = "add"]
               /\ UNCHANGED <<cvars, sclosed, hcT, rd, rdK, att, mu, mclosed, lclosed, acc, tim,
                              closers, rmS, clS, clTodo, handles, delivered, seenClosed, stale, gets, rms, adv, reps>>
\* AddConn (under t.mu): refused if the packet conn was closed meanwhile, else the reader goroutine starts
HcAdd(c) == /\ hc[c] = "add"
            /\ LET i == hcP[c] IN
                 IF pcs[i].closed THEN HcEnd(c, TRUE) /\ UNCHANGED <<pcs, rd, att>>
                 ELSE /\ HcEnd(c, FALSE) /\ pcs' = [pcs EXCEPT ![i].conns = @ \cup {c}]
                      /\ rd' = [rd EXCEPT ![c] = "first"] /\ att' = [att EXCEPT ![c] = i]
            /\ UNCHANGED <<cvars, hcP, rdK, npc, map, mu, mclosed, lclosed, acc, wat, tim,
                           closers, rmS, clS, clTodo, handles, delivered, seenClosed, stale, gets, rms, adv, reps>>

\* ---------------------------------------------------------------- reader goroutine of tcpPacketConn
RdUnch == UNCHANGED <<cvars, hc, hcT, hcP, att, npc, map, mu, mclosed, lclosed, acc, wg, wat, tim,
                      closers, rmS, clS, clTodo, handles, delivered, seenClosed, stale, gets, rms, adv, reps>>
\* select { <-closedChan: return; recvChan <- first packet }
RdFirst(c) == /\ rd[c] = "first"
              /\ LET i == att[c] IN
                   \/ pcs[i].closed /\ rd' = [rd EXCEPT ![c] = "done"] /\ UNCHANGED <<pcs, rdK, sclosed>>
                   \/ Len(pcs[i].q) < RB /\ pcs' = [pcs EXCEPT ![i].q = Append(@, <<c, 1>>)]
                      /\ rd' = [rd EXCEPT ![c] = "loop"] /\ UNCHANGED <<rdK, sclosed>>
              /\ UNCHANGED pipe /\ RdUnch
\* readStreamingPacket: a frame, or an error (connection closed by the mux / end of stream)
RdRead(c) == /\ rd[c] = "loop"
             /\ LET i == att[c] IN
                  IF sclosed[c] \/ (pipe[c] = <<>> /\ cst[c] = "closed")
                  THEN \* removeConn; the error is passed on only if this was the last connection
                       /\ sclosed' = [sclosed EXCEPT ![c] = TRUE]
                       /\ pcs' = [pcs EXCEPT ![i].conns = @ \ {c}]
                       /\ rd' = [rd EXCEPT ![c] = IF pcs[i].conns \ {c} = {} THEN "pusherr" ELSE "done"]
                       /\ UNCHANGED <<rdK, pipe>>
                  ELSE /\ pipe[c] # <<>> /\ rdK' = [rdK EXCEPT ![c] = Head(pipe[c])] /\ pipe' = [pipe EXCEPT ![c] = Tail(@)]
                       /\ rd' = [rd EXCEPT ![c] = "push"] /\ UNCHANGED <<pcs, sclosed>>
             /\ UNCHANGED <<beh, cst, sent, rx>>
             /\ UNCHANGED <<hc, hcT, hcP, att, npc, map, mu, mclosed, lclosed, acc, wg, wat, tim,
                            closers, rmS, clS, clTodo, handles, delivered, seenClosed, stale, gets, rms, adv, reps>>
\* handleRecv: select { recvChan <- pkt; <-closedChan }
RdPush(c) == /\ rd[c] \in {"push", "pusherr"}
             /\ LET i == att[c]  k == IF rd[c] = "push" THEN rdK[c] ELSE 0  nxt == IF rd[c] = "push" THEN "loop" ELSE "done" IN
                  \/ pcs[i].closed /\ rd' = [rd EXCEPT ![c] = nxt] /\ UNCHANGED pcs
                  \/ Len(pcs[i].q) < RB /\ pcs' = [pcs EXCEPT ![i].q = Append(@, <<c, k>>)] /\ rd' = [rd EXCEPT ![c] = nxt]
             /\ UNCHANGED <<pipe, sclosed, rdK>> /\ RdUnch

\* ---------------------------------------------------------------- tcpPacketConn.Close as run by slot s on packet conn i
\* first part (under t.mu): closeOnce, stop the timer, close and forget every TCP connection
StartClose(s, i) == /\ closers[s].ph = "idle"
                    /\ closers' = [closers EXCEPT ![s] = [ph |-> "wait", tgt |-> i, fst |-> ~pcs[i].closed]]
                    /\ pcs' = [pcs EXCEPT ![i].closed = TRUE, ![i].prov = FALSE, ![i].timer = Off, ![i].conns = {}]
                    /\ sclosed' = [c \in Clients |-> sclosed[c] \/ c \in pcs[i].conns]
\* second part: t.wg.Wait(), then the first closer closes recvChan
CanFinish(s) == closers[s].ph = "wait" /\ Pwg(closers[s].tgt) = 0
FinishClose(s) == /\ CanFinish(s)
                  /\ pcs' = [pcs EXCEPT ![closers[s].tgt].rclosed = @ \/ closers[s].fst]
                  /\ closers' = [closers EXCEPT ![s] = Idle]

\* watcher goroutine started by createConn: <-conn.CloseChannel(); removeConnByUfragAndLocalHost(ufrag, key)
WatWake(i) == /\ wat[i] = "wait" /\ pcs[i].closed /\ wat' = [wat EXCEPT ![i] = "lock"]
              /\ UNCHANGED <<cvars, sclosed, hc, hcT, hcP, rd, rdK, att, pcs, npc, map, mu, mclosed, lclosed, acc, wg, tim,
                             closers, rmS, clS, clTodo, handles, delivered, seenClosed, stale, gets, rms, adv, reps>>
\* removeConnByUfragAndLocalHost(ufrag, key, own): unlist and close the packet conn registered under the ufrag - if it
\* still is this watcher's own one (with StaleWatcher: whatever is registered there now)
WatRemove(i) == /\ wat[i] = "lock" /\ mu = "free"
                /\ LET cur == map[pcs[i].uf] IN
                     IF cur = 0 \/ (cur # i /\ ~StaleWatcher)
                     THEN wat' = [wat EXCEPT ![i] = "done"] /\ wg' = wg - 1 /\ UNCHANGED <<map, pcs, sclosed, closers, stale>>
                     ELSE /\ map' = [map EXCEPT ![pcs[i].uf] = 0] /\ StartClose(WSlot(i), cur) /\ wat' = [wat EXCEPT ![i] = "closing"]
                          /\ stale' = (stale \/ cur # i) /\ UNCHANGED wg
                /\ UNCHANGED <<cvars, hc, hcT, hcP, rd, rdK, att, npc, mu, mclosed, lclosed, acc, tim,
                               rmS, clS, clTodo, handles, delivered, seenClosed, gets, rms, adv, reps>>
WatDone(i) == /\ wat[i] = "closing" /\ FinishClose(WSlot(i)) /\ wat' = [wat EXCEPT ![i] = "done"] /\ wg' = wg - 1
              /\ UNCHANGED <<cvars, sclosed, hc, hcT, hcP, rd, rdK, att, npc, map, mu, mclosed, lclosed, acc, tim,
                             rmS, clS, clTodo, handles, delivered, seenClosed, stale, gets, rms, adv, reps>>
\* alive timer of a provisional packet conn: packet.Close() on the timer's goroutine
TimerFire(i) == /\ pcs[i].prov /\ pcs[i].timer = 0 /\ tim[i] = "none" /\ StartClose(TSlot(i), i) /\ tim' = [tim EXCEPT ![i] = "closing"]
                /\ UNCHANGED <<cvars, hc, hcT, hcP, rd, rdK, att, npc, map, mu, mclosed, lclosed, acc, wg, wat,
                               rmS, clS, clTodo, handles, delivered, seenClosed, stale, gets, rms, adv, reps>>
TimerDone(i) == /\ tim[i] = "closing" /\ FinishClose(TSlot(i)) /\ tim' = [tim EXCEPT ![i] = "done"]
                /\ UNCHANGED <<cvars, sclosed, hc, hcT, hcP, rd, rdK, att, npc, map, mu, mclosed, lclosed, acc, wg, wat,
                               rmS, clS, clTodo, handles, delivered, seenClosed, stale, gets, rms, adv, reps>>

\* ---------------------------------------------------------------- the application
\* GetConnByUfrag: existing (alive timer cleared) or new packet conn; error after Close
Get(u) == /\ u \in MKeys /\ gets < MaxGet /\ mu = "free" /\ gets' = gets + 1
          /\ IF mclosed THEN UNCHANGED <<pcs, npc, map, wat, wg, handles>>
             ELSE IF map[u] # 0
                  THEN /\ pcs' = [pcs EXCEPT ![map[u]].prov = FALSE, ![map[u]].timer = Off]
                       /\ handles' = Append(handles, map[u]) /\ UNCHANGED <<npc, map, wat, wg>>
                  ELSE /\ Create(u, FALSE) /\ wg' = wg + 1 /\ handles' = Append(handles, npc + 1)
          /\ UNCHANGED <<cvars, sclosed, hc, hcT, hcP, rd, rdK, att, mu, mclosed, lclosed, acc, tim,
                         closers, rmS, clS, clTodo, delivered, seenClosed, stale, rms, adv, reps>>
\* ReadFrom on a handle: the next queued packet, or "closed" once recvChan is closed and drained
AppRead(i) == /\ Claimed(i) /\ ~seenClosed[i]
              /\ IF pcs[i].q # <<>>
                 THEN delivered' = [delivered EXCEPT ![i] = Append(@, Head(pcs[i].q))] /\ pcs' = [pcs EXCEPT ![i].q = Tail(@)]
                      /\ UNCHANGED seenClosed
                 ELSE pcs[i].rclosed /\ seenClosed' = [seenClosed EXCEPT ![i] = TRUE] /\ UNCHANGED <<delivered, pcs>>
              /\ UNCHANGED <<cvars, sclosed, hc, hcT, hcP, rd, rdK, att, npc, map, mu, mclosed, lclosed, acc, wg, wat, tim,
                             closers, rmS, clS, clTodo, handles, stale, gets, rms, adv, reps>>
\* WriteTo(addr of client c) on a handle of packet conn i: goes out on the TCP connection registered for that address
Reply(i, c) == /\ Claimed(i) /\ reps < MaxReply /\ reps' = reps + 1
               /\ IF c \in pcs[i].conns /\ ~sclosed[c] /\ cst[c] = "open"
                  THEN rx' = [rx EXCEPT ![c] = Append(@, reps + 1)] ELSE UNCHANGED rx
               /\ UNCHANGED <<beh, cst, sent, pipe, sclosed, hc, hcT, hcP, rd, rdK, att, pcs, npc, map, mu, mclosed, lclosed, acc, wg, wat, tim,
                              closers, rmS, clS, clTodo, handles, delivered, seenClosed, stale, gets, rms, adv>>
\* RemoveConnByUfrag: unlist under m.mu, close outside
RemoveBegin(u) == /\ rmS = "idle" /\ rms < MaxRm /\ mu = "free" /\ rms' = rms + 1
                  /\ LET ks == {u, K6(u)} \cap MKeys  ids == {map[k] : k \in ks} \ {0} IN
                       /\ map' = [k \in MKeys |-> IF k \in ks THEN 0 ELSE map[k]]
                       /\ rmTodo' = ids /\ rmS' = IF ids = {} THEN "idle" ELSE "closing"
                  /\ UNCHANGED <<cvars, sclosed, hc, hcT, hcP, rd, rdK, att, pcs, npc, mu, mclosed, lclosed, acc, wg, wat, tim,
                                 closers, clS, clTodo, handles, delivered, seenClosed, stale, gets, adv, reps>>
RemovePick(i) == /\ rmS = "closing" /\ i \in rmTodo /\ closers["rm"].ph = "idle" /\ StartClose("rm", i) /\ rmTodo' = rmTodo \ {i}
                 /\ UNCHANGED <<cvars, hc, hcT, hcP, rd, rdK, att, npc, map, mu, mclosed, lclosed, acc, wg, wat, tim,
                                rmS, clS, clTodo, handles, delivered, seenClosed, stale, gets, rms, adv, reps>>
RemovePcDone == /\ rmS = "closing" /\ FinishClose("rm") /\ UNCHANGED rmTodo
                /\ UNCHANGED <<cvars, sclosed, hc, hcT, hcP, rd, rdK, att, npc, map, mu, mclosed, lclosed, acc, wg, wat, tim,
                               rmS, clS, clTodo, handles, delivered, seenClosed, stale, gets, rms, adv, reps>>
RemoveEnd == /\ rmS = "closing" /\ rmTodo = {} /\ closers["rm"].ph = "idle" /\ rmS' = "idle" /\ UNCHANGED rmTodo
             /\ UNCHANGED <<cvars, sclosed, hc, hcT, hcP, rd, rdK, att, pcs, npc, map, mu, mclosed, lclosed, acc, wg, wat, tim,
                            closers, clS, clTodo, handles, delivered, seenClosed, stale, gets, rms, adv, reps>>
\* Close: under m.mu close every listed packet conn (each Close waits for its readers), reset the maps, close the
\* listener; then wait for the WaitGroup
CloseLock == /\ clS = "idle" /\ mu = "free" /\ mu' = "cl" /\ mclosed' = TRUE /\ clS' = "pcs"
             /\ clTodo' = {map[u] : u \in MKeys} \ {0}
             /\ UNCHANGED <<cvars, sclosed, hc, hcT, hcP, rd, rdK, att, pcs, npc, map, lclosed, acc, wg, wat, tim,
                            closers, rmS, handles, delivered, seenClosed, stale, gets, rms, adv, reps>>
InSweep == clS = "pcs" \/ c2S = "pcs"
ClosePick(i) == /\ InSweep /\ i \in clTodo /\ StartClose("cl", i) /\ clTodo' = clTodo \ {i}
                /\ UNCHANGED <<cvars, hc, hcT, hcP, rd, rdK, att, npc, map, mu, mclosed, lclosed, acc, wg, wat, tim,
                               rmS, clS, handles, delivered, seenClosed, stale, gets, rms, adv, reps>>
ClosePcDone == /\ InSweep /\ FinishClose("cl")
               /\ UNCHANGED <<cvars, sclosed, hc, hcT, hcP, rd, rdK, att, npc, map, mu, mclosed, lclosed, acc, wg, wat, tim,
                              rmS, clS, clTodo, handles, delivered, seenClosed, stale, gets, rms, adv, reps>>
CloseUnlock == /\ clS = "pcs" /\ clTodo = {} /\ closers["cl"].ph = "idle"
               /\ map' = [u \in MKeys |-> 0] /\ lclosed' = TRUE /\ mu' = "free" /\ clS' = "wait"
               /\ UNCHANGED <<cvars, sclosed, hc, hcT, hcP, rd, rdK, att, pcs, npc, mclosed, acc, wg, wat, tim,
                              closers, rmS, clTodo, handles, delivered, seenClosed, stale, gets, rms, adv, reps>>
CloseRet == /\ clS = "wait" /\ wg = 0 /\ clS' = "ret"
            /\ UNCHANGED <<cvars, sclosed, hc, hcT, hcP, rd, rdK, att, pcs, npc, map, mu, mclosed, lclosed, acc, wg, wat, tim,
                           closers, rmS, clTodo, handles, delivered, seenClosed, stale, gets, rms, adv, reps>>

\* A second Close while the first is under way (the owner and a MultiTCPMux both closing, a deferred Close on another
\* goroutine). Whichever call locks m.mu first is the one modelled above. The other does the same work once it gets the
\* lock (the first holds it from CloseLock to CloseUnlock): it closes whatever is listed by then - a connection accepted
\* just before the first Close registers its packet conn after that call's sweep, createConn does not look at m.closed -
\* closes the listener again (an error, no effect) and then waits for the WaitGroup: it too returns only when every
\* goroutine has ended. The sweep state (clTodo, closer slot "cl") is shared: m.mu admits one sweep at a time.
Close2Begin == clS # "idle" /\ c2S = "idle" /\ c2S' = "want" /\ UNCHANGED mvars
Close2Lock == /\ c2S = "want" /\ mu = "free" /\ mclosed /\ mu' = "cl" /\ c2S' = "pcs"
              /\ clTodo' = {map[u] : u \in MKeys} \ {0}
              /\ UNCHANGED <<cvars, sclosed, hc, hcT, hcP, rd, rdK, att, pcs, npc, map, mclosed, lclosed, acc, wg, wat, tim,
                             closers, rmS, clS, handles, delivered, seenClosed, stale, gets, rms, adv, reps>>
Close2Unlock == /\ c2S = "pcs" /\ clTodo = {} /\ closers["cl"].ph = "idle"
                /\ map' = [u \in MKeys |-> 0] /\ mu' = "free" /\ c2S' = "wait"
                /\ UNCHANGED <<cvars, sclosed, hc, hcT, hcP, rd, rdK, att, pcs, npc, mclosed, lclosed, acc, wg, wat, tim,
                               closers, rmS, clS, clTodo, handles, delivered, seenClosed, stale, gets, rms, adv, reps>>
Close2Ret == c2S = "wait" /\ wg = 0 /\ c2S' = "ret" /\ UNCHANGED mvars

\* ---------------------------------------------------------------- time
TimerDue == (\E c \in Clients : hc[c] = "wait" /\ hcT[c] = 0) \/ (\E i \in Ids : pcs[i].prov /\ pcs[i].timer = 0 /\ tim[i] = "none")
Dec(x) == IF x \in 1..8 THEN x - 1 ELSE x
Advance == /\ adv < MaxAdv /\ ~TimerDue /\ adv' = adv + 1
           /\ hcT' = [c \in Clients |-> IF hc[c] = "wait" THEN Dec(hcT[c]) ELSE hcT[c]]
           /\ pcs' = [i \in Ids |-> IF pcs[i].prov THEN [pcs[i] EXCEPT !.timer = Dec(@)] ELSE pcs[i]]
           /\ UNCHANGED <<cvars, sclosed, hc, hcP, rd, rdK, att, npc, map, mu, mclosed, lclosed, acc, wg, wat, tim,
                          closers, rmS, clS, clTodo, handles, delivered, seenClosed, stale, gets, rms, reps>>

\* ---------------------------------------------------------------- next-state relation
\* steps of the mux's own goroutines and of calls that are already inside the mux
Internal0 == \/ AcceptExit
            \/ \E c \in Clients : HcRead(c) \/ HcFail(c) \/ HcLookup(c) \/ HcAdd(c) \/ RdFirst(c) \/ RdRead(c) \/ RdPush(c)
            \/ \E i \in Ids : WatWake(i) \/ WatRemove(i) \/ WatDone(i) \/ TimerFire(i) \/ TimerDone(i) \/ AppRead(i) \/ ClosePick(i)
            \/ ClosePcDone \/ CloseUnlock \/ CloseRet
Internal == \/ Internal0 /\ UNCHANGED <<c2S, rmTodo>>
            \/ (Close2Lock \/ Close2Unlock \/ Close2Ret) /\ UNCHANGED <<races, rmTodo>>
            \/ ((\E i \in Ids : RemovePick(i)) \/ RemovePcDone \/ RemoveEnd) /\ UNCHANGED <<races, c2S>>
\* what the environment (clients, application, clock) starts
External == \/ \E c \in Clients : Dial(c) \/ ClientSend(c) \/ ClientClose(c)
            \/ (\E u \in MKeys : Get(u)) \/ (\E u \in Ufrags : RemoveBegin(u))
            \/ \E i \in Ids, c \in Clients : Reply(i, c)
            \/ CloseLock \/ Advance
\* The environment mostly acts when the mux is idle (that is how the replay harness works: it waits for quiescence
\* after each action); up to MaxRaces times it acts while goroutines of the mux are still under way.
\* some goroutine of the mux (or a call already inside it) can take a step: the enabling conditions of the
\* disjuncts of Internal, written out (BusyIsEnabled below is checked by TLC)
Busy == \/ acc = "run" /\ lclosed
        \/ \E c \in Clients :
              \/ hc[c] = "wait" /\ (pipe[c] # <<>> \/ cst[c] = "closed" \/ hcT[c] = 0)
              \/ hc[c] = "got" /\ mu = "free" /\ (map[UfragOf(beh[c])] # 0 \/ npc < MaxPc)
              \/ hc[c] = "add"
              \/ rd[c] \in {"first", "push", "pusherr"} /\ (pcs[att[c]].closed \/ Len(pcs[att[c]].q) < RB)
              \/ rd[c] = "loop" /\ (sclosed[c] \/ pipe[c] # <<>> \/ cst[c] = "closed")
        \/ \E i \in Ids :
              \/ wat[i] = "wait" /\ pcs[i].closed
              \/ wat[i] = "lock" /\ mu = "free"
              \/ wat[i] = "closing" /\ CanFinish(WSlot(i))
              \/ pcs[i].prov /\ pcs[i].timer = 0 /\ tim[i] = "none"
              \/ tim[i] = "closing" /\ CanFinish(TSlot(i))
              \/ Claimed(i) /\ ~seenClosed[i] /\ (pcs[i].q # <<>> \/ pcs[i].rclosed)
              \/ InSweep /\ i \in clTodo /\ closers["cl"].ph = "idle"
        \/ rmS = "closing" /\ (CanFinish("rm") \/ closers["rm"].ph = "idle")
        \/ InSweep /\ (CanFinish("cl") \/ (clTodo = {} /\ closers["cl"].ph = "idle"))
        \/ clS = "wait" /\ wg = 0
        \/ c2S = "want" /\ mu = "free" /\ mclosed
        \/ c2S = "wait" /\ wg = 0
Quiet == ~Busy
BusyIsEnabled == Busy <=> ENABLED (Internal /\ UNCHANGED races)
\* environment actions so far
Ext == Cardinality({c \in Clients : cst[c] # "idle"}) + Cardinality({c \in Clients : cst[c] = "closed" /\ beh[c] # "earlyclose"})
       + gets + rms + adv + reps + (IF clS = "idle" THEN 0 ELSE 1) + (IF c2S = "idle" THEN 0 ELSE 1)
       + Cardinality({c \in Clients : sent[c] > 1}) + Cardinality({c \in Clients : sent[c] > 0 /\ beh[c] = "late"})
EnvOK0 == /\ Ext < MaxExt /\ (Quiet \/ races < MaxRaces) /\ races' = (IF Quiet THEN races ELSE races + 1)
EnvOK == EnvOK0 /\ UNCHANGED <<c2S, rmTodo>>
MuxOK == UNCHANGED <<races, c2S, rmTodo>>
\* one named step per action, so that TLC's traces and coverage name them
SAcceptExit == AcceptExit /\ MuxOK
SHcRead(c) == HcRead(c) /\ MuxOK
SHcFail(c) == HcFail(c) /\ MuxOK
SHcLookup(c) == HcLookup(c) /\ MuxOK
SHcAdd(c) == HcAdd(c) /\ MuxOK
SRdFirst(c) == RdFirst(c) /\ MuxOK
SRdRead(c) == RdRead(c) /\ MuxOK
SRdPush(c) == RdPush(c) /\ MuxOK
SWatWake(i) == WatWake(i) /\ MuxOK
SWatRemove(i) == WatRemove(i) /\ MuxOK
SWatDone(i) == WatDone(i) /\ MuxOK
STimerFire(i) == TimerFire(i) /\ MuxOK
STimerDone(i) == TimerDone(i) /\ MuxOK
SAppRead(i) == AppRead(i) /\ MuxOK
SClosePick(i) == ClosePick(i) /\ MuxOK
SRemoveEnd == RemoveEnd /\ UNCHANGED <<races, c2S>>
SRemovePick(i) == RemovePick(i) /\ UNCHANGED <<races, c2S>>
SRemovePcDone == RemovePcDone /\ UNCHANGED <<races, c2S>>
SClosePcDone == ClosePcDone /\ MuxOK
SCloseUnlock == CloseUnlock /\ MuxOK
SCloseRet == CloseRet /\ MuxOK
SClose2Lock == Close2Lock /\ UNCHANGED <<races, rmTodo>>
SClose2Unlock == Close2Unlock /\ UNCHANGED <<races, rmTodo>>
SClose2Ret == Close2Ret /\ UNCHANGED <<races, rmTodo>>
EDial(c) == Dial(c) /\ EnvOK
EClientSend(c) == ClientSend(c) /\ EnvOK
EClientClose(c) == ClientClose(c) /\ EnvOK
EGet(u) == Get(u) /\ EnvOK
ERemove(u) == RemoveBegin(u) /\ EnvOK0 /\ UNCHANGED c2S
EReply(i, c) == Reply(i, c) /\ EnvOK
EClose == CloseLock /\ EnvOK
EClose2 == Close2Begin /\ EnvOK0 /\ UNCHANGED rmTodo
EAdvance == Advance /\ EnvOK
MuxStep == \/ SAcceptExit \/ SRemoveEnd \/ SRemovePcDone \/ (\E i \in Ids : SRemovePick(i)) \/ SClosePcDone \/ SCloseUnlock \/ SCloseRet \/ SClose2Lock \/ SClose2Unlock \/ SClose2Ret
           \/ \E c \in Clients : SHcRead(c) \/ SHcFail(c) \/ SHcLookup(c) \/ SHcAdd(c) \/ SRdFirst(c) \/ SRdRead(c) \/ SRdPush(c)
           \/ \E i \in Ids : SWatWake(i) \/ SWatRemove(i) \/ SWatDone(i) \/ STimerFire(i) \/ STimerDone(i) \/ SAppRead(i) \/ SClosePick(i)
EnvStep == \/ EClose \/ EClose2 \/ EAdvance
           \/ \E c \in Clients : EDial(c) \/ EClientSend(c) \/ EClientClose(c)
           \/ (\E u \in MKeys : EGet(u)) \/ (\E u \in Ufrags : ERemove(u))
           \/ \E i \in Ids, c \in Clients : EReply(i, c)
Next == MuxStep \/ EnvStep
Spec == Init /\ [][Next]_vars

\* ---------------------------------------------------------------- properties (C15)
Rng(s) == {s[k] : k \in 1..Len(s)}
Bad == AllBehaviours \ Valid
\* everything queued on or read from packet conn i that came from client c, in order
From(i, c) == SelectSeq(delivered[i] \o pcs[i].q, LAMBDA e : e[1] = c)
\* a connection's packets appear only on the packet conn of the ufrag in its first frame, in order, none twice,
\* nothing after an error - and that packet conn is the one the connection was attached to
RoutedByFirstUfrag ==
  \A i \in Ids, c \in Clients : LET s == From(i, c) IN
     s # <<>> => /\ beh[c] \in Valid /\ pcs[i].uf = UfragOf(beh[c]) /\ att[c] = i
                 /\ \A k \in 1..Len(s) : s[k][2] = k \/ (k = Len(s) /\ s[k][2] = 0)
\* replies reach the client only over a connection attached to that packet conn
RepliesOnSameConn == \A c \in Clients : rx[c] # <<>> => att[c] # 0
\* a connection whose first frame is late, oversized, not STUN Binding or lacks USERNAME (or never comes) is closed
\* once handleConn is through with it, and nothing of it is ever delivered
BadFirstFrameClosed ==
  \A c \in Clients : beh[c] \in Bad =>
     /\ hc[c] = "done" => sclosed[c]
     /\ att[c] = 0 /\ \A i \in Ids : From(i, c) = <<>>
\* the timers are honoured: an expired first-frame deadline or alive timer leaves nothing open once the mux is idle
ProvisionalExpires ==
  Quiet => /\ \A c \in Clients : hc[c] # "wait" \/ hcT[c] > 0
           /\ \A i \in Ids : pcs[i].closed => /\ map[pcs[i].uf] # i /\ pcs[i].rclosed
                                              /\ \A c \in Clients : att[c] = i => sclosed[c]
\* the WaitGroup counts exactly the live mux goroutines
WgCounts == wg = (IF acc = "run" THEN 1 ELSE 0) + Cardinality({c \in Clients : hc[c] \in {"wait", "got", "add"}})
                 + Cardinality({i \in Ids : wat[i] \in {"wait", "lock", "closing"}})
\* after Close has returned: listener closed, every accepted TCP connection closed, none of the goroutines counted
\* by m.wg left (accept loop, handleConn, watchers), every packet conn closed; a reader goroutine of a packet conn
\* may still be on its way out only if that packet conn is closed (its closer - e.g. a concurrent Remove - waits for it)
CloseCompletes ==
  (clS = "ret" \/ c2S = "ret") => /\ lclosed /\ acc = "done"
                 /\ \A c \in Clients : cst[c] # "idle" => /\ sclosed[c] /\ hc[c] = "done"
                                                          /\ rd[c] \in {"none", "done"} \/ pcs[att[c]].closed
                 /\ \A i \in 1..npc : wat[i] = "done" /\ pcs[i].closed
\* and Close does return: while it is under way the mux is never stuck except waiting for a timer
CloseProgress == ((clS \in {"pcs", "wait"} \/ c2S \in {"want", "pcs", "wait"}) /\ Quiet) => (\E c \in Clients : hc[c] = "wait") \/ (\E i \in Ids : pcs[i].prov)
\* a watcher goroutine only ever unlists its own packet conn
NoStaleRemoval == ~stale
\* a packet conn handed to the application is closed only by Remove, Close, or an alive timer that fired before it was claimed
TypeOK == /\ wg \in 0..(1 + Cardinality(Clients) + MaxPc) /\ npc \in 0..MaxPc
          /\ \A i \in Ids : Len(pcs[i].q) <= RB
====
