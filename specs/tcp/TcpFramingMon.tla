---- MODULE TcpFramingMon ----
(* Verdicts for C14 from what the real framing code did.  One record per case: the       *)
(* packets offered to the real writer, what each call put on the wire, every conn.Read   *)
(* of the real reader (offset, bytes asked, bytes given) and every packet it returned.   *)
(* No dependence on TcpFraming!Next; the predicates are statements about the record.     *)
EXTENDS Naturals, Integers, Sequences, FiniteSets, TLC, Json
CONSTANTS CaseFile,
          Check      \* names of the predicates this run judges
Cs == ndJsonDeserialize(CaseFile)
VARIABLE l
Init == l = 1
Next == l <= Len(Cs) /\ l' = l + 1
Spec == Init /\ [][Next]_l
c == Cs[IF l <= Len(Cs) THEN l ELSE Len(Cs)]
MaxLen == 65535
Rng(s) == {s[k] : k \in 1..Len(s)}
NP == Len(c.pk)
Written == c.kind # "garbage"
\* indices of the packets the writer accepted and put on the wire, in order (tcpPacketConn: without those longer than
\* the application's ReadFrom buffer - a packet connection refuses such a packet and goes on with the next)
AccIdx == SelectSeq([i \in 1..NP |-> i], LAMBDA i : c.wr[i].ok /\ c.wr[i].wrote > 0 /\ ~c.adrop[i])
NA == Len(AccIdx)
\* the k-th accepted packet is complete on the (possibly truncated) stream and fits the reader's buffer
Fits(k) == LET i == AccIdx[k] IN c.pk[i] <= c.caps[i] /\ c.wr[i].s + 2 + c.pk[i] <= c.slen
\* number of packets a correct reader returns before it must stop
D == Cardinality({d \in 1..NA : \A k \in 1..d : Fits(k)})
\* every frame on the wire carries its true length, refused packets left nothing on the wire
WireOK == \A i \in 1..NP : LET w == c.wr[i] IN
            IF w.ok /\ w.wrote > 0 THEN w.hdr = c.pk[i] /\ w.blen = c.pk[i] /\ w.same ELSE w.wrote = 0
\* the record is self-consistent (offsets add up); anything else is a driver fault, not a verdict
RecordOK ==
  /\ Len(c.wr) = NP /\ Len(c.caps) = NP /\ Len(c.adrop) = NP
  /\ \A i \in 1..NP : c.wr[i].s = (IF i = 1 THEN 0 ELSE c.wr[i - 1].s + c.wr[i - 1].wrote)
  /\ \A k \in 1..Len(c.rd) : LET r == c.rd[k] IN
       /\ r.p = (IF k = 1 THEN 0 ELSE c.rd[k - 1].p + c.rd[k - 1].g)
       /\ r.f > 0 => r.f <= NP /\ c.wr[r.f].s <= r.p /\ r.p < c.wr[r.f].s + c.wr[r.f].wrote

\* ---------------------------------------------------------------- C14
\* a packet longer than 65535 is refused and leaves nothing on the wire; whatever is put on the wire is a header
\* that says exactly how many bytes follow, and those bytes are the packet
NoTruncHeader ==
  (Written /\ c.wreal) => \A i \in 1..NP : LET w == c.wr[i] IN
     /\ c.pk[i] > MaxLen => ~w.ok /\ w.wrote = 0
     /\ w.wrote > 0 => w.hdr = c.pk[i] /\ w.blen = c.pk[i] /\ w.same
\* a packet that the write path supports (c.wmax: 65535 for the framing function and tcpPacketConn, the receive MTU
\* for activeTCPConn) is accepted, reported as written in full, and is on the wire in full
WriterDelivers ==
  (Written /\ c.wreal) => \A i \in 1..NP : LET w == c.wr[i] IN
     \* (a packet connection whose peer does not read may refuse a packet when its write buffer is full; what it accepts it delivers)
     /\ (c.pk[i] <= c.wmax /\ ~c.stall) => w.ok
     /\ (c.pk[i] <= c.wmax /\ w.ok) => w.ret = c.pk[i] /\ w.wrote = c.pk[i] + 2
\* reference parse of an arbitrary byte stream
RECURSIVE Parse(_, _)
Parse(p, acc) == IF p + 2 > c.slen THEN acc
                 ELSE LET len == c.raw[p + 1] * 256 + c.raw[p + 2] IN
                      IF len > c.cap \/ p + 2 + len > c.slen THEN acc
                      ELSE Parse(p + 2 + len, Append(acc, [n |-> len, at |-> p + 2]))
\* no panic, no endless loop; what was returned is a prefix of what was written (same lengths, same contents,
\* same place on the wire where that is known), and nothing is returned from an incomplete or oversize frame
ErrNotGarbage ==
  /\ c.res \notin {"panic", "runaway", "stuck"}
  /\ c.note # "unaccounted bytes on the wire"       \* every byte on the wire belongs to an accepted packet
  /\ IF Written
     THEN /\ Len(c.out) <= D
          /\ \A k \in 1..Len(c.out) : LET o == c.out[k] IN
               /\ o.n = c.pk[AccIdx[k]] /\ AccIdx[k] \in Rng(o.m)
               /\ o.at \in {0 - 2, c.wr[AccIdx[k]].s + 2}
     ELSE [k \in 1..Len(c.out) |-> [n |-> c.out[k].n, at |-> c.out[k].at]] = Parse(0, <<>>)
\* every packet that is complete and fits is returned, however the stream was cut into reads
RoundTrip == Written => Len(c.out) >= D
\* the reader never gets more than it asked for and never asks for bytes beyond the header or body it is in
BoundedRead ==
  (Written /\ WireOK) => \A k \in 1..Len(c.rd) : LET r == c.rd[k] IN
     /\ r.g <= r.a
     /\ IF r.f = 0 THEN r.a <= 2
        ELSE LET w == c.wr[r.f]  o == r.p - w.s IN
             r.p + r.a <= (IF o < 2 THEN w.s + 2 ELSE w.s + 2 + w.blen)

P(n) == CASE n = "NoTruncHeader" -> NoTruncHeader []
             n = "ErrNotGarbage" -> ErrNotGarbage []
             n = "RoundTrip" -> RoundTrip []
             n = "WriterDelivers" -> WriterDelivers []
             n = "BoundedRead" -> BoundedRead
Report == l <= Len(Cs) =>
            /\ RecordOK \/ PrintT(<<"BADRECORD", "RecordOK", l>>)
            /\ \A n \in Check : P(n) \/ PrintT(<<"VIOL", n, l>>)
====
