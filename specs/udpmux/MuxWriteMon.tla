---- MODULE MuxWriteMon ----
(* C13 (write abort) verdicts from the recorded observations of the real mux     *)
(* alone: no dependence on MuxWrite!Next. obs = what the harness saw after the   *)
(* step: the decoded state word, the fake shared socket's deadline, where every  *)
(* process is parked, the result of the probe write.                             *)
EXTENDS Naturals, Sequences, FiniteSets, TLC, Json
CONSTANTS TraceFile, Check
Tr == ndJsonDeserialize(TraceFile)
VARIABLES l, obs, ev
vars == <<l, obs, ev>>
Init == l = 2 /\ obs = Tr[1].post /\ ev = "Reset"
Step == l <= Len(Tr) /\ l' = l + 1 /\ obs' = Tr[l].post /\ ev' = Tr[l].ev
Spec == Init /\ [][Step]_vars
Procs == DOMAIN obs.pc
Writers == DOMAIN obs.left
AllDone == \A p \in Procs : obs.pc[p] = "done"
\* once every writer and aborter has returned, the state word is clean and the socket's write deadline is cleared
Clean == AllDone => (obs.st.n = 0 /\ ~obs.st.b /\ ~obs.st.a /\ obs.dl = "none")
\* a later write by any user succeeds
LaterWritesSucceed == ev = "Probe" => obs.probe = "ok"
\* liveness, judged at the end of the bounded fair gated drain: nobody is left spinning or blocked
NoStuckWriter == ev = "Drain" => AllDone
\* the counter equals the number of writers between start and finish
InFlight == Cardinality({p \in Writers : obs.pc[p] \in {"w_write", "f_load", "f_caslast", "f_cas"}})
CountExact == obs.st.n = InFlight
P(n) == CASE n = "Clean" -> Clean [] n = "LaterWritesSucceed" -> LaterWritesSucceed
          [] n = "NoStuckWriter" -> NoStuckWriter [] n = "CountExact" -> CountExact
Report == \A n \in Check : P(n) \/ PrintT(<<"VIOL", n, l - 1>>)
Done == IF TLCGet("stats").diameter = Len(Tr) THEN TRUE
        ELSE Print(<<"MONITOR_STOPPED_AT", TLCGet("stats").diameter + 1, Len(Tr)>>, FALSE)
====
