---- MODULE MuxWriteMon ----
(* C13 (write abort) verdicts from the recorded observations of the real mux     *)
(* alone: no dependence on MuxWrite!Next. obs = what the harness saw after the   *)
(* step: the decoded state word, the fake shared socket's deadline, where every  *)
(* process is parked, the result of the probe write.                             *)
EXTENDS Naturals, Sequences, FiniteSets, TLC, Json
CONSTANTS TraceFile, Check
Tr == ndJsonDeserialize(TraceFile)
VARIABLES l, obs, ev,
          hit,    \* history: writers that were in flight when an abort took effect since they entered
          who,    \* process of the last step
          cfail   \* history: the socket refused to clear its write deadline
vars == <<l, obs, ev, hit, who, cfail>>
InFlightPCs == {"w_write", "f_load", "f_caslast", "f_cas"}
Init == l = 2 /\ obs = Tr[1].post /\ ev = "Reset" /\ hit = {} /\ who = "-" /\ cfail = FALSE
Step == /\ l <= Len(Tr) /\ l' = l + 1 /\ obs' = Tr[l].post /\ ev' = Tr[l].ev
        /\ who' = (IF "p" \in DOMAIN Tr[l] THEN Tr[l].p ELSE "-")
        /\ cfail' = (IF Tr[l].ev = "Reset" THEN FALSE ELSE cfail \/ Tr[l].ev = "CClearFail")
        /\ LET e == Tr[l] IN
           hit' = CASE e.ev = "Reset" -> {}
                    \* the writer's CAS succeeded: it is inside the socket write now
                    [] e.ev = "WCas" /\ e.post.pc[e.p] = "w_write" -> hit \ {e.p}
                    \* the aborter's CAS succeeded: the blocked bit is set, every writer in flight is being aborted
                    [] e.ev = "ACas" /\ e.post.pc[e.p] = "a_arm" -> hit \cup {w \in DOMAIN obs.left : obs.pc[w] \in InFlightPCs}
                    [] OTHER -> hit
Spec == Init /\ [][Step]_vars
Procs == DOMAIN obs.pc
Writers == DOMAIN obs.left
AllDone == \A p \in Procs : obs.pc[p] = "done"
\* once every writer and aborter has returned, the state word is clean and the socket's write deadline is cleared
\* (a deadline the socket refused to clear is the socket's; the state word is clean all the same)
Clean == AllDone => (obs.st.n = 0 /\ ~obs.st.b /\ ~obs.st.a /\ (obs.dl = "none" \/ cfail))
\* a later write by any user succeeds
LaterWritesSucceed == ev = "Probe" => (obs.probe = "ok" \/ (cfail /\ obs.probe = "timeout"))
\* liveness, judged at the end of the bounded fair gated drain: nobody is left spinning or blocked
NoStuckWriter == ev = "Drain" => AllDone
\* the counter equals the number of writers between start and finish
\* Counted for certain: between start and the beginning of finishWrite's bookkeeping. Possibly still counted: the last
\* writer of an abort while it clears the deadline (before or after its decrement - the property does not say which).
InFlight == Cardinality({p \in Writers : obs.pc[p] \in InFlightPCs})
Clearing == Cardinality({p \in Writers : obs.pc[p] \in {"c_load", "c_clear", "c_store"}})
CountExact == InFlight <= obs.st.n /\ obs.st.n <= InFlight + Clearing
\* nobody's write fails with a timeout unless an abort took effect while that write was in flight
\* (hit already reflects this step, which never changes it for a write)
NoSpuriousTimeout == ev = "WWriteTmo" => (who \in hit \/ cfail)
P(n) == CASE n = "Clean" -> Clean [] n = "LaterWritesSucceed" -> LaterWritesSucceed
          [] n = "NoStuckWriter" -> NoStuckWriter [] n = "CountExact" -> CountExact
          [] n = "NoSpuriousTimeout" -> NoSpuriousTimeout
Report == \A n \in Check : P(n) \/ PrintT(<<"VIOL", n, l - 1>>)
Done == IF TLCGet("stats").diameter = Len(Tr) THEN TRUE
        ELSE Print(<<"MONITOR_STOPPED_AT", TLCGet("stats").diameter + 1, Len(Tr)>>, FALSE)
====
