---- MODULE MuxRouteMon ----
(* C12 verdicts from the recorded observations of a real UDPMuxDefault alone (no dependence on MuxRoute!Next).    *)
(* obs: the two ufrag tables, addressMap, per connection: ufrag, family, closed flags, address list, queued       *)
(* datagrams (decoded: which injected datagram, which source form); where every process is. Events carry their    *)
(* arguments and, for steps in which the connections' users read (DispatchOp in sequential traces, Drain at the    *)
(* end of a gated trace), rx: what ReadFrom returned on each handle.                                               *)
(* History kept here: the datagrams injected, a sequentially consistent reference (which connection most recently *)
(* completed a write to each canonical source; the ufrag tables as the API calls define them), which connections'  *)
(* removal or close has completed.                                                                                 *)
EXTENDS Naturals, Sequences, FiniteSets, TLC, Json
CONSTANTS TraceFile, Check
Tr == ndJsonDeserialize(TraceFile)
Canon(x) == CASE x = "m1" -> "s1" [] x = "m2" -> "s2" [] OTHER -> x
KeyFam(k) == IF k \in {"s6", "t6"} THEN "6" ELSE "4"
UOf(kd) == CASE kd = "u1+" -> "u1" [] kd = "u2+" -> "u2" [] OTHER -> kd      \* the ufrag a kind names (USERNAME up to the first colon)
VARIABLES l, pre, obs, ev,
          mode,     \* "seq": operations never overlap (exact reference) | "conc": steps of several operations interleave
          inj,      \* datagrams injected so far: sequence of [src, kind]
          ref,      \* reference: canonical source -> connection that most recently completed a write to it (0 = none)
          rlisted,  \* reference: family -> ufrag -> connection registered by GetConn and not yet removed / closed
          started,  \* <<connection, canonical source>>: a write has started
          gone,     \* connections whose RemoveConnByUfrag / Close has returned
          gsnap,    \* gone when the dispatch in progress began
          amb       \* concurrent traces: canonical sources for which "most recently wrote" has no definite answer (two connections'
                    \* writes to it overlapped, or a write completed on a connection that was closed or being removed)
vars == <<l, pre, obs, ev, mode, inj, ref, rlisted, started, gone, gsnap, amb>>
Rng(s) == {s[i] : i \in 1..Len(s)}
ConnsOf(o) == 1..Len(o.closed)
KeysOf(o) == DOMAIN o.amap
FamsOf(o) == DOMAIN o.listed
UfragsOf(o) == DOMAIN o.listed[CHOOSE f \in DOMAIN o.listed : TRUE]
Zero(o) == [f \in FamsOf(o) |-> [u \in UfragsOf(o) |-> 0]]
Under(rl, u) == {rl[f][u] : f \in DOMAIN rl} \ {0}
Init == /\ l = 2 /\ pre = Tr[1].post /\ obs = Tr[1].post /\ ev = Tr[1] /\ mode = Tr[1].mode
        /\ inj = <<>> /\ ref = [k \in KeysOf(Tr[1].post) |-> 0] /\ rlisted = Zero(Tr[1].post)
        /\ started = {} /\ gone = {} /\ gsnap = {} /\ amb = {}
\* reference effect of a completed removal of the connections cs
Drop(rf, cs) == [k \in DOMAIN rf |-> IF rf[k] \in cs THEN 0 ELSE rf[k]]
Step == /\ l <= Len(Tr) /\ l' = l + 1 /\ ev' = Tr[l] /\ obs' = Tr[l].post
        /\ LET e == Tr[l]  o == e.post  reset == e.ev = "Reset" IN
           /\ pre' = (IF reset THEN o ELSE obs)
           /\ mode' = (IF reset THEN e.mode ELSE mode)
           /\ inj' = (IF reset THEN <<>> ELSE IF e.ev \in {"DRead", "DispatchOp"} THEN Append(inj, [src |-> e.x, kind |-> e.kd]) ELSE inj)
           /\ gsnap' = (IF reset THEN {} ELSE IF e.ev \in {"DRead", "DispatchOp"} THEN gone ELSE gsnap)
           /\ started' = (IF reset THEN {} ELSE IF e.ev \in {"WStart", "WriteOp"} THEN started \cup {<<e.c, Canon(e.x)>>} ELSE started)
           /\ LET wdone == \/ e.ev = "WriteOp" /\ e.ok
                           \/ e.ev \in {"WContains", "WRegister"} /\ o.wpc[e.p] = "idle"
                  wc == IF e.ev = "WriteOp" THEN e.c ELSE obs.wc[e.p]
                  wk == IF e.ev = "WriteOp" THEN Canon(e.x) ELSE Canon(obs.wx[e.p])
                  rdone == e.ev = "RemoveOp" \/ e.ev = "RUnmap" \/ (e.ev = "RUnlist" /\ o.rpc = "idle")
                  \* a connection's close is complete when its watcher is through (gated traces: the watcher's last step)
                  cdone == e.ev = "CloseOp" \/ (e.ev = "CloseConn" /\ o.kpc = "idle") \/ e.ev = "KUnmap" \/ (e.ev = "KUnlist" /\ o.kpc = "idle")
                  cc == IF e.ev \in {"CloseOp", "CloseConn"} THEN e.c ELSE obs.kc
                  \* writes of other connections to the same source that are in progress when this one starts
                  overlap == e.ev = "WStart" /\ \E p \in DOMAIN obs.wpc : obs.wpc[p] # "idle" /\ Canon(obs.wx[p]) = Canon(e.x) /\ obs.wc[p] # e.c
                  \* a write that completes on a connection that is closed, gone, or the target of the removal in progress
                  shaky == mode = "conc" /\ wdone /\ (o.closed[wc] \/ o.hclosed[wc] \/ wc \in gone
                                                       \/ (o.rpc # "idle" /\ wc \in Under(rlisted, o.ru)))
              IN /\ amb' = (IF reset THEN {} ELSE IF overlap THEN amb \cup {Canon(e.x)} ELSE IF shaky THEN amb \cup {wk} ELSE amb)
                 /\ ref' = CASE reset -> [k \in KeysOf(o) |-> 0]
                             [] wdone -> [ref EXCEPT ![wk] = wc]
                             [] rdone -> Drop(ref, Under(rlisted, e.u))
                             [] cdone -> Drop(ref, {cc})
                             [] e.ev = "CloseMux" -> [k \in DOMAIN ref |-> 0]
                             [] OTHER -> ref
                 /\ rlisted' = CASE reset -> Zero(o)
                                 [] e.ev = "GetConn" -> [rlisted EXCEPT ![e.f][e.u] = o.made]
                                 [] rdone -> [f \in DOMAIN rlisted |-> [rlisted[f] EXCEPT ![e.u] = 0]]
                                 [] cdone -> [f \in DOMAIN rlisted |-> [u \in DOMAIN rlisted[f] |-> IF rlisted[f][u] = cc THEN 0 ELSE rlisted[f][u]]]
                                 [] e.ev = "CloseMux" -> Zero(o)
                                 [] OTHER -> rlisted
                 /\ gone' = CASE reset -> {}
                              [] rdone -> gone \cup Under(rlisted, e.u)
                              [] cdone -> gone \cup {cc}
                              [] e.ev = "CloseMux" -> gone \cup UNION {Under(rlisted, u) : u \in UfragsOf(o)}
                              [] OTHER -> gone
Spec == Init /\ [][Step]_vars
\* ---------------------------------------------------------------- what was delivered in the step just taken
Conns == ConnsOf(obs)
NewIn(c) == Len(obs.q[c]) > Len(pre.q[c]) /\ ev.ev # "Reset"
Reads == IF "rx" \in DOMAIN ev THEN Rng(ev.rx) ELSE {}          \* [c, n, src] returned by ReadFrom in this step
\* deliveries of this step as [c, n, src]
Delivered == {[c |-> c, n |-> obs.q[c][Len(obs.q[c])].n, src |-> obs.q[c][Len(obs.q[c])].src] : c \in {x \in Conns : NewIn(x)}}
             \cup (IF ev.ev = "DispatchOp" THEN Reads ELSE {})
IsStun(kd) == kd # "data"
ByUfrag(x, kd) == LET k == Canon(x) IN
    IF IsStun(kd) /\ UOf(kd) \in DOMAIN rlisted[CHOOSE f \in DOMAIN rlisted : TRUE] /\ KeyFam(k) \in DOMAIN rlisted THEN rlisted[KeyFam(k)][UOf(kd)] ELSE 0
Expected(x, kd) == IF ref[Canon(x)] # 0 THEN ref[Canon(x)] ELSE ByUfrag(x, kd)
Only(c) == IF c = 0 THEN {} ELSE {c}
\* ---------------------------------------------------------------- predicates
\* every inbound datagram is handed to at most one connection, at most once
AtMostOne == /\ Cardinality(Delivered) <= 1
             /\ \A c1 \in Conns, c2 \in Conns : \A i1 \in 1..Len(obs.q[c1]), i2 \in 1..Len(obs.q[c2]) :
                   obs.q[c1][i1].n = obs.q[c2][i2].n => (c1 = c2 /\ i1 = i2)
\* ... the one that most recently wrote to its source, else the one registered for the family under the USERNAME's ufrag,
\* else nobody (exact in sequential traces)
\* Where the most recent writer is a connection that has been removed (a stale handle wrote), "most recently wrote" and
\* "after it is removed it receives nothing" pull apart: treating the source as unseen is accepted as well, and what the
\* removed connection may receive is GoneAfterRemove's business.
RightOne == (mode = "seq" /\ ev.ev = "DispatchOp") =>
               LET got == {d.c : d \in Delivered}  e1 == Expected(ev.x, ev.kd) IN
               got = Only(e1) \/ (e1 \in gone /\ got = Only(ByUfrag(ev.x, ev.kd)))
\* concurrent traces, once every operation has finished: a plain datagram from each source goes to the connection that most
\* recently completed a write to it, as in a sequential history - unless that has no definite answer (amb)
RightOneAtQuiescence == (ev.ev = "ProbeOp") =>
               LET got == {d.c : d \in Reads}  e1 == Expected(ev.x, ev.kd) IN
               Canon(ev.x) \in amb \/ got = Only(e1) \/ (e1 \in gone /\ got = Only(ByUfrag(ev.x, ev.kd)))
\* interleaved steps: the receiver is at least a connection that has begun a write to that source, or the one the USERNAME names
RightOneWeak == \A d \in Delivered : d.n \in 1..Len(inj) =>
                   \/ <<d.c, Canon(d.src)>> \in started
                   \/ (IsStun(inj[d.n].kind) /\ UOf(inj[d.n].kind) = obs.cu[d.c] /\ KeyFam(Canon(d.src)) = obs.cf[d.c])
\* delivered datagrams are byte-identical (n = which injected datagram the bytes are, 0 = none) and carry the true source
Identical == /\ \A c \in Conns : \A i \in 1..Len(obs.q[c]) : obs.q[c][i].n \in 1..Len(inj) /\ obs.q[c][i].src = inj[obs.q[c][i].n].src
             /\ \A d \in Reads : d.n \in 1..Len(inj) /\ d.src = inj[d.n].src
\* arrival order is kept per connection; what the user reads is what was queued, in order
PerConnFifo == /\ \A c \in Conns : \A i \in 1..Len(obs.q[c]), j \in 1..Len(obs.q[c]) : i < j => obs.q[c][i].n < obs.q[c][j].n
               /\ ev.ev = "Drain" => \A c \in Conns : ~obs.hclosed[c] =>
                     LET mine == SelectSeq(ev.rx, LAMBDA d : d.c = c) IN
                     Len(mine) = Len(pre.q[c]) /\ \A i \in 1..Len(mine) : mine[i].n = pre.q[c][i].n
               \* a single read takes the oldest queued datagram - returned if the buffer holds it, an error (and the datagram gone)
               \* if it is too short - and leaves the rest of this queue and every other queue as they were
               /\ ev.ev = "URead" =>
                     /\ pre.q[ev.c] # <<>> /\ obs.q[ev.c] = Tail(pre.q[ev.c])
                     /\ \A c \in Conns : c # ev.c => obs.q[c] = pre.q[c]
                     /\ IF ev.form = "short" THEN ev.res = "short" /\ ev.rx = <<>>
                        ELSE ev.res = "ok" /\ Len(ev.rx) = 1 /\ ev.rx[1].c = ev.c /\ ev.rx[1].n = pre.q[ev.c][1].n /\ ev.rx[1].src = pre.q[ev.c][1].src
\* a connection never receives a first-contact STUN datagram whose USERNAME names another ufrag
NoForeignUfrag == \A d \in Delivered : (d.n \in 1..Len(inj) /\ IsStun(inj[d.n].kind)
                                        /\ ~\E c \in Conns : <<c, Canon(d.src)>> \in started) => UOf(inj[d.n].kind) = obs.cu[d.c]
\* after removal or close has returned (and nothing is in progress) the connection has no bindings and receives nothing
Quiet(c) == obs.dpc = "idle" /\ obs.rpc = "idle" /\ obs.kpc = "idle" /\ \A w \in DOMAIN obs.wpc : obs.wpc[w] = "idle" \/ obs.wc[w] # c
GoneBindings == \A c \in gone : (Quiet(c) /\ ~obs.muxClosed) => \A k \in KeysOf(obs) : obs.amap[k] # c
GoneDeliveries == \A d \in Delivered : d.c \notin gsnap
ClosedEmpty == \A c \in Conns : obs.closed[c] => obs.q[c] = <<>>
GoneAfterRemove == GoneBindings /\ GoneDeliveries /\ ClosedEmpty
P(n) == CASE n = "AtMostOne" -> AtMostOne [] n = "RightOne" -> RightOne [] n = "RightOneWeak" -> RightOneWeak
          [] n = "RightOneAtQuiescence" -> RightOneAtQuiescence
          [] n = "Identical" -> Identical [] n = "PerConnFifo" -> PerConnFifo [] n = "NoForeignUfrag" -> NoForeignUfrag
          [] n = "GoneAfterRemove" -> GoneAfterRemove
\* detail printed with a violation: the connection the reference expected (RightOne), else 0
Detail(n) == IF n = "RightOne" /\ ev.ev = "DispatchOp" THEN Expected(ev.x, ev.kd) ELSE 0
Report == \A n \in Check : P(n) \/ PrintT(<<"VIOL", n, l - 1, Detail(n)>>)
Done == IF TLCGet("stats").diameter = Len(Tr) THEN TRUE
        ELSE Print(<<"MONITOR_STOPPED_AT", TLCGet("stats").diameter + 1, Len(Tr)>>, FALSE)
====
