---- MODULE MuxWrite ----
(* Write-abort state machine of UDPMuxDefault (udp_mux.go): writeState is a     *)
(* counter of writes inside the shared socket's WriteTo plus two flag bits       *)
(* (blocked, deadline armed); abortWrite arms the shared write deadline only     *)
(* with writers in flight and the last in-flight writer clears it again.         *)
(* One action = the code between two yield points "mw.<site>": every Load,       *)
(* CompareAndSwap, Store, SetWriteDeadline and the socket write is its own step. *)
EXTENDS Naturals, FiniteSets, TLC
CONSTANTS Writers,     \* process names (strings) calling UDPMuxDefault.writeTo
          Aborters,    \* process names (strings) calling UDPMuxDefault.abortWrite
          ArmMayFail,  \* fault: SetWriteDeadline(now) may fail
          ClearMayFail,\* fault: SetWriteDeadline(zero) may fail (once): the socket's deadline stays where it was
          Rounds       \* number of writes each writer performs
VARIABLES st,      \* [n, b, a]  writeState: count, blocked bit, deadline-armed bit
          dl,      \* write deadline of the shared socket: "none" | "now"
          pc,      \* pc[p]: the yield point process p is parked at ("done" = returned)
          tmp,     \* tmp[p]: the state word p loaded last
          left,    \* left[w]: writes writer w still has to start after the current one
          probe,   \* result of the probe write issued after everybody returned: "none" | "ok" | "timeout" | "stuck"
          hit,     \* history: writers that were in flight when an abort took effect (blocked bit set) since they entered
          spur,    \* history: some socket write timed out although no abort took effect while it was in flight
          cfail    \* history: the socket refused to clear its deadline (from then on a timeout is the socket's doing)
vars == <<st, dl, pc, tmp, left, probe, hit, spur, cfail>>
Procs == Writers \cup Aborters
S0 == [n |-> 0, b |-> FALSE, a |-> FALSE]
PC0 == [p \in Procs |-> IF p \in Writers THEN "w_load" ELSE "a_load"]
Init == st = S0 /\ dl = "none" /\ pc = PC0 /\ tmp = [p \in Procs |-> S0]
        /\ left = [w \in Writers |-> Rounds - 1] /\ probe = "none" /\ hit = {} /\ spur = FALSE /\ cfail = FALSE
goto(p, l) == pc' = [pc EXCEPT ![p] = l] /\ UNCHANGED left
\* a writer returns from writeTo: next write or done
ret(p) == IF left[p] > 0 THEN pc' = [pc EXCEPT ![p] = "w_load"] /\ left' = [left EXCEPT ![p] = @ - 1]
          ELSE pc' = [pc EXCEPT ![p] = "done"] /\ UNCHANGED left
load(p) == tmp' = [tmp EXCEPT ![p] = st]
keepT == UNCHANGED tmp
keepH == UNCHANGED <<hit, spur, cfail>>
InFlightPCs == {"w_write", "f_load", "f_caslast", "f_cas"}

\* ---- writer: startWriteContext
WLoad(p) == keepH /\ pc[p] = "w_load" /\ load(p) /\ UNCHANGED <<st, dl, probe>>
            /\ IF st.b THEN goto(p, "w_load") ELSE goto(p, "w_cas")
WCas(p) == pc[p] = "w_cas" /\ keepT /\ UNCHANGED <<dl, probe, spur, cfail>>
           /\ IF st = tmp[p] THEN st' = [st EXCEPT !.n = @ + 1] /\ goto(p, "w_write") /\ hit' = hit \ {p}
                             ELSE UNCHANGED <<st, hit>> /\ goto(p, "w_load")
\* ---- socket write: completes when no deadline is set, times out when the deadline is armed
WWriteOk(p)  == keepH /\ pc[p] = "w_write" /\ dl = "none" /\ goto(p, "f_load") /\ UNCHANGED <<st, dl, tmp, probe>>
WWriteTmo(p) == pc[p] = "w_write" /\ dl = "now"  /\ goto(p, "f_load") /\ UNCHANGED <<st, dl, tmp, probe, hit, cfail>>
                /\ spur' = (spur \/ (p \notin hit /\ ~cfail))
\* ---- finishWrite
FLoad(p) == keepH /\ pc[p] = "f_load" /\ load(p) /\ UNCHANGED <<st, dl, probe>>
            /\ IF st.n = 0 THEN ret(p)
               ELSE IF st.b /\ st.n = 1 THEN goto(p, "f_caslast") ELSE goto(p, "f_cas")
FCasLast(p) == keepH /\ pc[p] = "f_caslast" /\ keepT /\ UNCHANGED <<dl, probe>>
            /\ IF st = tmp[p] THEN st' = [st EXCEPT !.n = @ - 1] /\ goto(p, "c_load")
                              ELSE UNCHANGED st /\ goto(p, "f_load")
FCas(p) == keepH /\ pc[p] = "f_cas" /\ keepT /\ UNCHANGED <<dl, probe>>
            /\ IF st = tmp[p] THEN st' = [st EXCEPT !.n = @ - 1] /\ ret(p)
                              ELSE UNCHANGED st /\ goto(p, "f_load")
\* ---- clearWriteDeadlineAfterAbort
CLoad(p) == keepH /\ pc[p] = "c_load" /\ load(p) /\ UNCHANGED <<st, dl, probe>>
            /\ IF ~st.b THEN ret(p) ELSE IF ~st.a THEN goto(p, "c_load") ELSE goto(p, "c_clear")
CClear(p) == keepH /\ pc[p] = "c_clear" /\ dl' = "none" /\ goto(p, "c_store") /\ UNCHANGED <<st, tmp, probe>>
\* the socket refuses: the last writer resets the state word all the same (and reports the error) - nobody must be left spinning
\* on a blocked bit that no one is there to clear
CClearFail(p) == pc[p] = "c_clear" /\ ClearMayFail /\ ~cfail /\ cfail' = TRUE /\ goto(p, "c_store") /\ UNCHANGED <<st, dl, tmp, probe, hit, spur>>
CStore(p) == keepH /\ pc[p] = "c_store" /\ st' = S0 /\ ret(p) /\ UNCHANGED <<dl, tmp, probe>>

\* ---- aborter: abortWrite
ALoad(p) == keepH /\ pc[p] = "a_load" /\ load(p) /\ UNCHANGED <<st, dl, probe>>
            /\ IF st.b \/ st.n = 0 THEN goto(p, "done") ELSE goto(p, "a_cas")
ACas(p) == pc[p] = "a_cas" /\ keepT /\ UNCHANGED <<dl, probe, spur, cfail>>
            /\ IF st = tmp[p] THEN /\ st' = [st EXCEPT !.b = TRUE] /\ goto(p, "a_arm")
                                   /\ hit' = hit \cup {w \in Writers : pc[w] \in InFlightPCs}
                              ELSE UNCHANGED <<st, hit>> /\ goto(p, "a_load")
AArmOk(p)   == keepH /\ pc[p] = "a_arm" /\ dl' = "now" /\ goto(p, "s_load") /\ UNCHANGED <<st, tmp, probe>>
AArmFail(p) == keepH /\ pc[p] = "a_arm" /\ ArmMayFail /\ goto(p, "x_load") /\ UNCHANGED <<st, dl, tmp, probe>>
\* setWriteDeadlineArmed
SLoad(p) == keepH /\ pc[p] = "s_load" /\ load(p) /\ UNCHANGED <<st, dl, probe>>
            /\ IF ~st.b \/ st.a THEN goto(p, "done") ELSE goto(p, "s_cas")
SCas(p) == keepH /\ pc[p] = "s_cas" /\ keepT /\ UNCHANGED <<dl, probe>>
            /\ IF st = tmp[p] THEN st' = [st EXCEPT !.a = TRUE] /\ goto(p, "done")
                              ELSE UNCHANGED st /\ goto(p, "s_load")
\* clearWriteAbortState (after a failed arm)
XLoad(p) == keepH /\ pc[p] = "x_load" /\ load(p) /\ UNCHANGED <<st, dl, probe>>
            /\ IF ~st.b /\ ~st.a THEN goto(p, "done") ELSE goto(p, "x_cas")
XCas(p) == keepH /\ pc[p] = "x_cas" /\ keepT /\ UNCHANGED <<dl, probe>>
            /\ IF st = tmp[p] THEN st' = [st EXCEPT !.b = FALSE, !.a = FALSE] /\ goto(p, "done")
                              ELSE UNCHANGED st /\ goto(p, "x_load")

AllDone == \A p \in Procs : pc[p] = "done"
\* ---- a later write by any user, after everybody has returned (atomic: nobody else is running)
Probe == /\ AllDone /\ probe = "none"
         /\ probe' = IF st.b THEN "stuck" ELSE IF dl = "now" THEN "timeout" ELSE "ok"
         /\ UNCHANGED <<st, dl, pc, tmp, left, hit, spur, cfail>>

WStep(p) == WLoad(p) \/ WCas(p) \/ WWriteOk(p) \/ WWriteTmo(p) \/ FLoad(p) \/ FCasLast(p) \/ FCas(p)
            \/ CLoad(p) \/ CClear(p) \/ CClearFail(p) \/ CStore(p)
AStep(p) == ALoad(p) \/ ACas(p) \/ AArmOk(p) \/ AArmFail(p) \/ SLoad(p) \/ SCas(p) \/ XLoad(p) \/ XCas(p)
Next == (\E p \in Writers : WStep(p)) \/ (\E p \in Aborters : AStep(p)) \/ Probe
        \/ (AllDone /\ probe # "none" /\ UNCHANGED vars)
Spec == Init /\ [][Next]_vars
        /\ \A w \in Writers : WF_vars(WStep(w))
        /\ \A q \in Aborters : WF_vars(AStep(q))

\* ---- C13 predicates on the model (the monitor MuxWriteMon states the same over observations)
InFlight == Cardinality({p \in Writers : pc[p] \in InFlightPCs})
Clean == AllDone => (st = S0 /\ (dl = "none" \/ cfail))
\* n counts exactly the writers between start and finish (while the blocked last writer clears, n is already 0)
CountExact == st.n = InFlight
\* (a socket that refused to clear its deadline times the later write out; the mux never makes it wait for ever)
LaterWritesSucceed == probe \in {"none", "ok"} \/ (cfail /\ probe = "timeout")
\* nobody's write fails with a timeout unless an abort took effect while that write was in flight
NoSpuriousTimeout == ~spur
\* the deadline is armed only under the blocked bit
ArmedOnlyBlocked == ((dl = "now" /\ ~cfail) \/ st.a) => st.b
NoStuckWriter == <>AllDone
====
