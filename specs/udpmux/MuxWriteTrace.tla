---- MODULE MuxWriteTrace ----
(* Conformance: every step recorded from the real UDPMuxDefault (one step = the  *)
(* code between two yield points) must be explained by the MuxWrite action of    *)
(* that name, with the observed post-state (state word, socket deadline, the     *)
(* yield point every process is parked at, probe result) equal to the model's.   *)
EXTENDS MuxWrite, Json, Sequences
CONSTANT TraceFile
Tr == ndJsonDeserialize(TraceFile)
VARIABLE l
tv == <<vars, l>>
PostOK(j) == /\ st' = [n |-> j.post.st.n, b |-> j.post.st.b, a |-> j.post.st.a]
             /\ dl' = j.post.dl
             /\ \A p \in Procs : pc'[p] = j.post.pc[p]
             /\ \A w \in Writers : left'[w] = j.post.left[w]
             /\ probe' = j.post.probe
TInit == Init /\ l = 2 /\ Tr[1].ev = "Reset"
Ev(e) == l <= Len(Tr) /\ Tr[l].ev = e /\ l' = l + 1
P == Tr[l].p
TNext == \/ Ev("WLoad") /\ WLoad(P) /\ PostOK(Tr[l])
         \/ Ev("WCas") /\ WCas(P) /\ PostOK(Tr[l])
         \/ Ev("WWriteOk") /\ WWriteOk(P) /\ PostOK(Tr[l])
         \/ Ev("WWriteTmo") /\ WWriteTmo(P) /\ PostOK(Tr[l])
         \/ Ev("FLoad") /\ FLoad(P) /\ PostOK(Tr[l])
         \/ Ev("FCasLast") /\ FCasLast(P) /\ PostOK(Tr[l])
         \/ Ev("FCas") /\ FCas(P) /\ PostOK(Tr[l])
         \/ Ev("CLoad") /\ CLoad(P) /\ PostOK(Tr[l])
         \/ Ev("CClear") /\ CClear(P) /\ PostOK(Tr[l])
         \/ Ev("CClearFail") /\ CClearFail(P) /\ PostOK(Tr[l])
         \/ Ev("CStore") /\ CStore(P) /\ PostOK(Tr[l])
         \/ Ev("ALoad") /\ ALoad(P) /\ PostOK(Tr[l])
         \/ Ev("ACas") /\ ACas(P) /\ PostOK(Tr[l])
         \/ Ev("AArmOk") /\ AArmOk(P) /\ PostOK(Tr[l])
         \/ Ev("AArmFail") /\ AArmFail(P) /\ PostOK(Tr[l])
         \/ Ev("SLoad") /\ SLoad(P) /\ PostOK(Tr[l])
         \/ Ev("SCas") /\ SCas(P) /\ PostOK(Tr[l])
         \/ Ev("XLoad") /\ XLoad(P) /\ PostOK(Tr[l])
         \/ Ev("XCas") /\ XCas(P) /\ PostOK(Tr[l])
         \/ Ev("Probe") /\ Probe /\ PostOK(Tr[l])
         \/ Ev("Drain") /\ UNCHANGED vars /\ PostOK(Tr[l])    \* marker: end of the bounded gated drain
         \/ /\ Ev("Reset") /\ st' = S0 /\ dl' = "none" /\ pc' = PC0 /\ tmp' = [p \in Procs |-> S0]
            /\ left' = [w \in Writers |-> Rounds - 1] /\ probe' = "none" /\ hit' = {} /\ spur' = FALSE /\ cfail' = FALSE
            /\ PostOK(Tr[l])
TSpec == TInit /\ [][TNext]_tv
Accepted == IF TLCGet("stats").diameter = Len(Tr) THEN TRUE
            ELSE Print(<<"TRACE_REJECTED_AT", TLCGet("stats").diameter + 1, Len(Tr)>>, FALSE)
====
