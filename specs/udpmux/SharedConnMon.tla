---- MODULE SharedConnMon ----
(* C13 (handles) verdicts from the recorded observations of real handles alone.  *)
(* obs: per handle whether its own context is cancelled, the shared reference    *)
(* count, whether the underlying connection is closed and how often the handles  *)
(* called its Close, where every closer is, what every reader got, the result of *)
(* the last write.                                                                *)
EXTENDS Naturals, Sequences, FiniteSets, TLC, Json
CONSTANTS TraceFile, Check
Tr == ndJsonDeserialize(TraceFile)
VARIABLES l, pre, obs, ev
vars == <<l, pre, obs, ev>>
Init == l = 2 /\ pre = Tr[1].post /\ obs = Tr[1].post /\ ev = Tr[1]
Step == l <= Len(Tr) /\ l' = l + 1 /\ pre' = (IF Tr[l].ev = "Reset" THEN Tr[l].post ELSE obs) /\ obs' = Tr[l].post /\ ev' = Tr[l]
Spec == Init /\ [][Step]_vars
Closers == DOMAIN obs.kpc
Readers == DOMAIN obs.rpc
HS == DOMAIN obs.cancelled
HN == <<"h1", "h2", "h3", "h4">>
Have(o) == {HN[i] : i \in 1..o.got}
CloseReturned(o, h) == \E k \in DOMAIN o.kpc : o.kpc[k] = "ret" /\ o.kh[k] = h
\* nobody has begun to execute Close on the handle
Untouched(o, h) == h \in Have(o) /\ \A k \in DOMAIN o.kpc : (o.kpc[k] # "idle" /\ o.kh[k] = h) => o.kpc[k] = "close"
\* the underlying connection is closed exactly once, when the last handle is closed
UnderlyingClosedOnce == /\ obs.ucloses <= 1 /\ (obs.uclosed <=> obs.ucloses = 1)
                        /\ (obs.uclosed => \A h \in Have(obs) : ~Untouched(obs, h))
                        /\ ((obs.got > 0 /\ \A h \in Have(obs) : CloseReturned(obs, h)) => obs.uclosed)
\* closing a handle fails that handle's own pending and future I/O
OwnIOFails == /\ \A r \in Readers : (obs.rpc[r] # "idle" /\ CloseReturned(obs, obs.rh[r])) => obs.rpc[r] = "ret"
              /\ (ev.ev = "Write" /\ CloseReturned(pre, ev.h)) => obs.wlast[2] # "ok"
              /\ (ev.ev = "RStart" /\ CloseReturned(pre, ev.h)) => (obs.rpc[ev.p] = "ret" /\ obs.rres[ev.p] \in {"closed", "eof"})
\* ... and leaves sibling handles fully usable
SiblingsUsable == /\ \A r \in Readers : (obs.rpc[r] = "ret" /\ Untouched(obs, obs.rh[r]) /\ obs.rres[r] # "timeout") => obs.rres[r] = "data"
                  \* a read deadline is the handle's own: a read times out only if it began when its own handle's deadline had passed
                  /\ \A r \in Readers : (obs.rres[r] = "timeout" /\ pre.rres[r] # "timeout") =>
                        (ev.ev = "RStart" /\ ev.p = r /\ pre.dl[ev.h])
                  \* ... and it does time out then, unless there is something to return (a queued datagram, the closed states)
                  /\ (ev.ev = "RStart" /\ pre.dl[ev.h] /\ ~pre.cancelled[ev.h] /\ pre.qn = 0 /\ ~pre.uclosed) => obs.rres[ev.p] = "timeout"
                  /\ (ev.ev = "Write" /\ Untouched(obs, ev.h)) => obs.wlast[2] = "ok"
P(n) == CASE n = "UnderlyingClosedOnce" -> UnderlyingClosedOnce [] n = "OwnIOFails" -> OwnIOFails [] n = "SiblingsUsable" -> SiblingsUsable
Report == \A n \in Check : P(n) \/ PrintT(<<"VIOL", n, l - 1>>)
Done == IF TLCGet("stats").diameter = Len(Tr) THEN TRUE
        ELSE Print(<<"MONITOR_STOPPED_AT", TLCGet("stats").diameter + 1, Len(Tr)>>, FALSE)
====
