---- MODULE MuxRouteTrace ----
(* Conformance of the recorded behaviour of a real UDPMuxDefault over a fake     *)
(* shared socket to MuxRoute: gated traces (one event = one step between yield   *)
(* points) and direct sequential traces (one event = one whole operation).       *)
EXTENDS MuxRoute, Json
CONSTANT TraceFile
Tr == ndJsonDeserialize(TraceFile)
VARIABLE l
tv == <<st, l>>
SeqEq(a, b) == Len(a) = Len(b) /\ \A i \in 1..Len(a) : a[i] = b[i]
PostOK(j) == LET o == j.post  S == st' IN
    /\ S.made = o.made /\ S.muxClosed = o.muxClosed
    /\ \A f \in Fams, u \in Ufrags : S.listed[f][u] = o.listed[f][u]
    /\ \A c \in Conns : /\ S.hclosed[c] = o.hclosed[c] /\ S.closed[c] = o.closed[c]
                        /\ (c <= S.made => S.cu[c] = o.cu[c] /\ S.cf[c] = o.cf[c])
                        /\ SeqEq(S.caddrs[c], o.caddrs[c])
                        /\ Len(S.q[c]) = Len(o.q[c])
                        /\ \A i \in 1..Len(S.q[c]) : S.q[c][i].n = o.q[c][i].n /\ S.q[c][i].src = o.q[c][i].src
    /\ \A k \in Keys : S.amap[k] = o.amap[k]
    /\ \A k \in DOMAIN o.amap : k \in Keys \/ o.amap[k] = 0        \* no binding under a key the model does not know
    /\ \A w \in Writers : S.wpc[w] = o.wpc[w] /\ (S.wpc[w] # "idle" => S.wc[w] = o.wc[w] /\ S.wx[w] = o.wx[w])
    /\ S.dpc = o.dpc /\ S.rpc = o.rpc /\ S.kpc = o.kpc
ResetTo == st' = S0
TInit == Init /\ l = 2 /\ Tr[1].ev = "Reset"
Ev(e) == l <= Len(Tr) /\ Tr[l].ev = e /\ l' = l + 1
J == Tr[l]
TNext == \/ Ev("GetConn") /\ GetConn(J.u, J.f) /\ PostOK(J)
         \/ Ev("WStart") /\ WStart(J.p, J.c, J.x) /\ PostOK(J)
         \/ Ev("WCheck") /\ WCheck(J.p) /\ PostOK(J)
         \/ Ev("WContains") /\ WContains(J.p) /\ PostOK(J)
         \/ Ev("WAppend") /\ WAppend(J.p) /\ PostOK(J)
         \/ Ev("WRegister") /\ WRegister(J.p) /\ PostOK(J)
         \/ Ev("DRead") /\ DRead(J.x, J.kd) /\ PostOK(J)
         \/ Ev("DLookup") /\ DLookup /\ PostOK(J)
         \/ Ev("DUfrag") /\ DUfrag /\ PostOK(J)
         \/ Ev("DEnq") /\ DEnq /\ PostOK(J)
         \/ Ev("DPut") /\ DPut /\ PostOK(J)
         \/ Ev("URead") /\ URead(J.c, J.form) /\ PostOK(J)
         \/ Ev("RStart") /\ RStart(J.u) /\ PostOK(J)
         \/ Ev("RUnlist") /\ RUnlist /\ PostOK(J)
         \/ Ev("RUnmap") /\ RUnmap /\ PostOK(J)
         \/ Ev("CloseConn") /\ CloseConn(J.c) /\ PostOK(J)
         \/ Ev("KUnlist") /\ KUnlist /\ PostOK(J)
         \/ Ev("KUnmap") /\ KUnmap /\ PostOK(J)
         \/ Ev("GetStale") /\ GetStale(J.u, J.f) /\ J.c = st.listed[J.f][J.u] /\ PostOK(J)
         \/ Ev("CloseMux") /\ CloseMux /\ PostOK(J)
         \/ Ev("WriteOp") /\ WriteOp(J.c, J.x) /\ PostOK(J)
         \/ Ev("DispatchOp") /\ DispatchOp(J.x, J.kd) /\ J.t = Target(st, J.x, J.kd) /\ PostOK(J)
         \/ Ev("RemoveOp") /\ RemoveOp(J.u) /\ PostOK(J)
         \/ Ev("CloseOp") /\ CloseOp(J.c) /\ PostOK(J)
         \* the users read what is queued: the queues are empty afterwards (reading is not an action of the mux model)
         \/ Ev("Drain") /\ st' = [st EXCEPT !.q = [c \in DOMAIN st.q |-> <<>>]]
         \/ Ev("ProbeOp") /\ st' = [st EXCEPT !.q = [c \in DOMAIN st.q |-> <<>>]]
         \/ Ev("Reset") /\ ResetTo /\ PostOK(J)
TSpec == TInit /\ [][TNext]_tv
Accepted == IF TLCGet("stats").diameter = Len(Tr) THEN TRUE
            ELSE Print(<<"TRACE_REJECTED_AT", TLCGet("stats").diameter + 1, Len(Tr)>>, FALSE)
====
