---- MODULE SharedConnTrace ----
(* Conformance of the recorded steps of real sharedPacketConn handles (handed    *)
(* out by UDPMuxDefault.GetConn / TCPMuxDefault.GetConnByUfrag) to SharedConn.   *)
EXTENDS SharedConn, Json
CONSTANT TraceFile
Tr == ndJsonDeserialize(TraceFile)
VARIABLE l
tv == <<vars, l>>
PostOK(j) == /\ got' = j.post.got /\ refs' = j.post.refs /\ uclosed' = j.post.uclosed /\ ucloses' = j.post.ucloses
             /\ qn' = j.post.qn /\ sent' = j.post.sent /\ writes' = j.post.writes
             /\ \A h \in HS : cancelled'[h] = j.post.cancelled[h]
             /\ \A k \in Closers : kpc'[k] = j.post.kpc[k] /\ (kpc'[k] # "idle" => kh'[k] = j.post.kh[k])
             /\ \A r \in Readers : rpc'[r] = j.post.rpc[r] /\ rres'[r] = j.post.rres[r] /\ (rpc'[r] # "idle" => rh'[r] = j.post.rh[r])
             /\ wlast'[1] = j.post.wlast[1] /\ wlast'[2] = j.post.wlast[2]
             /\ \A h \in HS : dl'[h] = j.post.dl[h]
TInit == Init /\ l = 2 /\ Tr[1].ev = "Reset"
Ev(e) == l <= Len(Tr) /\ Tr[l].ev = e /\ l' = l + 1
J == Tr[l]
TNext == \/ Ev("Get") /\ Get /\ PostOK(J)
         \/ Ev("CloseStart") /\ CloseStart(J.p, J.h) /\ PostOK(J)
         \/ Ev("CloseEnter") /\ CloseEnter(J.p) /\ PostOK(J)
         \/ Ev("Cancel") /\ Cancel(J.p) /\ PostOK(J)
         \/ Ev("Unref") /\ Unref(J.p) /\ PostOK(J)
         \/ Ev("UClose") /\ UClose(J.p) /\ PostOK(J)
         \/ Ev("RStart") /\ RStart(J.p, J.h) /\ PostOK(J)
         \/ Ev("DeliverQ") /\ DeliverQ /\ PostOK(J)
         \/ Ev("DeliverWake") /\ DeliverWake(J.p) /\ PostOK(J)
         \/ Ev("Write") /\ Write(J.h) /\ PostOK(J)
         \/ Ev("SetRD") /\ SetRD(J.h, J.v) /\ PostOK(J)
         \/ Ev("End") /\ UNCHANGED vars /\ PostOK(J)
         \/ /\ Ev("Reset") /\ got' = 0 /\ cancelled' = [h \in HS |-> FALSE] /\ once' = [h \in HS |-> "fresh"] /\ refs' = 0
            /\ uclosed' = FALSE /\ ucloses' = 0 /\ qn' = 0
            /\ kpc' = [k \in Closers |-> "idle"] /\ kh' = [k \in Closers |-> Handles[1]]
            /\ rpc' = [r \in Readers |-> "idle"] /\ rh' = [r \in Readers |-> Handles[1]] /\ rres' = [r \in Readers |-> "none"]
            /\ sent' = 0 /\ writes' = 0 /\ wlast' = <<"-", "-", FALSE>> /\ dl' = [h \in HS |-> FALSE] /\ ndl' = 0
TSpec == TInit /\ [][TNext]_tv
Accepted == IF TLCGet("stats").diameter = Len(Tr) THEN TRUE
            ELSE Print(<<"TRACE_REJECTED_AT", TLCGet("stats").diameter + 1, Len(Tr)>>, FALSE)
====
