---- MODULE SharedConn ----
(* Reference-counted handles (sharedPacketConn, shared_packet_conn.go) that a    *)
(* UDP or TCP mux hands out for one underlying per-ufrag connection.             *)
(* Close(h) = yield "sc.close"; closeOnce.Do { "sc.cancel": cancel the handle's  *)
(* context; "sc.unref": refs.Add(-1); if <= 0 { "sc.uclose": underlying.Close }} *)
(* One action = the code between two yield points. sync.Once is a lock, modelled *)
(* as a guard: nobody enters a Once that somebody is inside of.                  *)
(* Read(h) and Write(h) have no yield points: a read either returns at once or   *)
(* blocks; a blocked read is woken by the step that makes it ready (the handle's *)
(* cancel, a datagram, the close of the underlying connection).                  *)
EXTENDS Naturals, Sequences, FiniteSets, TLC
CONSTANTS NHandles,   \* number of handles that may be obtained (GetConn with the same ufrag), named h1, h2, ... in this order
          NClosers,   \* one-shot processes k1, k2, ... each calling Close on one handle (started in this order: they are interchangeable)
          NReaders,   \* one-shot processes r1, r2, ... each calling ReadFrom on one handle (started in this order)
          MaxGrams,   \* datagrams that arrive for the underlying connection
          MaxWrites,  \* WriteTo calls (atomic, result observed)
          MaxDl       \* SetReadDeadline calls (a deadline in the past / no deadline) on handles
VARIABLES got,      \* number of handles obtained so far
          cancelled,\* cancelled[h]: the handle's own context is cancelled
          once,     \* once[h]: "fresh" | "running" | "done"
          refs,     \* shared reference count
          uclosed,  \* the underlying connection is closed
          ucloses,  \* how often sharedPacketConn called underlying.Close
          qn,       \* datagrams queued in the underlying connection
          kpc, kh,  \* closer: yield point / handle
          rpc, rh, rres, \* reader: "idle" | "pending" | "ret", handle, result "none" | "data" | "closed" | "eof"
          sent, writes, \* datagrams delivered so far, writes done so far
          wlast,    \* the last write: <<h, "ok" | "closed", had a Close(h) returned before it>>
          dl, ndl   \* dl[h]: handle h has a read deadline that lies in the past (a handle's own setting); calls so far
vars == <<got, cancelled, once, refs, uclosed, ucloses, qn, kpc, kh, rpc, rh, rres, sent, writes, wlast, dl, ndl>>
Handles == SubSeq(<<"h1", "h2", "h3", "h4">>, 1, NHandles)
CloserSeq == SubSeq(<<"k1", "k2", "k3", "k4">>, 1, NClosers)
ReaderSeq == SubSeq(<<"r1", "r2", "r3", "r4">>, 1, NReaders)
Closers == {CloserSeq[i] : i \in 1..NClosers}
Readers == {ReaderSeq[i] : i \in 1..NReaders}
\* process x of sequence sq may start: everybody before it has started
InOrder(sq, pcs, x) == \A i \in 1..Len(sq) : \A j \in 1..Len(sq) : (sq[j] = x /\ i < j) => pcs[sq[i]] # "idle"
HS == {Handles[i] : i \in 1..Len(Handles)}
Have == {Handles[i] : i \in 1..got}
Init == /\ got = 0 /\ cancelled = [h \in HS |-> FALSE] /\ once = [h \in HS |-> "fresh"] /\ refs = 0
        /\ uclosed = FALSE /\ ucloses = 0 /\ qn = 0
        /\ kpc = [k \in Closers |-> "idle"] /\ kh = [k \in Closers |-> Handles[1]]
        /\ rpc = [r \in Readers |-> "idle"] /\ rh = [r \in Readers |-> Handles[1]] /\ rres = [r \in Readers |-> "none"]
        /\ sent = 0 /\ writes = 0 /\ wlast = <<"-", "-", FALSE>>
        /\ dl = [h \in HS |-> FALSE] /\ ndl = 0
Closing == \E k \in Closers : kpc[k] \in {"cancel", "unref", "uclose"}
\* GetConn for the same ufrag: a further handle on the same underlying connection (not while a Close is in progress,
\* not once the underlying connection has been closed: the mux would create a new one)
Get == /\ got < Len(Handles) /\ ~uclosed /\ ~Closing /\ (got = 0 \/ refs > 0)
       /\ got' = got + 1 /\ refs' = refs + 1
       /\ UNCHANGED <<cancelled, once, uclosed, ucloses, qn, kpc, kh, rpc, rh, rres, sent, writes, wlast, dl, ndl>>
\* ---- Close(h) by closer k
CloseStart(k, h) == /\ kpc[k] = "idle" /\ h \in Have /\ InOrder(CloserSeq, kpc, k)
                    /\ kpc' = [kpc EXCEPT ![k] = "close"] /\ kh' = [kh EXCEPT ![k] = h]
                    /\ UNCHANGED <<got, cancelled, once, refs, uclosed, ucloses, qn, rpc, rh, rres, sent, writes, wlast, dl, ndl>>
CloseEnter(k) == /\ kpc[k] = "close" /\ once[kh[k]] # "running"
                 /\ IF once[kh[k]] = "fresh"
                    THEN once' = [once EXCEPT ![kh[k]] = "running"] /\ kpc' = [kpc EXCEPT ![k] = "cancel"]
                    ELSE UNCHANGED once /\ kpc' = [kpc EXCEPT ![k] = "ret"]
                 /\ UNCHANGED <<got, cancelled, refs, uclosed, ucloses, qn, kh, rpc, rh, rres, sent, writes, wlast, dl, ndl>>
\* cancel the handle's context: its blocked reads return "closed"
Cancel(k) == /\ kpc[k] = "cancel"
             /\ cancelled' = [cancelled EXCEPT ![kh[k]] = TRUE]
             /\ LET woken == {r \in Readers : rpc[r] = "pending" /\ rh[r] = kh[k]} IN
                /\ rpc' = [r \in Readers |-> IF r \in woken THEN "ret" ELSE rpc[r]]
                /\ rres' = [r \in Readers |-> IF r \in woken THEN "closed" ELSE rres[r]]
             /\ kpc' = [kpc EXCEPT ![k] = "unref"]
             /\ UNCHANGED <<got, once, refs, uclosed, ucloses, qn, kh, rh, sent, writes, wlast, dl, ndl>>
Unref(k) == /\ kpc[k] = "unref" /\ refs' = refs - 1
            /\ IF refs - 1 <= 0 THEN kpc' = [kpc EXCEPT ![k] = "uclose"] /\ UNCHANGED once
               ELSE kpc' = [kpc EXCEPT ![k] = "ret"] /\ once' = [once EXCEPT ![kh[k]] = "done"]
            /\ UNCHANGED <<got, cancelled, uclosed, ucloses, qn, kh, rpc, rh, rres, sent, writes, wlast, dl, ndl>>
\* close the underlying connection: queue dropped, reads still blocked on it (none, if the counting is right) see EOF
UClose(k) == /\ kpc[k] = "uclose" /\ uclosed' = TRUE /\ ucloses' = ucloses + 1 /\ qn' = 0
             /\ LET woken == {r \in Readers : rpc[r] = "pending"} IN
                /\ rpc' = [r \in Readers |-> IF r \in woken THEN "ret" ELSE rpc[r]]
                /\ rres' = [r \in Readers |-> IF r \in woken THEN "eof" ELSE rres[r]]
             /\ once' = [once EXCEPT ![kh[k]] = "done"] /\ kpc' = [kpc EXCEPT ![k] = "ret"]
             /\ UNCHANGED <<got, cancelled, refs, kh, rh, sent, writes, wlast, dl, ndl>>
\* ---- ReadFrom(h) by reader r: returns at once (closed handle / queued datagram / closed underlying) or blocks
RStart(r, h) == /\ rpc[r] = "idle" /\ h \in Have /\ InOrder(ReaderSeq, rpc, r) /\ rh' = [rh EXCEPT ![r] = h]
                /\ IF cancelled[h] THEN rpc' = [rpc EXCEPT ![r] = "ret"] /\ rres' = [rres EXCEPT ![r] = "closed"] /\ UNCHANGED qn
                   ELSE IF qn > 0 THEN rpc' = [rpc EXCEPT ![r] = "ret"] /\ rres' = [rres EXCEPT ![r] = "data"] /\ qn' = qn - 1
                   \* a deadline that has passed: the read returns at once (a closed underlying connection may be noticed first)
                   ELSE IF dl[h] THEN /\ rpc' = [rpc EXCEPT ![r] = "ret"] /\ UNCHANGED qn
                                      /\ \E x \in (IF uclosed THEN {"eof", "timeout"} ELSE {"timeout"}) : rres' = [rres EXCEPT ![r] = x]
                   ELSE IF uclosed THEN rpc' = [rpc EXCEPT ![r] = "ret"] /\ rres' = [rres EXCEPT ![r] = "eof"] /\ UNCHANGED qn
                   ELSE rpc' = [rpc EXCEPT ![r] = "pending"] /\ UNCHANGED <<rres, qn>>
                /\ UNCHANGED <<got, cancelled, once, refs, uclosed, ucloses, kpc, kh, sent, writes, wlast, dl, ndl>>
\* ---- a datagram for the underlying connection: a blocked reader (whichever the runtime wakes) gets it, else it is
\* queued (dropped if the connection is closed)
DeliverQ == /\ sent < MaxGrams /\ got > 0 /\ sent' = sent + 1
            /\ (uclosed \/ ~\E r \in Readers : rpc[r] = "pending")
            /\ qn' = (IF uclosed THEN qn ELSE qn + 1)
            /\ UNCHANGED <<got, cancelled, once, refs, uclosed, ucloses, kpc, kh, rpc, rh, rres, writes, wlast, dl, ndl>>
DeliverWake(r) == /\ sent < MaxGrams /\ got > 0 /\ sent' = sent + 1 /\ ~uclosed /\ rpc[r] = "pending"
                  /\ rpc' = [rpc EXCEPT ![r] = "ret"] /\ rres' = [rres EXCEPT ![r] = "data"]
                  /\ UNCHANGED <<got, cancelled, once, refs, uclosed, ucloses, qn, kpc, kh, rh, writes, wlast, dl, ndl>>
\* ---- WriteTo(h)
Write(h) == /\ writes < MaxWrites /\ h \in Have /\ writes' = writes + 1
            /\ wlast' = <<h, IF cancelled[h] \/ uclosed THEN "closed" ELSE "ok", \E k \in Closers : kpc[k] = "ret" /\ kh[k] = h>>
            /\ UNCHANGED <<got, cancelled, once, refs, uclosed, ucloses, qn, kpc, kh, rpc, rh, rres, sent, dl, ndl>>
\* ---- SetReadDeadline(h): a handle's own read deadline (v: it lies in the past / there is none); reads in progress are not affected
SetRD(h, v) == /\ ndl < MaxDl /\ h \in Have /\ ~cancelled[h] /\ dl[h] # v
               /\ dl' = [dl EXCEPT ![h] = v] /\ ndl' = ndl + 1
               /\ UNCHANGED <<got, cancelled, once, refs, uclosed, ucloses, qn, kpc, kh, rpc, rh, rres, sent, writes, wlast>>
Next == \/ (\E h \in HS, v \in BOOLEAN : SetRD(h, v))
        \/ Get \/ DeliverQ \/ (\E r \in Readers : DeliverWake(r))
        \/ \E k \in Closers : (\E h \in HS : CloseStart(k, h)) \/ CloseEnter(k) \/ Cancel(k) \/ Unref(k) \/ UClose(k)
        \/ \E r \in Readers, h \in HS : RStart(r, h)
        \/ \E h \in HS : Write(h)
Spec == Init /\ [][Next]_vars

\* ---- C13 (handles) on the model; SharedConnMon states the same over observations of the real handles
CloseReturned(h) == \E k \in Closers : kpc[k] = "ret" /\ kh[k] = h
Untouched(h) == h \in Have /\ \A k \in Closers : kh[k] = h => kpc[k] \in {"idle", "close"}
UnderlyingClosedOnce == /\ ucloses <= 1 /\ (uclosed <=> ucloses = 1)
                        /\ (uclosed => \A h \in Have : ~Untouched(h))
                        /\ ((got > 0 /\ \A h \in Have : CloseReturned(h)) => uclosed)
OwnIOFails == /\ \A r \in Readers : CloseReturned(rh[r]) /\ rpc[r] # "idle" => rpc[r] = "ret"
              /\ wlast[3] => wlast[2] # "ok"
SiblingsUsable == /\ \A r \in Readers : (rpc[r] = "ret" /\ Untouched(rh[r]) /\ rres[r] # "timeout") => rres[r] = "data"
                  /\ (wlast[1] \in HS /\ Untouched(wlast[1])) => wlast[2] = "ok"
====
