---- MODULE MuxRoute ----
(* UDPMuxDefault (udp_mux.go, udp_muxed_conn.go): connection tables per IP family, address bindings, dispatch.     *)
(* The whole state is one record st; every critical section of the code (m.mu, addressMapMu, conn.mu) is a        *)
(* function from state to state, so that the same text serves twice:                                              *)
(*   - concurrent model: one action = the code between two yield points "mr.<site>" (Next);                       *)
(*   - sequential model: one action = one whole API call or one whole dispatch, the composition of its steps      *)
(*     (SeqNext), replayed on the real mux without gates.                                                         *)
(* WriteTo(c, x)      = w_start: isClosed | contains: containsAddress | append: conn.addresses += x               *)
(*                      | register: registerConnForAddress (takeover: removeAddress on the old owner) + send      *)
(* connWorker         = d_read: read + canonicalise | d_lookup: addressMap | d_ufrag: (miss, STUN) USERNAME ufrag *)
(*                      in the table of the source's family | d_enq: writePacket (d_put: dropped if closed)              *)
(* RemoveConnByUfrag  = r_unlist: delete from both tables and close the removed connections                        *)
(*                      | r_unmap: delete the bindings of their address lists                                     *)
(* GetConn, Close of a connection (+ its watcher goroutine's RemoveConnByUfrag), Close of the mux: one step each. *)
EXTENDS Naturals, Sequences, FiniteSets, TLC
CONSTANTS Ufrags,      \* ufrags connections are requested for
          Fams,        \* IP families with a connection table: subset of {"4", "6"}
          Srcs,        \* source address forms: "s1","s2" IPv4; "m1","m2" the IPv4-mapped IPv6 forms of s1, s2; "s6","t6" IPv6
          Kinds,       \* datagram kinds: "data" (not STUN), or a ufrag / "ux" (STUN whose USERNAME starts with that ufrag)
          Writers,     \* writer process names
          MaxConns, MaxGrams, MaxWrites, MaxRemoves,
          MaxStales,   \* concurrent model: GetConn calls for a ufrag whose connection is closed and not yet unlisted by its watcher
          MaxReads,    \* concurrent model: reads by a connection's user while the others are under way (0: the users read only at the end)
          StaleWrites, \* may a write start on a connection that is no longer listed (stale handle)?
          MuxClose,    \* is Close of the mux explored?
          MaxCloses,   \* Close calls on connections
          SetupFirst,  \* concurrent model: connections are created before anything else starts
          MaxOps,      \* sequential model: histories of at most this many operations
          Defects      \* behaviours of the tree before its repair, kept as switches (default {}):
                       \*   "a" removal only unlists (the connection stays open; registration does not look at closed)   [fixed c1ad2ed]
                       \*   "c" the watcher of a closed connection removes everything registered under its ufrag          [fixed 47338ec]
                       \*   "d" registration strips the address from the registering connection's own list               [fixed a16378f]
VARIABLE st
Conns == 1..MaxConns
Canon(x) == CASE x = "m1" -> "s1" [] x = "m2" -> "s2" [] OTHER -> x
\* the ufrag a STUN datagram names: the USERNAME up to its first colon. Kind "u1+" is a USERNAME with more than one colon
\* ("u1:mid:peer"): the ufrag is still u1.
UOf(kd) == CASE kd = "u1+" -> "u1" [] kd = "u2+" -> "u2" [] OTHER -> kd
KeyFam(k) == IF k \in {"s6", "t6"} THEN "6" ELSE "4"
Keys == {Canon(x) : x \in Srcs}
NoGram == [n |-> 0, src |-> "-", kind |-> "-"]
AnyW == CHOOSE w \in Writers : TRUE
S0 == [made |-> 0, listed |-> [f \in Fams |-> [u \in Ufrags |-> 0]],
              cu |-> [c \in Conns |-> "-"], cf |-> [c \in Conns |-> "-"],
              hclosed |-> [c \in Conns |-> FALSE],   \* the handle was closed by its user
              closed |-> [c \in Conns |-> FALSE],    \* the connection itself is closed
              caddrs |-> [c \in Conns |-> <<>>], amap |-> [k \in Keys |-> 0], q |-> [c \in Conns |-> <<>>],
              muxClosed |-> FALSE,
              wpc |-> [w \in Writers |-> "idle"], wc |-> [w \in Writers |-> 0], wx |-> [w \in Writers |-> "-"],
              dpc |-> "idle", dg |-> NoGram, dt |-> 0,
              rpc |-> "idle", ru |-> "-", rcs |-> {},
              kpc |-> "idle", kc |-> 0, kcs |-> {},    \* the watcher goroutine of the connection whose last handle was closed
              stales |-> 0,
              sent |-> 0, writes |-> 0, removes |-> 0, closes |-> 0, reads |-> 0,
              gone |-> {}]                           \* history: connections whose removal (or close) has completed
Init == st = S0
Listed(S, c) == \E f \in Fams, u \in Ufrags : S.listed[f][u] = c
Without(sq, x) == SelectSeq(sq, LAMBDA y : y # x)
Has(sq, x) == \E i \in 1..Len(sq) : sq[i] = x
Rng(sq) == {sq[i] : i \in 1..Len(sq)}

\* ---------------------------------------------------------------- GetConn(u, f): creates and lists a connection
Fresh(S) == S.sent = 0 /\ S.writes = 0 /\ S.removes = 0 /\ S.closes = 0
CanGet(S, u, f) == ~S.muxClosed /\ S.listed[f][u] = 0 /\ S.made < MaxConns /\ (SetupFirst => Fresh(S))
getConn(S, u, f) == LET c == S.made + 1 IN
    [S EXCEPT !.made = c, !.listed[f][u] = c, !.cu[c] = u, !.cf[c] = f]
\* ---------------------------------------------------------------- WriteTo(c, x) by writer w
CanWStart(S, w, c, x) == /\ S.wpc[w] = "idle" /\ c <= S.made /\ ~S.hclosed[c] /\ S.writes < MaxWrites
                         /\ (StaleWrites \/ Listed(S, c))
wStart(S, w, c, x) == [S EXCEPT !.wpc[w] = "start", !.wc[w] = c, !.wx[w] = x, !.writes = @ + 1]
wCheck(S, w) == [S EXCEPT !.wpc[w] = IF S.closed[S.wc[w]] THEN "idle" ELSE "contains"]
wContains(S, w) == [S EXCEPT !.wpc[w] = IF Has(S.caddrs[S.wc[w]], Canon(S.wx[w])) THEN "idle" ELSE "append"]
wAppend(S, w) == [S EXCEPT !.caddrs[S.wc[w]] = Append(@, Canon(S.wx[w])), !.wpc[w] = "register"]
wRegister(S, w) == LET k == Canon(S.wx[w])  c == S.wc[w]  old == S.amap[k] IN
    \* registerConnForAddress returns early on a closed mux and (under addressMapMu) on a closed connection
    IF S.muxClosed \/ ("a" \notin Defects /\ S.closed[c]) THEN [S EXCEPT !.wpc[w] = "idle"]
    ELSE LET S1 == IF old # 0 /\ (old # c \/ "d" \in Defects)
                   THEN [S EXCEPT !.caddrs[old] = Without(@, k)] ELSE S IN   \* a different previous owner loses the address
         [S1 EXCEPT !.amap[k] = c, !.wpc[w] = "idle"]
wStep(S, w) == CASE S.wpc[w] = "start" -> wCheck(S, w) [] S.wpc[w] = "contains" -> wContains(S, w)
                 [] S.wpc[w] = "append" -> wAppend(S, w) [] S.wpc[w] = "register" -> wRegister(S, w) [] OTHER -> S
\* ---------------------------------------------------------------- connWorker
CanDRead(S) == S.dpc = "idle" /\ S.sent < MaxGrams /\ ~S.muxClosed
dRead(S, x, kd) == [S EXCEPT !.dpc = "lookup", !.dg = [n |-> S.sent + 1, src |-> x, kind |-> kd], !.sent = @ + 1]
dLookup(S) == LET t == S.amap[Canon(S.dg.src)] IN
    [S EXCEPT !.dt = t, !.dpc = IF t # 0 THEN "enq" ELSE IF S.dg.kind # "data" THEN "ufrag" ELSE "idle"]
dUfrag(S) == LET f == KeyFam(Canon(S.dg.src))
                 t == IF UOf(S.dg.kind) \in Ufrags /\ f \in Fams THEN S.listed[f][UOf(S.dg.kind)] ELSE 0 IN
    [S EXCEPT !.dt = t, !.dpc = IF t # 0 THEN "enq" ELSE "idle"]
\* writePacket: a holder is borrowed from the pool and filled (private to the dispatcher), then - under the connection's lock -
\* the closed test and the link into the queue are one step: a connection closed in between gets nothing
dEnq(S) == [S EXCEPT !.dpc = "put"]
dPut(S) == [S EXCEPT !.dpc = "idle",
                     !.q[S.dt] = IF S.closed[S.dt] THEN @ ELSE Append(@, [n |-> S.dg.n, src |-> S.dg.src])]
dStep(S) == CASE S.dpc = "lookup" -> dLookup(S) [] S.dpc = "ufrag" -> dUfrag(S) [] S.dpc = "enq" -> dEnq(S) [] S.dpc = "put" -> dPut(S) [] OTHER -> S
\* ---------------------------------------------------------------- ReadFrom by the user of connection c: the oldest queued
\* datagram leaves the queue whether the caller's buffer holds it or not (too short: an error, the datagram is gone, the
\* holder goes back to the pool as clean as after any other read)
CanURead(S, c) == c <= S.made /\ ~S.hclosed[c] /\ S.q[c] # <<>> /\ S.reads < MaxReads
uRead(S, c) == [S EXCEPT !.q[c] = Tail(@), !.reads = @ + 1]
\* ---------------------------------------------------------------- RemoveConnByUfrag(u)
CanRStart(S, u) == S.rpc = "idle" /\ S.removes < MaxRemoves
rStart(S, u) == [S EXCEPT !.rpc = "unlist", !.ru = u, !.removes = @ + 1]
unlisted(S, u) == {S.listed[f][u] : f \in Fams} \ {0}
\* removal stops the connections it unlists (their watchers then find nothing of their own to remove)
stop(S, cs) == IF "a" \in Defects THEN S
               ELSE [S EXCEPT !.closed = [c \in Conns |-> S.closed[c] \/ c \in cs], !.q = [c \in Conns |-> IF c \in cs THEN <<>> ELSE S.q[c]]]
rUnlist(S) == LET cs == unlisted(S, S.ru) IN
    [stop(S, cs) EXCEPT !.listed = [f \in Fams |-> [S.listed[f] EXCEPT ![S.ru] = 0]], !.rcs = cs,
                        !.rpc = IF cs = {} THEN "idle" ELSE "unmap"]
unmapped(S, cs) == [k \in Keys |-> IF \E c \in cs : Has(S.caddrs[c], k) THEN 0 ELSE S.amap[k]]
rUnmap(S) == [S EXCEPT !.amap = unmapped(S, S.rcs), !.gone = @ \cup S.rcs, !.rpc = "idle"]
rStep(S) == CASE S.rpc = "unlist" -> rUnlist(S) [] S.rpc = "unmap" -> rUnmap(S) [] OTHER -> S
\* ---------------------------------------------------------------- Close of a connection's (only) handle; its watcher
\* goroutine then removes the connection itself from the tables (if it is still listed) and drops its bindings
\* Close closes the connection at once (nothing is delivered to it any more); its watcher goroutine - woken by the close -
\* then runs removeConns(ufrag, only this connection): k_unlist under m.mu (if the connection is no longer the one listed
\* there is nothing to do and the address sweep is skipped), k_unmap under addressMapMu. One watcher at a time here.
CanCloseConn(S, c) == c <= S.made /\ ~S.hclosed[c] /\ S.closes < MaxCloses /\ S.kpc = "idle"
closeConn(S, c) == LET S1 == [S EXCEPT !.hclosed[c] = TRUE, !.closed[c] = TRUE, !.q[c] = <<>>, !.closes = @ + 1] IN
    IF S.closed[c] THEN S1 ELSE [S1 EXCEPT !.kpc = "unlist", !.kc = c]      \* the watcher fires once, on the real close
kUnlist(S) == LET u == S.cu[S.kc]
                  cs == IF "c" \in Defects THEN unlisted(S, u) ELSE unlisted(S, u) \cap {S.kc}
                  S2 == stop(S, cs) IN
    [S2 EXCEPT !.listed = [f \in Fams |-> [x \in Ufrags |-> IF S2.listed[f][x] \in cs THEN 0 ELSE S2.listed[f][x]]],
               !.kcs = cs, !.kpc = IF cs = {} THEN "idle" ELSE "unmap", !.gone = IF cs = {} THEN @ \cup {S.kc} ELSE @]
kUnmap(S) == [S EXCEPT !.amap = unmapped(S, S.kcs), !.gone = @ \cup {S.kc}, !.kpc = "idle"]
kStep(S) == CASE S.kpc = "unlist" -> kUnlist(S) [] S.kpc = "unmap" -> kUnmap(S) [] OTHER -> S
\* GetConn for a ufrag whose listed connection is closed (its watcher has not unlisted it yet): the caller gets one more handle
\* on that closed connection; nothing is created
CanGetStale(S, u, f) == /\ ~S.muxClosed /\ S.listed[f][u] # 0 /\ S.closed[S.listed[f][u]] /\ S.stales < MaxStales
getStale(S) == [S EXCEPT !.stales = @ + 1]
\* ---------------------------------------------------------------- Close of the mux: closes the listed connections, empties the
\* tables (the watchers then find nothing to remove, so the bindings stay), closes the socket
closeMux(S) == LET cs == {S.listed[f][u] : f \in Fams, u \in Ufrags} \ {0} IN
    [S EXCEPT !.muxClosed = TRUE, !.listed = [f \in Fams |-> [u \in Ufrags |-> 0]],
              !.closed = [c \in Conns |-> S.closed[c] \/ c \in cs], !.q = [c \in Conns |-> IF c \in cs THEN <<>> ELSE S.q[c]],
              !.gone = @ \cup cs]

\* ================================================================ concurrent model: one action = one step
GetConn(u, f) == CanGet(st, u, f) /\ st' = getConn(st, u, f)
WStart(w, c, x) == CanWStart(st, w, c, x) /\ st' = wStart(st, w, c, x)
WCheck(w) == st.wpc[w] = "start" /\ st' = wCheck(st, w)
WContains(w) == st.wpc[w] = "contains" /\ st' = wContains(st, w)
WAppend(w) == st.wpc[w] = "append" /\ st' = wAppend(st, w)
WRegister(w) == st.wpc[w] = "register" /\ st' = wRegister(st, w)
DRead(x, kd) == CanDRead(st) /\ st' = dRead(st, x, kd)
DLookup == st.dpc = "lookup" /\ st' = dLookup(st)
DUfrag == st.dpc = "ufrag" /\ st' = dUfrag(st)
DEnq == st.dpc = "enq" /\ st' = dEnq(st)
DPut == st.dpc = "put" /\ st' = dPut(st)
URead(c, short) == CanURead(st, c) /\ st' = uRead(st, c)
RStart(u) == CanRStart(st, u) /\ st' = rStart(st, u)
RUnlist == st.rpc = "unlist" /\ st' = rUnlist(st)
RUnmap == st.rpc = "unmap" /\ st' = rUnmap(st)
CloseConn(c) == CanCloseConn(st, c) /\ st' = closeConn(st, c)
KUnlist == st.kpc = "unlist" /\ st' = kUnlist(st)
KUnmap == st.kpc = "unmap" /\ st' = kUnmap(st)
GetStale(u, f) == CanGetStale(st, u, f) /\ st' = getStale(st)
CloseMux == MuxClose /\ ~st.muxClosed /\ st' = closeMux(st)
Next == \/ \E u \in Ufrags, f \in Fams : GetConn(u, f)
        \/ \E w \in Writers : (\E c \in Conns, x \in Srcs : WStart(w, c, x)) \/ WCheck(w) \/ WContains(w) \/ WAppend(w) \/ WRegister(w)
        \/ (\E x \in Srcs, kd \in Kinds : DRead(x, kd)) \/ DLookup \/ DUfrag \/ DEnq \/ DPut
        \/ (\E c \in Conns, sh \in {"full", "short"} : URead(c, sh))
        \/ (\E u \in Ufrags : RStart(u)) \/ RUnlist \/ RUnmap
        \/ (\E c \in Conns : CloseConn(c)) \/ KUnlist \/ KUnmap \/ CloseMux
        \/ \E u \in Ufrags, f \in Fams : GetStale(u, f)
Spec == Init /\ [][Next]_st

\* ================================================================ sequential model: one action = one whole operation
Idle(S) == S.dpc = "idle" /\ S.rpc = "idle" /\ S.kpc = "idle" /\ \A w \in Writers : S.wpc[w] = "idle"
K2(S) == kStep(kStep(S))
W4(S, w) == wStep(wStep(wStep(wStep(S, w), w), w), w)
D3(S) == dStep(dStep(dStep(dStep(S))))   \* lookup, ufrag, enq, put
R2(S) == rStep(rStep(S))
\* the datagram is read by the connection's user right away: the queue does not grow, datagrams are not counted
Target(S, x, kd) == LET S1 == D3(dRead(S, x, kd)) IN
    IF \E c \in Conns : Len(S1.q[c]) > Len(S.q[c]) THEN CHOOSE c \in Conns : Len(S1.q[c]) > Len(S.q[c]) ELSE 0
WriteOp(c, x) == CanWStart(st, AnyW, c, x) /\ st' = [W4(wStart(st, AnyW, c, x), AnyW) EXCEPT !.writes = 0]
DispatchOp(x, kd) == ~st.muxClosed /\ st' = st
RemoveOp(u) == CanRStart(st, u) /\ st' = [R2(rStart(st, u)) EXCEPT !.removes = 0]
CloseOp(c) == CanCloseConn(st, c) /\ st' = [K2(closeConn(st, c)) EXCEPT !.closes = 0]
SeqNext == \/ \E u \in Ufrags, f \in Fams : GetConn(u, f)
           \/ \E c \in Conns, x \in Srcs : WriteOp(c, x)
           \/ \E x \in Srcs, kd \in Kinds : DispatchOp(x, kd)
           \/ \E u \in Ufrags : RemoveOp(u)
           \/ (\E c \in Conns : CloseOp(c)) \/ CloseMux
SeqSpec == Init /\ [][SeqNext]_st
SeqBound == TLCGet("level") <= MaxOps

\* ================================================================ C12 on the model (MuxRouteMon states the property over observations)
Busy(S, c) == (\E w \in Writers : S.wpc[w] # "idle" /\ S.wc[w] = c) \/ S.dpc # "idle" \/ S.rpc # "idle" \/ S.kpc # "idle"
\* after removal / close has completed and nothing is in progress, no address is bound to the connection
GoneAfterRemove == \A c \in st.gone : (~Busy(st, c) /\ ~st.muxClosed) => \A k \in Keys : st.amap[k] # c
\* a connection that was neither removed nor closed stays registered
ListedUnlessGone == \A c \in Conns : (c <= st.made /\ c \notin st.gone /\ ~st.muxClosed /\ st.rpc = "idle" /\ st.kpc = "idle") => Listed(st, c)
\* a closed connection holds nothing
ClosedEmpty == \A c \in Conns : st.closed[c] => st.q[c] = <<>>
\* each datagram is queued at most once
AtMostOne == \A n \in 1..MaxGrams : Cardinality({<<c, i>> \in Conns \X (1..MaxGrams) : i <= Len(st.q[c]) /\ st.q[c][i].n = n}) <= 1
PerConnFifo == \A c \in Conns : \A i \in 1..Len(st.q[c]) : \A j \in 1..Len(st.q[c]) : i < j => st.q[c][i].n < st.q[c][j].n
TypeOK == st.made \in 0..MaxConns /\ \A k \in Keys : st.amap[k] \in 0..MaxConns
====
