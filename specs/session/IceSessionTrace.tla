---- MODULE IceSessionTrace ----
(* Conformance: every step recorded from two real agents must be an action of  *)
(* IceSession whose post-state equals the recorded post-state.                  *)
EXTENDS IceSession, Json
CONSTANT TraceFile
Tr == ndJsonDeserialize(TraceFile)
VARIABLE l
tv == <<vars, l>>
ToMsg(j) == [from |-> j.from, kind |-> j.kind, src |-> j.src, dst |-> j.dst, tid |-> j.tid, uc |-> j.uc, rolea |-> j.rolea,
             user |-> <<j.user[1], j.user[2]>>, key |-> <<j.key[1], j.key[2]>>, prio |-> j.prio, tbc |-> j.tbc, copy |-> j.copy, nom |-> j.nom]
ProjPairs(ps) == [k \in 1..Len(ps) |-> [id |-> ps[k].id, l |-> ps[k].l, r |-> ps[k].r, rt |-> ps[k].rt, st |-> ps[k].st, nom |-> ps[k].nom, nos |-> ps[k].nos, reqs |-> ps[k].reqs]]
ToData(j) == [from |-> j.from, src |-> j.src, dst |-> j.dst, pid |-> j.pid, len |-> j.len]
ProjTxn(x) == [tid |-> x.tid, dst |-> x.dst, uc |-> x.uc, nom |-> x.nom]
PostOK(j) ==
  /\ \A a \in Agents :
       /\ role'[a] = j.post[a].role /\ conn'[a] = j.post[a].conn
       /\ gen'[a] = j.post[a].gen /\ rgen'[a] = j.post[a].rgen
       /\ locals'[a] = j.post[a].locals /\ remotes'[a] = j.post[a].remotes
       /\ ProjPairs(pairs'[a]) = ProjPairs(j.post[a].pairs)
       /\ {ProjTxn(x) : x \in pend'[a]} = {ProjTxn(x) : x \in Rng(j.post[a].pend)}
       /\ sel'[a] = j.post[a].sel /\ nomPair'[a] = j.post[a].nomPair /\ lastNom'[a] = j.post[a].lastNom
       /\ gath'[a] = j.post[a].gath
       /\ \A k \in 1..Len(j.post[a].remotes) : lastRx'[a][j.post[a].remotes[k].addr] = j.post[a].rx[j.post[a].remotes[k].addr]
  /\ net' = SeqToBag([k \in 1..Len(j.post.net) |-> ToMsg(j.post.net[k])])
  /\ now' = j.post.now
  /\ dnet' = SeqToBag([k \in 1..Len(j.post.dnet) |-> ToData(j.post.dnet[k])])
  /\ \A a \in Agents : rd'[a] = [k \in 1..Len(j.post[a].rd) |-> j.post[a].rd[k].pid]
TInit == Init /\ l = 1
Ev(e) == l <= Len(Tr) /\ Tr[l].ev = e /\ l' = l + 1
J == Tr[l]
\* a trace starts with two freshly constructed agents: nothing gathered, nothing signalled, Dial/Accept not yet called
ResetStep ==
  /\ role' = [a \in Agents |-> "controlled"] /\ gen' = [a \in Agents |-> 1] /\ rgen' = [a \in Agents |-> 0]
  /\ locals' = [a \in Agents |-> <<>>] /\ remotes' = [a \in Agents |-> <<>>]
  /\ pairs' = [a \in Agents |-> <<>>] /\ nextId' = [a \in Agents |-> J.idBase[a]]
  /\ pend' = [a \in Agents |-> {}] /\ sel' = [a \in Agents |-> 0] /\ nomPair' = [a \in Agents |-> 0]
  /\ conn' = [a \in Agents |-> "New"] /\ nextTid' = Tid0
  /\ net' = EmptyBag /\ ticks' = [a \in Agents |-> 0] /\ loss' = 0 /\ dup' = 0 /\ inj' = 0 /\ rst' = 0
  /\ out' = EmptyBag /\ answered' = [a \in Agents |-> {}]
  /\ now' = 0 /\ lastRx' = [a \in Agents |-> Never] /\ selStart' = [a \in Agents |-> 0] /\ chkStart' = [a \in Agents |-> 0]
  /\ lastTick' = [a \in Agents |-> "Unknown"] /\ gath' = [a \in Agents |-> "new"]
  /\ lastNom' = [a \in Agents |-> 0] /\ nomGen' = [a \in Agents |-> 0] /\ issued' = <<>>
  /\ dnet' = EmptyBag /\ rd' = NoReads /\ wr' = Wr0
TNext == \/ Ev("Tick") /\ Tick(J.ag) /\ DataIdle /\ PostOK(J)
         \/ Ev("Deliver") /\ Deliver(ToMsg(J.m)) /\ DataIdle /\ PostOK(J)
         \/ Ev("Vanish") /\ Vanish(ToMsg(J.m)) /\ DataIdle /\ PostOK(J)
         \/ Ev("Drop") /\ Drop(ToMsg(J.m)) /\ DataIdle /\ PostOK(J)
         \/ Ev("Dup") /\ Dup(ToMsg(J.m)) /\ DataIdle /\ PostOK(J)
         \/ Ev("Inject") /\ Inject(ToMsg(J.m)) /\ DataIdle /\ PostOK(J)
         \/ Ev("Advance") /\ Advance(J.d) /\ DataIdle /\ PostOK(J)
         \/ Ev("Renominate") /\ Renominate(J.ag, J.k) /\ DataIdle /\ PostOK(J)
         \/ Ev("Restart") /\ Restart(J.ag) /\ DataIdle /\ PostOK(J)
         \/ Ev("Gather") /\ Gather(J.ag) /\ DataIdle /\ PostOK(J)
         \/ Ev("Start") /\ Start(J.ag) /\ DataIdle /\ PostOK(J)
         \/ Ev("Close") /\ Close(J.ag) /\ DataIdle /\ PostOK(J)
         \/ Ev("SetRemoteCreds") /\ SetRemoteCreds(J.ag) /\ DataIdle /\ PostOK(J)
         \/ Ev("AddRemote") /\ AddRemote(J.ag, [addr |-> J.c.addr, typ |-> J.c.typ, prio |-> J.c.prio]) /\ DataIdle /\ PostOK(J)
         \/ Ev("Write") /\ (IF J.stun \/ (J.cookie /\ J.err # "") THEN WriteStun(J.ag) ELSE Write(J.ag, J.pid, J.len)) /\ PostOK(J)
         \/ Ev("PauseRead") /\ PauseRead(J.ag) /\ PostOK(J)
         \/ Ev("ResumeRead") /\ ResumeRead(J.ag) /\ PostOK(J)
         \/ Ev("ShortRead") /\ ShortRead(J.ag) /\ PostOK(J)
         \/ Ev("DeliverData") /\ DeliverData(ToData(J.d)) /\ PostOK(J)
         \/ Ev("VanishData") /\ VanishData(ToData(J.d)) /\ PostOK(J)
         \/ Ev("DropData") /\ DropData(ToData(J.d)) /\ PostOK(J)
         \/ Ev("InjectData") /\ InjectData(ToData(J.d)) /\ PostOK(J)
         \/ Ev("Skipped") /\ UNCHANGED <<corev, dnet, wr>> /\ rd' = NoReads /\ PostOK(J)
         \/ Ev("RenominateBad") /\ UNCHANGED <<corev, dnet, wr>> /\ rd' = NoReads /\ PostOK(J)   \* refused API call: no effect
         \/ Ev("DrainEnd") /\ UNCHANGED <<corev, dnet, wr>> /\ rd' = NoReads /\ PostOK(J)
         \/ Ev("Reset") /\ ResetStep /\ PostOK(J)
TSpec == TInit /\ [][TNext]_tv
Accepted == IF TLCGet("stats").diameter = Len(Tr) + 1 THEN TRUE
            ELSE Print(<<"TRACE_REJECTED_AT", TLCGet("stats").diameter, Len(Tr)>>, FALSE)
TraceLen == Len(Tr)
====
