---- MODULE IceSession ----
(* Two ICE agents and the network: checks, nomination, authentication,        *)
(* role conflict, peer-reflexive discovery behind a NAT, restart.             *)
(* One action = one task of the agent's task loop.                            *)
EXTENDS Naturals, Integers, FiniteSets, Sequences, Bags, TLC
CONSTANTS Loc,       \* Loc[a] : sequence of host addresses of agent a
          NatMap,       \* NatMap[l] : address the peer sees as source of datagrams sent from l (identity = no NAT)
          Reach,     \* set of <<wireSrc, dst>> the network delivers
          InitRole,  \* InitRole[a] \in {"controlling","controlled"}
          TbCmp,     \* sign(tb[A] - tb[B]) \in {-1,0,1}
          Signal,    \* Signal[a] : sequence of remote candidates [addr,typ,prio] the application may signal to a (AddRemote)
          PreSignal, \* PreSignal[a] : the remote candidates a already holds when checks start
          MaxReq, MaxTicks, MaxLoss, MaxDup, MaxFlight, MaxInject, MaxRestart,
          D, F, K, H,  \* disconnected / failed timeouts, keepalive interval (0 = off), transaction lifetime
          RFilter,     \* RFilter[a]: remote addresses a's remote IP filter rejects (signalled or discovered: never a remote candidate)
          DD, DC,      \* per agent: the disconnected timeout in effect, and the disconnected part of the initial checking deadline
                       \* (both D unless a lite agent keeps its defaults: then 10 s resp. the full agent's 5 s)
          Acc,         \* Acc[typ] : acceptance minimum wait per candidate type
          Steps, MaxTime,  \* clock increments offered to Advance, horizon
          NomBase, NomStep, \* nomination values issued are NomBase + 1, NomBase + 1 + NomStep, NomBase + 1 + 2*NomStep, ...
          Renom, MaxRenom, \* renomination enabled (controlling side issues valued nominations), budget
          MaxClose,    \* 1: agents may be closed in model checking, 0: not
          MaxData,     \* budget of application-data operations (writes and injected data datagrams)
          BufLimit,    \* capacity of the agent's receive buffer in bytes (the code: 1 000 000)
          PLen,        \* payload length of the datagrams the model checker writes
          MaxPause,    \* model checking: 0 = the readers always keep up
          Lite,        \* Lite[a] : a is an ICE-lite agent
          ForgeConflict, \* TRUE: forged requests may carry the receiver's own role, with any tie-breaker order (peer misbehaviour mid-session)
          Miss,        \* near-miss generation: names of guards switched OFF in this configuration ({} = the faithful model)
          CheckPrio    \* CheckPrio[a] : lite agent a still applies the priority rule to plain USE-CANDIDATE
Agents == {"A","B"}
Other(a) == IF a = "A" THEN "B" ELSE "A"
HostPrio == 9
NoReads == [a \in {"A", "B"} |-> <<>>]
Wr0 == [n |-> 0, paused |-> [a \in {"A", "B"} |-> FALSE], grace |-> [a \in {"A", "B"} |-> FALSE], buf |-> [a \in {"A", "B"} |-> <<>>]]
Tid0 == [A |-> 1, B |-> 1001]   \* transaction ids are ordinals in disjoint ranges per issuing agent
NeedPrio(a) == ~Lite[a] \/ CheckPrio[a]          \* needsToCheckPriorityOnNominated
VARIABLES role, gen, rgen, locals, remotes, pairs, nextId, pend, sel, nomPair, conn, nextTid,
          net, ticks, loss, dup, inj, rst,
          now, lastRx, selStart, chkStart, lastTick, gath,
          lastNom, nomGen, issued,
          out,       \* datagrams emitted by the last step (bag) -- observation only
          answered,  \* history
          dnet,      \* application-data datagrams in flight (bag of [from, src, dst, pid])
          rd,        \* rd[a] : payload ids handed to a's reader by the last step -- observation only
          wr         \* the application's side of the data plane: n = data operations so far (budget; also the next payload id in model
                     \* checking); paused[a] = a's reader has stopped calling Read; grace[a] = it was inside Read when it stopped, so the
                     \* next datagram still goes straight through; buf[a] = what the agent's receive buffer holds for it, <<pid, len>> each
vars == <<role, gen, rgen, locals, remotes, pairs, nextId, pend, sel, nomPair, conn, nextTid,
          net, ticks, loss, dup, inj, rst, now, lastRx, selStart, chkStart, lastTick, gath, lastNom, nomGen, issued, out, answered, dnet, rd, wr>>
corev == <<role, gen, rgen, locals, remotes, pairs, nextId, pend, sel, nomPair, conn, nextTid,
          net, ticks, loss, dup, inj, rst, now, lastRx, selStart, chkStart, lastTick, gath, lastNom, nomGen, issued, out, answered>>
timev == <<now, lastRx, selStart, chkStart, lastTick, gath>>
nomv == <<lastNom, nomGen, issued>>

\* ---------- helpers
LiteCtd(a) == Lite[a] /\ role[a] = "controlled"   \* liteSelector around a controlled selector: never originates requests
Rng(s) == {s[k] : k \in 1..Len(s)}
RevNat(d) == IF \E a \in Agents : \E k \in 1..Len(Loc[a]) : NatMap[Loc[a][k]] = d /\ Loc[a][k] # d
             THEN CHOOSE l \in UNION {Rng(Loc[a]) : a \in Agents} : NatMap[l] = d ELSE d
OwnerOf(l) == CHOOSE a \in Agents : l \in Rng(Loc[a])
Cmp(b) == IF b = "A" THEN TbCmp ELSE 0 - TbCmp      \* sign(tb[b] - tb[Other(b)])
One(m) == SetToBag({m})
SeqToBag(s) == LET RECURSIVE Fold(_) Fold(k) == IF k = 0 THEN EmptyBag ELSE Fold(k-1) (+) One(s[k]) IN Fold(Len(s))

\* several remote candidates may share one transport address (a peer with a public address signals a host and a server-reflexive
\* candidate that differ only in type): a source address stands for the first of them (findRemoteCandidate), a pair belongs to one
\* of them (rt = that candidate's type; findPair compares candidates, not addresses)
RemIdx(rs, addr) == LET S == {k \in 1..Len(rs) : rs[k].addr = addr} IN IF S = {} THEN 0 ELSE CHOOSE k \in S : \A j \in S : k <= j
RemIdxT(rs, addr, t) == LET S == {k \in 1..Len(rs) : rs[k].addr = addr /\ rs[k].typ = t} IN IF S = {} THEN 0 ELSE CHOOSE k \in S : \A j \in S : k <= j
PairIdxT(ps, l, r, t) == LET S == {k \in 1..Len(ps) : ps[k].l = l /\ ps[k].r = r /\ ps[k].rt = t} IN IF S = {} THEN 0 ELSE CHOOSE k \in S : \A j \in S : k <= j
\* the pair a datagram from r on l is accounted to: that of the first remote candidate at r
PairIdxVia(ps, l, r, rs) == IF RemIdx(rs, r) = 0 THEN 0 ELSE PairIdxT(ps, l, r, rs[RemIdx(rs, r)].typ)
PairById(ps, id) == LET S == {k \in 1..Len(ps) : ps[k].id = id} IN IF S = {} THEN 0 ELSE CHOOSE k \in S : TRUE

\* pair priority: lexicographic code of (min, max, G>D) with G = controlling side's candidate priority; frozen at pair creation role
PPrio(ctl, lp, rp) == LET g == IF ctl THEN lp ELSE rp   d == IF ctl THEN rp ELSE lp
                          mn == IF g < d THEN g ELSE d  mx == IF g > d THEN g ELSE d
                      IN mn * 100 + mx * 2 + (IF g > d THEN 1 ELSE 0)
\* pnv: nomination value of a deferred renomination (0 = plain USE-CANDIDATE)
NewPair(id, l, r, rt, rprio, ctl) == [id |-> id, l |-> l, r |-> r, rt |-> rt, st |-> "W", nom |-> FALSE, nos |-> FALSE, pnv |-> 0, reqs |-> 0,
                                  prio |-> PPrio(ctl, HostPrio, rprio)]
Best(ps, S) == IF S = {} THEN 0 ELSE CHOOSE k \in S : \A j \in S : ps[j].prio < ps[k].prio \/ (ps[j].prio = ps[k].prio /\ k <= j)
BestValid(ps) == Best(ps, {k \in 1..Len(ps) : ps[k].st = "S"})
BestAvail(ps) == Best(ps, {k \in 1..Len(ps) : ps[k].st # "F"})

\* ---------- message construction (what agent a puts on the wire)
\* user = <<generation the receiver must have, generation of the sender>>; key = <<agent whose password signs, generation>>
Req(a, tid, l, r, uc) ==
  [from |-> a, kind |-> "req", src |-> NatMap[l], dst |-> r, tid |-> tid, uc |-> uc, rolea |-> role[a],
   user |-> <<rgen[a], gen[a]>>, key |-> <<Other(a), rgen[a]>>, prio |-> HostPrio, tbc |-> 0 - Cmp(a), copy |-> 0, nom |-> 0]
Resp(a, kind, m) ==
  [from |-> a, kind |-> kind, src |-> NatMap[RevNat(m.dst)], dst |-> m.src, tid |-> m.tid, uc |-> FALSE, rolea |-> "none",
   user |-> <<0, 0>>, key |-> <<a, gen[a]>>, prio |-> 0, tbc |-> 0, copy |-> 0, nom |-> 0]
Txn(tid, r, uc) == [tid |-> tid, dst |-> r, uc |-> uc, at |-> now, nom |-> 0]
Expire(S) == {x \in S : now - x.at < H}
Addrs == {"a1", "a2", "b1", "b2", "n1", "n2", "x9"}
Never == [x \in Addrs |-> 0 - 1]
RTyp(a, r) == remotes[a][RemIdx(remotes[a], r)].typ
Nominatable(a, p) == now - selStart[a] >= Acc["host"] /\ now - selStart[a] >= Acc[p.rt]

\* ---------- initial state: both agents gathered, signalled and started
RECURSIVE AddRemotePairs(_, _, _, _, _, _)
AddRemotePairs(ps, id, ls, k, c, ctl) ==   \* pair a new remote c with every local (findPair guard)
  IF k > Len(ls) THEN [ps |-> ps, id |-> id]
  ELSE IF PairIdxT(ps, ls[k], c.addr, c.typ) # 0 /\ "findpair" \notin Miss THEN AddRemotePairs(ps, id, ls, k + 1, c, ctl)
       ELSE AddRemotePairs(Append(ps, NewPair(id + 1, ls[k], c.addr, c.typ, c.prio, ctl)), id + 1, ls, k + 1, c, ctl)
RECURSIVE AddAllRemotes(_, _, _, _, _, _)
AddAllRemotes(ps, id, ls, cs, k, ctl) ==
  IF k > Len(cs) THEN [ps |-> ps, id |-> id]
  ELSE LET r == AddRemotePairs(ps, id, ls, 1, cs[k], ctl) IN AddAllRemotes(r.ps, r.id, ls, cs, k + 1, ctl)
Init ==
  /\ role = InitRole /\ gen = [a \in Agents |-> 1] /\ rgen = [a \in Agents |-> 1]
  \* what was signalled before the start, less what the remote IP filter refuses
  /\ locals = Loc /\ remotes = [a \in Agents |-> SelectSeq(PreSignal[a], LAMBDA c : c.addr \notin RFilter[a])]
  /\ LET r == [a \in Agents |-> AddAllRemotes(<<>>, 0, Loc[a], SelectSeq(PreSignal[a], LAMBDA c : c.addr \notin RFilter[a]), 1, InitRole[a] = "controlling")] IN
       pairs = [a \in Agents |-> r[a].ps] /\ nextId = [a \in Agents |-> r[a].id]
  /\ pend = [a \in Agents |-> {}] /\ sel = [a \in Agents |-> 0] /\ nomPair = [a \in Agents |-> 0]
  /\ conn = [a \in Agents |-> "Checking"] /\ nextTid = Tid0
  /\ net = EmptyBag /\ ticks = [a \in Agents |-> 0] /\ loss = 0 /\ dup = 0 /\ inj = 0 /\ rst = 0
  /\ now = 0 /\ lastRx = [a \in Agents |-> Never] /\ selStart = [a \in Agents |-> 0] /\ chkStart = [a \in Agents |-> 0]
  /\ lastTick = [a \in Agents |-> "Unknown"] /\ gath = [a \in Agents |-> "complete"]
  /\ lastNom = [a \in Agents |-> 0] /\ nomGen = [a \in Agents |-> 0] /\ issued = <<>>
  /\ out = EmptyBag /\ answered = [a \in Agents |-> {}]
  /\ dnet = EmptyBag /\ rd = NoReads /\ wr = Wr0

\* ---------- Tick(a): the contact closure
RECURSIVE PingAll(_, _, _, _)
PingAll(a, ps, k, acc) ==
  IF k > Len(ps) THEN [ps |-> ps, out |-> acc.out, pend |-> acc.pend, tid |-> acc.tid]
  ELSE LET p == ps[k]  st1 == IF p.st = "W" THEN "I" ELSE p.st IN
       IF st1 # "I" THEN PingAll(a, ps, k + 1, acc)
       ELSE IF p.reqs > MaxReq THEN PingAll(a, [ps EXCEPT ![k].st = "F"], k + 1, acc)
       ELSE PingAll(a, [ps EXCEPT ![k].st = "I", ![k].reqs = @ + 1], k + 1,
                    [out |-> acc.out (+) One(Req(a, acc.tid, p.l, p.r, FALSE)),
                     pend |-> acc.pend \cup {Txn(acc.tid, p.r, FALSE)}, tid |-> acc.tid + 1])
Send1(a, p, uc) ==   \* one request on pair p
  /\ out' = One(Req(a, nextTid[a], p.l, p.r, uc)) /\ net' = net (+) out'
  /\ pend' = [pend EXCEPT ![a] = Expire(@) \cup {Txn(nextTid[a], p.r, uc)}]
  /\ nextTid' = [nextTid EXCEPT ![a] = @ + 1]
\* connection state as a function of the selected remote's silence (connectionStateForDisconnection)
StateFor(a, silence) ==
  LET total == IF F = 0 THEN 0 ELSE F + DD[a]
      disc == DD[a] # 0 /\ silence > DD[a]
      fail == total # 0 /\ silence > total
  IN IF fail THEN (IF disc /\ conn[a] \notin {"Disconnected", "Failed"} THEN "Disconnected" ELSE "Failed")
     ELSE IF disc THEN "Disconnected" ELSE "Connected"
Silence(a) == LET p == pairs[a][PairById(pairs[a], sel[a])] rx == lastRx[a][p.r] IN IF rx < 0 THEN 1000000000 ELSE now - rx
\* updateConnectionState(Failed): everything is released
Wiped(a) == /\ pairs' = [pairs EXCEPT ![a] = <<>>] /\ pend' = [pend EXCEPT ![a] = {}] /\ sel' = [sel EXCEPT ![a] = 0]
            /\ locals' = [locals EXCEPT ![a] = <<>>] /\ remotes' = [remotes EXCEPT ![a] = <<>>]
            /\ lastRx' = [lastRx EXCEPT ![a] = Never] /\ conn' = [conn EXCEPT ![a] = "Failed"]
Tick(a) ==
  /\ conn[a] \notin {"New", "Closed"}     \* the ticker exists between Dial/Accept and Close
  /\ ticks[a] < MaxTicks /\ BagCardinality(net) < MaxFlight
  /\ ticks' = [ticks EXCEPT ![a] = @ + 1]
  /\ LET ps == pairs[a]
         cs == IF conn[a] = "Checking" /\ lastTick[a] # "Checking" THEN now ELSE chkStart[a]
         deadline == IF F = 0 THEN 0 ELSE DC[a] + F
     IN
     /\ chkStart' = [chkStart EXCEPT ![a] = cs]
     /\ IF conn[a] = "Failed" THEN
          /\ UNCHANGED <<pairs, nomPair, pend, nextTid, net, sel, locals, remotes, lastRx, conn>> /\ out' = EmptyBag
        ELSE IF conn[a] = "Checking" /\ deadline # 0 /\ now - cs > deadline THEN
          /\ Wiped(a) /\ UNCHANGED <<nomPair, nextTid, net>> /\ out' = EmptyBag
        ELSE IF sel[a] # 0 THEN
          LET st == StateFor(a, Silence(a)) IN
          IF st = "Failed" THEN /\ Wiped(a) /\ UNCHANGED <<nomPair, nextTid, net>> /\ out' = EmptyBag
          ELSE /\ conn' = [conn EXCEPT ![a] = st] /\ UNCHANGED <<pairs, nomPair, sel, locals, remotes, lastRx>>
               /\ IF K # 0 /\ ~LiteCtd(a) THEN Send1(a, ps[PairById(ps, sel[a])], FALSE)
                  ELSE UNCHANGED <<pend, nextTid, net>> /\ out' = EmptyBag
        ELSE IF LiteCtd(a) THEN
          /\ UNCHANGED <<pairs, nomPair, pend, nextTid, net, sel, locals, remotes, lastRx, conn>> /\ out' = EmptyBag
        ELSE IF role[a] = "controlling" /\ nomPair[a] # 0 THEN
          \* the nomination is sticky: it is retransmitted on the pair chosen first, whatever has become valid meanwhile
          \* (near miss "nomsticky": the unanswered nomination moves to a better valid pair)
          LET cur == PairById(ps, nomPair[a])   b == BestValid(ps)
              move == "nomsticky" \in Miss /\ b # 0 /\ b # cur /\ ps[b].prio > ps[cur].prio /\ Nominatable(a, ps[b]) IN
          IF move THEN /\ pairs' = [pairs EXCEPT ![a][b].nom = TRUE] /\ nomPair' = [nomPair EXCEPT ![a] = ps[b].id]
                       /\ Send1(a, ps[b], TRUE) /\ UNCHANGED <<sel, locals, remotes, lastRx, conn>>
          ELSE Send1(a, ps[cur], TRUE) /\ UNCHANGED <<pairs, nomPair, sel, locals, remotes, lastRx, conn>>
        ELSE IF role[a] = "controlling" /\ BestValid(ps) # 0 /\ Nominatable(a, ps[BestValid(ps)]) THEN
          LET b == BestValid(ps) IN
          /\ pairs' = [pairs EXCEPT ![a][b].nom = TRUE] /\ nomPair' = [nomPair EXCEPT ![a] = ps[b].id]
          /\ Send1(a, ps[b], TRUE) /\ UNCHANGED <<sel, locals, remotes, lastRx, conn>>
        ELSE LET r == PingAll(a, ps, 1, [out |-> EmptyBag, pend |-> {}, tid |-> nextTid[a]]) IN
          /\ pairs' = [pairs EXCEPT ![a] = r.ps] /\ out' = r.out /\ net' = net (+) r.out
          /\ pend' = [pend EXCEPT ![a] = IF r.pend = {} THEN @ ELSE Expire(@) \cup r.pend]
          /\ nextTid' = [nextTid EXCEPT ![a] = r.tid]
          /\ UNCHANGED <<nomPair, sel, locals, remotes, lastRx, conn>>
     /\ lastTick' = [lastTick EXCEPT ![a] = conn'[a]]
  /\ UNCHANGED <<role, gen, rgen, nextId, loss, dup, inj, rst, now, selStart, gath, answered, nomv>>

\* ---------- handleInbound
SelectPair(a, ps, k) == [ps EXCEPT ![k].nom = TRUE]

\* request processing after authentication; b = receiver, lc = local address, m = message
HandleReq(b, lc, m) ==
  LET known == RemIdx(remotes[b], m.src) # 0
      ctl == role[b] = "controlling"
      \* peer-reflexive discovery
      c == [addr |-> m.src, typ |-> "prflx", prio |-> m.prio]
      rs1 == IF known THEN remotes[b] ELSE Append(remotes[b], c)
      ap == IF known THEN [ps |-> pairs[b], id |-> nextId[b]] ELSE AddRemotePairs(pairs[b], nextId[b], locals[b], 1, c, ctl)
      conflict == m.rolea = role[b]
  IN
  IF conflict THEN
     LET keeps == (ctl /\ m.tbc >= 0) \/ (~ctl /\ m.tbc < 0) IN
     /\ remotes' = [remotes EXCEPT ![b] = rs1] /\ pairs' = [pairs EXCEPT ![b] = ap.ps] /\ nextId' = [nextId EXCEPT ![b] = ap.id]
     /\ IF keeps THEN /\ out' = One(Resp(b, "err", m)) /\ net' = (net (-) One(m)) (+) out'
                      /\ UNCHANGED <<role, nomPair>>
                 ELSE /\ out' = EmptyBag /\ net' = net (-) One(m)
                      /\ role' = [role EXCEPT ![b] = IF ctl THEN "controlled" ELSE "controlling"]
                      /\ nomPair' = [nomPair EXCEPT ![b] = 0]
     /\ selStart' = [selStart EXCEPT ![b] = IF keeps THEN @ ELSE now]
     /\ lastNom' = [lastNom EXCEPT ![b] = IF keeps THEN @ ELSE 0]
     /\ UNCHANGED <<pend, nextTid, sel, conn, lastRx>>
  ELSE
     LET ps == ap.ps   k == PairIdxVia(ps, lc, m.src, rs1)   p == ps[k]   t == nextTid[b] IN
     /\ remotes' = [remotes EXCEPT ![b] = rs1] /\ nextId' = [nextId EXCEPT ![b] = ap.id] /\ UNCHANGED <<role, selStart>>
     /\ lastRx' = [lastRx EXCEPT ![b][m.src] = now]
     /\ IF ctl THEN
          IF p.st = "S" /\ nomPair[b] = 0 /\ sel[b] = 0 /\ BestAvail(ps) = k
             /\ now - selStart[b] >= Acc["host"] /\ now - selStart[b] >= Acc[rs1[RemIdx(rs1, m.src)].typ] THEN
             /\ nomPair' = [nomPair EXCEPT ![b] = p.id] /\ pairs' = [pairs EXCEPT ![b] = ps]
             /\ out' = One(Resp(b, "succ", m)) (+) One(Req(b, t, p.l, p.r, TRUE)) /\ net' = (net (-) One(m)) (+) out'
             /\ pend' = [pend EXCEPT ![b] = Expire(@) \cup {Txn(t, p.r, TRUE)}] /\ nextTid' = [nextTid EXCEPT ![b] = t + 1]
             /\ UNCHANGED <<sel, conn, lastNom>>
          ELSE /\ out' = One(Resp(b, "succ", m)) /\ net' = (net (-) One(m)) (+) out' /\ pairs' = [pairs EXCEPT ![b] = ps]
               /\ UNCHANGED <<pend, nextTid, nomPair, sel, conn, lastNom>>
        ELSE
          LET cur == IF sel[b] = 0 THEN 0 ELSE PairById(ps, sel[b])
              nominates == m.uc \/ m.nom # 0
              accept == nominates /\ (m.nom = 0 \/ lastNom[b] = 0 \/ m.nom > lastNom[b])   \* shouldAcceptNomination
              rejected == nominates /\ ~accept
              st1 == IF Lite[b] /\ accept THEN "S" ELSE p.st    \* a lite agent puts an accepted nomination straight into the valid list
              doSel == accept /\ (st1 = "S" \/ "selvalid" \in Miss)
                       \* a plain USE-CANDIDATE never overrides a valued nomination (lastNom # 0: renomination in use)
                       /\ (cur = 0 \/ (cur # k /\ (m.nom # 0 \/ (lastNom[b] = 0 /\ (~NeedPrio(b) \/ ps[cur].prio < p.prio \/ "prioless" \in Miss)))))
              defer == accept /\ st1 # "S"      \* the nomination value is remembered with the pair (pnv)
              ps0 == [ps EXCEPT ![k].st = st1]
              ps1 == IF doSel THEN SelectPair(b, ps0, k) ELSE IF defer THEN [ps0 EXCEPT ![k].nos = TRUE, ![k].pnv = IF m.nom # 0 THEN m.nom ELSE @] ELSE ps0
              sel1 == IF doSel THEN p.id ELSE sel[b]
              trig == ~rejected /\ ~Lite[b] /\ (st1 # "S" \/ sel1 = 0)
          IN /\ lastNom' = [lastNom EXCEPT ![b] = IF accept /\ m.nom # 0 THEN m.nom ELSE @]
             /\ pairs' = [pairs EXCEPT ![b] = ps1] /\ sel' = [sel EXCEPT ![b] = sel1]
             /\ conn' = [conn EXCEPT ![b] = IF doSel THEN "Connected" ELSE @]
             /\ IF trig THEN /\ out' = One(Resp(b, "succ", m)) (+) One(Req(b, t, p.l, p.r, FALSE))
                             /\ pend' = [pend EXCEPT ![b] = Expire(@) \cup {Txn(t, p.r, FALSE)}]
                             /\ nextTid' = [nextTid EXCEPT ![b] = t + 1]
                        ELSE out' = One(Resp(b, "succ", m)) /\ UNCHANGED <<pend, nextTid>>
             /\ net' = (net (-) One(m)) (+) out'
             /\ UNCHANGED nomPair

HandleSucc(b, lc, m) ==
  LET live == Expire(pend[b])  T == {x \in live : x.tid = m.tid} IN
  /\ lastRx' = [lastRx EXCEPT ![b][m.src] = now]
  /\ IF T = {} THEN net' = net (-) One(m) /\ pend' = [pend EXCEPT ![b] = live] /\ UNCHANGED <<pairs, sel, conn, answered, lastNom>>
     ELSE LET x == CHOOSE y \in T : TRUE IN
       /\ pend' = [pend EXCEPT ![b] = live \ {x}] /\ net' = net (-) One(m)
       /\ IF x.dst # m.src /\ "respdst" \notin Miss THEN UNCHANGED <<pairs, sel, conn, answered, lastNom>>
          ELSE LET ps == pairs[b]  k == PairIdxVia(ps, lc, m.src, remotes[b]) IN
               IF k = 0 THEN UNCHANGED <<pairs, sel, conn, answered, lastNom>>
               ELSE LET p == ps[k]
                        cur == IF sel[b] = 0 THEN 0 ELSE PairById(ps, sel[b])
                        \* controlling: lastNom[b] holds the newest acknowledged nomination value (the response of an older one is not followed);
                        \* controlled: a deferred renomination wins by value while it is still the latest accepted one
                        newer == x.nom # 0 /\ x.nom >= lastNom[b]
                        doSel == IF role[b] = "controlling" THEN (x.uc \/ "ctlsel_uc" \in Miss) /\ (IF x.nom # 0 THEN newer ELSE sel[b] = 0)
                                 ELSE IF p.nos /\ p.pnv # 0 THEN lastNom[b] = p.pnv /\ cur # k
                                 ELSE p.nos /\ (cur = 0 \/ (cur # k /\ lastNom[b] = 0 /\ (~NeedPrio(b) \/ ps[cur].prio <= p.prio)))
                    IN /\ pairs' = [pairs EXCEPT ![b][k].st = "S", ![b][k].nom = (p.nom \/ doSel)]
                       /\ sel' = [sel EXCEPT ![b] = IF doSel THEN p.id ELSE @]
                       /\ conn' = [conn EXCEPT ![b] = IF doSel THEN "Connected" ELSE @]
                       /\ lastNom' = [lastNom EXCEPT ![b] = IF role[b] = "controlling" /\ x.uc /\ newer THEN x.nom ELSE @]
                       /\ answered' = [answered EXCEPT ![b] = IF x.dst = m.src THEN @ \cup {<<gen[b], p.id, FALSE>>} \cup (IF x.uc THEN {<<gen[b], p.id, TRUE>>} ELSE {}) ELSE @]

\* authentication predicates of the receiver
ReqAuthOK(b, m) == m.user = <<gen[b], rgen[b]>> /\ m.key = <<b, gen[b]>>
RespAuthOK(b, m) == m.key = <<Other(b), rgen[b]>>

Nothing(b) == UNCHANGED <<role, remotes, pairs, nextId, pend, sel, nomPair, conn, nextTid, answered, selStart, lastNom>>
Deliver(m) ==
  /\ BagIn(m, net) /\ <<m.src, m.dst>> \in Reach
  /\ conn[OwnerOf(RevNat(m.dst))] # "New"     \* a candidate's receive loop starts reading when Dial/Accept has been called
  /\ LET lc == RevNat(m.dst)  b == OwnerOf(lc) IN
     /\ IF lc \notin Rng(locals[b]) THEN   \* socket gone (restart, failure): datagram vanishes
           net' = net (-) One(m) /\ out' = EmptyBag /\ Nothing(b) /\ UNCHANGED lastRx
        ELSE IF m.kind = "req" THEN
           \* a check from a source the remote IP filter rejects cannot become a peer-reflexive candidate: it is dropped unanswered
           IF ReqAuthOK(b, m) /\ m.src \notin RFilter[b] THEN HandleReq(b, lc, m) /\ UNCHANGED answered
           ELSE net' = net (-) One(m) /\ out' = EmptyBag /\ Nothing(b) /\ UNCHANGED lastRx
        ELSE IF m.kind = "succ" THEN
           IF RespAuthOK(b, m) /\ RemIdx(remotes[b], m.src) # 0 THEN
              HandleSucc(b, lc, m) /\ out' = EmptyBag /\ UNCHANGED <<role, remotes, nextId, nomPair, nextTid, selStart>>
           ELSE net' = net (-) One(m) /\ out' = EmptyBag /\ Nothing(b) /\ UNCHANGED lastRx
        ELSE IF m.kind = "ind" THEN   \* indications are not authenticated; they refresh liveness of a known source only
           /\ net' = net (-) One(m) /\ out' = EmptyBag /\ Nothing(b)
           /\ lastRx' = IF RemIdx(remotes[b], m.src) # 0 THEN [lastRx EXCEPT ![b][m.src] = now] ELSE lastRx
        ELSE \* error responses (and non-Binding methods): canHandleInbound is false
           net' = net (-) One(m) /\ out' = EmptyBag /\ Nothing(b) /\ UNCHANGED lastRx
  /\ UNCHANGED <<gen, rgen, locals, ticks, loss, dup, inj, rst, now, chkStart, lastTick, gath, nomGen, issued>>

Vanish(m) == BagIn(m, net) /\ <<m.src, m.dst>> \notin Reach /\ net' = net (-) One(m) /\ out' = EmptyBag
             /\ UNCHANGED <<role, gen, rgen, locals, remotes, pairs, nextId, pend, sel, nomPair, conn, nextTid, ticks, loss, dup, inj, rst, answered, now, lastRx, selStart, chkStart, lastTick, gath, nomv>>
Drop(m) == BagIn(m, net) /\ <<m.src, m.dst>> \in Reach /\ loss < MaxLoss /\ net' = net (-) One(m) /\ loss' = loss + 1 /\ out' = EmptyBag
             /\ UNCHANGED <<role, gen, rgen, locals, remotes, pairs, nextId, pend, sel, nomPair, conn, nextTid, ticks, dup, inj, rst, answered, now, lastRx, selStart, chkStart, lastTick, gath, nomv>>
Dup(m) == BagIn(m, net) /\ m.copy = 0 /\ dup < MaxDup /\ net' = net (+) One([m EXCEPT !.copy = 1]) /\ dup' = dup + 1 /\ out' = EmptyBag
             /\ UNCHANGED <<role, gen, rgen, locals, remotes, pairs, nextId, pend, sel, nomPair, conn, nextTid, ticks, loss, inj, rst, answered, now, lastRx, selStart, chkStart, lastTick, gath, nomv>>

\* ---------- attacker: puts an arbitrary datagram on the wire towards one of b's sockets
Forged(b) ==
  LET l == Loc[b][1]  peer == Other(b)
      srcs == {NatMap[Loc[peer][k]] : k \in 1..Len(Loc[peer])} \cup {"x9"}
      tids == {0} \cup {x.tid : x \in pend[b]}
  IN {[from |-> "X", kind |-> k, src |-> s, dst |-> NatMap[l], tid |-> t, uc |-> u, rolea |-> ra,
       user |-> us, key |-> ky, prio |-> HostPrio, tbc |-> tc, copy |-> 0, nom |-> 0] :
        k \in {"req", "succ", "err", "ind", "other"},    \* "other": any class with a non-Binding method
        s \in srcs, t \in tids, u \in BOOLEAN,
        ra \in (IF ForgeConflict THEN {"controlling", "controlled"} ELSE {role[peer]}),
        tc \in (IF ForgeConflict THEN {0 - 1, 0, 1} ELSE {1}),
        \* 0: another string altogether; a negative number: a string built from that generation's ufrag that is not it
        \* (extended, truncated, an extra segment) - a USERNAME that resembles the right one is as wrong as any other
        us \in {<<gen[b], rgen[b]>>, <<gen[b], 0>>, <<0, rgen[b]>>, <<0 - gen[b], rgen[b]>>, <<gen[b], 0 - rgen[b]>>, <<0 - gen[b], 0 - rgen[b]>>},
        \* the key the MESSAGE-INTEGRITY attribute was computed with; "none": the message carries no such attribute at all
        ky \in {<<b, gen[b]>>, <<peer, rgen[b]>>, <<peer, 0>>, <<"X", 0>>, <<"none", 0>>}}
Inject(m) == inj < MaxInject /\ inj' = inj + 1 /\ net' = net (+) One(m) /\ out' = EmptyBag
             /\ UNCHANGED <<role, gen, rgen, locals, remotes, pairs, nextId, pend, sel, nomPair, conn, nextTid, ticks, loss, dup, rst, answered, timev, nomv>>

\* ---------- Restart(a), then the application re-gathers and re-signals
Restart(a) ==
  /\ rst < MaxRestart /\ rst' = rst + 1 /\ conn[a] # "Closed"
  /\ gen' = [gen EXCEPT ![a] = @ + 1] /\ rgen' = [rgen EXCEPT ![a] = 0]
  /\ locals' = [locals EXCEPT ![a] = <<>>] /\ remotes' = [remotes EXCEPT ![a] = <<>>]
  /\ pairs' = [pairs EXCEPT ![a] = <<>>] /\ pend' = [pend EXCEPT ![a] = {}]
  /\ sel' = [sel EXCEPT ![a] = 0] /\ nomPair' = [nomPair EXCEPT ![a] = 0]
  /\ conn' = [conn EXCEPT ![a] = IF @ = "New" THEN "New" ELSE "Checking"] /\ out' = EmptyBag   \* a New agent stays New
  /\ lastRx' = [lastRx EXCEPT ![a] = Never] /\ selStart' = [selStart EXCEPT ![a] = now] /\ gath' = [gath EXCEPT ![a] = "new"]
  /\ lastNom' = [lastNom EXCEPT ![a] = 0]
  /\ UNCHANGED <<role, nextId, nextTid, net, ticks, loss, dup, inj, answered, now, chkStart, lastTick, nomGen, issued>>
\* GatherCandidates after a restart: every local candidate comes back (addCandidate pairs it with every remote, no findPair guard)
RECURSIVE AddAllLocals(_, _, _, _, _, _, _)
AddAllLocals(ps, id, ls, li, rs, ri, ctl) ==
  IF li > Len(ls) THEN [ps |-> ps, id |-> id]
  ELSE IF ri > Len(rs) THEN AddAllLocals(ps, id, ls, li + 1, rs, 1, ctl)
  ELSE AddAllLocals(Append(ps, NewPair(id + 1, ls[li], rs[ri].addr, rs[ri].typ, rs[ri].prio, ctl)), id + 1, ls, li, rs, ri + 1, ctl)
Gather(a) ==
  /\ gath[a] = "new" /\ conn[a] # "Closed" /\ gath' = [gath EXCEPT ![a] = "complete"] /\ locals' = [locals EXCEPT ![a] = Loc[a]]
  /\ LET r == AddAllLocals(pairs[a], nextId[a], Loc[a], 1, remotes[a], 1, role[a] = "controlling") IN
       pairs' = [pairs EXCEPT ![a] = r.ps] /\ nextId' = [nextId EXCEPT ![a] = r.id]
  /\ out' = EmptyBag
  /\ UNCHANGED <<role, gen, rgen, remotes, pend, sel, nomPair, conn, nextTid, net, ticks, loss, dup, inj, rst, answered, now, lastRx, selStart, chkStart, lastTick, nomv>>
SetRemoteCreds(a) ==
  /\ conn[a] # "Closed" /\ rgen[a] # gen[Other(a)] /\ rgen' = [rgen EXCEPT ![a] = gen[Other(a)]] /\ out' = EmptyBag
  /\ UNCHANGED <<role, gen, locals, remotes, pairs, nextId, pend, sel, nomPair, conn, nextTid, net, ticks, loss, dup, inj, rst, answered, now, lastRx, selStart, chkStart, lastTick, gath, nomv>>
\* AddRemoteCandidate(c): Equal-dedup, peer-reflexive supersession, pairing
AddRemote(a, c) ==
  /\ conn[a] # "Closed"
  /\ LET rs == remotes[a]  same == RemIdxT(rs, c.addr, c.typ)  k == RemIdxT(rs, c.addr, "prflx") IN
     IF c.addr \in RFilter[a] THEN UNCHANGED <<remotes, pairs, nextId, conn>>      \* refused by the remote IP filter
     ELSE IF same # 0 THEN UNCHANGED <<remotes, pairs, nextId, conn>>               \* Equal to a known candidate (any of those at that address)
     ELSE IF k # 0 THEN   \* supersession keeps pairs (ids, states, priority override)
          /\ remotes' = [remotes EXCEPT ![a] = Append(SubSeq(rs, 1, k - 1) \o SubSeq(rs, k + 1, Len(rs)), c)]
          \* the pairs of the superseded candidate now belong to c; pairing c with every local finds them (findPair guard)
          /\ LET own == [i \in 1..Len(pairs[a]) |-> IF pairs[a][i].r = c.addr /\ pairs[a][i].rt = "prflx" THEN [pairs[a][i] EXCEPT !.rt = c.typ] ELSE pairs[a][i]]
                  r == AddRemotePairs(own, nextId[a], locals[a], 1, c, role[a] = "controlling") IN
               pairs' = [pairs EXCEPT ![a] = r.ps] /\ nextId' = [nextId EXCEPT ![a] = r.id]
          \* replaceRemoteInPairs re-announces a selected pair through setSelectedPair, which reports Connected unconditionally
          /\ conn' = [conn EXCEPT ![a] = IF sel[a] # 0 /\ pairs[a][PairById(pairs[a], sel[a])].r = c.addr
                                             /\ pairs[a][PairById(pairs[a], sel[a])].rt = "prflx" THEN "Connected" ELSE @]
     ELSE LET r == AddRemotePairs(pairs[a], nextId[a], locals[a], 1, c, role[a] = "controlling") IN
          /\ remotes' = [remotes EXCEPT ![a] = Append(rs, c)]
          /\ pairs' = [pairs EXCEPT ![a] = r.ps] /\ nextId' = [nextId EXCEPT ![a] = r.id] /\ UNCHANGED conn
  /\ out' = EmptyBag
  /\ UNCHANGED <<role, gen, rgen, locals, pend, sel, nomPair, nextTid, net, ticks, loss, dup, inj, rst, answered, now, lastRx, selStart, chkStart, lastTick, gath, nomv>>

\* Dial / Accept: remote credentials, role, fresh selector, Checking; the ticker and the receive loops start
Start(a) ==
  /\ conn[a] = "New"
  /\ role' = [role EXCEPT ![a] = InitRole[a]] /\ conn' = [conn EXCEPT ![a] = "Checking"]
  /\ rgen' = [rgen EXCEPT ![a] = gen[Other(a)]]
  /\ selStart' = [selStart EXCEPT ![a] = now] /\ lastNom' = [lastNom EXCEPT ![a] = 0] /\ nomPair' = [nomPair EXCEPT ![a] = 0]
  /\ out' = EmptyBag
  /\ UNCHANGED <<gen, locals, remotes, pairs, nextId, pend, sel, nextTid, net, ticks, loss, dup, inj, rst, answered, now, lastRx, chkStart,
                 lastTick, gath, nomGen, issued>>
\* Close: the loop's onClose releases everything and reports Closed; nothing happens afterwards
Close(a) ==
  /\ conn[a] # "Closed" /\ conn' = [conn EXCEPT ![a] = "Closed"]
  /\ pairs' = [pairs EXCEPT ![a] = <<>>] /\ pend' = [pend EXCEPT ![a] = {}] /\ sel' = [sel EXCEPT ![a] = 0]
  /\ locals' = [locals EXCEPT ![a] = <<>>] /\ remotes' = [remotes EXCEPT ![a] = <<>>] /\ lastRx' = [lastRx EXCEPT ![a] = Never]
  /\ out' = EmptyBag
  /\ nomPair' = [nomPair EXCEPT ![a] = 0] /\ lastNom' = [lastNom EXCEPT ![a] = 0]
  /\ UNCHANGED <<role, gen, rgen, nextId, nextTid, net, ticks, loss, dup, inj, rst, answered, now, selStart, chkStart, lastTick, gath,
                 nomGen, issued>>
Advance(d) == now + d <= MaxTime /\ now' = now + d /\ out' = EmptyBag
              /\ UNCHANGED <<role, gen, rgen, locals, remotes, pairs, nextId, pend, sel, nomPair, conn, nextTid, net, ticks, loss, dup, inj, rst,
                             lastRx, selStart, chkStart, lastTick, gath, answered, nomv>>
\* RenominateCandidate on the controlling side: a USE-CANDIDATE request carrying a fresh nomination value
Renominate(a, k) ==
  /\ Renom /\ role[a] = "controlling" /\ k \in 1..Len(pairs[a]) /\ nomGen[a] < MaxRenom
  /\ LET p == pairs[a][k]  v == NomBase + 1 + nomGen[a] * NomStep  t == nextTid[a] IN
     /\ nomGen' = [nomGen EXCEPT ![a] = @ + 1] /\ issued' = Append(issued, [v |-> v, l |-> p.l, r |-> p.r])
     /\ out' = One([Req(a, t, p.l, p.r, TRUE) EXCEPT !.nom = v]) /\ net' = net (+) out'
     /\ pend' = [pend EXCEPT ![a] = Expire(@) \cup {[Txn(t, p.r, TRUE) EXCEPT !.nom = v]}]
     /\ nextTid' = [nextTid EXCEPT ![a] = t + 1]
  /\ UNCHANGED <<role, gen, rgen, locals, remotes, pairs, nextId, sel, nomPair, conn, ticks, loss, dup, inj, rst,
                 now, lastRx, selStart, chkStart, lastTick, gath, lastNom, answered>>
Msgs == BagToSet(net)
\* ---------- application data (Conn.Write / handleInboundPacket / Conn.Read)
CoreSame == UNCHANGED <<role, gen, rgen, locals, remotes, pairs, nextId, pend, sel, nomPair, conn, nextTid, net, ticks, loss, dup, inj, rst,
                        now, selStart, chkStart, lastTick, gath, lastNom, nomGen, issued, answered>> /\ out' = EmptyBag
\* Conn.Write: through the selected pair, else the best valid pair, else an error (no effect)
WritePair(a) == IF sel[a] # 0 THEN PairById(pairs[a], sel[a]) ELSE BestValid(pairs[a])
Spend == wr.n < MaxData /\ wr' = [wr EXCEPT !.n = @ + 1]
Write(a, pid, ln) ==
  /\ Spend /\ CoreSame /\ UNCHANGED lastRx /\ rd' = NoReads
  /\ LET k == WritePair(a) IN
     IF k = 0 THEN UNCHANGED dnet
     ELSE dnet' = dnet (+) One([from |-> a, src |-> NatMap[pairs[a][k].l], dst |-> pairs[a][k].r, pid |-> pid, len |-> ln])
\* a payload that parses as STUN is refused
WriteStun(a) == Spend /\ CoreSame /\ UNCHANGED <<lastRx, dnet>> /\ rd' = NoReads
InjectData(d) == Spend /\ CoreSame /\ UNCHANGED lastRx /\ rd' = NoReads /\ dnet' = dnet (+) One(d)
\* the agent's receive buffer (packetio.Buffer limited to BufLimit bytes, two bytes of bookkeeping per datagram): what does not fit
\* is discarded on arrival - the application never sees it and it is not accounted to anybody
RECURSIVE BufUsed(_)
BufUsed(q) == IF q = <<>> THEN 0 ELSE q[1][2] + 2 + BufUsed(Tail(q))
Fits(q, ln) == BufUsed(q) + 2 + ln <= BufLimit
\* a non-STUN datagram reaches the reader only from the address of a known remote candidate; it refreshes that candidate's liveness
DeliverData(d) ==
  /\ BagIn(d, dnet) /\ <<d.src, d.dst>> \in Reach /\ conn[OwnerOf(RevNat(d.dst))] # "New" /\ dnet' = dnet (-) One(d) /\ CoreSame
  /\ LET lc == RevNat(d.dst)  b == OwnerOf(lc) IN
     IF lc \in Rng(locals[b]) /\ RemIdx(remotes[b], d.src) # 0
     THEN /\ lastRx' = [lastRx EXCEPT ![b][d.src] = now]
          /\ IF ~wr.paused[b] \/ wr.grace[b]
             THEN rd' = [NoReads EXCEPT ![b] = <<d.pid>>] /\ wr' = [wr EXCEPT !.grace[b] = FALSE]
             ELSE rd' = NoReads /\ wr' = IF Fits(wr.buf[b], d.len) THEN [wr EXCEPT !.buf[b] = Append(@, <<d.pid, d.len>>)] ELSE wr
     ELSE rd' = NoReads /\ UNCHANGED <<lastRx, wr>>
DropData(d) == BagIn(d, dnet) /\ dnet' = dnet (-) One(d) /\ CoreSame /\ UNCHANGED <<wr, lastRx>> /\ rd' = NoReads
VanishData(d) == BagIn(d, dnet) /\ <<d.src, d.dst>> \notin Reach /\ dnet' = dnet (-) One(d) /\ CoreSame /\ UNCHANGED <<wr, lastRx>> /\ rd' = NoReads
\* the application stops reading (it is inside Read at that moment, as a reader that keeps up always is) and later catches up
PauseRead(a) == /\ ~wr.paused[a] /\ conn[a] \in {"Checking", "Connected", "Disconnected"}
                /\ wr' = [wr EXCEPT !.paused[a] = TRUE, !.grace[a] = TRUE] /\ CoreSame /\ UNCHANGED <<lastRx, dnet>> /\ rd' = NoReads
ResumeRead(a) == /\ wr.paused[a]
                 /\ rd' = [NoReads EXCEPT ![a] = [k \in 1..Len(wr.buf[a]) |-> wr.buf[a][k][1]]]
                 /\ wr' = [wr EXCEPT !.paused[a] = FALSE, !.grace[a] = FALSE, !.buf[a] = <<>>] /\ CoreSame /\ UNCHANGED <<lastRx, dnet>>
\* forged application data: from the attacker's address or from (the public form of) any of the peer's addresses - also one the
\* receiver's remote IP filter rejects, which has then never become a remote candidate whatever checks it sent
\* the application reads once with a buffer shorter than any datagram while its reader is stopped (and not inside Read): the
\* oldest datagram waiting in the agent's receive buffer is used up by that call - cut, and reported as such, never handed over
\* as if it were whole; with nothing waiting the call takes nothing
ShortRead(a) == /\ wr.paused[a] /\ ~wr.grace[a]
                /\ wr' = [wr EXCEPT !.buf[a] = IF @ = <<>> THEN @ ELSE Tail(@)]
                /\ CoreSame /\ UNCHANGED <<lastRx, dnet>> /\ rd' = NoReads
ForgedData == UNION {{[from |-> "X", src |-> s, dst |-> NatMap[Loc[b][1]], pid |-> wr.n + 1, len |-> PLen] :
                        s \in {"x9"} \cup {NatMap[Loc[Other(b)][k]] : k \in 1..Len(Loc[Other(b)])}} : b \in Agents}
DataIdle == UNCHANGED <<dnet, wr>> /\ rd' = NoReads
DataNext ==
  \/ \E a \in Agents : Write(a, wr.n + 1, PLen) \/ WriteStun(a) \/ (MaxPause > 0 /\ (PauseRead(a) \/ ResumeRead(a) \/ ShortRead(a)))
  \/ \E d \in BagToSet(dnet) : DeliverData(d) \/ DropData(d) \/ VanishData(d)
  \/ \E d \in ForgedData : InjectData(d)
CoreNext ==
  \/ \E a \in Agents : Tick(a) \/ Restart(a) \/ Gather(a) \/ SetRemoteCreds(a) \/ Start(a) \/ (MaxClose > 0 /\ Close(a))
  \/ \E d \in Steps : Advance(d)
  \/ \E a2 \in Agents : \E k2 \in 1..Len(pairs[a2]) : Renominate(a2, k2)
  \/ \E a3 \in Agents : \E k3 \in 1..Len(Signal[a3]) : AddRemote(a3, Signal[a3][k3])
  \/ \E m \in Msgs : Deliver(m) \/ Vanish(m) \/ Drop(m) \/ Dup(m)
  \/ \E b \in Agents : \E m \in Forged(b) : Inject(m)
Next == (CoreNext /\ DataIdle) \/ DataNext
Spec == Init /\ [][Next]_vars

\* ---------- properties (C03, C01, C05, C06 fragments)
SelValidated == \A a \in Agents : (sel[a] # 0 /\ ~Lite[a]) =>
                   /\ <<gen[a], sel[a], FALSE>> \in answered[a]
                   /\ (role[a] = "controlling" => <<gen[a], sel[a], TRUE>> \in answered[a])
\* a pair is Succeeded only through an answered check of its own (lite agents excepted)
SuccValidated == \A a \in Agents : ~Lite[a] => \A k \in 1..Len(pairs[a]) : pairs[a][k].st = "S" => <<gen[a], pairs[a][k].id, FALSE>> \in answered[a]
\* plain USE-CANDIDATE never leaves a priority-checking controlled agent on a pair while a listed pair of higher priority
\* was the selection before (model-level form used for near-miss generation: the selected pair of a controlled agent
\* that never saw a nomination value has the highest priority among the pairs it ever selected -- approximated by:
\* no validated, nominated pair has a higher priority than the selected one)
NoDowngradeInv == \A a \in Agents : (role[a] = "controlled" /\ sel[a] # 0 /\ lastNom[a] = 0 /\ NeedPrio(a)) =>
                    \A k \in 1..Len(pairs[a]) : (pairs[a][k].nom /\ pairs[a][k].st = "S") =>
                        pairs[a][k].prio <= pairs[a][PairById(pairs[a], sel[a])].prio

SelListed == \A a \in Agents : sel[a] # 0 => PairById(pairs[a], sel[a]) # 0
FilterHolds == \A a \in Agents : /\ \A kr \in 1..Len(remotes[a]) : remotes[a][kr].addr \notin RFilter[a]
                                  /\ \A kp \in 1..Len(pairs[a]) : pairs[a][kp].r \notin RFilter[a]
UniqueIds == \A a \in Agents : \A i, j \in 1..Len(pairs[a]) : i # j => pairs[a][i].id # pairs[a][j].id
NoDupPairs == \A a \in Agents : \A i, j \in 1..Len(pairs[a]) : i # j =>
                 <<pairs[a][i].l, pairs[a][i].r, pairs[a][i].rt>> # <<pairs[a][j].l, pairs[a][j].r, pairs[a][j].rt>>
RemotesDeduped == \A a \in Agents : \A i, j \in 1..Len(remotes[a]) : i # j =>
                     <<remotes[a][i].addr, remotes[a][i].typ>> # <<remotes[a][j].addr, remotes[a][j].typ>>
PairsFromCurrent == \A a \in Agents : \A i \in 1..Len(pairs[a]) :
                      pairs[a][i].l \in Rng(locals[a]) /\ RemIdx(remotes[a], pairs[a][i].r) # 0
Mirror == (sel["A"] # 0 /\ sel["B"] # 0 /\ gen["A"] = rgen["B"] /\ gen["B"] = rgen["A"]) =>
            LET pa == pairs["A"][PairById(pairs["A"], sel["A"])]  pb == pairs["B"][PairById(pairs["B"], sel["B"])]
            IN NatMap[pa.l] = pb.r /\ NatMap[pb.l] = pa.r
\* C20 fragments
MirrorNow == LET pa == pairs["A"][PairById(pairs["A"], sel["A"])]  pb == pairs["B"][PairById(pairs["B"], sel["B"])]
             IN NatMap[pa.l] = pb.r /\ NatMap[pb.l] = pa.r
Quiet == net = EmptyBag
RenomAgree == (Quiet /\ loss = 0 /\ sel["A"] # 0 /\ sel["B"] # 0) => MirrorNow
\* C07 fragments
DataFromKnown == \A a \in Agents : \A k \in 1..Len(rd[a]) : TRUE
DataOnlyOnValid == \A d \in BagToSet(dnet) : d.from \in Agents => \E k \in 1..Len(pairs[d.from]) :
                      pairs[d.from][k].st = "S" /\ NatMap[pairs[d.from][k].l] = d.src /\ pairs[d.from][k].r = d.dst
\* C04 fragments
SelWhileConnected == \A a \in Agents : conn[a] \in {"Connected", "Disconnected"} => sel[a] # 0
\* at the moment Failed is entered everything has been released (later API calls may add candidates again)
ReleasedOnFailed == [][\A a \in Agents : (conn'[a] = "Failed" /\ conn[a] # "Failed") =>
                        (sel'[a] = 0 /\ pairs'[a] = <<>> /\ locals'[a] = <<>> /\ remotes'[a] = <<>> /\ pend'[a] = {})]_vars
Lifecycle == [][\A a \in Agents : conn'[a] # conn[a] =>
                 \/ conn'[a] = "Closed" \/ <<conn[a], conn'[a]>> = <<"New", "Checking">>
                 \/ <<conn[a], conn'[a]>> \in {<<"Checking","Connected">>, <<"Checking","Failed">>, <<"Connected","Disconnected">>,
                                               <<"Disconnected","Connected">>, <<"Disconnected","Failed">>}
                 \/ (<<conn[a], conn'[a]>> = <<"Connected","Failed">> /\ DD[a] = 0)
                 \/ (conn'[a] = "Checking" /\ gen'[a] # gen[a])]_vars
View == <<role, gen, rgen, locals, remotes, pairs, nextId, pend, sel, nomPair, conn, nextTid, net, ticks, loss, dup, inj, rst, now, lastRx, selStart, chkStart, lastTick, gath, lastNom, nomGen, dnet, wr>>
====
